// C56: DNS resolver pacing (under testing/synctest virtual time) and target
// parsing, judged by oracles written from the property statement.
//
// White-box (package dns): uses the package's own test hooks
// (internal.NewNetResolver, MinResolutionInterval) and the unexported
// parseTarget/formatIP.
package dns

import (
	"context"
	"errors"
	"fmt"
	"math"
	"math/rand"
	"net"
	"net/url"
	"strings"
	"sync"
	"testing"
	"testing/synctest"
	"time"

	"google.golang.org/grpc/internal/resolver/dns/internal"
	vlib "google.golang.org/grpc/internal/verifvlib"
	"google.golang.org/grpc/resolver"
	"google.golang.org/grpc/serviceconfig"
)

// ---------------------------------------------------------------------------
// monitor: records boundary events with a global sequence number and the
// virtual time; owns its state under its own mutex.

type c56Lookup struct {
	Idx      int           `json:"idx"`
	Host     string        `json:"host"`
	StartSeq int           `json:"-"`
	StartAt  time.Duration `json:"start"`
	EndAt    time.Duration `json:"end"`
	Ended    bool          `json:"ended"`
	// outcome as seen at the ClientConn boundary
	Outcome    string        `json:"outcome"` // "", "success", "failure"
	OutcomeSeq int           `json:"-"`
	OutcomeAt  time.Duration `json:"outcome_at"`
	Script     string        `json:"script"`
}

type c56RN struct {
	InvSeq, RetSeq int
	At             time.Duration
}

type c56Mon struct {
	mu       sync.Mutex
	t0       time.Time
	seq      int
	lookups  []*c56Lookup
	rns      []c56RN
	closeSeq int // seq at which Close returned (0 = not closed)
	closeInv int
	updates  []resolver.State
	script   func(idx int) c56Outcome
}

func (m *c56Mon) next() int { m.seq++; return m.seq }

type c56Outcome struct {
	Kind    string // ok, temperr, notfound, badip, timeout
	Addrs   []string
	Latency time.Duration
	CCErr   bool // ClientConn rejects the update
}

// fake internal.NetResolver
type c56Res struct{ m *c56Mon }

func (f *c56Res) LookupHost(ctx context.Context, host string) ([]string, error) {
	m := f.m
	m.mu.Lock()
	idx := len(m.lookups)
	oc := m.script(idx)
	lk := &c56Lookup{Idx: idx, Host: host, StartSeq: m.next(), StartAt: time.Since(m.t0), Script: oc.Kind}
	m.lookups = append(m.lookups, lk)
	m.mu.Unlock()
	end := func() {
		m.mu.Lock()
		lk.Ended, lk.EndAt = true, time.Since(m.t0)
		m.next()
		m.mu.Unlock()
	}
	if oc.Latency > 0 {
		tm := time.NewTimer(oc.Latency)
		select {
		case <-tm.C:
		case <-ctx.Done():
			tm.Stop()
			end()
			return nil, ctx.Err()
		}
	}
	end()
	switch oc.Kind {
	case "ok", "badip":
		return append([]string(nil), oc.Addrs...), nil
	case "notfound":
		return nil, &net.DNSError{Err: "no such host", Name: host, IsNotFound: true}
	default:
		return nil, &net.DNSError{Err: "temporary", Name: host, IsTemporary: true}
	}
}

func (f *c56Res) LookupSRV(context.Context, string, string, string) (string, []*net.SRV, error) {
	return "", nil, &net.DNSError{Err: "no srv", IsNotFound: true}
}

func (f *c56Res) LookupTXT(context.Context, string) ([]string, error) {
	return nil, &net.DNSError{Err: "no txt", IsNotFound: true}
}

// fake resolver.ClientConn
type c56CC struct{ m *c56Mon }

func (c *c56CC) outcome(ok bool) {
	m := c.m
	for i := len(m.lookups) - 1; i >= 0; i-- {
		lk := m.lookups[i]
		if lk.Outcome == "" {
			lk.Outcome = "failure"
			if ok {
				lk.Outcome = "success"
			}
			lk.OutcomeSeq, lk.OutcomeAt = m.next(), time.Since(m.t0)
		}
		break
	}
}

func (c *c56CC) UpdateState(s resolver.State) error {
	m := c.m
	m.mu.Lock()
	defer m.mu.Unlock()
	m.updates = append(m.updates, s)
	reject := false
	if n := len(m.lookups); n > 0 {
		reject = m.script(n - 1).CCErr
	}
	c.outcome(!reject)
	if reject {
		return errors.New("verif: bad resolver state")
	}
	return nil
}

func (c *c56CC) ReportError(error) {
	c.m.mu.Lock()
	c.outcome(false)
	c.m.mu.Unlock()
}
func (c *c56CC) NewAddress([]resolver.Address) {}
func (c *c56CC) ParseServiceConfig(string) *serviceconfig.ParseResult {
	return &serviceconfig.ParseResult{Err: errors.New("verif: no service config parser")}
}

// ---------------------------------------------------------------------------
// oracles

// connection-backoff.md defaults: the retry delay after the k-th consecutive
// failure is min(1s*1.6^k, 120s) +-20%.  Whether the first retry uses k=0 or
// k=1 is not fixed by the statement, both conventions are accepted.
func c56BackoffBand(k int) (lo, hi time.Duration) {
	f := func(n int) float64 { return math.Min(math.Pow(1.6, float64(n)), 120) }
	lo = time.Duration(0.8 * f(k-1) * float64(time.Second))
	hi = time.Duration(1.2 * f(k) * float64(time.Second))
	return lo - time.Microsecond, hi + time.Microsecond
}

type c56Verdict struct {
	consumers, retries int
	sig                map[string]bool
}

// c56Judge evaluates the recorded history.  Returns false after reporting a
// violation.
func c56Judge(r *vlib.Run, fam string, ci int, m *c56Mon, minIv time.Duration, detail func() any) (c56Verdict, bool) {
	v := c56Verdict{sig: map[string]bool{}}
	m.mu.Lock()
	defer m.mu.Unlock()
	consecFail := 0
	rnUsed := 0            // calls [0,rnUsed) are consumed or unusable
	prevEnabler := 0       // outcome seq of the success that enabled the previous consumer
	var lastConsumerEnabler int
	_ = lastConsumerEnabler
	for n, lk := range m.lookups {
		if m.closeSeq != 0 && lk.StartSeq > m.closeSeq {
			r.Violation("lookup-after-close", fam, ci, detail(), "lookup #%d started at +%v after Close had returned", n, lk.StartAt)
			return v, false
		}
		if n == 0 {
			continue
		}
		prev := m.lookups[n-1]
		switch prev.Outcome {
		case "":
			// the resolver started a new lookup without telling the ClientConn
			// about the previous one: not covered by the statement, not judged
			r.Count("pacing_unjudged_no_outcome", 1)
			continue
		case "success":
			consecFail = 0
			v.consumers++
			// (a) a re-resolution request must have arrived: a distinct
			// ResolveNow call, invoked before this lookup started, that returned
			// after the success which enabled the previous re-resolution.
			found := -1
			for c := rnUsed; c < len(m.rns); c++ {
				if m.rns[c].RetSeq != 0 && m.rns[c].RetSeq < prevEnabler {
					rnUsed = c + 1 // too old for this and every later consumer
					continue
				}
				found = c
				break
			}
			if found < 0 || m.rns[found].InvSeq > lk.StartSeq {
				r.Violation("lookup-without-resolve-now", fam, ci, detail(),
					"lookup #%d started at +%v after the successful resolution #%d (+%v) although no unconsumed ResolveNow had been issued (%d ResolveNow calls so far, %d re-resolutions before this one)",
					n, lk.StartAt, n-1, prev.OutcomeAt, c56CountBefore(m.rns, lk.StartSeq), v.consumers-1)
				return v, false
			}
			rn := m.rns[found]
			rnUsed = found + 1
			prevEnabler = prev.OutcomeSeq
			// (b) and the minimum interval must have passed "after a successful
			// resolution" (statement): measured from the instant the successful
			// result was handed to the ClientConn, not from the start of that
			// lookup - a slow lookup does not shorten the pause.
			if gap := lk.StartAt - prev.OutcomeAt; gap < minIv {
				r.Violation("re-resolution-before-min-interval", fam, ci, detail(),
					"lookup #%d started at +%v, only %v after the successful resolution #%d completed (+%v; that lookup had started at +%v); MinResolutionInterval is %v", n, lk.StartAt, gap, n-1, prev.OutcomeAt, prev.StartAt, minIv)
				return v, false
			}
			if prev.OutcomeAt-prev.StartAt >= minIv/4 && minIv > 0 {
				v.sig[fmt.Sprintf("re-resolve/slow-previous-lookup/min=%s", c56IvClass(minIv))] = true
			}
			timing := "rn-after-interval"
			switch {
			case rn.InvSeq < prev.StartSeq:
				timing = "rn-before-prev-lookup"
			case rn.InvSeq < prev.OutcomeSeq:
				timing = "rn-during-prev-lookup"
			case rn.At-prev.OutcomeAt < minIv:
				timing = "rn-inside-interval"
			}
			exact := lk.StartAt-prev.OutcomeAt == minIv
			v.sig[fmt.Sprintf("re-resolve/%s/exact=%v/min=%s", timing, exact, c56IvClass(minIv))] = true
		case "failure":
			consecFail++
			v.retries++
			lo, hi := c56BackoffBand(consecFail)
			d := lk.StartAt - prev.OutcomeAt
			if d < lo || d > hi {
				key := "retry-too-early"
				if d > hi {
					key = "retry-too-late"
				}
				r.Violation(key, fam, ci, detail(),
					"lookup #%d started %v after failure #%d in a row (reported at +%v); exponential backoff (1s*1.6^k, cap 120s, +-20%%) allows [%v, %v]", n, d, consecFail, prev.OutcomeAt, lo, hi)
				return v, false
			}
			v.sig[fmt.Sprintf("retry/k=%d/%s", c56min(consecFail, 12), prev.Script)] = true
		}
	}
	return v, true
}

func c56CountBefore(rns []c56RN, seq int) int {
	n := 0
	for _, c := range rns {
		if c.InvSeq < seq {
			n++
		}
	}
	return n
}

func c56min(a, b int) int {
	if a < b {
		return a
	}
	return b
}

func c56IvClass(d time.Duration) string {
	switch {
	case d == 0:
		return "0"
	case d < time.Second:
		return "<1s"
	case d == 30*time.Second:
		return "30s"
	case d < 30*time.Second:
		return "<30s"
	default:
		return ">30s"
	}
}

// reference formatting of an emitted address
func c56RefAddr(ip, port string) string {
	if strings.Contains(ip, ":") {
		return "[" + ip + "]:" + port
	}
	return ip + ":" + port
}

var c56IPPool = []string{"1.2.3.4", "10.0.0.1", "255.255.255.255", "::1", "2001:db8::1", "fe80::1%eth0", "::ffff:1.2.3.4", "::", "0.0.0.0", "2001:db8:0:0:0:0:0:2"}

// ---------------------------------------------------------------------------
// one pacing case, inside a bubble

type c56Action struct {
	Sleep time.Duration `json:"sleep"`
	RN    int           `json:"resolve_now_calls"`
}

func c56Pacing(r *vlib.Run, fam string, ci int, rng *rand.Rand) {
	minIv := vlib.Pick(rng, 30*time.Second, 30*time.Second, 30*time.Second, 0, time.Millisecond, 500*time.Millisecond, 7*time.Second, 100*time.Second)
	// outcome script, extended deterministically on demand
	mode := rng.Intn(5) // 0: all ok, 1: mostly ok, 2: mixed, 3: long failure runs, 4: fail then ok
	scriptSeed := rng.Int63()
	cache := map[int]c56Outcome{}
	failRun := 3 + rng.Intn(14)
	script := func(idx int) c56Outcome {
		if oc, ok := cache[idx]; ok {
			return oc
		}
		g := rand.New(rand.NewSource(scriptSeed + int64(idx)*7919))
		var oc c56Outcome
		pFail := []float64{0, 0.15, 0.5, 0.85, 0}[mode]
		fail := g.Float64() < pFail
		if mode == 4 {
			fail = idx%(failRun+2) < failRun
		}
		if fail {
			switch g.Intn(10) {
			case 0:
				oc.Kind, oc.Addrs = "badip", []string{"1.2.3.4", "not-an-ip"}
			case 1:
				oc.Kind, oc.Latency = "timeout", ResolvingTimeout+time.Duration(g.Intn(5000))*time.Millisecond
			case 2:
				oc.Kind, oc.CCErr = "ok", true
				oc.Addrs = []string{"1.2.3.4"}
			case 3:
				oc.Kind, oc.CCErr = "notfound", true // empty address list, rejected by the channel
			default:
				oc.Kind = "temperr"
			}
		} else {
			oc.Kind = "ok"
			for k := 1 + g.Intn(3); k > 0; k-- {
				oc.Addrs = append(oc.Addrs, c56IPPool[g.Intn(len(c56IPPool))])
			}
			if g.Intn(12) == 0 {
				oc.Kind, oc.Addrs = "notfound", nil // suppressed error: success with no addresses
			}
		}
		if oc.Latency == 0 && g.Intn(3) == 0 {
			oc.Latency = time.Duration(vlib.Pick(g, 1, 20, 300, 2000, 12000, 25000)) * time.Millisecond
			if g.Intn(3) == 0 && minIv > 0 { // latency comparable to the interval
				oc.Latency = vlib.Pick(g, minIv/3, minIv/2, minIv*9/10, minIv, minIv+minIv/10)
				if oc.Latency >= ResolvingTimeout {
					oc.Latency = ResolvingTimeout - time.Second
				}
			}
		}
		cache[idx] = oc
		return oc
	}
	m := &c56Mon{t0: time.Now(), script: script}
	host := vlib.Pick(rng, "svc.example.com", "foo.bar", "localhost", "a-b.c_d")
	port := vlib.Pick(rng, "", "80", "8080", "443", "1")
	endpoint, wantPort := host, "443"
	if port != "" {
		endpoint, wantPort = host+":"+port, port
	}

	oldNew, oldMin := internal.NewNetResolver, MinResolutionInterval
	internal.NewNetResolver = func(string) (internal.NetResolver, error) { return &c56Res{m: m}, nil }
	MinResolutionInterval = minIv
	defer func() { internal.NewNetResolver, MinResolutionInterval = oldNew, oldMin }()

	var actions []c56Action
	detail := func() any {
		return map[string]any{"min_interval": minIv.String(), "target": endpoint, "actions": actions, "lookups": m.lookups, "resolve_now_at": c56RNTimes(m.rns)}
	}
	cc := &c56CC{m: m}
	res, err := NewBuilder().Build(resolver.Target{URL: url.URL{Scheme: "dns", Path: "/" + endpoint}}, cc, resolver.BuildOptions{DisableServiceConfig: rng.Intn(4) > 0})
	if err != nil {
		r.Violation("build-failed", fam, ci, detail(), "Build(%q) failed: %v", endpoint, err)
		return
	}
	closed := false
	doClose := func() {
		if closed {
			return
		}
		closed = true
		m.mu.Lock()
		m.closeInv = m.next()
		m.mu.Unlock()
		res.Close()
		m.mu.Lock()
		m.closeSeq = m.next()
		m.mu.Unlock()
	}
	defer doClose()
	resolveNow := func() {
		m.mu.Lock()
		i := len(m.rns)
		m.rns = append(m.rns, c56RN{InvSeq: m.next(), At: time.Since(m.t0)})
		m.mu.Unlock()
		res.ResolveNow(resolver.ResolveNowOptions{})
		m.mu.Lock()
		m.rns[i].RetSeq = m.next()
		m.mu.Unlock()
	}

	// driver script
	sleeps := []time.Duration{0, time.Millisecond, minIv / 2, minIv - 1, minIv, minIv + 1, 2 * minIv, time.Second, 5 * time.Second, 50 * time.Second, 200 * time.Second, 1500 * time.Millisecond, 31 * time.Second}
	quiet := rng.Intn(6) == 0 // never asks for re-resolution: nothing may happen after a success
	for s := 4 + rng.Intn(24); s > 0; s-- {
		a := c56Action{Sleep: sleeps[rng.Intn(len(sleeps))]}
		if a.Sleep < 0 {
			a.Sleep = 0
		}
		if !quiet && rng.Intn(3) > 0 {
			a.RN = 1
			if rng.Intn(5) == 0 {
				a.RN = 2 + rng.Intn(4)
			}
		}
		actions = append(actions, a)
		time.Sleep(a.Sleep)
		synctest.Wait()
		for k := 0; k < a.RN; k++ {
			resolveNow()
		}
	}
	synctest.Wait()
	r.Eval(1)
	verdict, ok := c56Judge(r, fam, ci, m, minIv, detail)
	if !ok {
		return
	}

	// liveness at a quiescent point (virtual time, exact): a failed resolution
	// must be retried; a ResolveNow issued after the last success must lead to
	// a lookup.
	m.mu.Lock()
	nBefore := len(m.lookups)
	var last *c56Lookup
	if nBefore > 0 {
		last = m.lookups[nBefore-1]
	}
	pendingRN := false
	if last != nil && last.Outcome == "success" {
		for _, c := range m.rns {
			if c.InvSeq > last.OutcomeSeq {
				pendingRN = true
			}
		}
	}
	m.mu.Unlock()
	if last != nil && (last.Outcome == "failure" || pendingRN || !last.Ended || last.Outcome == "") {
		time.Sleep(minIv + 200*time.Second)
		synctest.Wait()
		m.mu.Lock()
		nAfter := len(m.lookups)
		m.mu.Unlock()
		if nAfter == nBefore && last.Outcome == "failure" {
			r.Violation("retry-never-happens", fam, ci, detail(), "resolution #%d failed at +%v but no retry started within %v", nBefore-1, last.OutcomeAt, minIv+200*time.Second)
			return
		}
		if nAfter == nBefore && pendingRN {
			r.Violation("resolve-now-ignored", fam, ci, detail(), "ResolveNow was called after the successful resolution #%d but no lookup started within %v", nBefore-1, minIv+200*time.Second)
			return
		}
		if v2, ok := c56Judge(r, fam, ci, m, minIv, detail); !ok {
			return
		} else {
			verdict = v2
		}
	} else if last != nil && last.Outcome == "success" && !pendingRN {
		// nothing was requested: nothing may happen however long we wait
		time.Sleep(10*minIv + 300*time.Second)
		synctest.Wait()
		if _, ok := c56Judge(r, fam, ci, m, minIv, detail); !ok {
			return
		}
		verdict.sig["idle-after-success/min="+c56IvClass(minIv)] = true
	}

	// emitted addresses: host:port with IPv6 bracketed; lookups use the parsed host
	m.mu.Lock()
	for _, lk := range m.lookups {
		if lk.Host != host {
			r.Violation("lookup-wrong-host", fam, ci, nil, "target %q: LookupHost was called with %q, want %q", endpoint, lk.Host, host)
			m.mu.Unlock()
			return
		}
	}
	ui := 0
	for idx := range m.lookups {
		oc := script(idx)
		if oc.Kind != "ok" && oc.Kind != "notfound" {
			continue
		}
		if m.lookups[idx].Outcome == "" {
			break
		}
		if ui >= len(m.updates) {
			r.Violation("update-missing", fam, ci, nil, "lookup #%d succeeded but no state was pushed to the ClientConn", idx)
			m.mu.Unlock()
			return
		}
		st := m.updates[ui]
		ui++
		if len(st.Addresses) != len(oc.Addrs) {
			r.Violation("update-wrong-addresses", fam, ci, nil, "lookup #%d returned %v, the pushed state has %d addresses", idx, oc.Addrs, len(st.Addresses))
			m.mu.Unlock()
			return
		}
		for k, ip := range oc.Addrs {
			if want := c56RefAddr(ip, wantPort); st.Addresses[k].Addr != want {
				r.Violation("address-format", fam, ci, map[string]any{"target": endpoint, "ip": ip, "got": st.Addresses[k].Addr, "want": want},
					"target %q, resolved %q: emitted address %q, want %q", endpoint, ip, st.Addresses[k].Addr, want)
				m.mu.Unlock()
				return
			}
			if strings.Contains(ip, ":") {
				verdict.sig["emit/v6"] = true
			} else {
				verdict.sig["emit/v4"] = true
			}
		}
	}
	nLook := len(m.lookups)
	m.mu.Unlock()

	// stop: after Close returns no lookup may start, however long we wait
	if rng.Intn(2) == 0 {
		resolveNow() // a request pending at close time must not fire later
	}
	doClose()
	resolveNow()
	time.Sleep(minIv + 500*time.Second)
	synctest.Wait()
	if _, ok := c56Judge(r, fam, ci, m, minIv, detail); !ok {
		return
	}
	m.mu.Lock()
	if len(m.lookups) == nLook {
		verdict.sig["closed-stays-quiet"] = true
	}
	r.Count("pacing_lookups", int64(len(m.lookups)))
	r.Count("pacing_resolve_now_calls", int64(len(m.rns)))
	m.mu.Unlock()
	r.Count("pacing_re_resolutions_judged", int64(verdict.consumers))
	r.Count("pacing_retries_judged", int64(verdict.retries))
	for s := range verdict.sig {
		r.Nontrivial("pacing/" + s)
	}
	if ci < 1 {
		r.Sample(detail())
	}
}

func c56RNTimes(rns []c56RN) []string {
	var out []string
	for _, c := range rns {
		out = append(out, c.At.String())
	}
	return out
}

// ---------------------------------------------------------------------------
// target parsing

type c56Target struct {
	Target string `json:"target"`
	Class  string `json:"class"`
	Host   string `json:"want_host"`
	Port   string `json:"want_port"`
	Err    bool   `json:"want_error"`
	IsIP   bool   `json:"is_ip"`
	Judged bool   `json:"judged"`
}

func c56GenHostname(rng *rand.Rand) string {
	labels := []string{"a", "svc", "example", "com", "foo-bar", "x_y", "localhost", "grpc", "io", "1a", "256", "999"}
	n := 1 + rng.Intn(4)
	var parts []string
	for i := 0; i < n; i++ {
		parts = append(parts, labels[rng.Intn(len(labels))])
	}
	h := strings.Join(parts, ".")
	if rng.Intn(8) == 0 {
		h += "."
	}
	// avoid accidentally valid IPv4 literals ("256.999" is not one)
	if net.ParseIP(h) != nil {
		h = "h" + h
	}
	return h
}

func c56GenV4(rng *rand.Rand) string {
	return fmt.Sprintf("%d.%d.%d.%d", rng.Intn(256), rng.Intn(256), rng.Intn(256), rng.Intn(256))
}

func c56GenV6(rng *rand.Rand) string {
	switch rng.Intn(8) {
	case 0:
		return "::1"
	case 1:
		return "::"
	case 2:
		return fmt.Sprintf("2001:db8::%x", 1+rng.Intn(0xffff))
	case 3:
		var p []string
		for i := 0; i < 8; i++ {
			p = append(p, fmt.Sprintf("%x", rng.Intn(0x10000)))
		}
		return strings.Join(p, ":")
	case 4:
		return fmt.Sprintf("fe80::%x%%eth0", 1+rng.Intn(0xffff))
	case 5:
		return "::ffff:" + c56GenV4(rng)
	case 6:
		return fmt.Sprintf("%x::", 1+rng.Intn(0xffff))
	default:
		return fmt.Sprintf("%x:%x::%x:%x", rng.Intn(0x10000), rng.Intn(0x10000), rng.Intn(0x10000), rng.Intn(0x10000))
	}
}

func c56GenPort(rng *rand.Rand) string {
	return vlib.Pick(rng, "1", "80", "443", "8080", "65535", "0", fmt.Sprint(rng.Intn(70000)))
}

// c56GenTarget builds a target from the grammar of the statement, so the
// expected result is known by construction, not by re-parsing.
func c56GenTarget(rng *rand.Rand) c56Target {
	const def = "443"
	switch rng.Intn(16) {
	case 0:
		h := c56GenHostname(rng)
		return c56Target{Target: h, Class: "host", Host: h, Port: def, Judged: true}
	case 1:
		h, p := c56GenHostname(rng), c56GenPort(rng)
		return c56Target{Target: h + ":" + p, Class: "host:port", Host: h, Port: p, Judged: true}
	case 2:
		ip := c56GenV4(rng)
		return c56Target{Target: ip, Class: "v4", Host: ip, Port: def, IsIP: true, Judged: true}
	case 3:
		ip, p := c56GenV4(rng), c56GenPort(rng)
		return c56Target{Target: ip + ":" + p, Class: "v4:port", Host: ip, Port: p, IsIP: true, Judged: true}
	case 4:
		ip := c56GenV6(rng)
		return c56Target{Target: "[" + ip + "]", Class: "[v6]", Host: ip, Port: def, IsIP: true, Judged: true}
	case 5:
		ip, p := c56GenV6(rng), c56GenPort(rng)
		return c56Target{Target: "[" + ip + "]:" + p, Class: "[v6]:port", Host: ip, Port: p, IsIP: true, Judged: true}
	case 6:
		ip := c56GenV6(rng)
		return c56Target{Target: ip, Class: "bare-v6", Host: ip, Port: def, IsIP: true, Judged: true}
	case 7:
		h := c56GenHostname(rng)
		return c56Target{Target: h + ":", Class: "host-trailing-colon", Err: true, Judged: true}
	case 8:
		ip := c56GenV4(rng)
		return c56Target{Target: ip + ":", Class: "v4-trailing-colon", Err: true, Judged: true}
	case 9:
		ip := c56GenV6(rng)
		return c56Target{Target: "[" + ip + "]:", Class: "[v6]-trailing-colon", Err: true, Judged: true}
	case 10:
		return c56Target{Target: "", Class: "empty", Err: true, Judged: true}
	case 11:
		// ":port" means the local system (net.Dial convention, documented on parseTarget)
		p := c56GenPort(rng)
		return c56Target{Target: ":" + p, Class: ":port", Host: "localhost", Port: p, Judged: true}
	case 12:
		// malformed: only totality (no panic) and "accepted => host and port non-empty" are judged
		ip := c56GenV6(rng)
		return c56Target{Target: vlib.Pick(rng, "["+ip, ip+"]", "[["+ip+"]]", "["+ip+"]x", "["+ip+"]:1:2"), Class: "malformed-v6"}
	case 13:
		h := c56GenHostname(rng)
		return c56Target{Target: vlib.Pick(rng, h+":1:2", h+"::", ":", "::::::::::", h+":"+h+":"+h, "[]", "[]:80", "[", "]"), Class: "malformed-host"}
	case 14:
		b := make([]byte, rng.Intn(12))
		for i := range b {
			const alpha = "[]:.%/a1 \x00\xff"
			b[i] = alpha[rng.Intn(len(alpha))]
		}
		return c56Target{Target: string(b), Class: "random-bytes"}
	default:
		// IPv4-looking host names are names, not addresses
		h := vlib.Pick(rng, "1.2.3", "256.1.1.1", "1.2.3.4.5", "01.2.3.4", "1.2.3.4x")
		return c56Target{Target: h, Class: "v4-lookalike-name", Host: h, Port: def, Judged: true}
	}
}

type c56OnceCC struct {
	mu     sync.Mutex
	states []resolver.State
}

func (c *c56OnceCC) UpdateState(s resolver.State) error {
	c.mu.Lock()
	c.states = append(c.states, s)
	c.mu.Unlock()
	return nil
}
func (c *c56OnceCC) ReportError(error)             {}
func (c *c56OnceCC) NewAddress([]resolver.Address) {}
func (c *c56OnceCC) ParseServiceConfig(string) *serviceconfig.ParseResult {
	return &serviceconfig.ParseResult{Err: errors.New("none")}
}

func c56Parse(r *vlib.Run, fam string, ci int, rng *rand.Rand) {
	tc := c56GenTarget(rng)
	r.Progress(fam, ci, fmt.Sprintf("%q", tc.Target))
	host, port, err := parseTarget(tc.Target, "443")
	r.Eval(1)
	tc2 := map[string]any{"case": tc, "got_host": host, "got_port": port, "got_err": fmt.Sprint(err)}
	if !tc.Judged {
		// malformed input: only totality is judged (the statement does not say
		// which malformed strings must be rejected); e.g. "[]" is accepted with
		// an empty host by the shipped code - recorded as evidence only.
		_ = tc2
		if err == nil && (host == "" || port == "") {
			r.Count("parse_malformed_accepted_with_empty_host_or_port", 1)
		}
		r.Nontrivial(fmt.Sprintf("parse/%s/accepted=%v", tc.Class, err == nil))
		return
	}
	switch {
	case tc.Err && err == nil:
		key := "parse-accepts-invalid"
		if strings.HasSuffix(tc.Class, "trailing-colon") {
			key = "parse-accepts-trailing-colon"
		}
		r.Violation(key, fam, ci, tc2, "parseTarget(%q) = (%q, %q), want an error (%s)", tc.Target, host, port, tc.Class)
		return
	case !tc.Err && err != nil:
		r.Violation("parse-rejects-valid", fam, ci, tc2, "parseTarget(%q) failed: %v; want (%q, %q) (%s)", tc.Target, err, tc.Host, tc.Port, tc.Class)
		return
	case !tc.Err && (host != tc.Host || port != tc.Port):
		key := "parse-wrong-result"
		if port != tc.Port && tc.Port == "443" {
			key = "parse-default-port"
		}
		r.Violation(key, fam, ci, tc2, "parseTarget(%q) = (%q, %q), want (%q, %q) (%s)", tc.Target, host, port, tc.Host, tc.Port, tc.Class)
		return
	}
	r.Nontrivial("parse/" + tc.Class)
	if tc.Err {
		return
	}
	// formatIP on the parsed host
	fip, ferr := formatIP(host)
	if tc.IsIP {
		want := host
		if strings.Contains(host, ":") {
			want = "[" + host + "]"
		}
		if ferr != nil || fip != want {
			r.Violation("format-ip", fam, ci, tc2, "formatIP(%q) = (%q, %v), want %q", host, fip, ferr, want)
			return
		}
	} else if ferr == nil {
		r.Violation("format-ip", fam, ci, tc2, "formatIP(%q) accepted a host name as an IP address", host)
		return
	}
	// IP targets through Build: one state with the single address host:port, IPv6 bracketed
	if tc.IsIP {
		cc := &c56OnceCC{}
		res, err := NewBuilder().Build(resolver.Target{URL: url.URL{Scheme: "dns", Path: "/" + tc.Target}}, cc, resolver.BuildOptions{})
		r.Eval(1)
		if err != nil {
			r.Violation("build-ip-target-failed", fam, ci, tc2, "Build(%q) failed: %v", tc.Target, err)
			return
		}
		res.ResolveNow(resolver.ResolveNowOptions{})
		res.Close()
		want := c56RefAddr(tc.Host, tc.Port)
		cc.mu.Lock()
		defer cc.mu.Unlock()
		if len(cc.states) != 1 || len(cc.states[0].Addresses) != 1 || cc.states[0].Addresses[0].Addr != want {
			r.Violation("address-format", fam, ci, map[string]any{"case": tc, "states": fmt.Sprint(cc.states)}, "Build(%q) emitted %v, want the single address %q", tc.Target, cc.states, want)
			return
		}
		if len(cc.states[0].Endpoints) != 1 || len(cc.states[0].Endpoints[0].Addresses) != 1 || cc.states[0].Endpoints[0].Addresses[0].Addr != want {
			r.Violation("address-format", fam, ci, map[string]any{"case": tc, "states": fmt.Sprint(cc.states)}, "Build(%q) emitted endpoints %v, want one endpoint with %q", tc.Target, cc.states[0].Endpoints, want)
			return
		}
		r.Nontrivial("build-ip/" + tc.Class)
	}
	if ci < 2 {
		r.Sample(tc)
	}
}

func TestVerifC56(t *testing.T) {
	r := vlib.Start(t, "C56")
	n := r.N(60000, 1000000)
	for i := 0; i < n; i++ {
		if r.Want("parse", i) {
			c56Parse(r, "parse", i, r.Rand("parse", i))
		}
	}
	n = r.N(2500, 40000)
	for i := 0; i < n; i++ {
		if !r.Want("pacing", i) {
			continue
		}
		rng := r.Rand("pacing", i)
		synctest.Test(t, func(*testing.T) {
			c56Pacing(r, "pacing", i, rng)
		})
		if r.Violations() > 30 {
			break
		}
	}
	r.Finish(vlib.Spec{
		Level: "exploration",
		Rule: "parse: targets generated from the statement's grammar (host, host:port, v4, v4:port, [v6], [v6]:port, bare v6 incl. zones and v4-mapped, trailing colon, empty, :port, v4 look-alike names, malformed and random strings) through the real parseTarget/formatIP and, for IP targets, Build (emitted address); expected values are known by construction. " +
			"pacing: the real dnsResolver inside a synctest bubble with a scripted NetResolver (ok / temporary error / suppressed not-found / unparsable A record / timeout, latencies 0..25s and fractions of the interval) and ClientConn (accept / reject), MinResolutionInterval in {0,1ms,0.5s,7s,30s,100s}, 4-27 driver steps (sleep in {0,1ms,min/2,min-1ns,min,min+1ns,2min,1s..200s} then 0-5 ResolveNow calls), judged from the recorded (sequence, virtual time) history, then liveness and post-Close silence at synctest.Wait() quiescence. distinct = (ResolveNow timing class, exact-interval, interval class) / (retry index, failure kind) / parse class",
		Assumptions: []string{
			"a re-resolution after a success needs its own ResolveNow call (calls coalesce: one pending request at most is not required, only that each re-resolution is matched by a distinct earlier call)",
			"minimum interval is measured from the moment the successful result was delivered to the ClientConn (statement: 'after a successful resolution') to the start of the next lookup",
			"retry delay after the k-th consecutive failure is within [0.8*min(1.6^(k-1),120)s, 1.2*min(1.6^k,120)s] (connection-backoff defaults, either index convention)",
			"ResolveNow after a success must eventually cause a lookup (dnsResolver.ResolveNow doc), judged only at virtual-time quiescence",
			"':port' resolves to localhost (documented on parseTarget); malformed targets are only judged for totality",
		},
		Floor: 40,
	})
}
