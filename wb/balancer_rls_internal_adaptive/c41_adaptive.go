// C41 (part 3): adaptive throttler / lookback against a reference that counts
// the events of the last 30 s (lookback window), with clocks that jump forward,
// stall and go backwards.
package adaptive

import (
	"fmt"
	"math/rand"
	"testing"
	"time"

	vlib "google.golang.org/grpc/internal/verifvlib"
)

type c41Ev struct {
	at int64 // ns
	v  int64
}

// c41Bounds returns how many events MUST be in the window and how many MAY be,
// for a window of `bins` bins of `width` ns.  The implementation keeps whole
// bins, so an event whose age is in ((bins-1)*width, bins*width) may or may not
// be counted; ages are measured against the latest clock reading seen (the
// window never moves backwards), queries made with an older clock reading may
// additionally count anything younger than the window relative to that reading.
func c41Bounds(evs []c41Ev, maxT, query int64, bins, width int64) (must, may int64) {
	for _, e := range evs {
		if maxT-e.at <= (bins-1)*width {
			must += e.v
		}
		if e.at > query-bins*width {
			may += e.v
		}
	}
	return
}

func c41ClockStep(rng *rand.Rand, monotone bool) time.Duration {
	switch x := rng.Intn(100); {
	case x < 15:
		return 0 // stall
	case x < 50:
		return time.Duration(rng.Intn(500)) * time.Millisecond
	case x < 70:
		return time.Duration(1000+rng.Intn(9000)) * time.Millisecond
	case x < 80:
		return time.Duration(rng.Intn(300)) * time.Microsecond
	case x < 88:
		return time.Duration(25+rng.Intn(10))*time.Second + time.Duration(rng.Intn(1000))*time.Millisecond // around the window edge
	case x < 93:
		return time.Duration(30+rng.Intn(100)) * time.Second
	default:
		if monotone {
			return time.Duration(rng.Intn(2000)) * time.Millisecond
		}
		return -time.Duration(rng.Intn(40000)) * time.Millisecond // backwards
	}
}

// ---- lookback directly -------------------------------------------------------

func c41Lookback(r *vlib.Run, fam string, ci int, rng *rand.Rand) {
	bins := int64(vlib.Pick(rng, 1, 2, 3, 7, 10, 100, 100, 128))
	dur := vlib.Pick(rng, 30*time.Second, 30*time.Second, time.Second, 700*time.Millisecond, 10*time.Second)
	l := newLookback(bins, dur)
	width := int64(dur) / bins
	monotone := rng.Intn(2) == 0
	now := int64(1_700_000_000)*int64(time.Second) + rng.Int63n(int64(time.Hour))
	maxT := int64(0)
	var evs []c41Ev
	type step struct {
		Op   string `json:"op"`
		AtNs int64  `json:"at_ns_rel"`
		V    int64  `json:"v,omitempty"`
		Got  int64  `json:"sum,omitempty"`
	}
	base := now
	var hist []step
	scale := float64(dur) / float64(30*time.Second)
	sawBack, sawEdge, sawExpire := false, false, false
	for s := 40 + rng.Intn(80); s > 0; s-- {
		d := time.Duration(float64(c41ClockStep(rng, monotone)) * scale)
		if d < 0 {
			sawBack = true
		}
		now += int64(d)
		if now > maxT {
			maxT = now
		}
		if rng.Intn(3) > 0 {
			v := int64(1 + rng.Intn(3))
			l.add(time.Unix(0, now), v)
			evs = append(evs, c41Ev{at: now, v: v})
			hist = append(hist, step{Op: "add", AtNs: now - base, V: v})
			r.Eval(1)
			continue
		}
		got := l.sum(time.Unix(0, now))
		r.Eval(1)
		must, may := c41Bounds(evs, maxT, now, bins, width)
		hist = append(hist, step{Op: "sum", AtNs: now - base, Got: got})
		if got < must || got > may {
			key := "lookback-sum-too-large"
			if got < must {
				key = "lookback-sum-too-small"
			}
			if len(hist) > 60 {
				hist = hist[len(hist)-60:]
			}
			r.Violation(key, fam, ci, map[string]any{"bins": bins, "duration_ns": int64(dur), "tail_of_history": hist},
				"lookback(bins=%d, %v).sum at +%v = %d, but the events of the last %v sum to between %d and %d", bins, dur, time.Duration(now-base), got, time.Duration(bins*width), must, may)
			return
		}
		var total int64
		for _, e := range evs {
			total += e.v
		}
		if must != may {
			sawEdge = true
		}
		if may < total {
			sawExpire = true
		}
	}
	r.Nontrivial(fmt.Sprintf("lookback/bins=%d/back=%v/edge=%v/expired=%v", bins, sawBack, sawEdge, sawExpire))
}

// ---- Throttler ---------------------------------------------------------------

func c41Prob(accepts, throttles float64) float64 {
	requests := accepts + throttles
	return (requests - defaultRatioForAccepts*accepts) / (requests + defaultRequestsPadding)
}

func c41Throttler(r *vlib.Run, fam string, ci int, rng *rand.Rand) {
	th := New()
	const bins = int64(defaultBins)
	width := int64(defaultDuration) / bins
	monotone := rng.Intn(3) > 0
	now := int64(1_700_000_000)*int64(time.Second) + rng.Int63n(int64(time.Hour))
	base := now
	var randVal float64
	oldNow, oldRand := timeNowFunc, randFunc
	timeNowFunc = func() time.Time { return time.Unix(0, now) }
	randFunc = func() float64 { return randVal }
	defer func() { timeNowFunc, randFunc = oldNow, oldRand }()

	var acc, thr []c41Ev
	maxT := int64(0)
	type step struct {
		Op   string  `json:"op"`
		AtNs int64   `json:"at_ns_rel"`
		Rand float64 `json:"rand,omitempty"`
		Got  bool    `json:"throttled,omitempty"`
	}
	var hist []step
	// phases make the probability move: mostly-throttled backend, then healthy
	pThrottled := vlib.Pick(rng, 0.0, 0.3, 0.7, 0.95, 1.0)
	sawBack, sawExpire, sawBoundary, sawTrue := false, false, false, false
	for s := 60 + rng.Intn(140); s > 0; s-- {
		if rng.Intn(40) == 0 {
			pThrottled = vlib.Pick(rng, 0.0, 0.3, 0.7, 0.95, 1.0)
		}
		d := c41ClockStep(rng, monotone)
		if rng.Intn(3) == 0 {
			d = time.Duration(rng.Intn(50)) * time.Millisecond // bursts
		}
		if d < 0 {
			sawBack = true
		}
		now += int64(d)
		if now > maxT {
			maxT = now
		}
		if rng.Intn(5) < 3 {
			throttled := rng.Float64() < pThrottled
			th.RegisterBackendResponse(throttled)
			r.Eval(1)
			if throttled {
				thr = append(thr, c41Ev{at: now, v: 1})
				hist = append(hist, step{Op: "backend-throttled", AtNs: now - base})
			} else {
				acc = append(acc, c41Ev{at: now, v: 1})
				hist = append(hist, step{Op: "backend-accepted", AtNs: now - base})
			}
			continue
		}
		aMust, aMay := c41Bounds(acc, maxT, now, bins, width)
		tMust, tMay := c41Bounds(thr, maxT, now, bins, width)
		// probability rises with throttles and falls with accepts
		pLo := c41Prob(float64(aMay), float64(tMust))
		pHi := c41Prob(float64(aMust), float64(tMay))
		switch rng.Intn(6) {
		case 0:
			randVal = pLo - 1e-9
			sawBoundary = true
		case 1:
			randVal = pHi + 1e-9
			sawBoundary = true
		case 2:
			randVal = pHi - 1e-9
			sawBoundary = true
		case 3:
			randVal = pLo + 1e-9
			sawBoundary = true
		default:
			randVal = rng.Float64()
		}
		if randVal < 0 {
			randVal = 0
		}
		if randVal >= 1 {
			randVal = 0.999999
		}
		got := th.ShouldThrottle()
		r.Eval(1)
		hist = append(hist, step{Op: "should-throttle", AtNs: now - base, Rand: randVal, Got: got})
		const eps = 1e-12
		bad := ""
		if got && randVal >= pHi+eps {
			bad = "throttled although the draw is not below the probability"
		}
		if !got && randVal < pLo-eps {
			bad = "not throttled although the draw is below the probability"
		}
		if bad != "" {
			if len(hist) > 80 {
				hist = hist[len(hist)-80:]
			}
			key := "throttle-probability-too-high"
			if !got {
				key = "throttle-probability-too-low"
			}
			r.Violation(key, fam, ci, map[string]any{"tail_of_history": hist, "accepts_last_30s": []int64{aMust, aMay}, "throttles_last_30s": []int64{tMust, tMay}},
				"ShouldThrottle at +%v with draw %.12f returned %v: %s; accepts in the last 30s in [%d,%d], throttles in [%d,%d] => probability in [%.12f, %.12f]",
				time.Duration(now-base), randVal, got, bad, aMust, aMay, tMust, tMay, pLo, pHi)
			return
		}
		if got {
			// a request throttled on the client side counts as a throttle
			thr = append(thr, c41Ev{at: now, v: 1})
			sawTrue = true
		}
		if aMay < int64(len(acc)) || tMay < int64(len(thr)) {
			sawExpire = true
		}
	}
	r.Nontrivial(fmt.Sprintf("throttler/back=%v/expired=%v/boundary=%v/throttled=%v", sawBack, sawExpire, sawBoundary, sawTrue))
	if ci < 1 {
		r.Sample(map[string]any{"throttler_history_prefix": hist[:10]})
	}
}

func TestVerifC41Adaptive(t *testing.T) {
	r := vlib.Start(t, "C41")
	n := r.N(6000, 120000)
	for i := 0; i < n; i++ {
		if r.Want("lookback", i) {
			c41Lookback(r, "lookback", i, r.Rand("lookback", i))
		}
	}
	n = r.N(3000, 60000)
	for i := 0; i < n; i++ {
		if r.Want("throttler", i) {
			c41Throttler(r, "throttler", i, r.Rand("throttler", i))
		}
	}
	r.Finish(vlib.Spec{
		Level: "exploration",
		Rule: "lookback: PRNG timelines of 40-120 add/sum calls on the real lookback (bins 1..128, windows 0.7s..30s) with clock steps {0, us, ms, s, around the window edge, > window, backwards}; sum must lie between the events certainly inside and possibly inside the window (one bin of tolerance). " +
			"throttler: 60-200 RegisterBackendResponse/ShouldThrottle calls on the real Throttler with the package's timeNowFunc/randFunc hooks; the draw is placed 1e-9 around the reference probability; the decision must agree with (requests-2*accepts)/(requests+8) over the last 30 s. distinct = (bins, clock went backwards, window edge hit, events expired, boundary draw, throttled) classes",
		Assumptions: []string{
			"window granularity: an event aged between 29.7 s and 30 s (bins-1 .. bins bin widths) may be counted or not",
			"when the clock goes backwards the window is anchored at the latest reading seen; a query with an older reading may also count anything younger than 30 s relative to that reading",
			"client-side throttled requests count as throttles (Throttler doc)",
			"clock readings are after 1970 (UnixNano > 0)",
		},
		Floor: 8,
	})
}
