// C41 (part 1): RLS key builder faithfulness and key-string injectivity.
//
// White-box only because balancer/rls/internal is a nested internal tree; the
// monitor uses the exported MakeBuilderMap / RLSKey.
package keys

import (
	"fmt"
	"math/rand"
	"sort"
	"strings"
	"testing"

	rlspb "google.golang.org/grpc/internal/proto/grpc_lookup_v1"
	vlib "google.golang.org/grpc/internal/verifvlib"
	"google.golang.org/grpc/metadata"
)

type c41Hdr struct {
	Key   string   `json:"key"`
	Names []string `json:"names"`
}

type c41KB struct {
	Names     [][2]string       `json:"names"` // service, method
	Headers   []c41Hdr          `json:"headers"`
	HostKey   string            `json:"host_key"`
	SvcKey    string            `json:"service_key"`
	MethodKey string            `json:"method_key"`
	Consts    map[string]string `json:"constant_keys"`
}

type c41Req struct {
	MD   map[string][]string `json:"md"`
	Host string              `json:"host"`
	Path string              `json:"path"`
}

func (kb c41KB) proto() *rlspb.GrpcKeyBuilder {
	p := &rlspb.GrpcKeyBuilder{ConstantKeys: kb.Consts}
	for _, n := range kb.Names {
		p.Names = append(p.Names, &rlspb.GrpcKeyBuilder_Name{Service: n[0], Method: n[1]})
	}
	for _, h := range kb.Headers {
		p.Headers = append(p.Headers, &rlspb.NameMatcher{Key: h.Key, Names: h.Names})
	}
	if kb.HostKey != "" || kb.SvcKey != "" || kb.MethodKey != "" {
		p.ExtraKeys = &rlspb.GrpcKeyBuilder_ExtraKeys{Host: kb.HostKey, Service: kb.SvcKey, Method: kb.MethodKey}
	}
	return p
}

// ambiguous reports whether a key name is used twice inside one builder (the
// statement does not define precedence then; faithfulness is not judged).
func (kb c41KB) ambiguous() bool {
	seen := map[string]bool{}
	add := func(k string) bool {
		if seen[k] {
			return true
		}
		seen[k] = true
		return false
	}
	for _, h := range kb.Headers {
		if add(h.Key) {
			return true
		}
	}
	for k := range kb.Consts {
		if add(k) {
			return true
		}
	}
	for _, k := range []string{kb.HostKey, kb.SvcKey, kb.MethodKey} {
		if k != "" && add(k) {
			return true
		}
	}
	return false
}

// c41Ref is the statement: for each header key builder the comma-joined values
// of the first configured header present, plus host/service/method and
// constant keys.  Builder selection: exact "/service/method", else the
// service-wide builder "/service/".
func c41Ref(kbs []c41KB, rq c41Req) (map[string]string, bool) {
	i := strings.LastIndex(rq.Path, "/")
	svcPart, method := rq.Path[:i+1], rq.Path[i+1:]
	var sel *c41KB
	for pass := 0; pass < 2 && sel == nil; pass++ {
		want := rq.Path
		if pass == 1 {
			want = svcPart
		}
		for k := range kbs {
			for _, n := range kbs[k].Names {
				if "/"+n[0]+"/"+n[1] == want {
					sel = &kbs[k]
				}
			}
		}
	}
	if sel == nil {
		return nil, false
	}
	out := map[string]string{}
	for _, h := range sel.Headers {
		for _, name := range h.Names {
			if vals, ok := rq.MD[strings.ToLower(name)]; ok {
				out[h.Key] = strings.Join(vals, ",")
				break
			}
		}
	}
	if sel.HostKey != "" {
		out[sel.HostKey] = rq.Host
	}
	if sel.SvcKey != "" {
		out[sel.SvcKey] = strings.Trim(svcPart, "/")
	}
	if sel.MethodKey != "" {
		out[sel.MethodKey] = method
	}
	for k, v := range sel.Consts {
		out[k] = v
	}
	return out, true
}

func c41EqMap(a, b map[string]string) bool {
	if len(a) != len(b) {
		return false
	}
	for k, v := range a {
		if w, ok := b[k]; !ok || w != v {
			return false
		}
	}
	return true
}

func c41MapStr(m map[string]string) string {
	ks := make([]string, 0, len(m))
	for k := range m {
		ks = append(ks, k)
	}
	sort.Strings(ks)
	var sb strings.Builder
	for _, k := range ks {
		fmt.Fprintf(&sb, "%q:%q ", k, m[k])
	}
	return sb.String()
}

func c41HasDelim(m map[string]string) bool {
	for k, v := range m {
		if strings.ContainsAny(k, ",=") || strings.ContainsAny(v, ",=") {
			return true
		}
	}
	return false
}

var (
	c41KeyPool   = []string{"a", "b", "c", "k1", "k2", "id", "z", "a=b", "a,b", "b=y"}
	c41PlainKeys = []string{"a", "b", "c", "k1", "k2", "id", "z", "user", "tenant", "region"}
	c41HdrPool   = []string{"h1", "h2", "h3", "x-user", "X-User", "X-Tenant", "x-tenant", "Region", "h-bin"}
	c41ValAdv    = []string{"x", "y", "x,b=y", "b=y", "v1", "v2", "v1,v2", "=", ",", "", "x,k2=v", "x,c=", "1", "x,b", "y,c=z", "=x", "a=b"}
	c41ValPlain  = []string{"x", "y", "v1", "v2", "v3", "1", "2", "alice", "bob", "eu", "us", ""}
	c41Svc       = []string{"svc", "pkg.Service", "s2", "a.b.C"}
	c41Method    = []string{"M", "Get", "m2", ""}
)

func c41GenKB(rng *rand.Rand, adversarial bool, usedNames map[string]bool) c41KB {
	kb := c41KB{}
	kpool := c41PlainKeys
	if adversarial {
		kpool = c41KeyPool
	}
	perm := rng.Perm(len(kpool))
	next := 0
	take := func() string {
		if rng.Intn(25) == 0 { // occasionally collide on purpose (rejection path)
			return kpool[rng.Intn(len(kpool))]
		}
		k := kpool[perm[next%len(perm)]]
		next++
		return k
	}
	for n := 1 + rng.Intn(2); n > 0; n-- {
		for try := 0; try < 8; try++ {
			s, m := c41Svc[rng.Intn(len(c41Svc))], c41Method[rng.Intn(len(c41Method))]
			if usedNames[s+"/"+m] {
				continue
			}
			usedNames[s+"/"+m] = true
			kb.Names = append(kb.Names, [2]string{s, m})
			break
		}
	}
	for n := rng.Intn(5); n > 0; n-- {
		h := c41Hdr{Key: take()}
		for k := 1 + rng.Intn(3); k > 0; k-- {
			h.Names = append(h.Names, c41HdrPool[rng.Intn(len(c41HdrPool))])
		}
		kb.Headers = append(kb.Headers, h)
	}
	if rng.Intn(2) == 0 {
		kb.HostKey = take()
	}
	if rng.Intn(2) == 0 {
		kb.SvcKey = take()
	}
	if rng.Intn(2) == 0 {
		kb.MethodKey = take()
	}
	if n := rng.Intn(3); n > 0 {
		kb.Consts = map[string]string{}
		vp := c41ValPlain
		if adversarial {
			vp = c41ValAdv
		}
		for ; n > 0; n-- {
			kb.Consts[take()] = vp[rng.Intn(len(vp))]
		}
	}
	return kb
}

func c41GenReq(rng *rand.Rand, kbs []c41KB, adversarial bool) c41Req {
	rq := c41Req{MD: map[string][]string{}}
	vp := c41ValPlain
	if adversarial {
		vp = c41ValAdv
	}
	for n := rng.Intn(5); n > 0; n-- {
		name := strings.ToLower(c41HdrPool[rng.Intn(len(c41HdrPool))])
		for k := 1 + rng.Intn(3); k > 0; k-- {
			rq.MD[name] = append(rq.MD[name], vp[rng.Intn(len(vp))])
		}
	}
	rq.Host = vlib.Pick(rng, "host", "h", "example.com:443", "")
	if adversarial && rng.Intn(3) == 0 {
		rq.Host = vp[rng.Intn(len(vp))]
	}
	switch rng.Intn(10) {
	case 0:
		rq.Path = vlib.Pick(rng, "", "nopath", "/", "/unknown/M", "//", "/svc")
	case 1, 2:
		// same service, other method -> service-wide builder if any
		kb := kbs[rng.Intn(len(kbs))]
		if len(kb.Names) > 0 {
			rq.Path = "/" + kb.Names[0][0] + "/" + vlib.Pick(rng, "Other", "M", "Get", "x,b=y")
		}
	default:
		kb := kbs[rng.Intn(len(kbs))]
		if len(kb.Names) > 0 {
			n := kb.Names[rng.Intn(len(kb.Names))]
			rq.Path = "/" + n[0] + "/" + n[1]
			if n[1] == "" {
				rq.Path += vlib.Pick(rng, "M", "Any", "Get")
			}
		}
	}
	return rq
}

type c41Out struct {
	Req c41Req            `json:"request"`
	Map map[string]string `json:"map"`
	Str string            `json:"str"`
}

// c41RunCase builds one config, sends a pool of requests through the real
// RLSKey and judges faithfulness per request and injectivity per pool.
func c41RunCase(r *vlib.Run, fam string, i int, kbs []c41KB, reqs []c41Req) {
	cfg := &rlspb.RouteLookupConfig{}
	amb := false
	for _, kb := range kbs {
		cfg.GrpcKeybuilders = append(cfg.GrpcKeybuilders, kb.proto())
		amb = amb || kb.ambiguous()
	}
	bm, err := MakeBuilderMap(cfg)
	r.Eval(1)
	if err != nil {
		// Rejecting a config is outside the statement (which speaks about the
		// keys of accepted configs); rejected configs simply do not count
		// towards the non-trivial floor.
		r.Count("configs_rejected", 1)
		if !amb {
			r.Count("configs_rejected_without_repeated_key", 1)
		}
		return
	}
	r.Count("configs_accepted", 1)
	if amb {
		r.Count("configs_accepted_with_repeated_extra_keys", 1)
	}
	type grp struct {
		first c41Out
	}
	seen := map[string]grp{} // path + "\x00" + Str
	for _, rq := range reqs {
		md := metadata.MD{}
		for k, vv := range rq.MD {
			md[k] = append([]string(nil), vv...)
		}
		km := bm.RLSKey(md, rq.Host, rq.Path)
		r.Eval(1)
		out := c41Out{Req: rq, Map: km.Map, Str: km.Str}
		// (1) faithfulness
		if !amb {
			want, ok := c41Ref(kbs, rq)
			if !ok {
				if len(km.Map) != 0 {
					r.Violation("keys-for-unconfigured-path", fam, i, out, "path %q has no key builder but RLSKey returned %s", rq.Path, c41MapStr(km.Map))
				}
				r.Nontrivial("faith/no-builder")
			} else {
				if !c41EqMap(km.Map, want) {
					r.Violation("keymap-unfaithful", fam, i, map[string]any{"builders": kbs, "out": out, "want": want},
						"RLSKey(%v, host=%q, path=%q).Map = {%s}, statement requires {%s}", rq.MD, rq.Host, rq.Path, c41MapStr(km.Map), c41MapStr(want))
				}
				multi, fallback := false, false
				for _, vv := range rq.MD {
					if len(vv) > 1 {
						multi = true
					}
				}
				if _, exact := bm[rq.Path]; !exact {
					fallback = true
				}
				r.Nontrivial(fmt.Sprintf("faith/keys=%d/multi=%v/svcwide=%v/md=%d", c41cap(len(want), 5), multi, fallback, c41cap(len(rq.MD), 3)))
			}
		}
		// (2) injectivity: same path and same Str => same Map
		if km.Map == nil && km.Str == "" {
			continue
		}
		gk := rq.Path + "\x00" + km.Str
		if g, ok := seen[gk]; ok {
			if !c41EqMap(g.first.Map, km.Map) {
				key := "keystr-collision-plain"
				if c41HasDelim(g.first.Map) || c41HasDelim(km.Map) {
					key = "keystr-collision-unescaped-delimiter"
				}
				r.Violation(key, fam, i, map[string]any{"builders": kbs, "a": g.first, "b": out},
					"two requests on path %q with different key maps {%s} and {%s} share the cache key string %q", rq.Path, c41MapStr(g.first.Map), c41MapStr(km.Map), km.Str)
				r.Count("str_collisions", 1)
			} else {
				r.Count("same_map_same_str_pairs", 1)
			}
		} else {
			seen[gk] = grp{first: out}
		}
	}
	// distinct maps observed in this pool
	r.Count("distinct_cache_keys", int64(len(seen)))
	if len(seen) > 1 {
		r.Nontrivial(fmt.Sprintf("inj/pool-distinct=%d", c41cap(len(seen)/4, 6)))
	}
}

func c41cap(a, b int) int {
	if a > b {
		return b
	}
	return a
}

func TestVerifC41Keys(t *testing.T) {
	r := vlib.Start(t, "C41")
	// Fixed must-hit case: DESIGN.md §5 F2.
	if r.Want("fixed", 0) {
		kbs := []c41KB{{Names: [][2]string{{"svc", "M"}}, Headers: []c41Hdr{{Key: "a", Names: []string{"h1"}}, {Key: "b", Names: []string{"h2"}}}}}
		c41RunCase(r, "fixed", 0, kbs, []c41Req{
			{MD: map[string][]string{"h1": {"x,b=y"}}, Host: "h", Path: "/svc/M"},
			{MD: map[string][]string{"h1": {"x"}, "h2": {"y"}}, Host: "h", Path: "/svc/M"},
			{MD: map[string][]string{"h1": {"x", "b=y"}}, Host: "h", Path: "/svc/M"},
		})
	}
	// plain: realistic configs and values without ',' or '=' in single values
	// (multi-valued headers still join with ','); adversarial: delimiters
	// everywhere.
	for _, fam := range []string{"plain", "adversarial"} {
		n := r.N(4000, 80000)
		for i := 0; i < n; i++ {
			if !r.Want(fam, i) {
				continue
			}
			rng := r.Rand(fam, i)
			adv := fam == "adversarial"
			used := map[string]bool{}
			var kbs []c41KB
			for k := 1 + rng.Intn(3); k > 0; k-- {
				kb := c41GenKB(rng, adv, used)
				if len(kb.Names) == 0 {
					continue
				}
				kbs = append(kbs, kb)
			}
			if len(kbs) == 0 {
				continue
			}
			var reqs []c41Req
			for k := 24; k > 0; k-- {
				reqs = append(reqs, c41GenReq(rng, kbs, adv))
			}
			c41RunCase(r, fam, i, kbs, reqs)
			if i < 2 && fam == "adversarial" {
				r.Sample(map[string]any{"builders": kbs, "first_request": reqs[0]})
			}
		}
	}
	// targeted: pairs built to collide if ',' and '=' are not escaped in the
	// key string: A carries "X,<kb>=Y" in the header of key ka, B carries X under
	// ka and Y under kb (also via a second header value, the host key and a
	// constant key).
	n := r.N(3000, 60000)
	for i := 0; i < n; i++ {
		const fam = "targeted"
		if !r.Want(fam, i) {
			continue
		}
		rng := r.Rand(fam, i)
		perm := rng.Perm(len(c41PlainKeys))
		ka, kb := c41PlainKeys[perm[0]], c41PlainKeys[perm[1]]
		kb2 := c41KB{Names: [][2]string{{"svc", vlib.Pick(rng, "M", "")}}, Headers: []c41Hdr{{Key: ka, Names: []string{"h-a"}}, {Key: kb, Names: []string{"h-b"}}}}
		if rng.Intn(3) == 0 {
			kb2.Headers = append(kb2.Headers, c41Hdr{Key: c41PlainKeys[perm[2]], Names: []string{"h-c"}})
		}
		if rng.Intn(3) == 0 {
			kb2.HostKey = c41PlainKeys[perm[3]]
		}
		x, y := c41ValPlain[rng.Intn(len(c41ValPlain))], c41ValPlain[rng.Intn(len(c41ValPlain))]
		path := "/svc/M"
		host := "host"
		reqs := []c41Req{
			{MD: map[string][]string{"h-a": {x + "," + kb + "=" + y}}, Host: host, Path: path},
			{MD: map[string][]string{"h-a": {x}, "h-b": {y}}, Host: host, Path: path},
			{MD: map[string][]string{"h-a": {x, kb + "=" + y}}, Host: host, Path: path},
			{MD: map[string][]string{"h-a": {x + "," + kb + "=" + y}, "h-c": {"1"}}, Host: host, Path: path},
			{MD: map[string][]string{"h-a": {x}, "h-b": {y}, "h-c": {"1"}}, Host: host, Path: path},
			{MD: map[string][]string{"h-a": {x}}, Host: host + "," + kb + "=" + y, Path: path},
			{MD: map[string][]string{"h-b": {y}}, Host: host, Path: path},
			{MD: map[string][]string{"h-a": {x}}, Host: host, Path: path},
		}
		c41RunCase(r, fam, i, []c41KB{kb2}, reqs)
	}
	r.Finish(vlib.Spec{
		Level: "exploration",
		Rule: "PRNG RouteLookupConfigs (1-3 key builders, 0-4 header matchers with 1-3 mixed-case header names, optional host/service/method keys, 0-2 constant keys, exact and service-wide names) x pools of 24 requests each (0-4 headers with 1-3 values, configured/sibling/unknown/malformed paths); 'adversarial' pools draw keys and values containing ',' and '='; 'targeted' pools hold request pairs built to collide when ',' and '=' are not escaped in the key string. " +
			"Oracles: KeyMap.Map == statement reference; within a pool, same path and same KeyMap.Str => same Map. distinct = (number of keys, multi-valued header, service-wide fallback, md size) classes and pool sizes",
		Assumptions: []string{
			"builder selection: exact /service/method first, else /service/ (RLS design)",
			"configs that repeat a key name inside one builder have no defined precedence: only injectivity is judged for them",
			"header presence = the metadata has the lower-cased name with at least one value",
		},
		Floor: 30,
	})
}
