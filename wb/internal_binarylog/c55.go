// C55: binary-log truncation and header omission, judged by a reference written
// from the property statement.
//
// White-box (package binarylog): truncateMetadata is driven with Metadata protos
// whose entry order we control; the exported path
// NewTruncatingMethodLogger(h, m).Log(...) is driven with a capturing sink (the
// pre-truncation order there is Go map order, so that oracle accepts every order
// consistent with per-key value order).
package binarylog

import (
	"bytes"
	"context"
	"fmt"
	"math/rand"
	"sort"
	"strings"
	"sync"
	"testing"

	binlogpb "google.golang.org/grpc/binarylog/grpc_binarylog_v1"
	vlib "google.golang.org/grpc/internal/verifvlib"
	"google.golang.org/grpc/metadata"
)

const c55TraceBin = "grpc-trace-bin"

type c55Entry struct {
	Key string `json:"key"`
	Len int    `json:"value_len"`
}

type c55Detail struct {
	Limit     uint64     `json:"limit"`
	Entries   []c55Entry `json:"entries"`
	Got       []int      `json:"got_indices"`
	Want      []int      `json:"want_indices"`
	GotTrunc  bool       `json:"got_truncated"`
	WantTrunc bool       `json:"want_truncated"`
}

// c55RefTruncate is the statement: walk the entries in order; grpc-trace-bin is
// always kept and not counted; any other entry is kept while it still fits in
// what is left of the limit; the first one that does not fit ends the prefix
// (everything non-trace-bin after it is dropped).  truncated iff something was
// dropped.  Returns the kept indices and the index of the first entry that did
// not fit (-1 if all fit).
func c55RefTruncate(keys []string, sizes []uint64, limit uint64, unlimited bool) (kept []int, cut int, truncated bool) {
	cut = -1
	left := limit
	for i := range keys {
		if keys[i] == c55TraceBin {
			kept = append(kept, i)
			continue
		}
		if cut >= 0 {
			truncated = true
			continue
		}
		if !unlimited && sizes[i] > left {
			cut = i
			truncated = true
			continue
		}
		if !unlimited {
			left -= sizes[i]
		}
		kept = append(kept, i)
	}
	return kept, cut, truncated
}

func c55EqInts(a, b []int) bool {
	if len(a) != len(b) {
		return false
	}
	for i := range a {
		if a[i] != b[i] {
			return false
		}
	}
	return true
}

var c55Keys = []string{"a", "k", "key-2", "x-long-header-name", "", c55TraceBin, c55TraceBin, "grpc-trace-bin2", "trace-bin", "b-bin"}

func c55GenEntries(rng *rand.Rand) (keys []string, vals [][]byte) {
	n := rng.Intn(11)
	if rng.Intn(8) == 0 {
		n = 0
	}
	traceMode := rng.Intn(5) // 0: none, 1: pool draws, 2: one at a chosen position, 3: several, 4: only trace-bin at the very end
	for i := 0; i < n; i++ {
		k := c55Keys[rng.Intn(len(c55Keys))]
		if traceMode == 0 || traceMode == 2 || traceMode == 4 {
			for k == c55TraceBin {
				k = c55Keys[rng.Intn(len(c55Keys))]
			}
		}
		if traceMode == 3 && rng.Intn(3) == 0 {
			k = c55TraceBin
		}
		var vl int
		switch rng.Intn(6) {
		case 0:
			vl = 0
		case 1:
			vl = 1
		case 2:
			vl = 1 + rng.Intn(4)
		case 3:
			vl = rng.Intn(40)
		case 4:
			vl = 100 + rng.Intn(2000)
		default:
			vl = rng.Intn(12)
		}
		v := make([]byte, vl)
		for j := range v {
			v[j] = byte(rng.Intn(256))
		}
		keys = append(keys, k)
		vals = append(vals, v)
	}
	if traceMode == 2 || traceMode == 4 {
		pos := len(keys)
		if traceMode == 2 {
			pos = rng.Intn(len(keys) + 1)
		}
		v := make([]byte, rng.Intn(30))
		keys = append(keys[:pos], append([]string{c55TraceBin}, keys[pos:]...)...)
		vals = append(vals[:pos], append([][]byte{v}, vals[pos:]...)...)
	}
	return keys, vals
}

// c55GenLimit picks limits at and around every prefix sum (the boundaries of
// the statement), plus 0, huge and the "unlimited" sentinel.
func c55GenLimit(rng *rand.Rand, keys []string, sizes []uint64) uint64 {
	var sums []uint64
	var s uint64
	sums = append(sums, 0)
	for i := range keys {
		if keys[i] == c55TraceBin {
			continue
		}
		s += sizes[i]
		sums = append(sums, s)
	}
	switch rng.Intn(10) {
	case 0:
		return 0
	case 1:
		return maxUInt
	case 2:
		return maxUInt - 1 - uint64(rng.Intn(3))
	case 3:
		return s + uint64(rng.Intn(3))
	case 4, 5, 6:
		b := sums[rng.Intn(len(sums))]
		switch rng.Intn(3) {
		case 0:
			return b
		case 1:
			return b + 1
		default:
			if b > 0 {
				return b - 1
			}
			return 0
		}
	case 7:
		return uint64(rng.Intn(8))
	default:
		return uint64(rng.Int63n(int64(s) + 10))
	}
}

func c55LimitClass(limit, total uint64) string {
	switch {
	case limit == maxUInt:
		return "unlimited"
	case limit == 0:
		return "zero"
	case limit >= total:
		return "ge-total"
	default:
		return "lt-total"
	}
}

func c55Truncate(r *vlib.Run, fam string, i int, rng *rand.Rand) {
	keys, vals := c55GenEntries(rng)
	sizes := make([]uint64, len(keys))
	var total uint64
	for k := range keys {
		sizes[k] = uint64(len(keys[k])) + uint64(len(vals[k]))
		if keys[k] != c55TraceBin {
			total += sizes[k]
		}
	}
	limit := c55GenLimit(rng, keys, sizes)
	md := &binlogpb.Metadata{}
	ptrs := map[*binlogpb.MetadataEntry]int{}
	for k := range keys {
		e := &binlogpb.MetadataEntry{Key: keys[k], Value: vals[k]}
		ptrs[e] = k
		md.Entry = append(md.Entry, e)
	}
	ml := &TruncatingMethodLogger{headerMaxLen: limit, messageMaxLen: maxUInt, idWithinCallGen: &callIDGenerator{}}
	gotTrunc := ml.truncateMetadata(md)
	r.Eval(1)

	var got []int
	for _, e := range md.Entry {
		idx, ok := ptrs[e]
		if !ok {
			r.Violation("metadata-foreign-entry", fam, i, nil, "truncateMetadata produced an entry that was not in the input: %q", e.GetKey())
			return
		}
		if e.Key != keys[idx] || !bytes.Equal(e.Value, vals[idx]) {
			r.Violation("metadata-entry-modified", fam, i, nil, "entry %d was modified by truncation", idx)
			return
		}
		got = append(got, idx)
	}
	want, cut, wantTrunc := c55RefTruncate(keys, sizes, limit, limit == maxUInt)

	det := c55Detail{Limit: limit, Got: got, Want: want, GotTrunc: gotTrunc, WantTrunc: wantTrunc}
	for k := range keys {
		det.Entries = append(det.Entries, c55Entry{Key: keys[k], Len: len(vals[k])})
	}

	traceAfterCut := 0
	traceBefore := 0
	for k := range keys {
		if keys[k] == c55TraceBin {
			if cut >= 0 && k > cut {
				traceAfterCut++
			} else {
				traceBefore++
			}
		}
	}

	if !c55EqInts(got, want) {
		// Is the only difference that grpc-trace-bin entries located after the
		// first non-fitting entry are missing?  (DESIGN.md §5 F9)
		var wantMinus []int
		for _, k := range want {
			if cut >= 0 && k > cut && keys[k] == c55TraceBin {
				continue
			}
			wantMinus = append(wantMinus, k)
		}
		if traceAfterCut > 0 && c55EqInts(got, wantMinus) {
			r.Violation("trace-bin-after-overlimit-entry-dropped", fam, i, det,
				"limit=%d: %d grpc-trace-bin entr(ies) positioned after the first entry that does not fit (index %d) are missing from the log; kept %v, statement requires %v",
				limit, traceAfterCut, cut, got, want)
			// the flag is still judged below against what was really dropped
			if !gotTrunc {
				r.Violation("truncated-flag-wrong", fam, i, det, "entries were dropped but truncated=false")
			}
		} else {
			r.Violation("metadata-prefix-mismatch", fam, i, det, "limit=%d: kept entries %v, statement requires %v (entries %v)", limit, got, want, det.Entries)
		}
	} else if gotTrunc != wantTrunc {
		r.Violation("truncated-flag-wrong", fam, i, det, "limit=%d: truncated=%v but dropped-something=%v (kept %v of %d)", limit, gotTrunc, wantTrunc, got, len(keys))
	}

	// non-trivial: the limit actually cut somewhere, or trace-bin was exempted
	cutClass := "nocut"
	if cut == 0 {
		cutClass = "cut-first"
	} else if cut > 0 {
		cutClass = "cut-mid"
		if cut == len(keys)-1 {
			cutClass = "cut-last"
		}
	}
	exact := ""
	if cut < 0 && limit == total && total > 0 {
		exact = "+exact-fit"
	}
	tb := fmt.Sprintf("tb%d/%d", c55min(traceBefore, 2), c55min(traceAfterCut, 2))
	if len(keys) > 0 {
		r.Nontrivial(fmt.Sprintf("trunc/%s%s/%s/%s", cutClass, exact, tb, c55LimitClass(limit, total)))
	}
	if cut >= 0 {
		r.Count("trunc_cases_with_cut", 1)
	}
	if traceAfterCut > 0 {
		r.Count("trunc_cases_tracebin_after_cut", 1)
	}
	if traceBefore > 0 && cut >= 0 {
		r.Count("trunc_cases_tracebin_before_cut", 1)
	}
	if i < 2 {
		r.Sample(det)
	}
}

func c55min(a, b int) int {
	if a < b {
		return a
	}
	return b
}

// ---- message truncation ----------------------------------------------------

func c55Message(r *vlib.Run, fam string, i int, rng *rand.Rand) {
	var n int
	switch rng.Intn(4) {
	case 0:
		n = 0
	case 1:
		n = 1 + rng.Intn(4)
	case 2:
		n = rng.Intn(64)
	default:
		n = rng.Intn(5000)
	}
	payload := make([]byte, n)
	for k := range payload {
		payload[k] = byte(rng.Intn(256))
	}
	orig := append([]byte(nil), payload...)
	var limit uint64
	switch rng.Intn(8) {
	case 0:
		limit = 0
	case 1:
		limit = uint64(n)
	case 2:
		limit = uint64(n) + 1
	case 3:
		if n > 0 {
			limit = uint64(n) - 1
		}
	case 4:
		limit = maxUInt
	case 5:
		limit = maxUInt - 1
	default:
		limit = uint64(rng.Intn(n + 3))
	}
	ml := NewTruncatingMethodLogger(maxUInt, limit)
	var cfg LogEntryConfig
	server := rng.Intn(2) == 0
	if server {
		cfg = &ServerMessage{OnClientSide: rng.Intn(2) == 0, Message: payload}
	} else {
		cfg = &ClientMessage{OnClientSide: rng.Intn(2) == 0, Message: payload}
	}
	e := ml.Build(cfg)
	r.Eval(1)
	m := e.GetMessage()
	if m == nil {
		r.Violation("message-entry-missing", fam, i, nil, "Build(message) produced no message payload")
		return
	}
	wantLen := uint64(n)
	if limit != maxUInt && limit < wantLen {
		wantLen = limit
	}
	det := map[string]any{"payload_len": n, "limit": limit, "data_len": len(m.Data), "truncated": e.PayloadTruncated, "length_field": m.Length}
	if uint64(len(m.Data)) > limit {
		r.Violation("message-exceeds-limit", fam, i, det, "message entry carries %d bytes, limit %d", len(m.Data), limit)
	} else if uint64(len(m.Data)) != wantLen || !bytes.Equal(m.Data, orig[:wantLen]) {
		r.Violation("message-not-prefix", fam, i, det, "message entry data (len %d) is not the first %d bytes of the %d-byte payload (limit %d)", len(m.Data), wantLen, n, limit)
	}
	if wantTrunc := wantLen < uint64(n); e.PayloadTruncated != wantTrunc {
		r.Violation("message-truncated-flag-wrong", fam, i, det, "payload %d bytes, limit %d: truncated=%v, want %v", n, limit, e.PayloadTruncated, wantTrunc)
	}
	if m.Length != uint32(n) {
		r.Violation("message-length-field", fam, i, det, "Message.length = %d, want the original length %d", m.Length, n)
	}
	cls := "fits"
	switch {
	case limit == maxUInt:
		cls = "unlimited"
	case uint64(n) == limit:
		cls = "exact"
	case uint64(n) > limit && limit == 0:
		cls = "cut-to-zero"
	case uint64(n) > limit:
		cls = "cut"
	}
	if n > 0 {
		r.Nontrivial(fmt.Sprintf("msg/%s/server=%v", cls, server))
	}
}

// ---- exported path with a capturing sink -------------------------------------

type c55Sink struct {
	mu  sync.Mutex
	got []*binlogpb.GrpcLogEntry
}

func (s *c55Sink) Write(e *binlogpb.GrpcLogEntry) error {
	s.mu.Lock()
	s.got = append(s.got, e)
	s.mu.Unlock()
	return nil
}
func (s *c55Sink) Close() error { return nil }

// statement's list of names gRPC omits from logs
func c55MustOmit(k string) bool {
	switch k {
	case ":path", ":authority", "content-type", "user-agent", "te", "lb-token":
		return true
	case c55TraceBin:
		return false
	}
	return strings.HasPrefix(k, "grpc-")
}

var c55OmitPool = []string{":path", ":authority", "content-type", "user-agent", "te", "lb-token", "grpc-timeout", "grpc-encoding", "grpc-status", "grpc-message", "grpc-accept-encoding", "grpc-tags-bin", "grpc-", "grpc-trace-binx", "grpc-previous-rpc-attempts"}
var c55UserPool = []string{"a", "b-bin", "key", "x-custom", "authorization", "tea", "te-x", "content-typex", "path", "authority", "grpcx", "grp", "user-agent2", "lb-token-2", "zz"}

func c55GenMD(rng *rand.Rand) (metadata.MD, uint64) {
	md := metadata.MD{}
	nk := rng.Intn(7)
	for k := 0; k < nk; k++ {
		var key string
		switch rng.Intn(5) {
		case 0:
			key = c55OmitPool[rng.Intn(len(c55OmitPool))]
		case 1:
			key = c55TraceBin
		default:
			key = c55UserPool[rng.Intn(len(c55UserPool))]
		}
		nv := 1 + rng.Intn(3)
		for v := 0; v < nv; v++ {
			vl := rng.Intn(10)
			if rng.Intn(6) == 0 {
				vl = 50 + rng.Intn(200)
			}
			b := make([]byte, vl)
			for j := range b {
				b[j] = byte('a' + rng.Intn(26))
			}
			md.Append(key, string(b))
		}
	}
	// sizes of the loggable, counted entries
	var total uint64
	for k, vv := range md {
		if c55MustOmit(k) || k == c55TraceBin {
			continue
		}
		for _, v := range vv {
			total += uint64(len(k) + len(v))
		}
	}
	return md, total
}

func c55E2E(r *vlib.Run, fam string, i int, rng *rand.Rand) {
	md, total := c55GenMD(rng)
	var limit uint64
	switch rng.Intn(7) {
	case 0:
		limit = 0
	case 1:
		limit = maxUInt
	case 2:
		limit = total
	case 3:
		if total > 0 {
			limit = total - 1
		}
	default:
		limit = uint64(rng.Int63n(int64(total) + 5))
	}
	ml := NewTruncatingMethodLogger(limit, maxUInt)
	sink := &c55Sink{}
	ml.sink = sink
	kind := rng.Intn(3)
	var cfg LogEntryConfig
	switch kind {
	case 0:
		cfg = &ClientHeader{OnClientSide: rng.Intn(2) == 0, Header: md, MethodName: "/s/m", Authority: "auth"}
	case 1:
		cfg = &ServerHeader{OnClientSide: rng.Intn(2) == 0, Header: md}
	default:
		cfg = &ServerTrailer{OnClientSide: rng.Intn(2) == 0, Trailer: md}
	}
	ml.Log(context.Background(), cfg)
	r.Eval(1)
	sink.mu.Lock()
	got := sink.got
	sink.mu.Unlock()
	if len(got) != 1 {
		r.Violation("e2e-entry-count", fam, i, nil, "Log wrote %d entries to the sink, want 1", len(got))
		return
	}
	c55JudgeEntry(r, fam, i, md, total, limit, kind, got[0], "")
}

// c55JudgeEntry judges one logged header/trailer entry against the statement
// for the header limit of the logger that produced it.
func c55JudgeEntry(r *vlib.Run, fam string, i int, md metadata.MD, total, limit uint64, kind int, e *binlogpb.GrpcLogEntry, note string) bool {
	var logged *binlogpb.Metadata
	switch kind {
	case 0:
		logged = e.GetClientHeader().GetMetadata()
	case 1:
		logged = e.GetServerHeader().GetMetadata()
	default:
		logged = e.GetTrailer().GetMetadata()
	}
	mdDump := map[string][]int{}
	for k, vv := range md {
		for _, v := range vv {
			mdDump[k] = append(mdDump[k], len(v))
		}
	}
	var loggedDump []c55Entry
	for _, le := range logged.GetEntry() {
		loggedDump = append(loggedDump, c55Entry{Key: le.Key, Len: len(le.Value)})
	}
	det := map[string]any{"note": note, "kind": kind, "limit": limit, "md_value_lens": mdDump, "logged": loggedDump, "truncated": e.PayloadTruncated}

	// (1) omitted names never appear
	for _, le := range logged.GetEntry() {
		if c55MustOmit(le.Key) {
			r.Violation("omitted-header-logged", fam, i, det, "header %q must never be logged but appears in the entry", le.Key)
			return false
		}
	}
	// (2) what is logged is, per key, a prefix of that key's values, in order,
	// each key's entries contiguous
	perKey := map[string]int{}
	var order []string
	var counted uint64
	for _, le := range logged.GetEntry() {
		vv, ok := md[le.Key]
		if !ok {
			r.Violation("e2e-foreign-entry", fam, i, det, "logged key %q is not in the metadata", le.Key)
			return false
		}
		n := perKey[le.Key]
		if n >= len(vv) || vv[n] != string(le.Value) {
			r.Violation("e2e-value-order", fam, i, det, "logged value #%d of key %q is not the metadata's value #%d", n, le.Key, n)
			return false
		}
		if n == 0 {
			order = append(order, le.Key)
		} else if order[len(order)-1] != le.Key {
			r.Violation("e2e-value-order", fam, i, det, "values of key %q are not contiguous in the log", le.Key)
			return false
		}
		perKey[le.Key] = n + 1
		if le.Key != c55TraceBin {
			counted += uint64(len(le.Key) + len(le.Value))
		}
	}
	if kind == 2 {
		// Trailers: the shipped design does not truncate trailer metadata at all
		// (Build only truncates client/server headers).  The statement speaks of
		// "the header limit"; we take the weakest reading (headers only), judge
		// omission only and report over-limit trailers as evidence.
		if limit != maxUInt && counted > limit {
			r.Count("e2e_trailer_over_header_limit_not_truncated", 1)
		}
		r.Nontrivial(fmt.Sprintf("e2e/trailer/omit=%v", c55HasOmitted(md)))
		return true
	}
	// (3) counted size fits
	if limit != maxUInt && counted > limit {
		r.Violation("e2e-over-limit", fam, i, det, "logged entries count %d bytes > header limit %d", counted, limit)
		return false
	}
	// (4) the keys that must be logged (content-encoding is additionally omitted
	// by the shipped design; the statement's list does not mention it, so it may
	// be either logged or not)
	dropped := false
	partial := []string{}
	var unlogged []string
	missingTrace := 0
	for k, vv := range md {
		if c55MustOmit(k) || k == "content-encoding" {
			continue
		}
		n := perKey[k]
		if n == len(vv) {
			continue
		}
		dropped = true
		if k == c55TraceBin {
			missingTrace += len(vv) - n
			continue
		}
		if n > 0 {
			partial = append(partial, k)
		} else {
			unlogged = append(unlogged, k)
		}
	}
	sort.Strings(unlogged)
	if e.PayloadTruncated != dropped {
		r.Violation("e2e-truncated-flag-wrong", fam, i, det, "payload_truncated=%v but dropped-something=%v", e.PayloadTruncated, dropped)
	}
	if missingTrace > 0 {
		r.Violation("trace-bin-after-overlimit-entry-dropped", fam, i, det, "%d grpc-trace-bin value(s) missing from the logged %s (limit %d); grpc-trace-bin must always be kept",
			missingTrace, []string{"client header", "server header"}[kind], limit)
	}
	// (5) longest prefix: whatever order the entries were considered in, the
	// first dropped counted entry must not have fitted in what was left.
	if limit != maxUInt && (len(partial) > 0 || len(unlogged) > 0) {
		left := limit - counted
		ok := false
		if len(partial) > 1 {
			r.Violation("e2e-not-a-prefix", fam, i, det, "keys %v are each only partially logged: the log is not a prefix of any key-grouped order", partial)
			return false
		}
		if len(partial) == 1 {
			k := partial[0]
			// the partially logged key must be the last counted key in the log
			last := ""
			for _, o := range order {
				if o != c55TraceBin {
					last = o
				}
			}
			next := md[k][perKey[k]]
			if last != k {
				r.Violation("e2e-not-a-prefix", fam, i, det, "key %q is partially logged but entries of key %q follow it", k, last)
				return false
			}
			ok = uint64(len(k)+len(next)) > left
		} else {
			for _, k := range unlogged {
				if uint64(len(k)+len(md[k][0])) > left {
					ok = true
				}
			}
		}
		if !ok {
			r.Violation("e2e-dropped-entry-would-fit", fam, i, det, "entries were dropped although the next entry of every candidate key fits in the remaining %d bytes (limit %d)", left, limit)
		}
	} else if limit == maxUInt && dropped && missingTrace == 0 {
		r.Violation("e2e-dropped-entry-would-fit", fam, i, det, "entries dropped with an unlimited header length")
	}
	r.Nontrivial(fmt.Sprintf("e2e/kind%d/dropped=%v/partial=%d/omit=%v/trace=%v/%s", kind, dropped, len(partial), c55HasOmitted(md), len(md[c55TraceBin]) > 0, c55LimitClass(limit, total)))
	if dropped {
		r.Count("e2e_cases_with_drop", 1)
	}
	return true
}

// c55Shared logs ONE LogEntryConfig value through two or three truncating
// method loggers with different header limits (grpc hands the same entry to
// every configured binary logger: `for _, binlog := range binlogs {
// binlog.Log(ctx, entry) }`).  Every logger's output is judged against the
// statement for ITS OWN limit: what an earlier logger dropped must not be
// missing from a later one.
func c55Shared(r *vlib.Run, fam string, i int, rng *rand.Rand) {
	md, total := c55GenMD(rng)
	for len(md) == 0 || total == 0 {
		md, total = c55GenMD(rng)
	}
	// limits: one that certainly drops something, one unlimited / generous, one random
	small := uint64(rng.Int63n(int64(total)))
	if rng.Intn(4) == 0 {
		small = 0
	}
	limits := []uint64{small, vlib.Pick(rng, maxUInt, total, total+uint64(rng.Intn(10)), maxUInt)}
	if rng.Intn(2) == 0 {
		limits = append(limits, uint64(rng.Int63n(int64(total)+5)))
	}
	if rng.Intn(6) == 0 {
		limits[1] = small // same limit twice
	}
	rng.Shuffle(len(limits), func(a, b int) { limits[a], limits[b] = limits[b], limits[a] })
	kind := rng.Intn(2)
	var cfg LogEntryConfig
	if kind == 0 {
		cfg = &ClientHeader{OnClientSide: rng.Intn(2) == 0, Header: md, MethodName: "/s/m", Authority: "auth"}
	} else {
		cfg = &ServerHeader{OnClientSide: rng.Intn(2) == 0, Header: md}
	}
	useBuild := rng.Intn(3) == 0
	droppedBefore := false
	for k, limit := range limits {
		ml := NewTruncatingMethodLogger(limit, maxUInt)
		var e *binlogpb.GrpcLogEntry
		if useBuild {
			e = ml.Build(cfg)
		} else {
			sink := &c55Sink{}
			ml.sink = sink
			ml.Log(context.Background(), cfg)
			sink.mu.Lock()
			if len(sink.got) == 1 {
				e = sink.got[0]
			}
			sink.mu.Unlock()
		}
		r.Eval(1)
		if e == nil {
			r.Violation("e2e-entry-count", fam, i, nil, "logger #%d wrote no entry", k)
			return
		}
		note := fmt.Sprintf("same entry config logged by %d loggers with header limits %v; this is logger #%d", len(limits), limits, k)
		if !c55JudgeEntry(r, fam, i, md, total, limit, kind, e, note) {
			return
		}
		larger := k > 0 && (limit == maxUInt || limit > limits[k-1])
		r.Nontrivial(fmt.Sprintf("shared/pos=%d/earlier-dropped=%v/larger-than-previous=%v/build=%v", k, droppedBefore, larger, useBuild))
		if limit != maxUInt && limit < total {
			droppedBefore = true
		}
	}
	r.Count("shared_entry_cases", 1)
}

func c55HasOmitted(md metadata.MD) bool {
	for k := range md {
		if c55MustOmit(k) {
			return true
		}
	}
	return false
}

// c55Omit judges metadataKeyOmit/mdToMetadataProto on single keys, including
// near-misses of every omitted name.
func c55Omit(r *vlib.Run) {
	names := append(append([]string{}, c55OmitPool...), c55UserPool...)
	names = append(names, c55TraceBin, "grpc-trace-bi", "grpc", "grpc-x", ":pathx", ":path2", ":status", "t", "e", "lb-toke", "user-agen", "content-typ")
	for i, k := range names {
		if !r.Want("omit", i) {
			continue
		}
		md := metadata.MD{k: []string{"v"}}
		p := mdToMetadataProto(md)
		r.Eval(1)
		present := len(p.GetEntry()) == 1
		if c55MustOmit(k) && present {
			r.Violation("omitted-header-logged", "omit", i, map[string]string{"key": k}, "header %q must be omitted from logs but mdToMetadataProto kept it", k)
		}
		if !c55MustOmit(k) && k != "content-encoding" && !present {
			r.Violation("loggable-header-omitted", "omit", i, map[string]string{"key": k}, "header %q is loggable by the statement but mdToMetadataProto dropped it", k)
		}
		r.Nontrivial(fmt.Sprintf("omit/must=%v/present=%v", c55MustOmit(k), present))
	}
}

func TestVerifC55(t *testing.T) {
	r := vlib.Start(t, "C55")
	c55Omit(r)
	// deterministic must-hit prefix: the F9 shape and the boundary shapes
	n := r.N(120000, 2000000)
	for i := 0; i < n; i++ {
		if !r.Want("trunc", i) {
			continue
		}
		c55Truncate(r, "trunc", i, r.Rand("trunc", i))
	}
	n = r.N(40000, 600000)
	for i := 0; i < n; i++ {
		if !r.Want("message", i) {
			continue
		}
		c55Message(r, "message", i, r.Rand("message", i))
	}
	n = r.N(60000, 1000000)
	for i := 0; i < n; i++ {
		if !r.Want("e2e", i) {
			continue
		}
		c55E2E(r, "e2e", i, r.Rand("e2e", i))
	}
	n = r.N(30000, 500000)
	for i := 0; i < n; i++ {
		if !r.Want("shared", i) {
			continue
		}
		c55Shared(r, "shared", i, r.Rand("shared", i))
	}
	r.Finish(vlib.Spec{
		Level: "exploration",
		Rule: "trunc: PRNG Metadata protos (0-11 entries, grpc-trace-bin at chosen/random/every position, empty keys, 0..2000-byte values) x limits at and around every prefix sum, 0, MaxUint64(-k), fed to the real truncateMetadata and compared with the statement's reference; " +
			"message: payloads 0..5000 bytes x limits {0,len-1,len,len+1,random,MaxUint64} through Build; " +
			"e2e: random metadata.MD with omitted/user/trace-bin keys through NewTruncatingMethodLogger(h,max).Log into a capturing sink, order-agnostic prefix oracle; " +
			"shared: ONE ClientHeader/ServerHeader config logged through 2-3 method loggers with different header limits in random order (Log and Build), every output judged for its own limit; " +
			"omit: every omitted name and near-misses. distinct = (family, cut position class, trace-bin before/after cut, limit class, flags)",
		Assumptions: []string{
			"statement reference: grpc-trace-bin is always kept and never counted, also when it follows the first entry that does not fit",
			"trailer metadata is not subject to the header limit (weakest reading; the shipped Build does not truncate trailers) - only omission is judged there",
			"content-encoding (omitted by the shipped design, not named in the statement) may be logged or not",
			"Message.length must stay the untruncated length (binarylog.proto)",
		},
		Floor: 40,
	})
}
