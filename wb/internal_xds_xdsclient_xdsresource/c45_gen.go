// C45 (generators): protoreflect-driven random message filler with field-aware
// biases, structural mutation of valid templates, byte mutation and raw bytes.
package xdsresource

import (
	"fmt"
	"math"
	"math/rand"
	"strings"

	v1xdsudpatypepb "github.com/cncf/xds/go/udpa/type/v1"
	v3xdsxdstypepb "github.com/cncf/xds/go/xds/type/v3"
	v3clusterpb "github.com/envoyproxy/go-control-plane/envoy/config/cluster/v3"
	v3corepb "github.com/envoyproxy/go-control-plane/envoy/config/core/v3"
	v3endpointpb "github.com/envoyproxy/go-control-plane/envoy/config/endpoint/v3"
	v3listenerpb "github.com/envoyproxy/go-control-plane/envoy/config/listener/v3"
	v3routepb "github.com/envoyproxy/go-control-plane/envoy/config/route/v3"
	v3aggregateclusterpb "github.com/envoyproxy/go-control-plane/envoy/extensions/clusters/aggregate/v3"
	v3faultpb "github.com/envoyproxy/go-control-plane/envoy/extensions/filters/http/fault/v3"
	v3rbacpb "github.com/envoyproxy/go-control-plane/envoy/extensions/filters/http/rbac/v3"
	v3routerpb "github.com/envoyproxy/go-control-plane/envoy/extensions/filters/http/router/v3"
	v3httppb "github.com/envoyproxy/go-control-plane/envoy/extensions/filters/network/http_connection_manager/v3"
	v3cswrrpb "github.com/envoyproxy/go-control-plane/envoy/extensions/load_balancing_policies/client_side_weighted_round_robin/v3"
	v3leastrequestpb "github.com/envoyproxy/go-control-plane/envoy/extensions/load_balancing_policies/least_request/v3"
	v3pickfirstpb "github.com/envoyproxy/go-control-plane/envoy/extensions/load_balancing_policies/pick_first/v3"
	v3ringhashpb "github.com/envoyproxy/go-control-plane/envoy/extensions/load_balancing_policies/ring_hash/v3"
	v3roundrobinpb "github.com/envoyproxy/go-control-plane/envoy/extensions/load_balancing_policies/round_robin/v3"
	v3wrrlocalitypb "github.com/envoyproxy/go-control-plane/envoy/extensions/load_balancing_policies/wrr_locality/v3"
	v3http11proxypb "github.com/envoyproxy/go-control-plane/envoy/extensions/transport_sockets/http_11_proxy/v3"
	v3tlspb "github.com/envoyproxy/go-control-plane/envoy/extensions/transport_sockets/tls/v3"
	v3discoverypb "github.com/envoyproxy/go-control-plane/envoy/service/discovery/v3"
	"google.golang.org/protobuf/proto"
	"google.golang.org/protobuf/reflect/protoreflect"
	"google.golang.org/protobuf/reflect/protoregistry"
	"google.golang.org/protobuf/types/known/anypb"
	"google.golang.org/protobuf/types/known/structpb"
)

// message universe for google.protobuf.Any payloads, by role
var (
	c45AnyHCM       = []proto.Message{&v3httppb.HttpConnectionManager{}}
	c45AnyHTTPFilt  = []proto.Message{&v3routerpb.Router{}, &v3rbacpb.RBAC{}, &v3faultpb.HTTPFault{}, &v3xdsxdstypepb.TypedStruct{}, &v1xdsudpatypepb.TypedStruct{}}
	c45AnyOverride  = []proto.Message{&v3routepb.FilterConfig{}, &v3rbacpb.RBACPerRoute{}, &v3faultpb.HTTPFault{}, &v3routerpb.Router{}, &v3xdsxdstypepb.TypedStruct{}}
	c45AnyTransport = []proto.Message{&v3tlspb.UpstreamTlsContext{}, &v3tlspb.DownstreamTlsContext{}, &v3http11proxypb.Http11ProxyUpstreamTransport{}}
	c45AnyClusterTy = []proto.Message{&v3aggregateclusterpb.ClusterConfig{}}
	c45AnyLB        = []proto.Message{&v3wrrlocalitypb.WrrLocality{}, &v3roundrobinpb.RoundRobin{}, &v3ringhashpb.RingHash{}, &v3leastrequestpb.LeastRequest{}, &v3pickfirstpb.PickFirst{}, &v3cswrrpb.ClientSideWeightedRoundRobin{}, &v3xdsxdstypepb.TypedStruct{}}
	c45AnyMisc      = []proto.Message{&v3corepb.Address{}, &v3listenerpb.Listener{}, &v3routepb.RouteConfiguration{}, &v3clusterpb.Cluster{}, &v3endpointpb.ClusterLoadAssignment{}, &structpb.Struct{}, &v3discoverypb.Resource{}}
)

var c45FilterTypeURLs = []string{
	"type.googleapis.com/envoy.extensions.filters.http.router.v3.Router",
	"type.googleapis.com/envoy.extensions.filters.http.rbac.v3.RBAC",
	"type.googleapis.com/envoy.extensions.filters.http.fault.v3.HTTPFault",
	"type.googleapis.com/unknown.Filter", "custom.filter", "",
}

type c45Gen struct {
	rng      *rand.Rand
	addrPool []string
	namePool []string
	budget   int // remaining messages this generator may still create
}

func c45NewGen(rng *rand.Rand) *c45Gen {
	g := &c45Gen{rng: rng, budget: 400}
	// small pools make duplicates (addresses, names, localities) likely
	g.addrPool = []string{"10.0.0.1", "10.0.0.2", "1.2.3.4", "::1", "2001:db8::1", "", "host.example.com", "bad addr"}[:2+rng.Intn(7)]
	g.namePool = []string{"a", "b", "cluster-1", "cluster-2", "route-1", "", "xdstp://auth/envoy.config.cluster.v3.Cluster/c", "envoy.transport_sockets.tls", "envoy.clusters.aggregate", "router", "rbac"}
	return g
}

func (g *c45Gen) anyPoolFor(hint string) []proto.Message {
	h := strings.ToLower(hint)
	switch {
	case strings.Contains(h, "api_listener") || strings.Contains(h, "listener.filter."):
		return c45AnyHCM
	case strings.Contains(h, "httpfilter"):
		return c45AnyHTTPFilt
	case strings.Contains(h, "typed_per_filter_config") || strings.Contains(h, "filterconfig"):
		return c45AnyOverride
	case strings.Contains(h, "transportsocket"):
		return c45AnyTransport
	case strings.Contains(h, "customclustertype"):
		return c45AnyClusterTy
	case strings.Contains(h, "typedextensionconfig"):
		return c45AnyLB
	}
	return nil
}

// genAny fills a google.protobuf.Any appropriate (or deliberately not) for the
// place it sits in.
func (g *c45Gen) genAny(hint string, depth int) *anypb.Any {
	rng := g.rng
	pool := g.anyPoolFor(hint)
	all := [][]proto.Message{c45AnyHCM, c45AnyHTTPFilt, c45AnyOverride, c45AnyTransport, c45AnyClusterTy, c45AnyLB, c45AnyMisc}
	if pool == nil || rng.Intn(6) == 0 {
		pool = all[rng.Intn(len(all))]
	}
	tmpl := pool[rng.Intn(len(pool))]
	m := tmpl.ProtoReflect().New()
	g.fill(m, depth+1)
	b, _ := proto.MarshalOptions{AllowPartial: true}.Marshal(m.Interface())
	a := &anypb.Any{TypeUrl: "type.googleapis.com/" + string(m.Descriptor().FullName()), Value: b}
	switch rng.Intn(14) {
	case 0: // right URL, bytes of another message
		other := all[rng.Intn(len(all))]
		om := other[rng.Intn(len(other))].ProtoReflect().New()
		g.fill(om, depth+2)
		a.Value, _ = proto.MarshalOptions{AllowPartial: true}.Marshal(om.Interface())
	case 1: // right URL, random bytes
		a.Value = c45RandBytes(rng, rng.Intn(24))
	case 2: // truncated payload
		if len(a.Value) > 0 {
			a.Value = a.Value[:rng.Intn(len(a.Value))]
		}
	case 3:
		a.TypeUrl = vlib45Pick(rng, "", "type.googleapis.com/", "type.googleapis.com/does.not.Exist", "no-slash", a.TypeUrl+"x", "/"+string(m.Descriptor().FullName()))
	case 4:
		a.Value = nil
	}
	return a
}

func vlib45Pick(rng *rand.Rand, xs ...string) string { return xs[rng.Intn(len(xs))] }

func c45RandBytes(rng *rand.Rand, n int) []byte {
	b := make([]byte, n)
	for i := range b {
		b[i] = byte(rng.Intn(256))
	}
	return b
}

func (g *c45Gen) genUint(name string, bits int) uint64 {
	rng := g.rng
	max := uint64(math.MaxUint32)
	if bits == 64 {
		max = math.MaxUint64
	}
	n := strings.ToLower(name)
	switch {
	case strings.Contains(n, "weight"):
		return []uint64{0, 0, 1, 1, 2, 3, 100, 1 << 31, 1<<31 - 1, 1<<31 + 1, 1<<32 - 1, 1<<32 - 2, 1 << 30, uint64(rng.Intn(1000))}[rng.Intn(14)] & max
	case strings.Contains(n, "priority"):
		return []uint64{0, 0, 0, 1, 1, 2, 3, 5, uint64(rng.Intn(4)), 1 << 31}[rng.Intn(10)]
	case strings.Contains(n, "port"):
		return []uint64{0, 80, 443, 8080, 65535, 65536, 1, uint64(rng.Intn(70000))}[rng.Intn(8)]
	case strings.Contains(n, "numerator"), strings.Contains(n, "percent"), strings.Contains(n, "threshold"), strings.Contains(n, "enforcing"):
		return []uint64{0, 1, 50, 100, 101, 1000000, 1000001, uint64(rng.Intn(200)), max}[rng.Intn(9)]
	case strings.Contains(n, "prefix_len"):
		return []uint64{0, 8, 16, 24, 32, 33, 64, 128, 129, max}[rng.Intn(10)]
	case strings.Contains(n, "ring_size"), strings.Contains(n, "choice_count"), strings.Contains(n, "retries"), strings.Contains(n, "hops"):
		return []uint64{0, 0, 1, 2, 3, 1024, 4096, 8 << 20, 8<<20 + 1, max}[rng.Intn(10)]
	}
	switch rng.Intn(8) {
	case 0:
		return 0
	case 1:
		return 1
	case 2:
		return max
	case 3:
		return max - 1
	case 4:
		return 1 << 31
	default:
		return uint64(rng.Intn(1000))
	}
}

func (g *c45Gen) genString(msgName, name string) string {
	rng := g.rng
	n := strings.ToLower(name)
	switch {
	case n == "address" || n == "hostname":
		return g.addrPool[rng.Intn(len(g.addrPool))]
	case n == "address_prefix":
		return vlib45Pick(rng, "10.0.0.0", "192.168.0.0", "::", "2001:db8::", "::ffff:10.0.0.0", "bad", "", "10.0.0.0")
	case strings.Contains(n, "regex") || n == "pattern":
		return vlib45Pick(rng, ".*", "^/svc/.*$", "(", "[a-", "a{1000000}", "", "\\", "(?i)x", "\xff")
	case n == "prefix" || n == "path" || strings.HasSuffix(n, "_match"):
		return vlib45Pick(rng, "/", "/svc/", "/svc/method", "", "x", "/\xff")
	case n == "transport_protocol":
		return vlib45Pick(rng, "", "", "raw_buffer", "raw_buffer", "tls")
	case n == "retry_on":
		return vlib45Pick(rng, "cancelled", "unavailable,internal", " Deadline-Exceeded , ,x", "", "5xx")
	case n == "type_url":
		return c45FilterTypeURLs[rng.Intn(len(c45FilterTypeURLs))]
	case n == "region" || n == "zone" || n == "sub_zone":
		return vlib45Pick(rng, "", "r1", "r2", "z", "r1")
	case n == "key" && strings.Contains(msgName, "FilterState"):
		return vlib45Pick(rng, "io.grpc.channel_id", "other")
	case strings.Contains(n, "instance_name") || strings.Contains(n, "certificate_name"):
		return vlib45Pick(rng, "", "default", "rootPlugin")
	case strings.Contains(n, "name") || strings.Contains(n, "cluster") || n == "sni":
		if rng.Intn(20) == 0 {
			return strings.Repeat("n", 200+rng.Intn(100))
		}
		return g.namePool[rng.Intn(len(g.namePool))]
	}
	switch rng.Intn(6) {
	case 0:
		return ""
	case 1:
		return string(c45RandBytes(rng, rng.Intn(6)))
	default:
		return vlib45Pick(rng, "x", "value", "a,b", "*", "lds.target.good:3333")
	}
}

func (g *c45Gen) listLen(name string) int {
	switch x := g.rng.Intn(40); {
	case x < 8:
		return 0
	case x < 22:
		return 1
	case x < 32:
		return 2
	case x < 38:
		return 3
	case x < 39:
		return 6
	default:
		if g.budget > 100 {
			return 30 // "huge" repeated field
		}
		return 4
	}
}

// scalar generates one value for a non-message field.
func (g *c45Gen) scalar(msg protoreflect.Message, fd protoreflect.FieldDescriptor) protoreflect.Value {
	rng := g.rng
	name := string(fd.Name())
	switch fd.Kind() {
	case protoreflect.BoolKind:
		return protoreflect.ValueOfBool(rng.Intn(2) == 0)
	case protoreflect.EnumKind:
		vals := fd.Enum().Values()
		if rng.Intn(10) == 0 {
			return protoreflect.ValueOfEnum(protoreflect.EnumNumber(vals.Len() + rng.Intn(50))) // unknown number
		}
		// bias towards the first few values (the supported ones are usually there)
		i := rng.Intn(vals.Len())
		if rng.Intn(2) == 0 && vals.Len() > 3 {
			i = rng.Intn(3)
		}
		return protoreflect.ValueOfEnum(vals.Get(i).Number())
	case protoreflect.Int32Kind, protoreflect.Sint32Kind, protoreflect.Sfixed32Kind:
		return protoreflect.ValueOfInt32([]int32{0, 1, -1, math.MaxInt32, math.MinInt32, int32(rng.Intn(1000)), 999999999, -999999999}[rng.Intn(8)])
	case protoreflect.Int64Kind, protoreflect.Sint64Kind, protoreflect.Sfixed64Kind:
		return protoreflect.ValueOfInt64([]int64{0, 1, -1, math.MaxInt64, math.MinInt64, int64(rng.Intn(1000)), 315576000000, 315576000001, -315576000001, 30}[rng.Intn(10)])
	case protoreflect.Uint32Kind, protoreflect.Fixed32Kind:
		return protoreflect.ValueOfUint32(uint32(g.genUint(name, 32)))
	case protoreflect.Uint64Kind, protoreflect.Fixed64Kind:
		return protoreflect.ValueOfUint64(g.genUint(name, 64))
	case protoreflect.FloatKind:
		return protoreflect.ValueOfFloat32([]float32{0, 1, -1, float32(math.NaN()), float32(math.Inf(1)), 0.5}[rng.Intn(6)])
	case protoreflect.DoubleKind:
		return protoreflect.ValueOfFloat64([]float64{0, 1, -1, math.NaN(), math.Inf(1), math.Inf(-1), 0.5, 100, 1e300}[rng.Intn(9)])
	case protoreflect.StringKind:
		return protoreflect.ValueOfString(g.genString(string(msg.Descriptor().Name()), name))
	case protoreflect.BytesKind:
		return protoreflect.ValueOfBytes(c45RandBytes(rng, rng.Intn(8)))
	}
	return protoreflect.Value{}
}

// wrapper / well-known types with their own biases
func (g *c45Gen) fillWellKnown(m protoreflect.Message, parentHint string, fieldName string, depth int) bool {
	rng := g.rng
	d := m.Descriptor()
	switch d.FullName() {
	case "google.protobuf.Any":
		a := g.genAny(parentHint, depth)
		m.Set(d.Fields().ByName("type_url"), protoreflect.ValueOfString(a.TypeUrl))
		m.Set(d.Fields().ByName("value"), protoreflect.ValueOfBytes(a.Value))
		return true
	case "google.protobuf.Duration", "google.protobuf.Timestamp":
		secs := []int64{0, 0, 1, 30, -1, 315576000000, 315576000001, -315576000001, math.MaxInt64, math.MinInt64, int64(rng.Intn(100))}[rng.Intn(11)]
		nanos := []int32{0, 0, 1, 999999999, 1000000000, -1, -999999999, math.MinInt32, int32(rng.Intn(1000000))}[rng.Intn(9)]
		m.Set(d.Fields().ByName("seconds"), protoreflect.ValueOfInt64(secs))
		m.Set(d.Fields().ByName("nanos"), protoreflect.ValueOfInt32(nanos))
		return true
	case "google.protobuf.UInt32Value":
		m.Set(d.Fields().ByName("value"), protoreflect.ValueOfUint32(uint32(g.genUint(fieldName, 32))))
		return true
	case "google.protobuf.UInt64Value":
		m.Set(d.Fields().ByName("value"), protoreflect.ValueOfUint64(g.genUint(fieldName, 64)))
		return true
	case "google.protobuf.BoolValue":
		m.Set(d.Fields().ByName("value"), protoreflect.ValueOfBool(rng.Intn(2) == 0))
		return true
	case "google.protobuf.Struct":
		s, _ := structpb.NewStruct(g.genStructMap(2))
		if s != nil {
			proto.Merge(m.Interface(), s)
		}
		return true
	case "google.protobuf.Value", "google.protobuf.ListValue":
		return false // generic fill is fine (bounded by depth)
	}
	return false
}

func (g *c45Gen) genStructMap(depth int) map[string]any {
	rng := g.rng
	out := map[string]any{}
	keys := []string{"hash_key", "service_name", "service_namespace", "k", "stat_prefix", "x"}
	for n := rng.Intn(4); n > 0; n-- {
		k := keys[rng.Intn(len(keys))]
		switch rng.Intn(6) {
		case 0:
			out[k] = float64(rng.Intn(100))
		case 1:
			out[k] = rng.Intn(2) == 0
		case 2:
			out[k] = nil
		case 3:
			if depth > 0 {
				out[k] = g.genStructMap(depth - 1)
			} else {
				out[k] = "leaf"
			}
		case 4:
			out[k] = []any{"a", float64(1)}
		default:
			out[k] = vlib45Pick(rng, "v", "", "hk")
		}
	}
	if rng.Intn(3) == 0 {
		out[vlib45Pick(rng, "envoy.lb", "com.google.csm.telemetry_labels")] = map[string]any{"hash_key": "h", "service_name": "svc", "service_namespace": "ns"}
	}
	return out
}

func (g *c45Gen) hint(m protoreflect.Message, fd protoreflect.FieldDescriptor) string {
	return string(m.Descriptor().FullName()) + "." + string(fd.Name())
}

// hintFor gives the role of an Any below field fd of message m.
func (g *c45Gen) anyHint(m protoreflect.Message, fd protoreflect.FieldDescriptor) string {
	mn := string(m.Descriptor().Name())
	fn := string(fd.Name())
	switch {
	case mn == "ApiListener":
		return "api_listener"
	case mn == "Filter" && strings.Contains(string(m.Descriptor().FullName()), "listener"):
		return "listener.filter."
	case mn == "HttpFilter":
		return "httpfilter"
	case fn == "typed_per_filter_config" || mn == "FilterConfig":
		return "typed_per_filter_config"
	case mn == "TransportSocket":
		return "transportsocket"
	case mn == "CustomClusterType":
		return "customclustertype"
	case mn == "TypedExtensionConfig":
		return "typedextensionconfig"
	}
	return mn + "." + fn
}

// fill populates m at random.  depth bounds recursion, g.budget bounds size.
func (g *c45Gen) fill(m protoreflect.Message, depth int) {
	rng := g.rng
	g.budget--
	d := m.Descriptor()
	fds := d.Fields()
	p := []float64{0.30, 0.30, 0.28, 0.25, 0.22, 0.18, 0.12, 0.08}
	prob := 0.05
	if depth < len(p) {
		prob = p[depth]
	}
	if fds.Len() <= 4 {
		prob = math.Max(prob, 0.55) // small messages: fill most of them
	}
	oneofDone := map[string]bool{}
	for i := 0; i < fds.Len(); i++ {
		fd := fds.Get(i)
		pp := prob
		// field-aware: the fields the parsers actually look at get set more often
		switch string(fd.Name()) {
		case "name", "cluster_name", "endpoints", "lb_endpoints", "endpoint", "address", "socket_address", "locality", "load_balancing_weight",
			"priority", "virtual_hosts", "routes", "match", "route", "cluster", "weighted_clusters", "clusters", "weight", "api_listener",
			"filter_chains", "filters", "typed_config", "http_filters", "rds", "route_config", "config_source", "ads", "eds_cluster_config",
			"eds_config", "type", "lb_policy", "port_value", "prefix", "path", "safe_regex", "domains", "common_tls_context", "transport_socket":
			pp = math.Max(pp, 0.7)
		}
		if rng.Float64() >= pp {
			continue
		}
		if oo := fd.ContainingOneof(); oo != nil && !oo.IsSynthetic() {
			if oneofDone[string(oo.Name())] {
				continue
			}
			oneofDone[string(oo.Name())] = true
			// pick any member of the oneof instead of always the first ones
			fd = oo.Fields().Get(rng.Intn(oo.Fields().Len()))
		}
		g.setField(m, fd, depth)
	}
}

func (g *c45Gen) newMessageValue(parent protoreflect.Message, fd protoreflect.FieldDescriptor, mm protoreflect.Message, depth int) {
	if g.fillWellKnown(mm, g.anyHint(parent, fd), string(fd.Name()), depth) {
		return
	}
	if depth >= 9 || g.budget <= 0 {
		return // leave empty
	}
	g.fill(mm, depth+1)
}

func (g *c45Gen) setField(m protoreflect.Message, fd protoreflect.FieldDescriptor, depth int) {
	rng := g.rng
	switch {
	case fd.IsMap():
		mp := m.Mutable(fd).Map()
		for n := rng.Intn(3); n > 0; n-- {
			var k protoreflect.MapKey
			switch fd.MapKey().Kind() {
			case protoreflect.StringKind:
				k = protoreflect.ValueOfString(vlib45Pick(rng, "a", "b", "router", "rbac", "envoy.lb", "com.google.csm.telemetry_labels", "")).MapKey()
			case protoreflect.BoolKind:
				k = protoreflect.ValueOfBool(rng.Intn(2) == 0).MapKey()
			case protoreflect.Int32Kind, protoreflect.Sint32Kind, protoreflect.Sfixed32Kind:
				k = protoreflect.ValueOfInt32(int32(rng.Intn(3))).MapKey()
			case protoreflect.Int64Kind, protoreflect.Sint64Kind, protoreflect.Sfixed64Kind:
				k = protoreflect.ValueOfInt64(int64(rng.Intn(3))).MapKey()
			case protoreflect.Uint32Kind, protoreflect.Fixed32Kind:
				k = protoreflect.ValueOfUint32(uint32(rng.Intn(3))).MapKey()
			default:
				k = protoreflect.ValueOfUint64(uint64(rng.Intn(3))).MapKey()
			}
			vd := fd.MapValue()
			if vd.Kind() == protoreflect.MessageKind || vd.Kind() == protoreflect.GroupKind {
				v := mp.NewValue()
				g.newMessageValue(m, fd, v.Message(), depth)
				mp.Set(k, v)
			} else {
				mp.Set(k, g.scalar(m, vd))
			}
		}
	case fd.IsList():
		l := m.Mutable(fd).List()
		n := g.listLen(string(fd.Name()))
		for ; n > 0 && g.budget > 0; n-- {
			if fd.Kind() == protoreflect.MessageKind || fd.Kind() == protoreflect.GroupKind {
				v := l.NewElement()
				g.newMessageValue(m, fd, v.Message(), depth)
				l.Append(v)
				// duplicate the element we just made now and then (duplicate
				// addresses, localities, filter names ...)
				if rng.Intn(7) == 0 {
					l.Append(protoreflect.ValueOfMessage(proto.Clone(v.Message().Interface()).ProtoReflect()))
				}
			} else {
				l.Append(g.scalar(m, fd))
			}
		}
	case fd.Kind() == protoreflect.MessageKind || fd.Kind() == protoreflect.GroupKind:
		mm := m.NewField(fd).Message()
		g.newMessageValue(m, fd, mm, depth)
		m.Set(fd, protoreflect.ValueOfMessage(mm))
	default:
		m.Set(fd, g.scalar(m, fd))
	}
}

// ---------------------------------------------------------------------------
// structural mutation of an existing (usually valid) message

func (g *c45Gen) mutate(m protoreflect.Message, depth int) {
	rng := g.rng
	d := m.Descriptor()
	if d.FullName() == "google.protobuf.Any" {
		g.mutateAny(m, depth)
		return
	}
	fds := d.Fields()
	if fds.Len() == 0 {
		return
	}
	var populated []protoreflect.FieldDescriptor
	var msgFields []protoreflect.FieldDescriptor
	m.Range(func(fd protoreflect.FieldDescriptor, v protoreflect.Value) bool {
		populated = append(populated, fd)
		isMsg := fd.Kind() == protoreflect.MessageKind || fd.Kind() == protoreflect.GroupKind
		if fd.IsMap() {
			isMsg = fd.MapValue().Kind() == protoreflect.MessageKind && v.Map().Len() > 0
		} else if fd.IsList() {
			isMsg = isMsg && v.List().Len() > 0
		}
		if isMsg {
			msgFields = append(msgFields, fd)
		}
		return true
	})
	// Range order is unspecified: sort by field number for determinism
	c45SortFDs(populated)
	c45SortFDs(msgFields)
	x := rng.Intn(100)
	switch {
	case x < 55 && len(msgFields) > 0 && depth < 14: // descend
		fd := msgFields[rng.Intn(len(msgFields))]
		switch {
		case fd.IsMap():
			mp := m.Mutable(fd).Map()
			var keys []protoreflect.MapKey
			mp.Range(func(k protoreflect.MapKey, _ protoreflect.Value) bool { keys = append(keys, k); return true })
			c45SortKeys(keys)
			g.mutate(mp.Mutable(keys[rng.Intn(len(keys))]).Message(), depth+1)
		case fd.IsList():
			l := m.Mutable(fd).List()
			g.mutate(l.Get(rng.Intn(l.Len())).Message(), depth+1)
		default:
			g.mutate(m.Mutable(fd).Message(), depth+1)
		}
	case x < 67 && len(populated) > 0: // clear
		m.Clear(populated[rng.Intn(len(populated))])
	case x < 82 && len(populated) > 0: // list surgery
		var lists []protoreflect.FieldDescriptor
		for _, fd := range populated {
			if fd.IsList() {
				lists = append(lists, fd)
			}
		}
		if len(lists) == 0 {
			g.setField(m, fds.Get(rng.Intn(fds.Len())), depth)
			return
		}
		fd := lists[rng.Intn(len(lists))]
		l := m.Mutable(fd).List()
		n := l.Len()
		isMsg := fd.Kind() == protoreflect.MessageKind
		clone := func(v protoreflect.Value) protoreflect.Value {
			if isMsg {
				return protoreflect.ValueOfMessage(proto.Clone(v.Message().Interface()).ProtoReflect())
			}
			return v
		}
		switch rng.Intn(5) {
		case 0, 1: // duplicate an element
			l.Append(clone(l.Get(rng.Intn(n))))
		case 2: // duplicate and tweak the copy
			c := clone(l.Get(rng.Intn(n)))
			if isMsg {
				g.mutate(c.Message(), depth+1)
			}
			l.Append(c)
		case 3: // drop the last
			l.Truncate(n - 1)
		default: // append a fresh one
			if isMsg {
				v := l.NewElement()
				g.newMessageValue(m, fd, v.Message(), depth)
				l.Append(v)
			} else {
				l.Append(g.scalar(m, fd))
			}
		}
	default: // (re)set a field, populated ones preferred
		var fd protoreflect.FieldDescriptor
		if len(populated) > 0 && rng.Intn(3) > 0 {
			fd = populated[rng.Intn(len(populated))]
		} else {
			fd = fds.Get(rng.Intn(fds.Len()))
		}
		if fd.IsList() || fd.IsMap() {
			m.Clear(fd)
		}
		g.setField(m, fd, depth)
	}
}

func (g *c45Gen) mutateAny(m protoreflect.Message, depth int) {
	rng := g.rng
	d := m.Descriptor()
	fu, fv := d.Fields().ByName("type_url"), d.Fields().ByName("value")
	url := m.Get(fu).String()
	val := m.Get(fv).Bytes()
	if rng.Intn(4) > 0 {
		// unpack, mutate inside, repack
		if i := strings.LastIndex(url, "/"); i >= 0 {
			if mt, err := protoregistry.GlobalTypes.FindMessageByName(protoreflect.FullName(url[i+1:])); err == nil {
				inner := mt.New()
				if (proto.UnmarshalOptions{AllowPartial: true}).Unmarshal(val, inner.Interface()) == nil {
					g.mutate(inner, depth+1)
					if b, err := (proto.MarshalOptions{AllowPartial: true}).Marshal(inner.Interface()); err == nil {
						m.Set(fv, protoreflect.ValueOfBytes(b))
						return
					}
				}
			}
		}
	}
	switch rng.Intn(4) {
	case 0:
		m.Set(fv, protoreflect.ValueOfBytes(c45MutateBytes(rng, val)))
	case 1:
		m.Set(fu, protoreflect.ValueOfString(vlib45Pick(rng, "", url+"x", "type.googleapis.com/does.not.Exist", "type.googleapis.com/envoy.config.core.v3.Address")))
	default:
		a := g.genAny(url, depth)
		m.Set(fu, protoreflect.ValueOfString(a.TypeUrl))
		m.Set(fv, protoreflect.ValueOfBytes(a.Value))
	}
}

func c45SortFDs(fds []protoreflect.FieldDescriptor) {
	for i := 1; i < len(fds); i++ {
		for j := i; j > 0 && fds[j].Number() < fds[j-1].Number(); j-- {
			fds[j], fds[j-1] = fds[j-1], fds[j]
		}
	}
}

func c45SortKeys(ks []protoreflect.MapKey) {
	for i := 1; i < len(ks); i++ {
		for j := i; j > 0 && fmt.Sprint(ks[j].Interface()) < fmt.Sprint(ks[j-1].Interface()); j-- {
			ks[j], ks[j-1] = ks[j-1], ks[j]
		}
	}
}

// ---------------------------------------------------------------------------
// byte-level mutation

func c45MutateBytes(rng *rand.Rand, in []byte) []byte {
	b := append([]byte(nil), in...)
	for n := 1 + rng.Intn(3); n > 0; n-- {
		if len(b) == 0 {
			return c45RandBytes(rng, 1+rng.Intn(8))
		}
		i := rng.Intn(len(b))
		switch rng.Intn(9) {
		case 0:
			b[i] ^= 1 << uint(rng.Intn(8))
		case 1:
			b[i] = byte(rng.Intn(256))
		case 2:
			b = b[:i] // truncate
		case 3: // insert random bytes
			ins := c45RandBytes(rng, 1+rng.Intn(4))
			b = append(b[:i:i], append(ins, b[i:]...)...)
		case 4: // delete a span
			j := i + rng.Intn(len(b)-i)
			b = append(b[:i:i], b[j:]...)
		case 5: // duplicate a span
			j := i + rng.Intn(len(b)-i)
			b = append(b[:j:j], append(append([]byte(nil), b[i:j]...), b[j:]...)...)
		case 6: // maximal varint
			b = append(b[:i:i], append([]byte{0xff, 0xff, 0xff, 0xff, 0xff, 0xff, 0xff, 0xff, 0xff, 0x01}, b[i:]...)...)
		case 7: // huge length prefix
			b = append(b[:i:i], append([]byte{0x0a, 0xff, 0xff, 0xff, 0xff, 0x07}, b[i:]...)...)
		default:
			b[i] = []byte{0x00, 0x7f, 0x80, 0xff, 0x0a, 0x12, 0x1a, 0x22}[rng.Intn(8)]
		}
	}
	return b
}

func protoreflectString(s string) protoreflect.Value { return protoreflect.ValueOfString(s) }
