// C45: xDS resource parsing is total, deterministic, and accepted resources
// satisfy the documented invariants.  The four unmarshal functions are called
// directly (the xDS client's optional panic recovery is not in the way); the
// harness turns a recoverable panic into a violation keyed by the panicking
// function and goes on, an unrecoverable death is attributed by the driver to
// the case logged by r.Progress before execution.
package xdsresource

import (
	"bytes"
	"encoding/json"
	"fmt"
	"math"
	"math/rand"
	"reflect"
	"regexp"
	"runtime"
	"strings"
	"testing"

	v3clusterpb "github.com/envoyproxy/go-control-plane/envoy/config/cluster/v3"
	v3corepb "github.com/envoyproxy/go-control-plane/envoy/config/core/v3"
	v3endpointpb "github.com/envoyproxy/go-control-plane/envoy/config/endpoint/v3"
	v3listenerpb "github.com/envoyproxy/go-control-plane/envoy/config/listener/v3"
	v3routepb "github.com/envoyproxy/go-control-plane/envoy/config/route/v3"
	v3aggregateclusterpb "github.com/envoyproxy/go-control-plane/envoy/extensions/clusters/aggregate/v3"
	v3xdsxdstypepb "github.com/cncf/xds/go/xds/type/v3"
	v3faultpb "github.com/envoyproxy/go-control-plane/envoy/extensions/filters/http/fault/v3"
	v3rbacpb "github.com/envoyproxy/go-control-plane/envoy/extensions/filters/http/rbac/v3"
	v3routerpb "github.com/envoyproxy/go-control-plane/envoy/extensions/filters/http/router/v3"
	v3httppb "github.com/envoyproxy/go-control-plane/envoy/extensions/filters/network/http_connection_manager/v3"
	v3ringhashpb "github.com/envoyproxy/go-control-plane/envoy/extensions/load_balancing_policies/ring_hash/v3"
	v3roundrobinpb "github.com/envoyproxy/go-control-plane/envoy/extensions/load_balancing_policies/round_robin/v3"
	v3wrrlocalitypb "github.com/envoyproxy/go-control-plane/envoy/extensions/load_balancing_policies/wrr_locality/v3"
	v3tlspb "github.com/envoyproxy/go-control-plane/envoy/extensions/transport_sockets/tls/v3"
	v3discoverypb "github.com/envoyproxy/go-control-plane/envoy/service/discovery/v3"
	v3matcherpb "github.com/envoyproxy/go-control-plane/envoy/type/matcher/v3"
	v3typepb "github.com/envoyproxy/go-control-plane/envoy/type/v3"
	vlib "google.golang.org/grpc/internal/verifvlib"
	"google.golang.org/grpc/internal/xds/httpfilter"
	_ "google.golang.org/grpc/internal/xds/httpfilter/fault" // more HTTP filters reachable
	"google.golang.org/grpc/internal/xds/matcher"
	"google.golang.org/grpc/internal/xds/xdsclient/xdsresource/version"
	"google.golang.org/protobuf/proto"
	"google.golang.org/protobuf/types/known/anypb"
	"google.golang.org/protobuf/types/known/durationpb"
	"google.golang.org/protobuf/types/known/wrapperspb"
)

const (
	c45LDS = iota
	c45RDS
	c45CDS
	c45EDS
)

var c45TypeName = []string{"LDS", "RDS", "CDS", "EDS"}
var c45TypeURL = []string{version.V3ListenerURL, version.V3RouteConfigURL, version.V3ClusterURL, version.V3EndpointsURL}

func c45Any(m proto.Message) *anypb.Any {
	b, err := proto.MarshalOptions{AllowPartial: true, Deterministic: true}.Marshal(m)
	if err != nil {
		panic("verif harness: cannot marshal template: " + err.Error())
	}
	return &anypb.Any{TypeUrl: "type.googleapis.com/" + string(m.ProtoReflect().Descriptor().FullName()), Value: b}
}

func c45New(t int) proto.Message {
	switch t {
	case c45LDS:
		return &v3listenerpb.Listener{}
	case c45RDS:
		return &v3routepb.RouteConfiguration{}
	case c45CDS:
		return &v3clusterpb.Cluster{}
	}
	return &v3endpointpb.ClusterLoadAssignment{}
}

// ---------------------------------------------------------------------------
// valid templates (the starting points of structural and byte mutation)

func c45Ads() *v3corepb.ConfigSource {
	return &v3corepb.ConfigSource{ConfigSourceSpecifier: &v3corepb.ConfigSource_Ads{Ads: &v3corepb.AggregatedConfigSource{}}}
}

func c45RouterFilter(name string) *v3httppb.HttpFilter {
	return &v3httppb.HttpFilter{Name: name, ConfigType: &v3httppb.HttpFilter_TypedConfig{TypedConfig: c45Any(&v3routerpb.Router{})}}
}

func c45RouteCfgTemplate(rng *rand.Rand) *v3routepb.RouteConfiguration {
	u32 := func(v uint32) *wrapperspb.UInt32Value { return wrapperspb.UInt32(v) }
	routes := []*v3routepb.Route{
		{
			Match: &v3routepb.RouteMatch{PathSpecifier: &v3routepb.RouteMatch_Prefix{Prefix: "/svc/"},
				Headers: []*v3routepb.HeaderMatcher{
					{Name: "x-a", HeaderMatchSpecifier: &v3routepb.HeaderMatcher_StringMatch{StringMatch: &v3matcherpb.StringMatcher{MatchPattern: &v3matcherpb.StringMatcher_Exact{Exact: "v"}}}},
					{Name: "x-b", HeaderMatchSpecifier: &v3routepb.HeaderMatcher_RangeMatch{RangeMatch: &v3typepb.Int64Range{Start: 1, End: 5}}, InvertMatch: true},
					{Name: "x-c", HeaderMatchSpecifier: &v3routepb.HeaderMatcher_SafeRegexMatch{SafeRegexMatch: &v3matcherpb.RegexMatcher{Regex: "a.*"}}},
				},
				RuntimeFraction: &v3corepb.RuntimeFractionalPercent{DefaultValue: &v3typepb.FractionalPercent{Numerator: 50, Denominator: v3typepb.FractionalPercent_HUNDRED}},
			},
			Action: &v3routepb.Route_Route{Route: &v3routepb.RouteAction{
				ClusterSpecifier: &v3routepb.RouteAction_WeightedClusters{WeightedClusters: &v3routepb.WeightedCluster{
					Clusters: []*v3routepb.WeightedCluster_ClusterWeight{{Name: "a", Weight: u32(2)}, {Name: "b", Weight: u32(3)}, {Name: "zero", Weight: u32(0)}}}},
				HashPolicy: []*v3routepb.RouteAction_HashPolicy{
					{PolicySpecifier: &v3routepb.RouteAction_HashPolicy_Header_{Header: &v3routepb.RouteAction_HashPolicy_Header{HeaderName: "h",
						RegexRewrite: &v3matcherpb.RegexMatchAndSubstitute{Pattern: &v3matcherpb.RegexMatcher{Regex: "a"}, Substitution: "b"}}}},
					{PolicySpecifier: &v3routepb.RouteAction_HashPolicy_FilterState_{FilterState: &v3routepb.RouteAction_HashPolicy_FilterState{Key: "io.grpc.channel_id"}}},
				},
				MaxStreamDuration: &v3routepb.RouteAction_MaxStreamDuration{MaxStreamDuration: durationpb.New(1e9)},
				RetryPolicy:       &v3routepb.RetryPolicy{RetryOn: "cancelled,unavailable", NumRetries: u32(2), RetryBackOff: &v3routepb.RetryPolicy_RetryBackOff{BaseInterval: durationpb.New(1e7), MaxInterval: durationpb.New(1e8)}},
			}},
		},
		{
			Match:  &v3routepb.RouteMatch{PathSpecifier: &v3routepb.RouteMatch_Path{Path: "/svc/m"}, CaseSensitive: wrapperspb.Bool(false)},
			Action: &v3routepb.Route_Route{Route: &v3routepb.RouteAction{ClusterSpecifier: &v3routepb.RouteAction_Cluster{Cluster: "a"}}},
		},
		{
			Match:  &v3routepb.RouteMatch{PathSpecifier: &v3routepb.RouteMatch_SafeRegex{SafeRegex: &v3matcherpb.RegexMatcher{Regex: "/x/.*"}}},
			Action: &v3routepb.Route_NonForwardingAction{NonForwardingAction: &v3routepb.NonForwardingAction{}},
		},
		{
			Match:  &v3routepb.RouteMatch{PathSpecifier: &v3routepb.RouteMatch_Prefix{Prefix: ""}},
			Action: &v3routepb.Route_Redirect{Redirect: &v3routepb.RedirectAction{}},
		},
	}
	rng.Shuffle(len(routes), func(i, j int) { routes[i], routes[j] = routes[j], routes[i] })
	routes = routes[:1+rng.Intn(len(routes))]
	return &v3routepb.RouteConfiguration{
		Name: "route-1",
		VirtualHosts: []*v3routepb.VirtualHost{
			{Name: "vh", Domains: []string{"lds.target.good:3333", "*"}, Routes: routes, RetryPolicy: &v3routepb.RetryPolicy{RetryOn: "internal"}},
		},
	}
}

// c45IgnoredFilters returns 1-3 HTTP filters that the parser skips: optional
// filters whose config type has no registered implementation (plain Any of an
// unregistered message, TypedStruct naming an unknown type) or, with
// sideOnly, optional filters that exist but are not supported on that side
// (fault is client-only, rbac is server-only).
func c45IgnoredFilters(rng *rand.Rand, n int, server bool) []*v3httppb.HttpFilter {
	var out []*v3httppb.HttpFilter
	for i := 0; i < n; i++ {
		var cfg *anypb.Any
		switch rng.Intn(5) {
		case 0:
			cfg = c45Any(&v3corepb.Address{})
		case 1:
			cfg = &anypb.Any{TypeUrl: "type.googleapis.com/no.such.Filter", Value: []byte{}}
		case 2:
			cfg = c45Any(&v3xdsxdstypepb.TypedStruct{TypeUrl: "type.googleapis.com/unknown.Filter"})
		case 3:
			if server {
				cfg = c45Any(&v3faultpb.HTTPFault{}) // client-only filter in a server listener
			} else {
				cfg = c45Any(&v3rbacpb.RBAC{}) // server-only filter in a client listener
			}
		default:
			cfg = &anypb.Any{TypeUrl: "custom.filter"}
		}
		out = append(out, &v3httppb.HttpFilter{Name: fmt.Sprintf("opt-%d", i), IsOptional: true, ConfigType: &v3httppb.HttpFilter_TypedConfig{TypedConfig: cfg}})
	}
	return out
}

func c45HCM(rng *rand.Rand, server bool) *v3httppb.HttpConnectionManager {
	hcm := &v3httppb.HttpConnectionManager{HttpFilters: []*v3httppb.HttpFilter{c45RouterFilter("router")}}
	switch rng.Intn(8) {
	case 0: // every filter is optional and ignored: nothing survives
		hcm.HttpFilters = c45IgnoredFilters(rng, 1+rng.Intn(3), server)
	case 1: // ignored optional filters in front of the router
		hcm.HttpFilters = append(c45IgnoredFilters(rng, 1+rng.Intn(3), server), c45RouterFilter("router"))
	case 2: // ignored optional filters after the router
		hcm.HttpFilters = append([]*v3httppb.HttpFilter{c45RouterFilter("router")}, c45IgnoredFilters(rng, 1+rng.Intn(2), server)...)
	}
	if rng.Intn(2) == 0 {
		hcm.RouteSpecifier = &v3httppb.HttpConnectionManager_Rds{Rds: &v3httppb.Rds{ConfigSource: c45Ads(), RouteConfigName: "route-1"}}
	} else {
		rc := c45RouteCfgTemplate(rng)
		if server {
			for _, vh := range rc.VirtualHosts {
				for _, r := range vh.Routes {
					r.Action = &v3routepb.Route_NonForwardingAction{NonForwardingAction: &v3routepb.NonForwardingAction{}}
				}
			}
		}
		hcm.RouteSpecifier = &v3httppb.HttpConnectionManager_RouteConfig{RouteConfig: rc}
	}
	if rng.Intn(3) == 0 {
		hcm.CommonHttpProtocolOptions = &v3corepb.HttpProtocolOptions{MaxStreamDuration: durationpb.New(5e9)}
	}
	return hcm
}

func c45DownstreamTLS() *v3corepb.TransportSocket {
	return &v3corepb.TransportSocket{Name: "envoy.transport_sockets.tls", ConfigType: &v3corepb.TransportSocket_TypedConfig{TypedConfig: c45Any(&v3tlspb.DownstreamTlsContext{
		RequireClientCertificate: wrapperspb.Bool(true),
		CommonTlsContext: &v3tlspb.CommonTlsContext{
			TlsCertificateProviderInstance: &v3tlspb.CertificateProviderPluginInstance{InstanceName: "id", CertificateName: "c"},
			ValidationContextType: &v3tlspb.CommonTlsContext_ValidationContext{ValidationContext: &v3tlspb.CertificateValidationContext{
				CaCertificateProviderInstance: &v3tlspb.CertificateProviderPluginInstance{InstanceName: "root", CertificateName: "c"}}},
		}})}}
}

func c45UpstreamTLS() *v3corepb.TransportSocket {
	return &v3corepb.TransportSocket{Name: "envoy.transport_sockets.tls", ConfigType: &v3corepb.TransportSocket_TypedConfig{TypedConfig: c45Any(&v3tlspb.UpstreamTlsContext{
		Sni: "sni.example.com",
		CommonTlsContext: &v3tlspb.CommonTlsContext{
			TlsCertificateProviderInstance: &v3tlspb.CertificateProviderPluginInstance{InstanceName: "id"},
			ValidationContextType: &v3tlspb.CommonTlsContext_CombinedValidationContext{CombinedValidationContext: &v3tlspb.CommonTlsContext_CombinedCertificateValidationContext{
				DefaultValidationContext: &v3tlspb.CertificateValidationContext{
					CaCertificateProviderInstance: &v3tlspb.CertificateProviderPluginInstance{InstanceName: "root"},
					MatchSubjectAltNames:          []*v3matcherpb.StringMatcher{{MatchPattern: &v3matcherpb.StringMatcher_Prefix{Prefix: "spiffe://"}}},
				}}},
		}})}}
}

func c45Template(rng *rand.Rand, t int) proto.Message {
	u32 := func(v uint32) *wrapperspb.UInt32Value { return wrapperspb.UInt32(v) }
	switch t {
	case c45RDS:
		return c45RouteCfgTemplate(rng)
	case c45LDS:
		if rng.Intn(2) == 0 {
			return &v3listenerpb.Listener{Name: "lds.target.good:3333", ApiListener: &v3listenerpb.ApiListener{ApiListener: c45Any(c45HCM(rng, false))}}
		}
		fc := func(name string, m *v3listenerpb.FilterChainMatch, tls bool) *v3listenerpb.FilterChain {
			c := &v3listenerpb.FilterChain{Name: name, FilterChainMatch: m,
				Filters: []*v3listenerpb.Filter{{Name: "hcm", ConfigType: &v3listenerpb.Filter_TypedConfig{TypedConfig: c45Any(c45HCM(rng, true))}}}}
			if tls {
				c.TransportSocket = c45DownstreamTLS()
			}
			return c
		}
		l := &v3listenerpb.Listener{
			Name:    "grpc/server?xds.resource.listening_address=0.0.0.0:9999",
			Address: &v3corepb.Address{Address: &v3corepb.Address_SocketAddress{SocketAddress: &v3corepb.SocketAddress{Address: "0.0.0.0", PortSpecifier: &v3corepb.SocketAddress_PortValue{PortValue: 9999}}}},
			FilterChains: []*v3listenerpb.FilterChain{
				fc("fc1", &v3listenerpb.FilterChainMatch{PrefixRanges: []*v3corepb.CidrRange{{AddressPrefix: "192.168.0.0", PrefixLen: u32(16)}}, SourceType: v3listenerpb.FilterChainMatch_SAME_IP_OR_LOOPBACK,
					SourcePrefixRanges: []*v3corepb.CidrRange{{AddressPrefix: "10.0.0.0", PrefixLen: u32(8)}}, SourcePorts: []uint32{80, 81}}, true),
				fc("fc2", &v3listenerpb.FilterChainMatch{TransportProtocol: "raw_buffer"}, false),
				fc("fc3", &v3listenerpb.FilterChainMatch{PrefixRanges: []*v3corepb.CidrRange{{AddressPrefix: "2001:db8::", PrefixLen: u32(32)}}}, rng.Intn(2) == 0),
			},
		}
		if rng.Intn(2) == 0 {
			l.DefaultFilterChain = fc("default", nil, rng.Intn(2) == 0)
		}
		l.FilterChains = l.FilterChains[:rng.Intn(len(l.FilterChains)+1)]
		if len(l.FilterChains) == 0 && l.DefaultFilterChain == nil {
			l.DefaultFilterChain = fc("default", nil, false)
		}
		return l
	case c45CDS:
		c := &v3clusterpb.Cluster{Name: "cluster-1", LbPolicy: v3clusterpb.Cluster_ROUND_ROBIN}
		switch rng.Intn(4) {
		case 0, 1:
			c.ClusterDiscoveryType = &v3clusterpb.Cluster_Type{Type: v3clusterpb.Cluster_EDS}
			c.EdsClusterConfig = &v3clusterpb.Cluster_EdsClusterConfig{EdsConfig: c45Ads(), ServiceName: "eds-svc"}
		case 2:
			c.ClusterDiscoveryType = &v3clusterpb.Cluster_Type{Type: v3clusterpb.Cluster_LOGICAL_DNS}
			c.LoadAssignment = &v3endpointpb.ClusterLoadAssignment{Endpoints: []*v3endpointpb.LocalityLbEndpoints{{LbEndpoints: []*v3endpointpb.LbEndpoint{{
				HostIdentifier: &v3endpointpb.LbEndpoint_Endpoint{Endpoint: &v3endpointpb.Endpoint{Address: &v3corepb.Address{Address: &v3corepb.Address_SocketAddress{
					SocketAddress: &v3corepb.SocketAddress{Address: "dns.example.com", PortSpecifier: &v3corepb.SocketAddress_PortValue{PortValue: 443}}}}}}}}}}}
		default:
			c.ClusterDiscoveryType = &v3clusterpb.Cluster_ClusterType{ClusterType: &v3clusterpb.Cluster_CustomClusterType{Name: "envoy.clusters.aggregate",
				TypedConfig: c45Any(&v3aggregateclusterpb.ClusterConfig{Clusters: []string{"a", "b"}})}}
		}
		switch rng.Intn(5) {
		case 0:
			c.LbPolicy = v3clusterpb.Cluster_RING_HASH
			c.LbConfig = &v3clusterpb.Cluster_RingHashLbConfig_{RingHashLbConfig: &v3clusterpb.Cluster_RingHashLbConfig{MinimumRingSize: wrapperspb.UInt64(1024), MaximumRingSize: wrapperspb.UInt64(4096)}}
		case 1:
			c.LbPolicy = v3clusterpb.Cluster_LEAST_REQUEST
			c.LbConfig = &v3clusterpb.Cluster_LeastRequestLbConfig_{LeastRequestLbConfig: &v3clusterpb.Cluster_LeastRequestLbConfig{ChoiceCount: u32(3)}}
		case 2:
			c.LoadBalancingPolicy = &v3clusterpb.LoadBalancingPolicy{Policies: []*v3clusterpb.LoadBalancingPolicy_Policy{
				{TypedExtensionConfig: &v3corepb.TypedExtensionConfig{Name: "unknown", TypedConfig: c45Any(&v3corepb.Address{})}},
				{TypedExtensionConfig: &v3corepb.TypedExtensionConfig{Name: "wrr", TypedConfig: c45Any(&v3wrrlocalitypb.WrrLocality{EndpointPickingPolicy: &v3clusterpb.LoadBalancingPolicy{
					Policies: []*v3clusterpb.LoadBalancingPolicy_Policy{{TypedExtensionConfig: &v3corepb.TypedExtensionConfig{TypedConfig: c45Any(&v3roundrobinpb.RoundRobin{})}}}}})}},
			}}
		case 3:
			c.LoadBalancingPolicy = &v3clusterpb.LoadBalancingPolicy{Policies: []*v3clusterpb.LoadBalancingPolicy_Policy{
				{TypedExtensionConfig: &v3corepb.TypedExtensionConfig{TypedConfig: c45Any(&v3ringhashpb.RingHash{HashFunction: v3ringhashpb.RingHash_XX_HASH, MinimumRingSize: wrapperspb.UInt64(10), MaximumRingSize: wrapperspb.UInt64(100)})}}}}
		}
		if rng.Intn(3) == 0 {
			c.TransportSocket = c45UpstreamTLS()
		}
		if rng.Intn(3) == 0 {
			c.OutlierDetection = &v3clusterpb.OutlierDetection{Interval: durationpb.New(1e10), MaxEjectionPercent: u32(10), EnforcingSuccessRate: u32(100), EnforcingFailurePercentage: u32(50), FailurePercentageThreshold: u32(85)}
		}
		if rng.Intn(3) == 0 {
			c.CircuitBreakers = &v3clusterpb.CircuitBreakers{Thresholds: []*v3clusterpb.CircuitBreakers_Thresholds{{Priority: v3corepb.RoutingPriority_DEFAULT, MaxRequests: u32(512)}}}
		}
		if rng.Intn(3) == 0 {
			c.LrsServer = &v3corepb.ConfigSource{ConfigSourceSpecifier: &v3corepb.ConfigSource_Self{Self: &v3corepb.SelfConfigSource{}}}
		}
		return c
	}
	// EDS
	ep := func(addr string, port uint32, w uint32) *v3endpointpb.LbEndpoint {
		e := &v3endpointpb.LbEndpoint{HostIdentifier: &v3endpointpb.LbEndpoint_Endpoint{Endpoint: &v3endpointpb.Endpoint{Address: &v3corepb.Address{Address: &v3corepb.Address_SocketAddress{
			SocketAddress: &v3corepb.SocketAddress{Address: addr, PortSpecifier: &v3corepb.SocketAddress_PortValue{PortValue: port}}}}}}}
		if w != 0 {
			e.LoadBalancingWeight = u32(w)
		}
		return e
	}
	big := uint32(1 << 31)
	if rng.Intn(3) == 0 {
		// weight stress: locality and endpoint weight sums at and around 2^32 at
		// every priority
		heavy := []uint32{big, big - 1, big + 1, math.MaxUint32, math.MaxUint32 - 1, 1, 1, 2}
		st := &v3endpointpb.ClusterLoadAssignment{ClusterName: "eds-svc"}
		nloc := 2 + rng.Intn(4)
		nprio := 1 + rng.Intn(3)
		for li := 0; li < nloc; li++ {
			prio := uint32(li % nprio)
			if rng.Intn(6) == 0 {
				prio = uint32(rng.Intn(nprio))
			}
			l := &v3endpointpb.LocalityLbEndpoints{Locality: &v3corepb.Locality{Region: fmt.Sprintf("r%d", li), Zone: "z"}, Priority: prio, LoadBalancingWeight: u32(heavy[rng.Intn(len(heavy))])}
			for ei := 1 + rng.Intn(3); ei > 0; ei-- {
				l.LbEndpoints = append(l.LbEndpoints, ep(fmt.Sprintf("10.%d.0.%d", li, ei), 80, heavy[rng.Intn(len(heavy))]))
			}
			st.Endpoints = append(st.Endpoints, l)
		}
		return st
	}
	cla := &v3endpointpb.ClusterLoadAssignment{ClusterName: "eds-svc",
		Endpoints: []*v3endpointpb.LocalityLbEndpoints{
			{Locality: &v3corepb.Locality{Region: "r1", Zone: "z1"}, Priority: 0, LoadBalancingWeight: u32(big - 1), LbEndpoints: []*v3endpointpb.LbEndpoint{ep("10.0.0.1", 80, big-1), ep("10.0.0.2", 80, big)}},
			{Locality: &v3corepb.Locality{Region: "r2", Zone: "z1"}, Priority: 0, LoadBalancingWeight: u32(big), LbEndpoints: []*v3endpointpb.LbEndpoint{ep("10.0.0.3", 80, 0)}},
			{Locality: &v3corepb.Locality{Region: "r1", Zone: "z1"}, Priority: 1, LoadBalancingWeight: u32(1), LbEndpoints: []*v3endpointpb.LbEndpoint{ep("10.0.0.4", 80, 1), ep("::1", 80, 2)}},
			{Locality: &v3corepb.Locality{Region: "r3"}, Priority: 2, LoadBalancingWeight: u32(0), LbEndpoints: []*v3endpointpb.LbEndpoint{ep("10.0.0.5", 80, 1)}},
		},
		Policy: &v3endpointpb.ClusterLoadAssignment_Policy{DropOverloads: []*v3endpointpb.ClusterLoadAssignment_Policy_DropOverload{
			{Category: "lb", DropPercentage: &v3typepb.FractionalPercent{Numerator: 5, Denominator: v3typepb.FractionalPercent_HUNDRED}}}},
	}
	cla.Endpoints = cla.Endpoints[:1+rng.Intn(len(cla.Endpoints))]
	return cla
}

// ---------------------------------------------------------------------------
// structural equality of two updates (determinism oracle)

var c45RegexpT = reflect.TypeOf(&regexp.Regexp{})
var c45ProtoMsgT = reflect.TypeOf((*proto.Message)(nil)).Elem()
var c45FilterCfgT = reflect.TypeOf((*httpfilter.FilterConfig)(nil)).Elem()
var c45BuilderT = reflect.TypeOf((*httpfilter.Builder)(nil)).Elem()
var c45StringMatcherT = reflect.TypeOf(matcher.StringMatcher{})

// c45Equal compares two update values field by field.  Opaque third-party
// values are compared as far as that is meaningful: regexps by source,
// protos by proto.Equal, HTTP filter configs / builders by dynamic type only
// (e.g. the RBAC engine keeps its policies in Go-map order).
func c45Equal(a, b reflect.Value, path string) string {
	if a.IsValid() != b.IsValid() {
		return path + ": validity differs"
	}
	if !a.IsValid() {
		return ""
	}
	if a.Type() != b.Type() {
		return fmt.Sprintf("%s: type %v vs %v", path, a.Type(), b.Type())
	}
	t := a.Type()
	switch {
	case t == c45RegexpT:
		if a.IsNil() != b.IsNil() {
			return path + ": regexp nil-ness differs"
		}
		if !a.IsNil() && a.MethodByName("String").Call(nil)[0].String() != b.MethodByName("String").Call(nil)[0].String() {
			return path + ": regexp differs"
		}
		return ""
	case t == c45StringMatcherT:
		if a.CanInterface() {
			if !a.Interface().(matcher.StringMatcher).Equal(b.Interface().(matcher.StringMatcher)) {
				return path + ": string matcher differs"
			}
			return ""
		}
	case t.Implements(c45ProtoMsgT) && a.Kind() == reflect.Pointer:
		if a.IsNil() != b.IsNil() {
			return path + ": proto nil-ness differs"
		}
		if !a.IsNil() && a.CanInterface() && !proto.Equal(a.Interface().(proto.Message), b.Interface().(proto.Message)) {
			return path + ": proto message differs"
		}
		return ""
	case t == c45FilterCfgT || t == c45BuilderT:
		if a.IsNil() != b.IsNil() {
			return path + ": nil-ness differs"
		}
		if !a.IsNil() && a.Elem().Type() != b.Elem().Type() {
			return fmt.Sprintf("%s: dynamic type %v vs %v", path, a.Elem().Type(), b.Elem().Type())
		}
		return ""
	}
	switch a.Kind() {
	case reflect.Pointer, reflect.Interface:
		if a.IsNil() != b.IsNil() {
			return path + ": nil-ness differs"
		}
		if a.IsNil() {
			return ""
		}
		return c45Equal(a.Elem(), b.Elem(), path)
	case reflect.Struct:
		for i := 0; i < a.NumField(); i++ {
			if d := c45Equal(a.Field(i), b.Field(i), path+"."+t.Field(i).Name); d != "" {
				return d
			}
		}
		return ""
	case reflect.Slice, reflect.Array:
		if a.Kind() == reflect.Slice && a.IsNil() != b.IsNil() {
			return path + ": nil-ness differs"
		}
		if a.Len() != b.Len() {
			return fmt.Sprintf("%s: len %d vs %d", path, a.Len(), b.Len())
		}
		for i := 0; i < a.Len(); i++ {
			if d := c45Equal(a.Index(i), b.Index(i), fmt.Sprintf("%s[%d]", path, i)); d != "" {
				return d
			}
		}
		return ""
	case reflect.Map:
		if a.Len() != b.Len() {
			return fmt.Sprintf("%s: map len %d vs %d", path, a.Len(), b.Len())
		}
		it := a.MapRange()
		for it.Next() {
			bv := b.MapIndex(it.Key())
			if !bv.IsValid() {
				return fmt.Sprintf("%s: key %v missing", path, it.Key())
			}
			if d := c45Equal(it.Value(), bv, fmt.Sprintf("%s[%v]", path, it.Key())); d != "" {
				return d
			}
		}
		return ""
	case reflect.Func, reflect.Chan, reflect.UnsafePointer:
		if a.IsNil() != b.IsNil() {
			return path + ": nil-ness differs"
		}
		return ""
	case reflect.Float32, reflect.Float64:
		if a.Float() != b.Float() && !(math.IsNaN(a.Float()) && math.IsNaN(b.Float())) {
			return path + ": float differs"
		}
		return ""
	case reflect.Bool:
		if a.Bool() != b.Bool() {
			return path + ": bool differs"
		}
	case reflect.Int, reflect.Int8, reflect.Int16, reflect.Int32, reflect.Int64:
		if a.Int() != b.Int() {
			return fmt.Sprintf("%s: %d vs %d", path, a.Int(), b.Int())
		}
	case reflect.Uint, reflect.Uint8, reflect.Uint16, reflect.Uint32, reflect.Uint64, reflect.Uintptr:
		if a.Uint() != b.Uint() {
			return fmt.Sprintf("%s: %d vs %d", path, a.Uint(), b.Uint())
		}
	case reflect.String:
		if a.String() != b.String() {
			return fmt.Sprintf("%s: %q vs %q", path, a.String(), b.String())
		}
	case reflect.Complex64, reflect.Complex128:
		if a.Complex() != b.Complex() {
			return path + ": complex differs"
		}
	}
	return ""
}

// ---------------------------------------------------------------------------
// invariants of accepted updates (from the statement and the documented types)

type c45Viol struct{ key, msg string }

func c45CheckEDS(u EndpointsUpdate) *c45Viol {
	prios := map[uint32]bool{}
	type lp struct {
		r, z, s string
		p       uint32
	}
	seenLP := map[lp]bool{}
	seenAddr := map[string]bool{}
	sumPrio := map[uint32]uint64{}
	for _, l := range u.Localities {
		prios[l.Priority] = true
		k := lp{l.ID.Region, l.ID.Zone, l.ID.SubZone, l.Priority}
		if seenLP[k] {
			return &c45Viol{"eds-duplicate-locality-priority", fmt.Sprintf("locality %+v appears twice at priority %d", l.ID, l.Priority)}
		}
		seenLP[k] = true
		if l.Weight == 0 {
			return &c45Viol{"eds-zero-locality-weight", fmt.Sprintf("accepted locality %+v has weight 0", l.ID)}
		}
		sumPrio[l.Priority] += uint64(l.Weight)
		var sumEp uint64
		for _, e := range l.Endpoints {
			if e.Weight == 0 {
				return &c45Viol{"eds-zero-endpoint-weight", fmt.Sprintf("endpoint %v has weight 0", e.ResolverEndpoint.Addresses)}
			}
			sumEp += uint64(e.Weight)
			if len(e.ResolverEndpoint.Addresses) == 0 {
				return &c45Viol{"eds-endpoint-without-address", "accepted endpoint has no address"}
			}
			for _, a := range e.ResolverEndpoint.Addresses {
				if seenAddr[a.Addr] {
					return &c45Viol{"eds-duplicate-address", fmt.Sprintf("address %q appears twice in the accepted update", a.Addr)}
				}
				seenAddr[a.Addr] = true
			}
		}
		if sumEp > math.MaxUint32 {
			return &c45Viol{"eds-endpoint-weight-sum-overflow", fmt.Sprintf("endpoint weights of locality %+v sum to %d > MaxUint32", l.ID, sumEp)}
		}
	}
	for p, s := range sumPrio {
		if s > math.MaxUint32 {
			return &c45Viol{"eds-locality-weight-sum-overflow", fmt.Sprintf("locality weights at priority %d sum to %d > MaxUint32", p, s)}
		}
	}
	for i := 0; i < len(prios); i++ {
		if !prios[uint32(i)] {
			return &c45Viol{"eds-priority-gap", fmt.Sprintf("priorities %v are not contiguous from 0", prios)}
		}
	}
	for _, d := range u.Drops {
		if d.Denominator != 100 && d.Denominator != 10000 && d.Denominator != 1000000 {
			return &c45Viol{"eds-drop-denominator", fmt.Sprintf("drop config %+v has an unsupported denominator", d)}
		}
	}
	return nil
}

func c45CheckRDS(u *RouteConfigUpdate) *c45Viol {
	for vi, vh := range u.VirtualHosts {
		if vh == nil {
			return &c45Viol{"rds-nil-virtual-host", "nil virtual host in accepted update"}
		}
		for ri, r := range vh.Routes {
			where := fmt.Sprintf("vh %d route %d", vi, ri)
			if r == nil {
				return &c45Viol{"rds-nil-route", where + " is nil"}
			}
			n := 0
			if r.Prefix != nil {
				n++
			}
			if r.Path != nil {
				n++
			}
			if r.Regex != nil {
				n++
			}
			if n != 1 {
				return &c45Viol{"rds-route-without-path-matcher", fmt.Sprintf("%s has %d path matchers (prefix/path/regex), want exactly 1", where, n)}
			}
			// R2: routes whose action gRPC does not support are kept by design
			// (gRFC A36) but must be flagged RouteActionUnsupported; "a supported
			// action" is read as "a known ActionType consistent with its fields".
			switch r.ActionType {
			case RouteActionRoute:
				var sum uint64
				for _, wc := range r.WeightedClusters {
					if wc.Weight == 0 {
						return &c45Viol{"rds-zero-cluster-weight", where + " keeps a cluster with weight 0"}
					}
					sum += uint64(wc.Weight)
				}
				hasWC, hasCSP := len(r.WeightedClusters) > 0, r.ClusterSpecifierPlugin != ""
				if hasWC == hasCSP {
					return &c45Viol{"rds-route-action-without-cluster", fmt.Sprintf("%s: route action with %d weighted clusters and cluster specifier plugin %q (exactly one expected)", where, len(r.WeightedClusters), r.ClusterSpecifierPlugin)}
				}
				if hasWC && (sum == 0 || sum > math.MaxUint32) {
					return &c45Viol{"rds-weighted-clusters-total", fmt.Sprintf("%s: weighted clusters total %d not in (0, MaxUint32]", where, sum)}
				}
				if hasCSP {
					if cfg, ok := u.ClusterSpecifierPlugins[r.ClusterSpecifierPlugin]; !ok || cfg == nil {
						return &c45Viol{"rds-unknown-cluster-specifier-plugin", where + " references a plugin that is not in the update"}
					}
				}
			case RouteActionNonForwardingAction, RouteActionUnsupported:
				if len(r.WeightedClusters) > 0 || r.ClusterSpecifierPlugin != "" {
					return &c45Viol{"rds-non-route-action-with-clusters", where + " is not a route action but carries clusters"}
				}
			default:
				return &c45Viol{"rds-unknown-action-type", fmt.Sprintf("%s has action type %d", where, r.ActionType)}
			}
			for _, h := range r.Headers {
				if h == nil {
					return &c45Viol{"rds-nil-header-matcher", where + " has a nil header matcher"}
				}
				k := 0
				if h.StringMatch != nil {
					k++
				}
				if h.RegexMatch != nil {
					k++
				}
				if h.RangeMatch != nil {
					k++
				}
				if h.PresentMatch != nil {
					k++
				}
				if k != 1 {
					return &c45Viol{"rds-header-matcher-without-specifier", fmt.Sprintf("%s header %q has %d match specifiers", where, h.Name, k)}
				}
			}
			if rc := r.RetryConfig; rc != nil && len(rc.RetryOn) > 0 && (rc.NumRetries < 1 || rc.RetryBackoff.BaseInterval <= 0 || rc.RetryBackoff.MaxInterval <= 0) {
				return &c45Viol{"rds-invalid-retry-config", fmt.Sprintf("%s retry config %+v", where, *rc)}
			}
		}
	}
	return nil
}

func c45CheckHCM(h *HTTPConnectionManagerConfig, where string) *c45Viol {
	if h == nil {
		return &c45Viol{"lds-missing-hcm", where + ": no HTTP connection manager"}
	}
	if (h.RouteConfigName != "") == (h.InlineRouteConfig != nil) {
		return &c45Viol{"lds-route-specifier", fmt.Sprintf("%s: RouteConfigName=%q and inline=%v; exactly one must be set", where, h.RouteConfigName, h.InlineRouteConfig != nil)}
	}
	if h.InlineRouteConfig != nil {
		if v := c45CheckRDS(h.InlineRouteConfig); v != nil {
			v.msg = where + " inline route config: " + v.msg
			return v
		}
	}
	if len(h.HTTPFilters) == 0 {
		return &c45Viol{"lds-no-http-filters", where + ": empty HTTP filter list"}
	}
	names := map[string]bool{}
	for i, f := range h.HTTPFilters {
		if f.Name == "" || names[f.Name] {
			return &c45Viol{"lds-filter-name", fmt.Sprintf("%s: filter name %q empty or repeated", where, f.Name)}
		}
		names[f.Name] = true
		if f.Filter == nil {
			return &c45Viol{"lds-filter-without-builder", where + ": filter without implementation"}
		}
		if last := i == len(h.HTTPFilters)-1; f.Filter.IsTerminal() != last {
			return &c45Viol{"lds-terminal-filter-position", fmt.Sprintf("%s: filter %d/%d terminal=%v", where, i, len(h.HTTPFilters), f.Filter.IsTerminal())}
		}
	}
	return nil
}

func c45CheckLDS(u *ListenerUpdate) *c45Viol {
	if (u.APIListener != nil) == (u.TCPListener != nil) {
		return &c45Viol{"lds-listener-kind", "exactly one of APIListener/TCPListener must be set"}
	}
	if u.APIListener != nil {
		return c45CheckHCM(u.APIListener, "api_listener")
	}
	t := u.TCPListener
	chain := func(c NetworkFilterChainConfig, where string) *c45Viol {
		if v := c45CheckHCM(c.HTTPConnMgr, where); v != nil {
			return v
		}
		if s := c.SecurityCfg; s != nil {
			if s.IdentityInstanceName == "" {
				return &c45Viol{"lds-server-security-without-identity", where + ": server-side security config without identity provider"}
			}
			if s.RequireClientCert && s.RootInstanceName == "" {
				return &c45Viol{"lds-require-client-cert-without-root", where + ": require_client_certificate without root provider"}
			}
		}
		return nil
	}
	n := 0
	if !t.DefaultFilterChain.IsEmpty() {
		n++
		if v := chain(t.DefaultFilterChain, "default filter chain"); v != nil {
			return v
		}
	}
	for _, d := range t.FilterChains.DstPrefixes {
		for st, sp := range d.SourceTypeArr {
			for _, e := range sp.Entries {
				for port, c := range e.PortMap {
					n++
					if v := chain(c, fmt.Sprintf("filter chain dst=%v srcType=%d src=%v port=%d", d.Prefix, st, e.Prefix, port)); v != nil {
						return v
					}
				}
			}
		}
	}
	if n == 0 {
		return &c45Viol{"lds-no-filter-chain", "accepted server listener has no filter chain at all"}
	}
	return nil
}

func c45CheckCDS(u *ClusterUpdate) *c45Viol {
	switch u.ClusterType {
	case ClusterTypeEDS:
		if strings.HasPrefix(u.ClusterName, "xdstp:") && u.EDSServiceName == "" {
			return &c45Viol{"cds-xdstp-without-eds-service-name", "new-style cluster name without EDS service name"}
		}
	case ClusterTypeLogicalDNS:
		i := strings.LastIndex(u.DNSHostName, ":")
		if i <= 0 || u.DNSHostName[i+1:] == "" || u.DNSHostName[i+1:] == "0" {
			return &c45Viol{"cds-logical-dns-hostname", fmt.Sprintf("LOGICAL_DNS cluster with DNS host name %q", u.DNSHostName)}
		}
	case ClusterTypeAggregate:
		if len(u.PrioritizedClusterNames) == 0 {
			return &c45Viol{"cds-aggregate-without-children", "aggregate cluster without child clusters"}
		}
	default:
		return &c45Viol{"cds-unknown-cluster-type", fmt.Sprintf("cluster type %d", u.ClusterType)}
	}
	if u.ClusterName == "" {
		return &c45Viol{"cds-empty-name", "accepted cluster has no name"}
	}
	if len(u.LBPolicy) == 0 || !json.Valid(u.LBPolicy) {
		return &c45Viol{"cds-lb-policy-not-json", fmt.Sprintf("LBPolicy %q is not valid JSON", u.LBPolicy)}
	}
	if s := u.SecurityCfg; s != nil && !s.UseSystemRootCerts && s.RootInstanceName == "" {
		return &c45Viol{"cds-client-security-without-root", "client-side security config without root provider"}
	}
	if u.OutlierDetection != nil && !json.Valid(u.OutlierDetection) {
		return &c45Viol{"cds-outlier-detection-not-json", "outlier detection config is not valid JSON"}
	}
	// A79: both service labels are always present ("unknown" if xDS does not carry
	// them).  A label that xDS carries as an empty string is faithfully the empty
	// string, so only presence is required.
	_, okName := u.TelemetryLabels["csm.service_name"]
	_, okNS := u.TelemetryLabels["csm.service_namespace_name"]
	if !okName || !okNS {
		return &c45Viol{"cds-telemetry-labels", "CSM telemetry labels missing"}
	}
	return nil
}

// ---------------------------------------------------------------------------

type c45Result struct {
	name string
	err  error
	upd  any
}

func c45Parse(t int, a *anypb.Any) c45Result {
	switch t {
	case c45LDS:
		n, u, err := unmarshalListenerResource(a, nil, nil)
		return c45Result{n, err, &u}
	case c45RDS:
		n, u, err := unmarshalRouteConfigResource(a, nil, nil)
		return c45Result{n, err, &u}
	case c45CDS:
		n, u, err := unmarshalClusterResource(a, nil)
		return c45Result{n, err, &u}
	}
	n, u, err := unmarshalEndpointsResource(a)
	return c45Result{n, err, &u}
}

// c45Guarded runs one parse and converts a panic into (value, site), site being
// the innermost grpc function on the panicking stack.
func c45Guarded(t int, a *anypb.Any) (res c45Result, pan any, site string) {
	defer func() {
		if p := recover(); p != nil {
			pan = p
			site = "unknown"
			pcs := make([]uintptr, 64)
			n := runtime.Callers(2, pcs)
			fr := runtime.CallersFrames(pcs[:n])
			for {
				f, more := fr.Next()
				if strings.HasPrefix(f.Function, "google.golang.org/grpc/") && !strings.Contains(f.Function, ".c45") {
					site = strings.TrimPrefix(f.Function, "google.golang.org/grpc/")
					kind := "panic"
					if e, ok := p.(error); ok && strings.Contains(e.Error(), "nil pointer") {
						kind = "nil-deref"
					} else if ok && strings.Contains(e.Error(), "index out of range") {
						kind = "index"
					}
					site += ":" + kind
					break
				}
				if !more {
					break
				}
			}
		}
	}()
	return c45Parse(t, a), nil, ""
}

var c45DigitsRE = regexp.MustCompile(`[0-9]+|"[^"]*"|\{.*|\[.*`)

// error site: the constant head of the message (evidence of which validation fired)
func c45ErrSite(err error) string {
	s := err.Error()
	s = c45DigitsRE.ReplaceAllString(s, "#")
	if len(s) > 48 {
		s = s[:48]
	}
	return s
}

// c45Fixed is the deterministic must-hit prefix: shapes that the random
// generators reach only by luck.
func c45Fixed(rng *rand.Rand, i int) (int, proto.Message) {
	server := i%2 == 1
	n := 1 + (i/2)%3
	withRouter := (i/6)%3 // 0: none survives, 1: router last, 2: router first
	hcm := c45HCM(rand.New(rand.NewSource(int64(i))), server)
	fs := c45IgnoredFilters(rng, n, server)
	switch withRouter {
	case 1:
		fs = append(fs, c45RouterFilter("router"))
	case 2:
		fs = append([]*v3httppb.HttpFilter{c45RouterFilter("router")}, fs...)
	}
	hcm.HttpFilters = fs
	if !server {
		return c45LDS, &v3listenerpb.Listener{Name: "lds.target.good:3333", ApiListener: &v3listenerpb.ApiListener{ApiListener: c45Any(hcm)}}
	}
	chain := &v3listenerpb.FilterChain{Name: "fc", Filters: []*v3listenerpb.Filter{{Name: "hcm", ConfigType: &v3listenerpb.Filter_TypedConfig{TypedConfig: c45Any(hcm)}}}}
	l := &v3listenerpb.Listener{
		Name:    "grpc/server?xds.resource.listening_address=0.0.0.0:9999",
		Address: &v3corepb.Address{Address: &v3corepb.Address_SocketAddress{SocketAddress: &v3corepb.SocketAddress{Address: "0.0.0.0", PortSpecifier: &v3corepb.SocketAddress_PortValue{PortValue: 9999}}}},
	}
	if (i/18)%2 == 0 {
		l.FilterChains = []*v3listenerpb.FilterChain{chain}
	} else {
		l.DefaultFilterChain = chain
	}
	return c45LDS, l
}

func c45Case(r *vlib.Run, fam string, i int, rng *rand.Rand) {
	t := rng.Intn(4)
	g := c45NewGen(rng)
	var payload []byte
	how := ""
	switch fam {
	case "fixed":
		var m proto.Message
		t, m = c45Fixed(rng, i)
		payload, _ = proto.MarshalOptions{AllowPartial: true}.Marshal(m)
		how = "fixed"
	case "fill": // (i) pure protoreflect filler
		m := c45New(t).ProtoReflect()
		g.fill(m, 0)
		if rng.Intn(3) > 0 { // the name fields decide whether validation is reached at all
			switch t {
			case c45EDS:
				m.Set(m.Descriptor().Fields().ByName("cluster_name"), protoreflectString("eds-svc"))
			default:
				m.Set(m.Descriptor().Fields().ByName("name"), protoreflectString("res"))
			}
		}
		payload, _ = proto.MarshalOptions{AllowPartial: true}.Marshal(m.Interface())
		how = "fill"
	case "mutate": // (i') valid template + 0..8 structural mutations
		m := c45Template(rng, t).ProtoReflect()
		k := rng.Intn(9)
		if rng.Intn(4) == 0 {
			k = 0
		}
		for ; k > 0; k-- {
			g.mutate(m, 0)
		}
		payload, _ = proto.MarshalOptions{AllowPartial: true}.Marshal(m.Interface())
		how = "mutate"
	case "bytes": // (ii) byte mutation of valid (or mutated) serialisations
		m := c45Template(rng, t).ProtoReflect()
		for k := rng.Intn(3); k > 0; k-- {
			g.mutate(m, 0)
		}
		b, _ := proto.MarshalOptions{AllowPartial: true}.Marshal(m.Interface())
		payload = c45MutateBytes(rng, b)
		if rng.Intn(10) == 0 { // splice with another serialisation
			b2, _ := proto.MarshalOptions{AllowPartial: true}.Marshal(c45Template(rng, rng.Intn(4)))
			payload = append(payload[:rng.Intn(len(payload)+1)], b2[rng.Intn(len(b2)+1):]...)
		}
		how = "bytes"
	default: // (iii) raw random bytes
		n := rng.Intn(64)
		if rng.Intn(10) == 0 {
			n = rng.Intn(2000)
		}
		payload = c45RandBytes(rng, n)
		if rng.Intn(3) == 0 && len(payload) > 2 { // plausible field header: tag + length
			payload[0] = byte((1+rng.Intn(15))<<3 | 2)
			payload[1] = byte(rng.Intn(len(payload)))
		}
		how = "raw"
	}
	url := c45TypeURL[t]
	wrapped := false
	urlDraw := rng.Intn(20)
	if fam == "fixed" {
		urlDraw = 19
	}
	switch urlDraw {
	case 0:
		url = c45TypeURL[rng.Intn(4)] // possibly the wrong resource type
	case 1:
		url = vlib45Pick(rng, "", "type.googleapis.com/", url+"x", "envoy.config.listener.v3.Listener")
	case 2, 3:
		wrapped = true
	}
	r.Progress(fam, i, fmt.Sprintf("type=%s how=%s len=%d wrapped=%v url=%q", c45TypeName[t], how, len(payload), wrapped, url))
	mk := func() *anypb.Any {
		a := &anypb.Any{TypeUrl: url, Value: append([]byte(nil), payload...)}
		if wrapped {
			w := &v3discoverypb.Resource{Name: "wrapped", Resource: a}
			if rng.Intn(4) == 0 {
				w.Resource = nil
			}
			b, _ := proto.Marshal(w)
			return &anypb.Any{TypeUrl: version.V3ResourceWrapperURL, Value: b}
		}
		return a
	}
	a1 := mk()
	a2 := proto.Clone(a1).(*anypb.Any)
	// --- the real code, twice ---
	// The unmarshal functions are entered directly: the xDS client's optional
	// recovery (XDSRecoverPanicInResourceParsing) is not in the way.  The
	// harness' own recover only turns a panic into a violation keyed by the
	// panicking function, so that the enumeration can go on; unrecoverable
	// deaths (stack exhaustion, runtime throws) are attributed by the driver
	// through the progress line written above.
	r1, pan, site := c45Guarded(t, a1)
	var r1err error
	det := func() any {
		return map[string]any{"type": c45TypeName[t], "how": how, "type_url": url, "wrapped": wrapped, "payload_hex": fmt.Sprintf("%x", payload), "error": fmt.Sprint(r1err)}
	}
	if pan != nil {
		r.Eval(1)
		r.Count("panics", 1)
		r.Violation("panic:"+site, fam, i, det(), "%s parser panicked in %s: %v", c45TypeName[t], site, pan)
		r.Nontrivial(fmt.Sprintf("%s/panic/%s", c45TypeName[t], site))
		return
	}
	r1err = r1.err
	r2, pan, site := c45Guarded(t, a2)
	if pan != nil {
		// (the first parse returned normally: which validation is reached first
		// can depend on Go map order, e.g. over typed_per_filter_config)
		r.Count("panics", 1)
		r.Violation("panic:"+site, fam, i, det(), "%s parser panicked in %s on the second parse of identical bytes (first parse: err=%v): %v", c45TypeName[t], site, r1err, pan)
		return
	}
	r.Eval(2)
	// determinism
	if (r1.err == nil) != (r2.err == nil) || r1.name != r2.name {
		r.Violation("nondeterministic-verdict", fam, i, det(), "%s: first call (%q, err=%v), second call (%q, err=%v) on identical bytes", c45TypeName[t], r1.name, r1.err, r2.name, r2.err)
		return
	}
	if r1.err != nil {
		r.Count("rejected_"+c45TypeName[t], 1)
		r.Nontrivial(fmt.Sprintf("%s/reject/%s", c45TypeName[t], c45ErrSite(r1.err)))
		return
	}
	r.Count("accepted_"+c45TypeName[t], 1)
	r.Count("accepted_via_"+how, 1)
	if d := c45Equal(reflect.ValueOf(r1.upd), reflect.ValueOf(r2.upd), "update"); d != "" {
		r.Violation("nondeterministic-update", fam, i, det(), "%s: two parses of identical bytes give different updates: %s", c45TypeName[t], d)
		return
	}
	if r1.name == "" {
		r.Violation("accepted-without-name", fam, i, det(), "%s accepted with an empty resource name", c45TypeName[t])
		return
	}
	var v *c45Viol
	sig := ""
	switch u := r1.upd.(type) {
	case *EndpointsUpdate:
		v = c45CheckEDS(*u)
		prios := map[uint32]bool{}
		neps := 0
		for _, l := range u.Localities {
			prios[l.Priority] = true
			neps += len(l.Endpoints)
		}
		sig = fmt.Sprintf("loc=%d/prio=%d/eps=%d/drops=%d", c45cap(len(u.Localities), 4), c45cap(len(prios), 3), c45cap(neps, 4), c45cap(len(u.Drops), 2))
	case *RouteConfigUpdate:
		v = c45CheckRDS(u)
		sig = c45RouteSig(u)
	case *ClusterUpdate:
		v = c45CheckCDS(u)
		var lb []map[string]json.RawMessage
		name := "?"
		if json.Unmarshal(u.LBPolicy, &lb) == nil && len(lb) > 0 {
			for k := range lb[0] {
				name = k
			}
		}
		sig = fmt.Sprintf("type=%d/lb=%s/sec=%v/od=%v/cb=%v/lrs=%v", u.ClusterType, name, u.SecurityCfg != nil, u.OutlierDetection != nil, u.MaxRequests != nil, u.LRSServerConfig != nil)
	case *ListenerUpdate:
		v = c45CheckLDS(u)
		if u.APIListener != nil {
			sig = fmt.Sprintf("api/inline=%v/filters=%d", u.APIListener.InlineRouteConfig != nil, c45cap(len(u.APIListener.HTTPFilters), 3))
			if u.APIListener.InlineRouteConfig != nil {
				sig += "/" + c45RouteSig(u.APIListener.InlineRouteConfig)
			}
		} else if u.TCPListener != nil {
			sig = fmt.Sprintf("tcp/default=%v/dst=%d/defsec=%v", !u.TCPListener.DefaultFilterChain.IsEmpty(), c45cap(len(u.TCPListener.FilterChains.DstPrefixes), 3), u.TCPListener.DefaultFilterChain.SecurityCfg != nil)
		}
	}
	if v != nil {
		r.Violation(v.key, fam, i, det(), "accepted %s %q violates an invariant: %s", c45TypeName[t], r1.name, v.msg)
		return
	}
	r.Nontrivial(fmt.Sprintf("%s/accept/%s", c45TypeName[t], sig))
	if r.Counter("accepted_"+c45TypeName[t]) <= 1 {
		r.Sample(map[string]any{"type": c45TypeName[t], "how": how, "accepted": r1.name, "shape": sig, "payload_len": len(payload)})
	}
	// the Raw field must be the resource we passed in
	raw := reflect.ValueOf(r1.upd).Elem().FieldByName("Raw")
	if raw.IsValid() && !raw.IsNil() {
		if ra := raw.Interface().(*anypb.Any); !bytes.Equal(ra.GetValue(), payload) {
			r.Violation("raw-not-the-resource", fam, i, det(), "%s: update.Raw does not carry the received resource bytes", c45TypeName[t])
		}
	}
}

func c45RouteSig(u *RouteConfigUpdate) string {
	acts := map[RouteActionType]bool{}
	paths := map[string]bool{}
	n, wc, hdr := 0, 0, 0
	for _, vh := range u.VirtualHosts {
		for _, rt := range vh.Routes {
			n++
			acts[rt.ActionType] = true
			switch {
			case rt.Prefix != nil:
				paths["p"] = true
			case rt.Path != nil:
				paths["e"] = true
			case rt.Regex != nil:
				paths["r"] = true
			}
			if len(rt.WeightedClusters) > 1 {
				wc++
			}
			hdr += len(rt.Headers)
		}
	}
	return fmt.Sprintf("vh=%d/routes=%d/acts=%d/paths=%d/multiwc=%v/hdr=%v/csp=%d", c45cap(len(u.VirtualHosts), 3), c45cap(n, 4), len(acts), len(paths), wc > 0, hdr > 0, len(u.ClusterSpecifierPlugins))
}

func c45cap(a, b int) int {
	if a > b {
		return b
	}
	return a
}

func TestVerifC45(t *testing.T) {
	r := vlib.Start(t, "C45")
	fams := []struct {
		name     string
		quick, n int
	}{{"fixed", 72, 72}, {"mutate", 45000, 450000}, {"fill", 20000, 200000}, {"bytes", 25000, 250000}, {"raw", 10000, 100000}}
	for _, f := range fams {
		n := r.N(f.quick, f.n)
		for i := 0; i < n; i++ {
			if !r.Want(f.name, i) {
				continue
			}
			c45Case(r, f.name, i, r.Rand(f.name, i))
		}
	}
	r.Finish(vlib.Spec{
		Level: "fault_enumeration",
		Rule: "(fixed) 72 must-hit Listeners whose http_filters are 1-3 optional filters that the parser ignores (unregistered type, TypedStruct of an unknown type, filter not supported on that side) without / before / after a router, client API listener and server (default) filter chain; hostile inputs for Listener / RouteConfiguration / Cluster / ClusterLoadAssignment: (mutate) valid templates + 0-8 protoreflect-driven structural mutations (clear/set/duplicate/append/drop, descending into Any payloads); (fill) protoreflect random filler with field-aware biases (address/name pools that force duplicates, weights 0/2^31/2^32-1, priority gaps, bad regexes, unknown enums, Any of right/wrong/garbage types, huge repeated fields); (bytes) byte mutation and splicing of serialisations; (raw) random bytes. Each input is parsed twice by the real unmarshal*Resource with no panic recovery (progress line per case). distinct = (type, rejecting validation site) and (type, shape of the accepted update)",
		Assumptions: []string{
			"routes whose action gRPC does not support are kept by design (gRFC A36) and must be flagged RouteActionUnsupported; 'supported action' is read as 'known ActionType consistent with the route's cluster fields'",
			"determinism is judged on error-ness, resource name and a structural comparison of the updates; HTTP filter configs and builders are compared by dynamic type only",
			"bootstrap config / server config are nil, as in the package's own tests",
		},
		Floor: 150,
	})
}
