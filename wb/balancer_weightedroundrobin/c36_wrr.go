// C36: weighted round robin — the real picker.newScheduler / edfScheduler /
// rrScheduler counted exactly over windows of 65535*n consecutive sequence
// numbers, and the real endpointWeight driven by load-report timelines under
// the package's TimeNow hook, against references written from the property
// statement and gRFC A58 (white-box: everything here is unexported).
package weightedroundrobin

import (
	"fmt"
	"math"
	"math/big"
	"math/rand"
	"sync"
	"testing"
	"time"

	v3orcapb "github.com/cncf/xds/go/xds/data/orca/v3"
	"google.golang.org/grpc/balancer"
	"google.golang.org/grpc/balancer/weightedroundrobin/internal"
	iserviceconfig "google.golang.org/grpc/internal/serviceconfig"
	"google.golang.org/grpc/internal/testutils/stats"
	vlib "google.golang.org/grpc/internal/verifvlib"
)

const c36Max = 65535 // gRFC A58 / static stride scheduler: weights are scaled to uint16

type c36SchedCase struct {
	Weights []float64 `json:"weights"`
	Class   string    `json:"class"`
	Start   uint32    `json:"start_sequence"`
	Scaled  []uint16  `json:"scaled_by_implementation,omitempty"`
	Kind    string    `json:"scheduler,omitempty"`
}

type c36Budget struct{}

// c36RefScaled computes, in exact rational arithmetic, the scaled weights the
// statement prescribes: round(65535*w/max) for usable weights, round(65535*
// mean(non-zero)/max) for endpoints without one.  lo/hi differ only when the
// exact value is within 1e-7 of a rounding boundary (float64 evaluation order
// may then legitimately round either way).
func c36RefScaled(ws []float64) (lo, hi []int64, nonZero int) {
	n := len(ws)
	lo, hi = make([]int64, n), make([]int64, n)
	max := 0.0
	for _, w := range ws {
		if w > max {
			max = w
		}
		if w != 0 {
			nonZero++
		}
	}
	if n == 1 || nonZero == 0 {
		for i := range lo {
			lo[i], hi[i] = c36Max, c36Max
		}
		return
	}
	rmax := new(big.Rat).SetFloat64(max)
	sum := new(big.Rat)
	for _, w := range ws {
		if w != 0 {
			sum.Add(sum, new(big.Rat).SetFloat64(w))
		}
	}
	round := func(q *big.Rat) (int64, int64) {
		// q >= 0
		fl := new(big.Int).Quo(q.Num(), q.Denom())
		frac := new(big.Rat).Sub(q, new(big.Rat).SetInt(fl))
		f, _ := frac.Float64()
		base := fl.Int64()
		switch {
		case math.Abs(f-0.5) < 1e-7:
			return base, base + 1
		case f > 0.5:
			return base + 1, base + 1
		default:
			return base, base
		}
	}
	k := new(big.Rat).SetInt64(c36Max)
	meanQ := new(big.Rat).Quo(sum, new(big.Rat).SetInt64(int64(nonZero)))
	meanQ.Mul(meanQ, k).Quo(meanQ, rmax)
	mlo, mhi := round(meanQ)
	for i, w := range ws {
		if w == 0 {
			lo[i], hi[i] = mlo, mhi
			continue
		}
		q := new(big.Rat).SetFloat64(w)
		q.Mul(q, k).Quo(q, rmax)
		lo[i], hi[i] = round(q)
	}
	return
}

func c36GenWeights(rng *rand.Rand, i int) (ws []float64, class string) {
	var n int
	switch rng.Intn(8) {
	case 0:
		n = 1
	case 1:
		n = 2
	case 2:
		n = 3
	case 3, 4:
		n = 4 + rng.Intn(5)
	case 5, 6:
		n = 9 + rng.Intn(8)
	default:
		n = 17 + rng.Intn(48)
	}
	cl := rng.Intn(13)
	if i < 13 { // deterministic must-hit prefix
		cl = i
		n = []int{3, 4, 5, 2, 6, 7, 3, 8, 4, 5, 64, 3, 3}[i]
	}
	ws = make([]float64, n)
	unit := math.Pow(10, float64(rng.Intn(13)-6)) // overall magnitude 1e-6..1e6
	switch cl {
	case 0:
		class = "all-zero"
	case 1:
		class = "one-nonzero"
		ws[rng.Intn(n)] = unit * (1 + rng.Float64())
	case 2:
		class = "all-equal"
		w := unit * (1 + rng.Float64())
		for k := range ws {
			ws[k] = w
		}
	case 3:
		class = "small-ints"
		for k := range ws {
			ws[k] = float64(1 + rng.Intn(10))
		}
	case 4:
		class = "uniform"
		for k := range ws {
			ws[k] = unit * (0.01 + rng.Float64())
		}
	case 5:
		class = "extreme-ratio"
		for k := range ws {
			ws[k] = math.Pow(10, rng.Float64()*9)
		}
	case 6:
		class = "some-zero"
		for k := range ws {
			if rng.Intn(3) != 0 {
				ws[k] = unit * (0.1 + rng.Float64()*10)
			}
		}
	case 7:
		class = "nearly-equal"
		w := unit * (1 + rng.Float64())
		for k := range ws {
			ws[k] = w * (1 + float64(rng.Intn(5))*1e-9)
		}
	case 8:
		class = "two-valued+zero"
		a, b := 1+rng.Float64()*4, 5+rng.Float64()*100
		for k := range ws {
			switch rng.Intn(4) {
			case 0:
				ws[k] = 0
			case 1:
				ws[k] = a
			default:
				ws[k] = b
			}
		}
	case 9:
		class = "qps-over-util"
		for k := range ws {
			ws[k] = float64(1+rng.Intn(5000)) / (0.05 + rng.Float64())
		}
	case 10:
		class = "huge-magnitude"
		for k := range ws {
			ws[k] = 1e290 * (1 + rng.Float64()*1e6)
		}
	case 11:
		class = "tiny-magnitude"
		for k := range ws {
			ws[k] = 1e-300 * (1 + rng.Float64()*1e6)
		}
	default:
		class = "subnormal"
		for k := range ws {
			ws[k] = 5e-324 * float64(1+rng.Intn(1<<30))
		}
	}
	return
}

func c36NewPicker(ws []float64, now time.Time, rec *stats.TestMetricsRecorder, rng *rand.Rand) *picker {
	p := &picker{
		cfg:             &lbConfig{WeightExpirationPeriod: iserviceconfig.Duration(time.Hour), BlackoutPeriod: 0},
		metricsRecorder: rec,
	}
	for _, w := range ws {
		ew := &endpointWeight{metricsRecorder: rec, cfg: p.cfg, logger: c36Logger}
		if w != 0 || rng.Intn(2) == 0 {
			// usable report (or a report that yielded weight 0)
			ew.weightVal = w
			ew.lastUpdated = now
			ew.nonEmptySince = now
		} // else: no load report yet
		p.weightedPickers = append(p.weightedPickers, pickerWeightedEndpoint{weightedEndpoint: ew})
	}
	return p
}

var c36Logger = prefixLogger(&wrrBalancer{})

// c36RunWindow drives the real scheduler over the window of 65535*n sequence
// numbers that follows `start` and returns per-backend counts; ok=false after a
// violation was reported.
func c36RunWindow(r *vlib.Run, fam string, i int, c *c36SchedCase, p *picker, sched scheduler, start uint32) (counts []int64, ok bool) {
	n := len(c.Weights)
	inCall := 0
	wrap := func() uint32 {
		inCall++
		if inCall > 4*n+64 {
			panic(c36Budget{})
		}
		return p.inc()
	}
	switch s := sched.(type) {
	case *edfScheduler:
		s.inc = wrap
		c.Scaled = s.weights
		c.Kind = "edf"
	case *rrScheduler:
		s.inc = wrap
		c.Kind = "rr"
	default:
		r.Inconclusive("unknown scheduler type %T", sched)
		return nil, false
	}
	p.idx.Store(start)
	end := uint64(start) + uint64(c36Max)*uint64(n) // last sequence number of the window
	counts = make([]int64, n)
	maxConsumed := 0
	for {
		before := p.idx.Load()
		inCall = 0
		idx, hung := func() (idx int, hung bool) {
			defer func() {
				if e := recover(); e != nil {
					if _, is := e.(c36Budget); is {
						hung = true
						return
					}
					panic(e)
				}
			}()
			return sched.nextIndex(), false
		}()
		if hung {
			r.Violation("pick-does-not-terminate-within-n", fam, i, c, "nextIndex consumed more than %d sequence numbers without returning (n=%d, weights=%v scaled=%v)", 4*n+64, n, c.Weights, c.Scaled)
			return nil, false
		}
		after := p.idx.Load()
		consumed := int(after - before)
		if consumed > maxConsumed {
			maxConsumed = consumed
		}
		if consumed < 1 || consumed > n {
			r.Violation("pick-does-not-terminate-within-n", fam, i, c, "nextIndex consumed %d sequence numbers (%d..%d), want 1..n=%d (weights=%v scaled=%v)", consumed, before+1, after, n, c.Weights, c.Scaled)
			return nil, false
		}
		if idx < 0 || idx >= n {
			r.Violation("index-out-of-range", fam, i, c, "nextIndex returned %d for n=%d", idx, n)
			return nil, false
		}
		if uint64(after) > end {
			break // the pick lies beyond the window
		}
		counts[idx]++
		if uint64(after) == end {
			break
		}
	}
	r.Max("max_sequence_numbers_per_pick", int64(maxConsumed))
	return counts, true
}

func c36JudgeCounts(r *vlib.Run, fam string, i int, c *c36SchedCase, counts []int64, lo, hi []int64) bool {
	for k := range counts {
		if counts[k] < lo[k] || counts[k] > hi[k] {
			key := "count-differs-from-scaled-weight"
			if c.Weights[k] == 0 {
				key = "zero-weight-not-mean"
			}
			max := 0.0
			for _, w := range c.Weights {
				max = math.Max(max, w)
			}
			if math.IsInf(c36Max/max, 1) {
				// every weight is below 65535/MaxFloat64 (~3.6e-304): a scaling
				// factor computed as 65535/max is +Inf in float64
				key = "tiny-weights-scaling-factor-overflow"
			}
			r.Violation(key, fam, i, c, "backend %d (weight %g) chosen %d times in a window of 65535*%d sequence numbers starting after %d, want %d..%d (weights=%v, implementation scaled=%v, scheduler=%s)",
				k, c.Weights[k], counts[k], len(counts), c.Start, lo[k], hi[k], c.Weights, c.Scaled, c.Kind)
			return false
		}
	}
	return true
}

func c36SchedFamily(r *vlib.Run, now time.Time) {
	const fam = "sched"
	n := r.N(1200, 24000)
	var wg sync.WaitGroup
	work := make(chan int, 64)
	for w := 0; w < 12; w++ {
		wg.Add(1)
		go func() {
			defer wg.Done()
			rec := stats.NewTestMetricsRecorder()
			for i := range work {
				rng := r.Rand(fam, i)
				ws, class := c36GenWeights(rng, i)
				nn := len(ws)
				span := uint64(c36Max)*uint64(nn) + uint64(nn) + 8
				var start uint32
				switch rng.Intn(5) {
				case 0:
					start = 0
				case 1:
					start = uint32(uint64(math.MaxUint32) - span) // window ends just below the 32-bit wrap
				case 2:
					start = uint32(rng.Intn(1 << 16))
				default:
					start = uint32(rng.Int63n(int64(uint64(math.MaxUint32) - span)))
				}
				c := &c36SchedCase{Weights: ws, Class: class, Start: start}
				p := c36NewPicker(ws, now, rec, rng)
				sched := p.newScheduler(false)
				r.Eval(1)
				if sched == nil {
					r.Violation("no-scheduler", fam, i, c, "newScheduler returned nil for %d endpoints", nn)
					continue
				}
				lo, hi, nonZero := c36RefScaled(ws)
				counts, ok := c36RunWindow(r, fam, i, c, p, sched, start)
				if !ok {
					continue
				}
				r.Count("windows_counted", 1)
				r.Count("sequence_numbers_driven", int64(c36Max)*int64(nn))
				if !c36JudgeCounts(r, fam, i, c, counts, lo, hi) {
					continue
				}
				// a second, unaligned window on the same scheduler (any window must do)
				if nn <= 16 {
					c.Start = start + uint32(rng.Intn(3*nn+1))
					if uint64(c.Start)+span < math.MaxUint32 {
						counts, ok = c36RunWindow(r, fam, i, c, p, sched, c.Start)
						if !ok {
							continue
						}
						r.Count("windows_counted", 1)
						r.Count("sequence_numbers_driven", int64(c36Max)*int64(nn))
						if !c36JudgeCounts(r, fam, i, c, counts, lo, hi) {
							continue
						}
					}
				}
				// plain round robin where the statement prescribes it: consecutive picks cycle
				expectRR := nn == 1 || nonZero < 2
				if !expectRR {
					expectRR = true
					for k := range lo {
						if lo[k] != c36Max || hi[k] != c36Max {
							expectRR = false
						}
					}
				}
				if expectRR {
					p.idx.Store(start)
					prev := sched.nextIndex()
					for k := 0; k < 3*nn; k++ {
						cur := sched.nextIndex()
						if cur != (prev+1)%nn {
							r.Violation("not-plain-round-robin", fam, i, c, "expected plain round robin (n=%d, non-zero=%d) but picks went %d -> %d", nn, nonZero, prev, cur)
							break
						}
						prev = cur
					}
					r.Count("round_robin_fallbacks_checked", 1)
				}
				r.Count("scheduler_"+c.Kind, 1)
				// non-trivial: at least two backends
				if nn >= 2 {
					distinctScaled := map[int64]bool{}
					for k := range lo {
						distinctScaled[lo[k]] = true
					}
					ds := len(distinctScaled)
					if ds > 3 {
						ds = 3
					}
					r.Nontrivial(fmt.Sprintf("sched/%s/n%d/%s/distinct%d/zeros%v", class, c36Bucket(nn), c.Kind, ds, nonZero < nn))
				}
				if i < 2 {
					r.Sample(map[string]any{"weights": ws, "scaled": c.Scaled, "scheduler": c.Kind, "counts": counts, "start": start})
				}
			}
		}()
	}
	for i := 0; i < n; i++ {
		if r.Want(fam, i) {
			work <- i
		}
	}
	close(work)
	wg.Wait()
}

func c36Bucket(n int) int {
	b := 0
	for n > 0 {
		n /= 2
		b++
	}
	return b
}

// ---------------------------------------------------------------------------
// weight formula / blackout / expiration under the TimeNow hook

type c36Event struct {
	AtNs   int64   `json:"at_ns"`
	Kind   string  `json:"kind"` // report | report-via-pick | query
	Ep     int     `json:"ep"`
	Qps    float64 `json:"qps,omitempty"`
	Eps    float64 `json:"eps,omitempty"`
	App    float64 `json:"app_util,omitempty"`
	Cpu    float64 `json:"cpu_util,omitempty"`
	Got    float64 `json:"got,omitempty"`
	Want   float64 `json:"want,omitempty"`
	Reason string  `json:"reason,omitempty"`
}

type c36TimeCase struct {
	N          int        `json:"endpoints"`
	BlackoutNs int64      `json:"blackout_ns"`
	ExpiryNs   int64      `json:"expiration_ns"`
	Penalty    float64    `json:"error_utilization_penalty"`
	Events     []c36Event `json:"events"`
}

// c36RefEp is the gRFC A58 endpoint-weight state machine.
type c36RefEp struct {
	reported      bool
	weight        float64
	lastUpdated   int64
	nonEmptySince int64 // -1 = infinity (unset)
}

func (e *c36RefEp) report(now int64, qps, eps, app, cpu, penalty float64) (used bool) {
	util := app
	if util == 0 {
		util = cpu
	}
	if qps == 0 || util == 0 {
		return false // empty report: ignored
	}
	e.weight = qps / (util + eps/qps*penalty)
	e.reported = true
	e.lastUpdated = now
	if e.nonEmptySince < 0 {
		e.nonEmptySince = now
	}
	return true
}

func (e *c36RefEp) get(now, expiry, blackout int64) (float64, string) {
	if !e.reported {
		return 0, "no-report-yet"
	}
	if now-e.lastUpdated >= expiry {
		e.nonEmptySince = -1
		return 0, "expired"
	}
	if blackout > 0 && (e.nonEmptySince < 0 || now-e.nonEmptySince < blackout) {
		return 0, "blackout"
	}
	return e.weight, "usable"
}

type c36Stub struct {
	picked *int
	ep     int
}

func (s *c36Stub) Pick(balancer.PickInfo) (balancer.PickResult, error) {
	*s.picked = s.ep
	return balancer.PickResult{}, nil
}

func c36TimeFamily(r *vlib.Run, base time.Time, setNow func(time.Time)) {
	const fam = "timeline"
	n := r.N(4000, 100000)
	rec := stats.NewTestMetricsRecorder()
	for i := 0; i < n; i++ {
		if !r.Want(fam, i) {
			continue
		}
		rng := r.Rand(fam, i)
		tc := c36TimeCase{N: 1 + rng.Intn(4)}
		tc.BlackoutNs = vlib.Pick(rng, int64(0), int64(time.Second), int64(10*time.Second), int64(1+rng.Intn(5000))*int64(time.Millisecond))
		tc.ExpiryNs = vlib.Pick(rng, int64(3*time.Minute), int64(30*time.Second), int64(1+rng.Intn(20000))*int64(time.Millisecond), int64(time.Second))
		tc.Penalty = vlib.Pick(rng, 0.0, 1.0, 1.0, 0.5, 10.0, rng.Float64()*3)
		cfg := &lbConfig{
			BlackoutPeriod:          iserviceconfig.Duration(tc.BlackoutNs),
			WeightExpirationPeriod:  iserviceconfig.Duration(tc.ExpiryNs),
			WeightUpdatePeriod:      iserviceconfig.Duration(time.Second),
			ErrorUtilizationPenalty: tc.Penalty,
		}
		picked := -1
		p := &picker{cfg: cfg, metricsRecorder: rec}
		refs := make([]*c36RefEp, tc.N)
		for k := 0; k < tc.N; k++ {
			ew := &endpointWeight{metricsRecorder: rec, cfg: &lbConfig{}, logger: c36Logger}
			ew.updateConfig(cfg)
			p.weightedPickers = append(p.weightedPickers, pickerWeightedEndpoint{picker: &c36Stub{picked: &picked, ep: k}, weightedEndpoint: ew})
			refs[k] = &c36RefEp{nonEmptySince: -1}
		}
		cur := int64(0)
		setNow(base)
		p.regenerateScheduler() // Pick needs a scheduler
		nev := 6 + rng.Intn(30)
		seen := map[string]bool{}
		failed := false
		for e := 0; e < nev && !failed; e++ {
			ep := rng.Intn(tc.N)
			// advance virtual time, often exactly to / around a boundary of endpoint ep
			ref := refs[ep]
			var target int64 = -1
			switch rng.Intn(8) {
			case 0, 1:
				if ref.reported {
					target = ref.lastUpdated + tc.ExpiryNs + int64(rng.Intn(3)-1)
				}
			case 2, 3:
				if ref.reported && ref.nonEmptySince >= 0 {
					target = ref.nonEmptySince + tc.BlackoutNs + int64(rng.Intn(3)-1)
				}
			case 4:
				target = cur
			case 5:
				if rng.Intn(3) == 0 {
					target = cur + rng.Int63n(2*tc.ExpiryNs+1)
				} else {
					target = cur + rng.Int63n(int64(time.Second))
				}
			default:
				target = cur + rng.Int63n(tc.BlackoutNs+int64(time.Second))
			}
			if target < cur {
				target = cur + rng.Int63n(int64(time.Second))
			}
			cur = target
			setNow(base.Add(time.Duration(cur)))
			ev := c36Event{AtNs: cur, Ep: ep}
			switch k := rng.Intn(10); {
			case k < 5:
				ev.Kind = "report"
				ev.Qps = vlib.Pick(rng, 0.0, 1+rng.Float64()*5000, 100.0, rng.Float64(), 1+rng.Float64()*50)
				ev.Eps = vlib.Pick(rng, 0.0, 0.0, rng.Float64()*ev.Qps, ev.Qps, 2*ev.Qps)
				ev.App = vlib.Pick(rng, 0.0, 0.0, 0.01+rng.Float64(), 1.5, 1.0)
				ev.Cpu = vlib.Pick(rng, 0.0, 0.01+rng.Float64(), 0.5, 0.25+rng.Float64())
				if rng.Intn(3) == 0 {
					ev.Kind = "report-via-pick"
					// the per-RPC path: the real picker chooses the endpoint, Done carries the report
					picked = -1
					pr, err := p.Pick(balancer.PickInfo{})
					if err != nil || picked < 0 || pr.Done == nil {
						r.Inconclusive("picker.Pick with stub children failed: err=%v picked=%d", err, picked)
						return
					}
					ev.Ep = picked
					pr.Done(balancer.DoneInfo{ServerLoad: &v3orcapb.OrcaLoadReport{RpsFractional: ev.Qps, Eps: ev.Eps, ApplicationUtilization: ev.App, CpuUtilization: ev.Cpu}})
				} else {
					p.weightedPickers[ep].weightedEndpoint.OnLoadReport(&v3orcapb.OrcaLoadReport{RpsFractional: ev.Qps, Eps: ev.Eps, ApplicationUtilization: ev.App, CpuUtilization: ev.Cpu})
				}
				used := refs[ev.Ep].report(cur, ev.Qps, ev.Eps, ev.App, ev.Cpu, tc.Penalty)
				r.Count("load_reports", 1)
				if !used {
					r.Count("empty_load_reports", 1)
				}
				tc.Events = append(tc.Events, ev)
			default:
				ev.Kind = "query"
				got := p.endpointWeights(rng.Intn(4) == 0) // all endpoints at once, as the scheduler update does
				r.Eval(1)
				for k2 := 0; k2 < tc.N; k2++ {
					want, why := refs[k2].get(cur, tc.ExpiryNs, tc.BlackoutNs)
					seen[why] = true
					r.Count("weight_queries_"+why, 1)
					okv := got[k2] == want || (want != 0 && math.Abs(got[k2]-want) <= 1e-12*math.Abs(want))
					if !okv {
						qe := c36Event{AtNs: cur, Kind: "query", Ep: k2, Got: got[k2], Want: want, Reason: why}
						tc.Events = append(tc.Events, qe)
						key := "weight-" + why
						r.Violation(key, fam, i, tc, "endpoint %d weight at t=%v is %g, want %g (%s; blackout=%v expiration=%v penalty=%g; reference: lastUpdated=%v nonEmptySince=%v)",
							k2, time.Duration(cur), got[k2], want, why, time.Duration(tc.BlackoutNs), time.Duration(tc.ExpiryNs), tc.Penalty, time.Duration(refs[k2].lastUpdated), time.Duration(refs[k2].nonEmptySince))
						failed = true
						break
					}
				}
				tc.Events = append(tc.Events, ev)
			}
		}
		if failed {
			continue
		}
		// end to end: the scheduler built from these endpoints follows the reference weights
		if i%8 == 0 {
			ws := make([]float64, tc.N)
			for k := range ws {
				ws[k], _ = refs[k].get(cur, tc.ExpiryNs, tc.BlackoutNs)
			}
			sc := &c36SchedCase{Weights: ws, Class: "from-load-reports", Start: uint32(rng.Intn(1 << 20))}
			sched := p.newScheduler(false)
			lo, hi, _ := c36RefScaled(ws)
			if counts, ok := c36RunWindow(r, fam, i, sc, p, sched, sc.Start); ok {
				r.Count("windows_counted", 1)
				c36JudgeCounts(r, fam, i, sc, counts, lo, hi)
			}
		}
		sig := ""
		for _, w := range []string{"no-report-yet", "blackout", "expired", "usable"} {
			if seen[w] {
				sig += w + ","
			}
		}
		if len(seen) >= 2 {
			r.Nontrivial(fmt.Sprintf("timeline/%s/b%v/p%v", sig, tc.BlackoutNs > 0, tc.Penalty != 0))
		}
		if i < 1 {
			r.Sample(tc)
		}
	}
}

func TestVerifC36(t *testing.T) {
	r := vlib.Start(t, "C36")
	base := time.Unix(1700000000, 0)
	var mu sync.Mutex
	now := base
	orig := internal.TimeNow
	internal.TimeNow = func() time.Time { mu.Lock(); defer mu.Unlock(); return now }
	defer func() { internal.TimeNow = orig }()
	c36SchedFamily(r, base)
	c36TimeFamily(r, base, func(t time.Time) { mu.Lock(); now = t; mu.Unlock() })
	r.Finish(vlib.Spec{
		Level: "exploration",
		Rule: "sched: PRNG weight vectors (1..64 endpoints; all-zero, one non-zero, equal, small ints, uniform, ratios to 1e9, some zero, nearly equal, two-valued+zero, qps/util, huge magnitude) through the real picker.newScheduler; every nextIndex call metered (sequence numbers consumed), picks counted over windows of 65535*n consecutive sequence numbers at random/unaligned/near-2^32 starts and compared exactly with round(65535*w/max) (mean for zero weights) computed in big.Rat; distinct = (weight class, n bucket, scheduler kind, #distinct scaled weights, zeros present) for n>=2. " +
			"timeline: PRNG (blackout, expiration, penalty) x event lists of load reports (direct OnLoadReport or through picker.Pick+Done; incl. empty reports, app/cpu utilisation fallback, eps>qps) and weight queries through picker.endpointWeights at virtual times placed at/around blackout and expiration boundaries (TimeNow hook), judged by the gRFC A58 state machine; distinct = (set of weight states observed, blackout>0, penalty>0) for timelines that saw >=2 states",
		Assumptions: []string{
			"windows stay inside [0,2^32): the 32-bit sequence counter's wrap is out of scope (DESIGN §4 C36)",
			"a scaled weight within 1e-7 of a rounding boundary may round either way",
			"weights are finite, non-negative float64 whose sum does not overflow (weights up to 1e296)",
			"blackout/expiration boundaries follow gRFC A58: expired iff now-lastUpdated >= expiration; blacked out iff now-nonEmptySince < blackout; expiry observed by a query re-arms the blackout",
			"the reported weight may differ from qps/(util+eps/qps*penalty) evaluated in float64 by 1e-12 relative",
		},
		Floor: 40,
	})
}
