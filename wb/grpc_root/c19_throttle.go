package grpc

// C19 (white-box part): the real retryThrottler — obtained through the real
// path NewClient(WithDefaultServiceConfig) -> resolver update ->
// applyServiceConfigAndBalancer — is driven with generated success/failure
// sequences against an exact rational-arithmetic model of the gRFC A6 token
// bucket, purely behaviourally (decisions of throttle(), sequential probing of
// "which failure is the first refused one"); parseServiceConfig is fed
// configurations at and around the A6 limits of retryThrottling and retryPolicy.

import (
	"context"
	"errors"
	"fmt"
	"math/big"
	"math/rand"
	"net"
	"os"
	"strconv"
	"strings"
	"sync"
	"testing"
	"testing/synctest"
	"time"

	"google.golang.org/grpc/codes"
	"google.golang.org/grpc/credentials/insecure"
	vlib "google.golang.org/grpc/internal/verifvlib"
)

func c19Rat(s string) (*big.Rat, bool) {
	r, ok := new(big.Rat).SetString(s)
	if !ok {
		return nil, false
	}
	f, err := strconv.ParseFloat(s, 64)
	if err != nil {
		return r, false
	}
	fr := new(big.Rat).SetFloat64(f)
	return r, fr != nil && fr.Cmp(r) == 0
}

// c19Channel builds a channel whose dials always fail and returns the
// throttler the channel installed for the given default service config.  Must
// run inside a bubble.
func c19Channel(js string) (*ClientConn, *retryThrottler, error) {
	cc, err := NewClient("passthrough:///c19.verif",
		WithTransportCredentials(insecure.NewCredentials()),
		WithDefaultServiceConfig(js),
		WithContextDialer(func(context.Context, string) (net.Conn, error) { return nil, errors.New("c19: no network") }))
	if err != nil {
		return nil, nil, err
	}
	cc.Connect()
	synctest.Wait()
	rt, _ := cc.retryThrottler.Load().(*retryThrottler)
	return cc, rt, nil
}

// The bucket is observed ONLY through behaviour: the booleans returned by
// throttle() and calls of successfulRPC() on the throttler the channel
// installed.  No field of retryThrottler is read, so the monitor keeps building
// when the representation changes (mutex+float64, atomics, fixed point, ...).

type c19BucketCase struct {
	Max   string `json:"max_tokens"`
	Ratio string `json:"token_ratio"`
	Ops   string `json:"ops"` // f = failure (throttle()), s = successful RPC
}

func c19GenBucket(rng *rand.Rand) c19BucketCase {
	var c c19BucketCase
	switch rng.Intn(6) {
	case 0:
		c.Max = strconv.Itoa(1 + rng.Intn(12))
	case 1:
		c.Max = vlib.Pick(rng, "1000", "999", "500", "100", "1", "2", "3")
	case 2:
		c.Max = fmt.Sprintf("%d.%s", rng.Intn(20), vlib.Pick(rng, "5", "25", "75", "125")) // dyadic fractions
	case 3:
		c.Max = fmt.Sprintf("%d.%03d", rng.Intn(30), 1+rng.Intn(999))
	case 4:
		c.Max = vlib.Pick(rng, "0.001", "0.5", "0.999", "1.001", "999.999")
	default:
		c.Max = strconv.Itoa(2 + 2*rng.Intn(10))
	}
	switch rng.Intn(5) {
	case 0:
		c.Ratio = vlib.Pick(rng, "0.5", "0.25", "0.125", "1", "2", "0.75", "1.5")
	case 1:
		c.Ratio = fmt.Sprintf("0.%03d", 1+rng.Intn(999))
	case 2:
		c.Ratio = vlib.Pick(rng, "0.001", "0.1", "0.3", "0.999", "1000", "3.333")
	case 3:
		c.Ratio = fmt.Sprintf("%d.%d", rng.Intn(4), 1+rng.Intn(9))
	default:
		c.Ratio = vlib.Pick(rng, "0.5", "1", "0.1")
	}
	n := 20 + rng.Intn(300)
	pf := vlib.Pick(rng, 20, 40, 50, 60, 80)
	var sb strings.Builder
	for i := 0; i < n; i++ {
		// phases make the bucket travel through the threshold in both directions
		if i%40 == 0 {
			pf = vlib.Pick(rng, 10, 30, 50, 70, 95)
		}
		if rng.Intn(100) < pf {
			sb.WriteByte('f')
		} else {
			sb.WriteByte('s')
		}
	}
	c.Ops = sb.String()
	return c
}

func TestVerifC19Throttle(t *testing.T) {
	r := vlib.Start(t, "C19")
	light := 1
	if os.Getenv("VERIF_LIGHT") != "" {
		light = 8
	}
	c19RunBuckets(t, r, r.N(1500, 30000)/light)
	c19RunConcurrent(t, r, max(r.N(60, 600)/light, 12))
	c19RunParse(t, r, r.N(4000, 80000)/light)
	r.Finish(vlib.Spec{
		Level: "exploration",
		Rule: "bucket: the channel's real retryThrottler (built by the channel from a generated retryThrottling config: maxTokens integer/dyadic/3-decimal in (0,1000], tokenRatio dyadic/3-decimal/large) driven with 20-320 failure/success events whose mix changes every 40 events; the bucket is observed only through behaviour: every throttle() result == (exact rational model <= max/2) (tolerance 0 when maxTokens and tokenRatio are binary-exact, else 1e-9 per event; skipped only when an inexact model is within the tolerance of the threshold), then the bucket is drained with probe failures judged the same way (index of the first refusal pins the hidden count); " +
			"concurrent: 100-250 sequential failures, then 50-200 failures concurrent with ~20k-90k successes of tokenRatio 2^-10 on maxTokens=1000 (no clamp or threshold reachable, all values binary-exact, so the result is order independent), then the first refused probe failure must be #500-P-F+A+1; parse: parseServiceConfig on retryThrottling / retryPolicy values at and around the A6 bounds, with and without methodConfig; non-trivial bucket case = the bucket crossed the threshold or hit a clamp; distinct = (exactness, crossings bucket, clamp at 0, clamp at max, decisions at the exact threshold) / parse outcome classes",
		Assumptions: []string{"the throttler is reached as cc.retryThrottler.Load().(*retryThrottler) and used only through throttle()/successfulRPC(); no field is read",
			"validity of a service config per gRFC A6 / service_config.proto: maxTokens in (0,1000], tokenRatio > 0, maxAttempts >= 2, backoffs > 0, multiplier > 0, >= 1 status code"},
		Floor: 25,
	})
}

func c19RunBuckets(t *testing.T, r *vlib.Run, n int) {
	const fam = "bucket"
	for i := 0; i < n; i++ {
		if !r.Want(fam, i) {
			continue
		}
		c := c19GenBucket(r.Rand(fam, i))
		var viol [][2]string
		var sig string
		synctest.Test(t, func(t *testing.T) { viol, sig = c19Bucket(r, c) })
		r.Eval(1)
		for _, x := range viol {
			r.Violation(x[0], fam, i, c, "%s", x[1])
		}
		if sig != "" {
			r.Nontrivial(fam + ":" + sig)
		}
		if i < 2 {
			r.Sample(map[string]any{"family": fam, "case": c, "signature": sig})
		}
	}
}

func c19Bucket(r *vlib.Run, c c19BucketCase) (viol [][2]string, sig string) {
	v := func(key, f string, a ...any) {
		if len(viol) < 4 {
			viol = append(viol, [2]string{key, fmt.Sprintf(f, a...)})
		}
	}
	js := fmt.Sprintf(`{"retryThrottling":{"maxTokens":%s,"tokenRatio":%s},"methodConfig":[{"name":[{"service":"c19"}]}]}`, c.Max, c.Ratio)
	cc, rt, err := c19Channel(js)
	if err != nil {
		v("valid-throttling-config-rejected", "NewClient with default service config %s failed: %v (maxTokens in (0,1000], tokenRatio > 0: valid per A6)", js, err)
		return
	}
	defer func() { cc.Close(); synctest.Wait() }()
	if rt == nil {
		v("throttler-not-installed", "the channel installed no retry throttler for %s", js)
		return
	}
	mx, e1 := c19Rat(c.Max)
	ratio, e2 := c19Rat(c.Ratio)
	exact := e1 && e2
	half := new(big.Rat).Quo(mx, big.NewRat(2, 1))
	tok := new(big.Rat).Set(mx)
	one, zero := big.NewRat(1, 1), new(big.Rat)
	// binary-exact parameters: every float64 operation of the bucket is exact,
	// tolerance 0.  Otherwise 1e-9 for the parameters plus 1e-9 per event.
	tol := new(big.Rat)
	step := big.NewRat(1, 1000000000)
	if !exact {
		tol.Set(step)
	}
	crossings, clamp0, clampMax, atThresh, ambiguous := 0, 0, 0, 0, 0
	prevAbove := true
	fail := func(k int, label string) {
		refused := rt.throttle()
		tok.Sub(tok, one)
		if tok.Cmp(zero) < 0 {
			tok.Set(zero)
			clamp0++
		}
		want := tok.Cmp(half) <= 0
		if tok.Cmp(half) == 0 {
			atThresh++
		}
		d := new(big.Rat).Sub(tok, half)
		d.Abs(d)
		if !exact && d.Cmp(tol) <= 0 {
			ambiguous++
		} else if refused != want {
			v("throttle-decision", "maxTokens=%s tokenRatio=%s: %s %d (after %q) leaves %s tokens in the A6 model (threshold %s, tolerance %s): throttle()=%v, want %v", c.Max, c.Ratio, label, k, c.Ops[:min(k, len(c.Ops))], tok.FloatString(9), half.FloatString(9), tol.FloatString(9), refused, want)
		}
		r.Count("wb_throttle_decisions", 1)
		if !exact {
			tol.Add(tol, step)
		}
	}
	for k := 0; k < len(c.Ops); k++ {
		if c.Ops[k] == 'f' {
			fail(k, "failure event")
		} else {
			rt.successfulRPC()
			tok.Add(tok, ratio)
			if tok.Cmp(mx) >= 0 {
				if tok.Cmp(mx) > 0 {
					clampMax++
				}
				tok.Set(mx)
			}
			if !exact {
				tol.Add(tol, step)
			}
		}
		above := tok.Cmp(half) > 0
		if above != prevAbove {
			crossings++
		}
		prevAbove = above
	}
	// final probe: drain the bucket with failures; every decision on the way down
	// (in particular the index of the first refusal, which pins the hidden token
	// count to a unit interval) is judged by the same rule
	for j := 0; j < 1100 && tok.Sign() > 0; j++ {
		fail(len(c.Ops)+j, "probe failure")
		r.Count("wb_probe_failures", 1)
	}
	r.Count("wb_bucket_events", int64(len(c.Ops)))
	r.Count("wb_threshold_crossings", int64(crossings))
	r.Count("wb_decisions_at_exact_threshold", int64(atThresh))
	r.Count("wb_decisions_skipped_inexact_at_threshold", int64(ambiguous))
	if crossings > 0 || clamp0 > 0 || clampMax > 0 {
		b := func(n int) int {
			switch {
			case n == 0:
				return 0
			case n < 3:
				return 1
			case n < 8:
				return 2
			}
			return 3
		}
		sig = fmt.Sprintf("exact=%v/x%d/z%d/m%d/at%d", exact, b(crossings), b(clamp0), b(clampMax), b(atThresh))
	}
	return
}

// c19RunConcurrent: failures and successes hammer one bucket CONCURRENTLY; the
// parameters are chosen so that no interleaving reaches a clamp or the
// threshold and every intermediate value is exact in binary floating point
// (maxTokens 1000, tokenRatio 2^-10), hence the final token count is order
// independent: 1000 - P - F + A + 2^-10.  It is then measured behaviourally:
// the first refused probe failure must be number 500-P-F+A+1.  One lost
// token removal moves that index up by one, one lost tokenRatio addition moves
// it down by one (the 2^-10 excess is what keeps the count just above an
// integer).
func c19RunConcurrent(t *testing.T, r *vlib.Run, n int) {
	const fam = "concurrent"
	const ratio = "0.0009765625" // 2^-10
	for i := 0; i < n; i++ {
		if !r.Want(fam, i) {
			continue
		}
		rng := r.Rand(fam, i)
		pre := 100 + rng.Intn(151) // sequential failures first: 100..250
		nf := 50 + rng.Intn(151)   // concurrent failures: 50..200
		add := 20 + rng.Intn(70)   // whole tokens added by the concurrent successes
		if add > pre-5 {
			add = pre - 5
		}
		ns := add*1024 + 1
		gf, gs := 2+rng.Intn(3), 4+rng.Intn(5)
		var viol [][2]string
		synctest.Test(t, func(t *testing.T) {
			js := fmt.Sprintf(`{"retryThrottling":{"maxTokens":1000,"tokenRatio":%s},"methodConfig":[{"name":[{"service":"c19"}]}]}`, ratio)
			cc, rt, err := c19Channel(js)
			if err != nil || rt == nil {
				viol = append(viol, [2]string{"valid-throttling-config-rejected", fmt.Sprintf("channel with %s: err=%v throttler=%v", js, err, rt)})
				return
			}
			defer func() { cc.Close(); synctest.Wait() }()
			for k := 0; k < pre; k++ {
				if rt.throttle() {
					viol = append(viol, [2]string{"throttle-decision", fmt.Sprintf("failure %d on a full bucket of 1000 was refused", k+1)})
					return
				}
			}
			var mu sync.Mutex
			refusedDuring := 0
			var wg sync.WaitGroup
			start := make(chan struct{})
			for w := 0; w < gf; w++ {
				cnt := nf / gf
				if w < nf%gf {
					cnt++
				}
				wg.Add(1)
				go func() {
					defer wg.Done()
					<-start
					ref := 0
					for k := 0; k < cnt; k++ {
						if rt.throttle() {
							ref++
						}
						// spread the failures over the successes' run time
						for y := 0; y < 40; y++ {
							rt.successfulRPC()
						}
					}
					mu.Lock()
					refusedDuring += ref
					mu.Unlock()
				}()
			}
			inline := nf * 40 // successes issued by the failure goroutines
			rest := ns - inline
			for w := 0; w < gs; w++ {
				cnt := rest / gs
				if w < rest%gs {
					cnt++
				}
				wg.Add(1)
				go func() {
					defer wg.Done()
					<-start
					for k := 0; k < cnt; k++ {
						rt.successfulRPC()
					}
				}()
			}
			close(start)
			wg.Wait()
			if refusedDuring != 0 {
				viol = append(viol, [2]string{"throttle-decision", fmt.Sprintf("%d refusals while the bucket is between %d and %d tokens (threshold 500)", refusedDuring, 1000-pre-nf, 1000-pre+add+1)})
			}
			want := 500 - pre - nf + add + 1
			first := 0
			for k := 1; k <= want+40; k++ {
				if rt.throttle() {
					first = k
					break
				}
			}
			if first != want {
				viol = append(viol, [2]string{"bucket-lost-update", fmt.Sprintf("maxTokens=1000 tokenRatio=2^-10: %d sequential failures, then %d failures concurrent with %d successes (+%d+2^-10 tokens): the bucket must hold %d+2^-10 tokens, i.e. the first refused probe failure must be #%d, observed #%d (0 = none within %d probes): updates were lost or invented", pre, nf, ns, add, 1000-pre-nf+add, want, first, want+40)})
			}
		})
		r.Eval(1)
		r.Count("wb_concurrent_events", int64(nf+ns))
		for _, x := range viol {
			r.Violation(x[0], fam, i, map[string]any{"pre": pre, "failures": nf, "successes": ns}, "%s", x[1])
		}
		r.Nontrivial(fmt.Sprintf("concurrent:gf=%d/gs=%d", gf, gs))
	}
}

// ---- parseServiceConfig limits ----

type c19ParseCase struct {
	JSON     string `json:"json"`
	Cap      int    `json:"channel_max_attempts"`
	WantOK   bool   `json:"want_ok"`
	Why      string `json:"why"`
	Class    string `json:"class"`
	HasMC    bool   `json:"has_method_config"`
	thrMax   string
	thrRatio string
	pol      *c19Pol
}

type c19Pol struct {
	maxAttempts     int
	initial, maxBo  string // decimal seconds without the "s"
	mult            string
	codes           []codes.Code
	initNs, maxBoNs int64
}

func c19DurNs(s string) (int64, bool) {
	r, ok := new(big.Rat).SetString(s)
	if !ok {
		return 0, false
	}
	r.Mul(r, big.NewRat(1000000000, 1))
	if !r.IsInt() {
		return 0, false
	}
	return r.Num().Int64(), true
}

func c19GenParse(rng *rand.Rand) c19ParseCase {
	c := c19ParseCase{Cap: vlib.Pick(rng, 2, 3, 4, 5, 5, 10), WantOK: true}
	var parts []string
	withThr := rng.Intn(3) != 0
	withPol := rng.Intn(3) != 0
	c.HasMC = withPol || rng.Intn(2) == 0
	var why []string
	if withThr {
		c.thrMax = vlib.Pick(rng, "0", "-1", "-0.001", "0.001", "0.5", "1", "10", "999", "999.999", "1000", "1000.0", "1000.001", "1001", "1e3", "1.0001e3", "1e-3", "5000", "2.5",
			strconv.Itoa(rng.Intn(1200)-100), fmt.Sprintf("%d.%03d", 995+rng.Intn(10), rng.Intn(1000)))
		c.thrRatio = vlib.Pick(rng, "0", "-0.5", "-0.001", "0.001", "0.01", "0.1", "0.5", "1", "1.5", "1000", "2e-3", "0.0", "-0",
			fmt.Sprintf("%d.%03d", rng.Intn(3), rng.Intn(1000)))
		mt, _ := new(big.Rat).SetString(c.thrMax)
		tr, _ := new(big.Rat).SetString(c.thrRatio)
		fields := []string{`"maxTokens":` + c.thrMax, `"tokenRatio":` + c.thrRatio}
		switch rng.Intn(12) {
		case 0:
			fields = fields[:1]
			tr = new(big.Rat)
			c.thrRatio = ""
		case 1:
			fields = fields[1:]
			mt = new(big.Rat)
			c.thrMax = ""
		}
		parts = append(parts, `"retryThrottling":{`+strings.Join(fields, ",")+`}`)
		if mt.Sign() <= 0 || mt.Cmp(big.NewRat(1000, 1)) > 0 {
			c.WantOK = false
			why = append(why, "maxTokens outside (0,1000]")
		}
		if tr.Sign() <= 0 {
			c.WantOK = false
			why = append(why, "tokenRatio not > 0")
		}
	}
	if c.HasMC {
		mc := `"name":[{"service":"c19"}]`
		if withPol {
			p := &c19Pol{}
			p.maxAttempts = vlib.Pick(rng, -1, 0, 1, 2, 2, 3, 4, 5, 6, 7, 100)
			p.initial = vlib.Pick(rng, "0", "-1", "-0.000000001", "0.000000001", "0.001", "0.1", "1", "2.5", "0.0", "86400")
			p.maxBo = vlib.Pick(rng, "0", "-1", "0.000000001", "0.001", "0.1", "1", "30", "120.5", "0.000")
			p.mult = vlib.Pick(rng, "0", "-1", "-0.5", "0.000001", "0.5", "1", "1.0", "1.6", "2", "10")
			nc := rng.Intn(4)
			pool := []codes.Code{codes.Unavailable, codes.Aborted, codes.Internal, codes.ResourceExhausted, codes.DeadlineExceeded, codes.Canceled}
			var cs []string
			for j := 0; j < nc; j++ {
				x := pool[rng.Intn(len(pool))]
				p.codes = append(p.codes, x)
				if rng.Intn(2) == 0 {
					cs = append(cs, strconv.Itoa(int(x)))
				} else {
					cs = append(cs, `"`+strings.ToUpper(map[codes.Code]string{codes.Unavailable: "UNAVAILABLE", codes.Aborted: "ABORTED", codes.Internal: "INTERNAL",
						codes.ResourceExhausted: "RESOURCE_EXHAUSTED", codes.DeadlineExceeded: "DEADLINE_EXCEEDED", codes.Canceled: "CANCELLED"}[x])+`"`)
				}
			}
			mc += fmt.Sprintf(`,"retryPolicy":{"maxAttempts":%d,"initialBackoff":"%ss","maxBackoff":"%ss","backoffMultiplier":%s,"retryableStatusCodes":[%s]}`,
				p.maxAttempts, p.initial, p.maxBo, p.mult, strings.Join(cs, ","))
			p.initNs, _ = c19DurNs(p.initial)
			p.maxBoNs, _ = c19DurNs(p.maxBo)
			m, _ := new(big.Rat).SetString(p.mult)
			bad := func(s string) { c.WantOK = false; why = append(why, s) }
			if p.maxAttempts < 2 {
				bad("maxAttempts < 2")
			}
			if p.initNs <= 0 {
				bad("initialBackoff not > 0")
			}
			if p.maxBoNs <= 0 {
				bad("maxBackoff not > 0")
			}
			if m.Sign() <= 0 {
				bad("backoffMultiplier not > 0")
			}
			if nc == 0 {
				bad("no retryable status code")
			}
			c.pol = p
		}
		parts = append(parts, `"methodConfig":[{`+mc+`}]`)
	}
	c.JSON = "{" + strings.Join(parts, ",") + "}"
	c.Why = strings.Join(why, "; ")
	c.Class = fmt.Sprintf("thr=%v/pol=%v/mc=%v/ok=%v/%s", withThr, withPol, c.HasMC, c.WantOK, c.Why)
	return c
}

func c19RunParse(t *testing.T, r *vlib.Run, n int) {
	const fam = "parse"
	for i := 0; i < n; i++ {
		if !r.Want(fam, i) {
			continue
		}
		c := c19GenParse(r.Rand(fam, i))
		res := parseServiceConfig(c.JSON, c.Cap)
		r.Eval(1)
		r.Count("wb_parse_cases", 1)
		r.Nontrivial("parse:" + c.Class)
		gotOK := res.Err == nil
		switch {
		case gotOK && !c.WantOK:
			key := "parse-accepts-invalid-config"
			if !c.HasMC && strings.Contains(c.Why, "oken") {
				key = "invalid-throttling-accepted-without-methodconfig"
			}
			r.Violation(key, fam, i, c, "parseServiceConfig accepted %s although %s", c.JSON, c.Why)
			continue
		case !gotOK && c.WantOK:
			r.Violation("parse-rejects-valid-config", fam, i, c, "parseServiceConfig(%s, %d) failed with %v; every value is within the A6 limits", c.JSON, c.Cap, res.Err)
			continue
		case !gotOK:
			r.Count("wb_parse_rejected", 1)
			continue
		}
		r.Count("wb_parse_accepted", 1)
		sc, _ := res.Config.(*ServiceConfig)
		if sc == nil {
			r.Violation("parse-value-mismatch", fam, i, c, "accepted config is not a *ServiceConfig")
			continue
		}
		if c.thrMax != "" || c.thrRatio != "" {
			wm, _ := strconv.ParseFloat(c.thrMax, 64)
			wr, _ := strconv.ParseFloat(c.thrRatio, 64)
			if sc.retryThrottling == nil || sc.retryThrottling.MaxTokens != wm || sc.retryThrottling.TokenRatio != wr {
				r.Violation("parse-value-mismatch", fam, i, c, "retryThrottling parsed as %+v, want maxTokens=%v tokenRatio=%v", sc.retryThrottling, wm, wr)
			}
		} else if sc.retryThrottling != nil {
			r.Violation("parse-value-mismatch", fam, i, c, "retryThrottling %+v appeared from nowhere", sc.retryThrottling)
		}
		if p := c.pol; p != nil {
			mc, ok := sc.Methods["/c19/"]
			if !ok || mc.RetryPolicy == nil {
				r.Violation("parse-value-mismatch", fam, i, c, "retry policy missing from the parsed method config")
				continue
			}
			rp := mc.RetryPolicy
			wantMax := p.maxAttempts
			if c.Cap < wantMax {
				wantMax = c.Cap
			}
			wm, _ := strconv.ParseFloat(p.mult, 64)
			bad := rp.MaxAttempts != wantMax || rp.InitialBackoff != time.Duration(p.initNs) || rp.MaxBackoff != time.Duration(p.maxBoNs) || rp.BackoffMultiplier != wm
			set := map[codes.Code]bool{}
			for _, x := range p.codes {
				set[x] = true
			}
			if len(set) != len(rp.RetryableStatusCodes) {
				bad = true
			}
			for x := range set {
				if !rp.RetryableStatusCodes[x] {
					bad = true
				}
			}
			if bad {
				r.Violation("parse-value-mismatch", fam, i, c, "retry policy parsed as %+v, want maxAttempts=min(%d,%d) initial=%v max=%v multiplier=%v codes=%v", *rp, p.maxAttempts, c.Cap, time.Duration(p.initNs), time.Duration(p.maxBoNs), wm, p.codes)
			}
		}
	}
}
