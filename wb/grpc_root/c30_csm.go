// C30 (white-box part): the real connectivityStateManager, ClientConn.GetState
// and ClientConn.WaitForStateChange under racing updaters and watchers inside
// testing/synctest bubbles.  In every round a set of updater goroutines fires
// bursts of updateState calls at the same virtual instant while watcher
// goroutines loop GetState / WaitForStateChange; synctest.Wait() then gives an
// exact quiescent point at which
//
//	no watcher may be parked in WaitForStateChange(s) while getState() != s
//	the last state delivered to a PubSub subscriber == getState()
//	every watcher's observations are an in-order subsequence of the published states
//
// This is the same oracle as the black-box step, concentrated on the two-call
// window of WaitForStateChange (getNotifyChan, then getState).
package grpc

import (
	"context"
	"fmt"
	"math/rand"
	"runtime"
	"sync"
	"testing"
	"testing/synctest"

	"google.golang.org/grpc/connectivity"
	"google.golang.org/grpc/internal/channelz"
	vlib "google.golang.org/grpc/internal/verifvlib"
)

type c30Sub struct {
	mu  *sync.Mutex
	pub *[]connectivity.State
}

func (s c30Sub) OnMessage(msg any) {
	if st, ok := msg.(connectivity.State); ok {
		s.mu.Lock()
		*s.pub = append(*s.pub, st)
		s.mu.Unlock()
	}
}

type c30Watcher struct {
	obs     []connectivity.State
	waiting bool
	arg     connectivity.State
	done    bool
}

type c30Scenario struct {
	Watchers int     `json:"watchers"`
	Updaters int     `json:"updaters"`
	Rounds   [][]int `json:"rounds"` // per round: updates per updater
	Seed     int64   `json:"seed"`
}

func c30Run(sc c30Scenario) (viol [][2]string, cnt map[string]int64, sig string) {
	cnt = map[string]int64{}
	v := func(key, f string, a ...any) { viol = append(viol, [2]string{key, fmt.Sprintf(f, a...)}) }
	chz := channelz.RegisterChannel(nil, "verif-c30")
	defer channelz.RemoveEntry(chz.ID)
	ctx, cancel := context.WithCancel(context.Background())
	csm := newConnectivityStateManager(ctx, chz)
	cc := &ClientConn{csMgr: csm}
	var mu sync.Mutex
	var pub []connectivity.State
	unsub := csm.pubSub.Subscribe(c30Sub{&mu, &pub})
	wctx, wcancel := context.WithCancel(context.Background())
	var wg sync.WaitGroup
	ws := make([]*c30Watcher, sc.Watchers)
	for i := range ws {
		w := &c30Watcher{}
		ws[i] = w
		wg.Add(1)
		go func() {
			defer wg.Done()
			for {
				s := cc.GetState()
				mu.Lock()
				w.obs = append(w.obs, s)
				if s == connectivity.Shutdown {
					w.done = true
					mu.Unlock()
					return
				}
				w.waiting, w.arg = true, s
				mu.Unlock()
				ok := cc.WaitForStateChange(wctx, s)
				mu.Lock()
				w.waiting = false
				if !ok {
					w.done = true
				}
				mu.Unlock()
				if !ok {
					return
				}
			}
		}()
	}
	states := []connectivity.State{connectivity.Idle, connectivity.Connecting, connectivity.Ready, connectivity.TransientFailure}
	check := func(label string) {
		synctest.Wait()
		got := csm.getState()
		mu.Lock()
		defer mu.Unlock()
		cnt["quiescent_checks"]++
		want := connectivity.Idle
		if len(pub) > 0 {
			want = pub[len(pub)-1]
		}
		if got != want {
			v("getstate-differs-from-published", "%s: getState() = %v, last published %v", label, got, want)
		}
		for i, w := range ws {
			if w.done {
				continue
			}
			if !w.waiting {
				v("harness", "watcher %d neither waiting nor done at quiescence", i)
				continue
			}
			cnt["watcher_checks"]++
			if w.arg != got {
				cnt["stranded_watchers"]++
				v("watcher-not-woken", "%s: watcher %d is parked in WaitForStateChange(%v) but the state is %v (its last observations %v)", label, i, w.arg, got, c30Tail(w.obs))
			}
		}
	}
	check("start")
	nontrivialRounds := 0
	for ri, per := range sc.Rounds {
		before := len(pub)
		var uw sync.WaitGroup
		start := make(chan struct{})
		for u := 0; u < sc.Updaters; u++ {
			rng := rand.New(rand.NewSource(sc.Seed + int64(ri*131+u)))
			n := per[u%len(per)]
			uw.Add(1)
			go func() {
				defer uw.Done()
				<-start
				for k := 0; k < n; k++ {
					csm.updateState(states[rng.Intn(len(states))])
					if rng.Intn(4) == 0 {
						runtime.Gosched()
					}
				}
			}()
		}
		close(start)
		uw.Wait()
		check(fmt.Sprintf("round %d", ri))
		mu.Lock()
		if len(pub)-before > 1 {
			nontrivialRounds++
		}
		cnt["state_changes"] += int64(len(pub) - before)
		mu.Unlock()
	}
	csm.updateState(connectivity.Shutdown)
	csm.updateState(connectivity.Ready) // must be ignored
	check("shutdown")
	if s := csm.getState(); s != connectivity.Shutdown {
		v("channel-left-shutdown", "updateState(READY) after SHUTDOWN changed the state to %v", s)
	}
	wcancel()
	wg.Wait()
	unsub()
	cancel()
	<-csm.pubSub.Done()
	mu.Lock()
	full := append([]connectivity.State{connectivity.Idle}, pub...)
	for i, w := range ws {
		j := 0
		for k, o := range w.obs {
			for j < len(full) && full[j] != o {
				j++
			}
			if j == len(full) {
				v("watcher-saw-unpublished-sequence", "watcher %d: observation %d (%v) cannot be matched in order in the published sequence (%d states)", i, k, o, len(full))
				break
			}
		}
		cnt["watcher_observations"] += int64(len(w.obs))
		if n := len(w.obs); n == 0 || w.obs[n-1] != connectivity.Shutdown {
			v("watcher-missed-shutdown", "watcher %d did not observe SHUTDOWN: %v", i, c30Tail(w.obs))
		}
	}
	for i := 1; i < len(full); i++ {
		if full[i-1] == connectivity.Shutdown {
			v("channel-left-shutdown", "published %v after SHUTDOWN", full[i])
		}
	}
	mu.Unlock()
	if nontrivialRounds > 0 {
		sig = fmt.Sprintf("w%d/u%d/rounds%d", sc.Watchers, sc.Updaters, nontrivialRounds)
	}
	return viol, cnt, sig
}

func c30Tail(s []connectivity.State) []connectivity.State {
	if len(s) > 8 {
		return s[len(s)-8:]
	}
	return s
}

func TestVerifC30CSM(t *testing.T) {
	r := vlib.Start(t, "C30")
	n := r.N(1500, 12000)
	for i := 0; i < n; i++ {
		if !r.Want("csm", i) {
			continue
		}
		rng := r.Rand("csm", i)
		sc := c30Scenario{Watchers: 1 + rng.Intn(8), Updaters: 1 + rng.Intn(4), Seed: rng.Int63()}
		nr := 4 + rng.Intn(12)
		for k := 0; k < nr; k++ {
			var per []int
			for u := 0; u < sc.Updaters; u++ {
				per = append(per, vlib.Pick(rng, 1, 1, 2, 3, 5, 20, 100))
			}
			sc.Rounds = append(sc.Rounds, per)
		}
		r.Progress("csm", i, fmt.Sprintf("watchers=%d updaters=%d rounds=%d", sc.Watchers, sc.Updaters, nr))
		var viol [][2]string
		var cnt map[string]int64
		var sig string
		synctest.Test(t, func(t *testing.T) { viol, cnt, sig = c30Run(sc) })
		r.Eval(1)
		for _, x := range viol {
			r.Violation(x[0], "csm", i, sc, "%s", x[1])
		}
		for k, c := range cnt {
			r.Count("csm_"+k, c)
		}
		if sig != "" {
			r.Nontrivial("csm:" + sig)
		}
		if i < 2 {
			r.Sample(map[string]any{"family": "csm", "scenario": sc, "counters": cnt})
		}
	}
	r.Finish(vlib.Spec{
		Level:       "exploration",
		Rule:        "white-box: the real connectivityStateManager + ClientConn.GetState/WaitForStateChange; 1-8 watcher goroutines, 1-4 updater goroutines firing bursts of 1-100 updateState calls with random states at the same virtual instant for 4-15 rounds, then SHUTDOWN (+ an update that must be ignored); at the exact quiescent point after every round: no watcher parked in WaitForStateChange(s) with getState() != s, last published == getState(); at the end watcher observations are an in-order subsequence of the published states and end in SHUTDOWN; non-trivial = a round with >= 2 state changes; distinct = (watchers, updaters, non-trivial rounds)",
		Assumptions: []string{"goroutines of a bubble run in parallel, so updateState genuinely races with the two calls inside WaitForStateChange"},
		Floor:       20,
	})
}
