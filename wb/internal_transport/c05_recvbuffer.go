// C05 part (1), white-box: random histories directly on the real recvBuffer +
// recvBufferReader (and on Stream.read / Stream.ReadMessageHeader on top of
// them), with envconfig.EnableReceiveBufferCompaction on and off.
//
// The producer puts data buffers whose sizes straddle the compaction regime
// (thousands of 1-60 B buffers, some up to 1 KiB, occasional 1-16 KiB ones); the
// payload is one known pseudo-random byte stream S cut at the buffer
// boundaries.  A terminator (io.EOF, an arbitrary error, or — server side only
// — cancellation of the stream context) is injected at a random point and the
// producer keeps putting data after it.  The reader performs Read(n) /
// ReadMessageHeader(h) with n in 1..70000, either interleaved with the
// producer in one goroutine ("seq", exact oracle) or concurrently in its own
// goroutine with the terminator injected by a third goroutine ("conc", run
// under -race; the oracle uses call/return stamps: everything whose put had
// returned before the terminator's put was called must be delivered, nothing
// whose put was called after the terminator's put returned may be).
//
// Oracles (from the statement): every delivered chunk equals S at the current
// offset (in order, nothing lost, nothing duplicated); the terminator is
// returned only after all data put before it and no data put after it; every
// later read returns the same error and no data; Stream.read / ReadMessageHeader
// succeed whenever enough bytes precede the terminator.  A tracking
// mem.BufferPool checks that every pooled buffer (producer's and the ones
// compaction obtains) is returned exactly once: a second Put is a violation at
// once, an outstanding buffer after the terminator was delivered is a leak.
//
// Every history runs inside a testing/synctest bubble.  No clock is involved;
// the bubble is used for synctest.Wait(), which returns exactly when every
// goroutine of the history has finished or is parked for good.  A read that is
// still parked then, although all data and the terminator are in the buffer,
// is reported as reader-stuck (lost bytes are never delivered) instead of
// hanging the process.
//
// In one history out of eight (and four fixed ones) a SECOND terminator is put
// some data puts after the first one, as http2Server.handleData does for a
// second END_STREAM on a finished stream; it must be ignored.  On the current
// tree recvBuffer.put panics there (nil r.buffer.Free()): key
// panic-on-second-terminator, registered in known_findings.json.
//
// R2 note: with terminator "ctx" (server-side cancellation) recvBufferReader
// may legitimately return the context error ahead of buffered data; there only
// "delivered bytes are a prefix of S, the error is sticky, no double free" is
// judged (no "all data first", no leak check).
package transport

import (
	"context"
	"errors"
	"fmt"
	"io"
	"math/rand"
	"sync"
	"sync/atomic"
	"testing"
	"testing/synctest"
	"time"
	"unsafe"

	"google.golang.org/grpc/internal/envconfig"
	vlib "google.golang.org/grpc/internal/verifvlib"
	"google.golang.org/grpc/mem"
)

// ---------------------------------------------------------------- tracking pool

type c05Region struct {
	base uintptr
	n    int
}

type c05Pool struct {
	mu          sync.Mutex
	live        map[*[]byte]bool // handle -> outstanding
	freed       map[*[]byte]bool
	gets        int // Get calls: only the code under test (compaction) calls Get
	regions     []c05Region
	doubleFree  int
	foreignPut  int
	producerBuf int
}

func c05NewPool() *c05Pool {
	return &c05Pool{live: map[*[]byte]bool{}, freed: map[*[]byte]bool{}}
}

func (p *c05Pool) Get(n int) *[]byte {
	// like the tiered pool: the capacity may exceed the requested length
	b := make([]byte, n, n+n/8)
	p.mu.Lock()
	p.gets++
	p.live[&b] = true
	if n > 0 {
		p.regions = append(p.regions, c05Region{uintptr(unsafe.Pointer(unsafe.SliceData(b))), n})
	}
	p.mu.Unlock()
	return &b
}

func (p *c05Pool) Put(h *[]byte) {
	p.mu.Lock()
	switch {
	case p.live[h]:
		delete(p.live, h)
		p.freed[h] = true
		// poison: a use after free shows up as wrong bytes at the reader
		b := (*h)[:cap(*h)]
		for len(b) > 0 {
			b = b[copy(b, c05Poison[:]):]
		}
	case p.freed[h]:
		p.doubleFree++
	default:
		p.foreignPut++
	}
	p.mu.Unlock()
}

// alloc makes a producer-side buffer that is tracked by the pool (capacity above
// the pooling threshold, so mem.NewBuffer returns a ref-counted pooled buffer).
func (p *c05Pool) alloc(payload []byte) mem.Buffer {
	c := len(payload)
	if c < 1025 {
		c = 1025
	}
	b := make([]byte, len(payload), c)
	copy(b, payload)
	p.mu.Lock()
	p.live[&b] = true
	p.producerBuf++
	p.mu.Unlock()
	return mem.NewBuffer(&b, p)
}

// inCompacted reports whether data lies inside a buffer obtained by compaction
// and is shorter than it (i.e. a read split a compacted buffer).
func (p *c05Pool) inCompacted(data []byte) (inside, split bool) {
	if len(data) == 0 {
		return false, false
	}
	a := uintptr(unsafe.Pointer(unsafe.SliceData(data)))
	p.mu.Lock()
	defer p.mu.Unlock()
	for _, r := range p.regions {
		if a >= r.base && a < r.base+uintptr(r.n) {
			return true, len(data) < r.n
		}
	}
	return false, false
}

// ---------------------------------------------------------------- case description

type c05Op struct {
	Put  int  `json:"put,omitempty"`  // put this many buffers
	Read int  `json:"read,omitempty"` // one read of this size
	Hdr  bool `json:"hdr,omitempty"`  // ReadMessageHeader instead of Read
	Many int  `json:"many,omitempty"` // repeat the read this many times (-1: drain)
}

type c05Case struct {
	Compaction bool    `json:"compaction"`
	Level      string  `json:"level"` // raw | stream
	Side       string  `json:"side"`  // server | client
	Mode       string  `json:"mode"`  // seq | conc
	Tracked    bool    `json:"tracked_small_buffers"`
	Term       string  `json:"terminator"` // eof | err | ctx
	NBuf       int     `json:"buffers"`
	TermIdx    int     `json:"terminator_before_buffer"`
	Gate       int     `json:"reader_gate,omitempty"`
	Second     int     `json:"second_terminator_after,omitempty"` // >0: a second terminator is put this many data puts after the first
	BigAt      int     `json:"big_buffer_at,omitempty"`
	Ops        []c05Op `json:"ops,omitempty"`
	sizes      []int
	readSizes  []int
	readHdr    []bool
	pauses     map[int]int // conc: after read #k wait until producer progress >= v
}

var c05ErrInjected = errors.New("c05: injected transport error")
var c05ErrSecond = errors.New("c05: second terminator (must be ignored)")

var c05Poison = func() (p [4096]byte) {
	for i := range p {
		p[i] = 0xDD
	}
	return
}()

func c05ReadSize(rng *rand.Rand) (int, bool) {
	hdr := rng.Intn(4) == 0
	if hdr {
		return vlib.Pick(rng, 1, 2, 5, 5, 5, 9), true
	}
	switch rng.Intn(8) {
	case 0:
		return 1, false
	case 1:
		return 1 + rng.Intn(8), false
	case 2:
		return 1 + rng.Intn(70), false
	case 3:
		return 1 + rng.Intn(1500), false
	case 4:
		return 16384, false
	case 5:
		return 1 + rng.Intn(70000), false
	case 6:
		return 40 + rng.Intn(40), false
	default:
		return 1 + rng.Intn(300), false
	}
}

func c05Gen(rng *rand.Rand, compaction bool, fixed int) *c05Case {
	c := &c05Case{Compaction: compaction}
	second := false
	if fixed >= 32 { // four fixed histories with a second terminator
		second = true
		fixed = []int{0, 3, 4, 7}[fixed-32]
	}
	if fixed >= 0 { // deterministic must-hit prefix: enumerate the flavours
		c.Level = []string{"raw", "stream"}[fixed&1]
		c.Side = []string{"server", "client"}[(fixed>>1)&1]
		c.Mode = []string{"seq", "conc"}[(fixed>>2)&1]
		c.Tracked = (fixed>>3)&1 == 0
		c.Term = []string{"eof", "err"}[(fixed>>4)&1]
	} else {
		c.Level = vlib.Pick(rng, "raw", "raw", "stream")
		c.Side = vlib.Pick(rng, "server", "client")
		c.Mode = vlib.Pick(rng, "seq", "conc")
		c.Tracked = rng.Intn(2) == 0
		c.Term = vlib.Pick(rng, "eof", "eof", "err", "ctx")
		if c.Term == "ctx" {
			c.Side = "server"
		}
	}
	// buffer sizes
	regime := rng.Intn(5)
	if fixed >= 0 {
		regime = 0
	}
	switch regime {
	case 0, 1: // deep in the compaction regime
		c.NBuf = 2300 + rng.Intn(2500)
	case 2:
		c.NBuf = 1000 + rng.Intn(1500) // around the threshold
	case 3:
		c.NBuf = 1 + rng.Intn(200)
	default:
		c.NBuf = 200 + rng.Intn(2000)
	}
	c.sizes = make([]int, c.NBuf)
	maxSmall := vlib.Pick(rng, 1, 8, 30, 55, 60, 60, 120)
	bigEvery := vlib.Pick(rng, 0, 0, 150, 600, 2000)
	if fixed >= 0 { // guarantee a long run of small buffers (average below recvMsgSize)
		maxSmall = vlib.Pick(rng, 1, 8, 30, 55)
		bigEvery = 0
	}
	if fixed >= 0 && fixed%3 == 0 {
		c.BigAt = 40 + rng.Intn(60) // one large buffer early in the unread backlog (resets the suffix ledger)
	}
	for i := range c.sizes {
		switch {
		case c.BigAt > 0 && i == c.BigAt:
			c.sizes[i] = 4096 + rng.Intn(8192)
		case bigEvery > 0 && rng.Intn(bigEvery) == 0:
			c.sizes[i] = 1024 + rng.Intn(15*1024+1)
		case rng.Intn(400) == 0:
			c.sizes[i] = 61 + rng.Intn(964) // up to 1 KiB
		default:
			c.sizes[i] = 1 + rng.Intn(maxSmall)
		}
	}
	switch rng.Intn(4) {
	case 0:
		c.TermIdx = c.NBuf // after all data
	case 1:
		c.TermIdx = rng.Intn(c.NBuf + 1)
	default:
		c.TermIdx = c.NBuf - rng.Intn(c.NBuf/3+1) // leave a tail of dropped data
	}
	if fixed >= 0 && c.TermIdx < 2000 {
		c.TermIdx = c.NBuf - 50
	}
	if c.Term != "ctx" && (second || rng.Intn(8) == 0) {
		// e.g. a second END_STREAM on a stream that is already finished
		c.Second = 1 + rng.Intn(20)
	}
	if c.Mode == "seq" {
		remaining := c.NBuf
		for remaining > 0 {
			burst := vlib.Pick(rng, 1, 3, 40, 700, 1200, 1500, 3000)
			if fixed >= 0 && len(c.Ops) == 0 {
				burst = 2200
			}
			if burst > remaining {
				burst = remaining
			}
			remaining -= burst
			c.Ops = append(c.Ops, c05Op{Put: burst})
			n, hdr := c05ReadSize(rng)
			c.Ops = append(c.Ops, c05Op{Read: n, Hdr: hdr, Many: vlib.Pick(rng, 0, 1, 2, 7, 60, 900, -1)})
			if rng.Intn(2) == 0 {
				n, hdr = c05ReadSize(rng)
				c.Ops = append(c.Ops, c05Op{Read: n, Hdr: hdr, Many: vlib.Pick(rng, 1, 3, 30)})
			}
		}
	} else {
		c.Gate = vlib.Pick(rng, 0, 0, 300, 1500, 2500, c.NBuf)
		if fixed >= 0 {
			c.Gate = 2200
		}
		if c.Gate > c.NBuf {
			c.Gate = c.NBuf
		}
		k := 64 + rng.Intn(64)
		c.readSizes = make([]int, k)
		c.readHdr = make([]bool, k)
		for i := range c.readSizes {
			c.readSizes[i], c.readHdr[i] = c05ReadSize(rng)
		}
		c.pauses = map[int]int{}
		for j := rng.Intn(4); j > 0; j-- {
			c.pauses[rng.Intn(400)] = rng.Intn(c.NBuf + 1)
		}
	}
	return c
}

// ---------------------------------------------------------------- one history

type c05WH struct{ sum atomic.Int64 }

func (w *c05WH) updateWindow(n int) { w.sum.Add(int64(n)) }

type c05RR struct{}

func (c05RR) requestRead(int) {}

type c05Result struct {
	compactions, splitCompacted, reads, puts, hdrReads, bytes, droppedAfterTerm int64
	termWithBacklog, fastReturn                                                 bool
	secondTerm, secondTermPanics                                                int64
}

type c05Run struct {
	r     *vlib.Run
	fam   string
	idx   int
	c     *c05Case
	S     []byte
	pref  []int // pref[i] = bytes in buffers [0,i)
	pool  *c05Pool
	s     *Stream
	rd    *recvBufferReader
	wh    *c05WH
	clock atomic.Int64

	vmu      sync.Mutex
	violated bool

	// reader state (reader goroutine only)
	off       int
	firstErr  error
	failedN   int
	failedHdr bool
	res       c05Result
}

func (x *c05Run) viol(key, f string, a ...any) {
	x.vmu.Lock()
	x.violated = true
	x.vmu.Unlock()
	x.r.Violation(key, x.fam, x.idx, x.c, f, a...)
}

func (x *c05Run) bad() bool {
	x.vmu.Lock()
	defer x.vmu.Unlock()
	return x.violated
}

// put puts data buffer i (guarded against panics of the code under test).
func (x *c05Run) put(i int) (ok bool) {
	defer func() {
		if p := recover(); p != nil {
			x.viol("panic-in-put", "recvBuffer.put panicked while putting data buffer %d (%d bytes): %v", i, x.c.sizes[i], p)
			ok = false
		}
	}()
	payload := x.S[x.pref[i]:x.pref[i+1]]
	var b mem.Buffer
	if x.c.Tracked || len(payload) > 1024 {
		b = x.pool.alloc(payload)
	} else {
		cp := make([]byte, len(payload))
		copy(cp, payload)
		b = mem.SliceBuffer(cp)
	}
	x.s.buf.put(recvMsg{buffer: b})
	return true
}

func (x *c05Run) putTerm(cancel context.CancelFunc) {
	defer func() {
		if p := recover(); p != nil {
			x.viol("panic-in-put", "recvBuffer.put panicked while putting the terminator: %v", p)
		}
	}()
	switch x.c.Term {
	case "eof":
		x.s.buf.put(recvMsg{err: io.EOF})
	case "err":
		x.s.buf.put(recvMsg{err: c05ErrInjected})
	default:
		cancel()
	}
}

// putSecondTerm puts another terminator although one is already in.  The
// transport does this (http2Server.handleData writes recvMsg{err: io.EOF} for
// every END_STREAM it sees on a stream whose handler has already finished), so
// the buffer has to ignore it.  A panic here is reported under its own key and
// the history goes on (put releases its lock on the way out).
func (x *c05Run) putSecondTerm() {
	x.res.secondTerm++
	defer func() {
		if p := recover(); p != nil {
			x.res.secondTermPanics++
			x.r.Violation("panic-on-second-terminator", x.fam, x.idx, x.c,
				"recvBuffer.put(recvMsg{err: ...}) panicked because a terminator was already in: %v (reachable from the wire: two DATA frames with END_STREAM on a server stream whose handler has returned but whose trailers are still blocked by flow control)", p)
		}
	}()
	x.s.buf.put(recvMsg{err: c05ErrSecond})
}

// readOnce performs one read operation and checks the delivered bytes against S.
func (x *c05Run) readOnce(n int, hdr bool) (err error) {
	defer func() {
		if p := recover(); p != nil {
			x.viol("panic-in-read", "read (n=%d hdr=%v) at offset %d panicked: %v", n, hdr, x.off, p)
			// recvBuffer.load does not release its mutex on the way out of a panic, so the
			// producer could block on it for ever and the bubble would never become quiescent:
			// the violation is on record, let the panic take the process down.
			panic(p)
		}
	}()
	var got []byte
	x.res.reads++
	switch {
	case x.c.Level == "raw" && !hdr:
		var b mem.Buffer
		b, err = x.rd.Read(n)
		if err == nil {
			if b == nil {
				x.viol("read-nil-buffer", "Read(%d) returned (nil, nil) at offset %d", n, x.off)
				return errors.New("nil buffer")
			}
			data := b.ReadOnlyData()
			if in, split := x.pool.inCompacted(data); in {
				if split {
					x.res.splitCompacted++
				}
			}
			got = append([]byte(nil), data...)
			b.Free()
			if len(got) > n {
				x.viol("read-too-long", "Read(%d) returned %d bytes", n, len(got))
			}
		} else if b != nil && b.Len() > 0 {
			x.viol("data-with-error", "Read(%d) returned %d bytes together with error %v", n, b.Len(), err)
		}
	case x.c.Level == "raw" && hdr:
		x.res.hdrReads++
		h := make([]byte, n)
		var k int
		k, err = x.rd.ReadMessageHeader(h)
		if err == nil {
			got = h[:k]
		} else if k != 0 {
			x.viol("data-with-error", "ReadMessageHeader returned n=%d together with error %v", k, err)
		}
	case !hdr:
		var bs mem.BufferSlice
		bs, err = x.s.read(n)
		if err == nil {
			for _, b := range bs {
				if in, split := x.pool.inCompacted(b.ReadOnlyData()); in && split {
					x.res.splitCompacted++
				}
			}
			got = bs.Materialize()
			bs.Free()
			if len(got) != n {
				x.viol("stream-read-short", "Stream.read(%d) returned %d bytes without error", n, len(got))
			}
		} else if bs.Len() > 0 {
			x.viol("data-with-error", "Stream.read(%d) returned %d bytes together with error %v", n, bs.Len(), err)
		}
	default:
		x.res.hdrReads++
		h := make([]byte, n)
		err = x.s.ReadMessageHeader(h)
		if err == nil {
			got = h
		}
	}
	if err != nil {
		if x.firstErr == nil {
			x.firstErr, x.failedN, x.failedHdr = err, n, hdr
		}
		return err
	}
	// judge the delivered bytes
	if x.firstErr != nil && len(got) > 0 {
		x.viol("data-after-terminator", "a read returned %d bytes after an earlier read had returned %v", len(got), x.firstErr)
		return nil
	}
	end := x.off + len(got)
	if end > len(x.S) || string(got) != string(x.S[x.off:end]) {
		at := -1
		if len(got) >= 4 {
			for j := 0; j+len(got) <= len(x.S); j++ {
				if string(x.S[j:j+len(got)]) == string(got) {
					at = j
					break
				}
			}
		}
		first := 0
		for first < len(got) && x.off+first < len(x.S) && got[first] == x.S[x.off+first] {
			first++
		}
		poison := first < len(got) && got[first] == 0xDD
		x.viol("bytes-mismatch", "read (n=%d hdr=%v) delivered %d bytes that differ from the %d bytes put at stream offset %d (first difference at +%d; the delivered chunk occurs in the stream at offset %d; freed-buffer poison seen: %v)",
			n, hdr, len(got), len(got), x.off, first, at, poison)
		return errors.New("mismatch")
	}
	x.off = end
	x.res.bytes += int64(len(got))
	return nil
}

// c05RunCase executes one history.  It returns the evidence signature.
// It must be called inside a synctest bubble.
func c05RunCase(r *vlib.Run, fam string, idx int, c *c05Case, rng *rand.Rand) (string, c05Result) {
	x := &c05Run{r: r, fam: fam, idx: idx, c: c, pool: c05NewPool(), wh: &c05WH{}}
	x.pref = make([]int, c.NBuf+1)
	for i, sz := range c.sizes {
		x.pref[i+1] = x.pref[i] + sz
	}
	x.S = make([]byte, x.pref[c.NBuf])
	rng.Read(x.S)
	for i := range x.S { // never the poison value, so that poison is recognisable
		if x.S[i] == 0xDD {
			x.S[i] = 0x11
		}
	}
	ctx, cancel := context.WithCancel(context.Background())
	defer cancel()
	x.s = &Stream{ctx: ctx, readRequester: c05RR{}}
	x.s.buf.init(x.pool)
	x.s.trReader = transportReader{
		reader:        recvBufferReader{ctx: ctx, ctxDone: ctx.Done(), recv: &x.s.buf},
		windowHandler: x.wh,
	}
	if c.Side == "client" {
		// the client flavour only differs in what happens on ctx cancellation,
		// which is never triggered here (Term "ctx" is server-only)
		x.s.trReader.reader.clientStream = &ClientStream{}
	}
	x.rd = &x.s.trReader.reader

	var lower, upper int // bounds on the data that must / may precede the terminator
	T := x.pref[c.TermIdx]

	// guarded runs f in its own goroutine of the bubble and waits for exact quiescence:
	// synctest.Wait() returns when every goroutine of the bubble has exited or is durably
	// blocked.  Nothing here waits for anything outside the history itself, so if f has not
	// finished by then, a read is parked for good although the data / the terminator it is
	// entitled to are already in the buffer: the lost bytes are never delivered.
	guarded := func(what string, f func()) {
		var fin atomic.Bool
		go func() {
			defer fin.Store(true)
			f()
		}()
		synctest.Wait()
		if fin.Load() {
			return
		}
		if !x.bad() {
			x.viol("reader-stuck", "%s: a read is parked for good at stream offset %d although all data and the terminator it waits for have been put: buffered data / the terminator is never delivered", what, x.off)
		}
		for k := 0; k < 16 && !fin.Load(); k++ { // unwedge so that the bubble can end
			select {
			case x.s.buf.c <- recvMsg{err: errors.New("c05: abort")}:
			default:
			}
			cancel()
			synctest.Wait()
		}
	}
	if c.Mode == "seq" {
		guarded("sequential history", func() {
			putIdx := 0
			termPut := false
			secondPut := c.Second == 0
			maybeSecond := func(force bool) {
				if termPut && !secondPut && (force || putIdx >= c.TermIdx+c.Second) {
					x.putSecondTerm()
					secondPut = true
				}
			}
			avail := func() int { // bytes put before the terminator and not yet consumed
				lim := putIdx
				if lim > c.TermIdx {
					lim = c.TermIdx
				}
				return x.pref[lim] - x.off
			}
			maybeTerm := func() {
				if !termPut && putIdx == c.TermIdx {
					if avail() > 0 {
						x.res.termWithBacklog = true
					}
					x.putTerm(cancel)
					termPut = true
				}
			}
			doRead := func(n int, hdr bool) bool {
				if x.firstErr != nil {
					return false
				}
				if !termPut {
					need := 1
					if c.Level == "stream" {
						need = n
					}
					if avail() < need {
						return false // would block: nothing to judge
					}
				}
				if err := x.readOnce(n, hdr); err != nil {
					return false
				}
				return !x.bad()
			}
			for _, op := range c.Ops {
				if x.bad() {
					break
				}
				if op.Put > 0 {
					for j := 0; j < op.Put && putIdx < c.NBuf; j++ {
						maybeTerm()
						maybeSecond(false)
						if !x.put(putIdx) {
							break
						}
						x.res.puts++
						if termPut {
							x.res.droppedAfterTerm++
						}
						putIdx++
					}
					continue
				}
				many := op.Many
				if many < 0 {
					many = 2500 // "drain", bounded
				}
				for k := 0; k < many; k++ {
					if !doRead(op.Read, op.Hdr) {
						break
					}
				}
			}
			for !x.bad() && putIdx < c.NBuf {
				maybeTerm()
				maybeSecond(false)
				if !x.put(putIdx) {
					break
				}
				x.res.puts++
				putIdx++
			}
			if !x.bad() {
				maybeTerm()
				maybeSecond(true)
			}
			// read to the terminator
			for k := 0; !x.bad() && x.firstErr == nil; k++ {
				n, hdr := c05ReadSize(rng)
				if x.readOnce(n, hdr) != nil {
					break
				}
			}
			lower, upper = T, T
		})
	} else {
		guarded("concurrent history", func() {
			var progress atomic.Int64 // buffers put so far
			var prodDone atomic.Bool
			var errCall, errRet atomic.Int64
			callSt := make([]int64, c.NBuf)
			retSt := make([]int64, c.NBuf)
			var wg sync.WaitGroup
			// pacing only (no verdict depends on it): wait until the producer has put v buffers
			var pmu sync.Mutex
			pcond := sync.NewCond(&pmu)
			var waiters atomic.Int32
			wake := func() {
				if waiters.Load() > 0 {
					pmu.Lock()
					pcond.Broadcast()
					pmu.Unlock()
				}
			}
			waitProgress := func(v int) {
				pmu.Lock()
				waiters.Add(1)
				for progress.Load() < int64(v) && !prodDone.Load() {
					pcond.Wait()
				}
				waiters.Add(-1)
				pmu.Unlock()
			}
			wg.Add(3)
			go func() { // producer
				defer wg.Done()
				defer func() { prodDone.Store(true); wake() }()
				for i := 0; i < c.NBuf && !x.bad(); i++ {
					callSt[i] = x.clock.Add(1)
					if !x.put(i) {
						return
					}
					retSt[i] = x.clock.Add(1)
					progress.Add(1)
					wake()
				}
			}()
			go func() { // terminator injector
				defer wg.Done()
				waitProgress(c.TermIdx)
				errCall.Store(x.clock.Add(1))
				x.putTerm(cancel)
				errRet.Store(x.clock.Add(1))
				if c.Second > 0 {
					waitProgress(c.TermIdx + c.Second)
					x.putSecondTerm()
				}
			}()
			var readerDone atomic.Bool
			go func() { // reader
				defer wg.Done()
				defer readerDone.Store(true)
				waitProgress(c.Gate)
				for k := 0; !x.bad(); k++ {
					if v, ok := c.pauses[k]; ok {
						waitProgress(v)
					}
					j := k % len(c.readSizes)
					if x.readOnce(c.readSizes[j], c.readHdr[j]) != nil {
						return
					}
				}
			}()
			wg.Wait()
			ec, er := errCall.Load(), errRet.Load()
			for i := 0; i < c.NBuf; i++ {
				if retSt[i] != 0 && retSt[i] < ec {
					lower = x.pref[i+1]
				}
				if callSt[i] != 0 && callSt[i] < er {
					upper = x.pref[i+1]
				}
			}
			x.res.puts = progress.Load()
			if lower != upper {
				x.res.fastReturn = true // the terminator really raced a data put
			}
		})
	}

	sig := "violated"
	judge := func() string {
		pool := x.pool
		pool.mu.Lock()
		x.res.compactions = int64(pool.gets)
		dbl, foreign := pool.doubleFree, pool.foreignPut
		pool.mu.Unlock()
		if dbl > 0 || foreign > 0 {
			x.viol("buffer-double-free", "%d pooled buffer(s) were returned to the pool twice (%d Put of unknown handles)", dbl, foreign)
		}
		if !c.Compaction && x.res.compactions > 0 {
			x.viol("compaction-while-disabled", "the pool saw %d Get calls from recvBuffer although EnableReceiveBufferCompaction is false", x.res.compactions)
		}
		if x.bad() {
			return "violated"
		}

		// ---- terminator oracles
		consumed := x.off
		if c.Level == "stream" {
			consumed = int(x.wh.sum.Load()) // includes the bytes of a failed partial read
		}
		if x.firstErr == nil {
			x.viol("no-terminator", "the reader stopped without ever receiving the terminator")
			return "violated"
		}
		if c.Term == "ctx" {
			if x.off > len(x.S) {
				x.viol("data-after-terminator", "delivered %d bytes, only %d were put", x.off, len(x.S))
			}
		} else {
			want := error(io.EOF)
			if c.Term == "err" {
				want = c05ErrInjected
			}
			// EOF in the middle of the bytes a Stream-level read asked for: the statement does not
			// say which of io.EOF / io.ErrUnexpectedEOF is surfaced (the shipped Stream.read returns
			// io.EOF, its doc mentions io.ErrUnexpectedEOF), so both are accepted there.
			altOK := c.Level == "stream" && c.Term == "eof" && consumed > x.off && x.firstErr == io.ErrUnexpectedEOF
			switch {
			case consumed < lower:
				x.viol("data-lost-before-terminator", "the terminator (%v) was returned after %d bytes although %d bytes had been put before it (buffers 0..%d)", x.firstErr, consumed, lower, c.TermIdx)
			case consumed > upper:
				x.viol("data-after-terminator", "%d bytes were delivered although only %d were put before the terminator: data put after the terminator got through", consumed, upper)
			case x.firstErr != want && !altOK:
				x.viol("terminator-wrong-error", "the terminating read returned %v, want %v", x.firstErr, want)
			}
			if !x.bad() {
				// the delivered amount must end on a buffer boundary (a put is all or nothing)
				onBoundary := false
				for i := 0; i <= c.NBuf; i++ {
					if x.pref[i] == consumed {
						onBoundary = true
						break
					}
				}
				if !onBoundary {
					x.viol("terminator-inside-buffer", "%d bytes were consumed before the terminator, which is not a buffer boundary", consumed)
				}
			}
			if !x.bad() && c.Level == "stream" && x.failedN <= lower-x.off {
				x.viol("stream-read-failed-with-enough-data", "Stream read of %d bytes failed with %v although %d more bytes preceded the terminator", x.failedN, x.firstErr, lower-x.off)
			}
		}
		// ---- nothing after the terminator: every later read returns the same error and no data
		first := x.firstErr
		offAtTerm := x.off
		for k := 0; k < 4 && !x.bad(); k++ {
			n, hdr := c05ReadSize(rng)
			err := x.readOnce(n, hdr)
			if x.bad() {
				break
			}
			if err == nil {
				if x.off == offAtTerm { // zero bytes, no error
					x.viol("read-after-terminator", "read #%d after the terminator returned no error (the terminator was %v)", k+1, first)
				}
				break
			}
			same := err == first
			if c.Level == "stream" && first == io.ErrUnexpectedEOF {
				same = err == io.EOF || err == io.ErrUnexpectedEOF // the sticky transport error underneath is io.EOF
			}
			if !same {
				x.viol("read-after-terminator", "read #%d after the terminator returned %v, the terminator was %v", k+1, err, first)
			}
		}
		// ---- exactly-once release
		if !x.bad() {
			pool.mu.Lock()
			live, dbl := len(pool.live), pool.doubleFree+pool.foreignPut
			pool.mu.Unlock()
			if dbl > 0 {
				x.viol("buffer-double-free", "%d pooled buffer(s) were returned to the pool twice", dbl)
			} else if live > 0 && c.Term != "ctx" {
				x.viol("buffer-leak", "%d pooled buffer(s) were never returned to the pool although the reader consumed everything up to the terminator", live)
			}
		}
		if x.bad() {
			return "violated"
		}
		comp := x.res.compactions
		if comp > 2 {
			comp = 2
		}
		sig := fmt.Sprintf("comp=%v/%s/%s/%s/tracked=%v/%s/compactions%d/split%v/termBacklog%v/raced%v/tail%v/second%v",
			c.Compaction, c.Level, c.Side, c.Mode, c.Tracked, c.Term, comp, x.res.splitCompacted > 0, x.res.termWithBacklog, x.res.fastReturn, c.TermIdx < c.NBuf, c.Second > 0)
		return sig
	}
	guarded("reads after the terminator", func() { sig = judge() })
	return sig, x.res
}

func TestVerifC05(t *testing.T) {
	r := vlib.Start(t, "C05")
	stop := r.Watchdog(25 * time.Minute)
	defer stop()
	saved := envconfig.EnableReceiveBufferCompaction
	defer func() { envconfig.EnableReceiveBufferCompaction = saved }()
	var mu sync.Mutex
	var tot c05Result
	var nontrivialOn, casesWithCompaction, casesWithSplit int64
	perGroup := r.N(160, 2500)
	const shards = 8
	const fixedPrefix = 36
	for _, compaction := range []bool{true, false} {
		// package-level knob of the real code: constant while the cases of this group run
		envconfig.EnableReceiveBufferCompaction = compaction
		fam := "compaction-off"
		if compaction {
			fam = "compaction-on"
		}
		t.Run(fam, func(t *testing.T) {
			for s := 0; s < shards; s++ {
				t.Run(fmt.Sprint(s), func(t *testing.T) {
					t.Parallel()
					for i := s; i < perGroup; i += shards {
						if !r.Want(fam, i) {
							continue
						}
						rng := r.Rand(fam, i)
						fixed := -1
						if i < fixedPrefix {
							fixed = i
						}
						c := c05Gen(rng, compaction, fixed)
						r.Progress(fam, i, fmt.Sprintf("%s/%s/%s/%s buffers=%d term=%s@%d", c.Level, c.Side, c.Mode, map[bool]string{true: "tracked", false: "slice"}[c.Tracked], c.NBuf, c.Term, c.TermIdx))
						var sig string
						var res c05Result
						// every history runs in its own synctest bubble: no clock is involved, the
						// bubble is only used for its exact "everything has finished or is parked
						// for good" detection (synctest.Wait), see guarded in c05RunCase
						synctest.Test(t, func(*testing.T) { sig, res = c05RunCase(r, fam, i, c, rng) })
						r.Eval(1)
						mu.Lock()
						tot.compactions += res.compactions
						tot.splitCompacted += res.splitCompacted
						tot.reads += res.reads
						tot.hdrReads += res.hdrReads
						tot.puts += res.puts
						tot.bytes += res.bytes
						tot.droppedAfterTerm += res.droppedAfterTerm
						tot.secondTerm += res.secondTerm
						tot.secondTermPanics += res.secondTermPanics
						if res.compactions > 0 {
							casesWithCompaction++
						}
						if res.splitCompacted > 0 {
							casesWithSplit++
						}
						if i < 4 && s < 4 {
							r.Sample(map[string]any{"family": fam, "case": i, "config": c, "compactions": res.compactions, "reads_that_split_a_compacted_buffer": res.splitCompacted, "bytes_delivered": res.bytes})
						}
						mu.Unlock()
						// non-trivial: with compaction on, compaction ran and a read split a compacted
						// buffer; with compaction off, the same deep-backlog histories (>= 1025 buffers)
						if sig != "violated" && sig != "abandoned" {
							if compaction && res.compactions > 0 && res.splitCompacted > 0 {
								r.Nontrivial(sig)
								mu.Lock()
								nontrivialOn++
								mu.Unlock()
							} else if !compaction && c.NBuf > 1024 {
								r.Nontrivial(sig)
							}
						}
					}
				})
			}
		})
	}
	envconfig.EnableReceiveBufferCompaction = saved
	r.Count("compactions_observed_pool_get", tot.compactions)
	r.Count("reads_splitting_a_compacted_buffer", tot.splitCompacted)
	r.Count("cases_with_compaction", casesWithCompaction)
	r.Count("cases_with_split_of_compacted_buffer", casesWithSplit)
	r.Count("reads", tot.reads)
	r.Count("header_reads", tot.hdrReads)
	r.Count("data_buffers_put", tot.puts)
	r.Count("bytes_delivered_and_compared", tot.bytes)
	r.Count("second_terminators_put", tot.secondTerm)
	r.Count("second_terminator_panics", tot.secondTermPanics)
	if nontrivialOn == 0 && r.Replaying() == nil {
		r.Inconclusive("compaction never ran with a split read in the compaction-on group")
	}
	r.Finish(vlib.Spec{
		Level: "exploration",
		Rule: "per compaction setting: 32 fixed flavour cases (level raw/stream x side x seq/conc x tracked/slice buffers x eof/err, each with a >=2200-buffer unread backlog) + PRNG histories of 1-6500 data buffers (1-60 B regime, up to 1 KiB, occasional 1-16 KiB), terminator eof/err/ctx at a random buffer index with data put after it, reads of 1-70000 bytes / headers of 1-9 bytes, sequential scripts and concurrent producer/injector/reader goroutines; " +
			"non-trivial = (compaction on) compaction ran (pool.Get observed) and a read split a compacted buffer, (compaction off) history with > 1024 buffers; distinct = (compaction, level, side, mode, buffer kind, terminator, #compactions capped at 2, split seen, terminator put over a backlog, terminator raced a data put, data put after the terminator)",
		Assumptions: []string{
			"one producer goroutine for data (the transport's reader goroutine), the terminator may come from another goroutine, one reader goroutine (the application)",
			"data buffers are non-empty (the transport only writes DATA payloads with length > 0 into the buffer)",
			"in concurrent histories the position of the terminator is bounded by call/return stamps of the puts (R3); buffers whose put overlaps the terminator's put may legitimately fall on either side",
			"terminator ctx (server-side cancellation): only prefix + sticky error + no double free are judged (DESIGN.md R2 note)",
		},
		Floor: 20,
	})
}
