// C08: encodeGrpcMessage/decodeGrpcMessage against a reference written from the
// property statement (white-box: the functions are unexported).
package transport

import (
	"fmt"
	"strings"
	"testing"
	"unicode/utf8"

	vlib "google.golang.org/grpc/internal/verifvlib"
)

// refSanitize is what the message must decode to: m with every invalid UTF-8
// byte replaced by U+FFFD (Go's `range` semantics) and nothing else changed.
func c08RefSanitize(m string) string {
	var sb strings.Builder
	for _, r := range m { // invalid bytes yield RuneError, one per byte
		sb.WriteRune(r)
	}
	return sb.String()
}

func c08Check(r *vlib.Run, fam string, i int, m string) {
	r.Eval(1)
	enc := encodeGrpcMessage(m)
	for k := 0; k < len(enc); k++ {
		if enc[k] < 0x20 || enc[k] > 0x7E {
			r.Violation("encoded-not-printable-ascii", fam, i, map[string]string{"msg": fmt.Sprintf("%q", m), "enc": fmt.Sprintf("%q", enc)},
				"encodeGrpcMessage(%q) = %q contains byte 0x%02X", m, enc, enc[k])
			return
		}
	}
	dec := decodeGrpcMessage(enc)
	want := c08RefSanitize(m)
	if dec != want {
		key := "roundtrip-valid-utf8"
		if !utf8.ValidString(m) {
			key = "roundtrip-invalid-utf8"
		}
		r.Violation(key, fam, i, map[string]string{"msg": fmt.Sprintf("%q", m), "enc": fmt.Sprintf("%q", enc), "dec": fmt.Sprintf("%q", dec), "want": fmt.Sprintf("%q", want)},
			"decode(encode(%q)) = %q, want %q (enc %q)", m, dec, want, enc)
	}
}

// c08RefDecode: reference decoder for arbitrary header values: %XY with two hex
// digits becomes the byte, everything else is literal.
func c08RefDecode(s string) string {
	var sb strings.Builder
	for i := 0; i < len(s); i++ {
		if s[i] == '%' && i+2 < len(s)+0 && i+2 <= len(s)-1 && c08hex(s[i+1]) >= 0 && c08hex(s[i+2]) >= 0 {
			sb.WriteByte(byte(c08hex(s[i+1])<<4 | c08hex(s[i+2])))
			i += 2
			continue
		}
		sb.WriteByte(s[i])
	}
	return sb.String()
}

func c08hex(b byte) int {
	switch {
	case b >= '0' && b <= '9':
		return int(b - '0')
	case b >= 'a' && b <= 'f':
		return int(b-'a') + 10
	case b >= 'A' && b <= 'F':
		return int(b-'A') + 10
	}
	return -1
}

func c08CheckDecode(r *vlib.Run, fam string, i int, h string) {
	r.Eval(1)
	func() {
		defer func() {
			if p := recover(); p != nil {
				r.Violation("decode-panic", fam, i, map[string]string{"header": fmt.Sprintf("%q", h)}, "decodeGrpcMessage(%q) panicked: %v", h, p)
			}
		}()
		got := decodeGrpcMessage(h)
		if want := c08RefDecode(h); got != want {
			r.Violation("decode-arbitrary", fam, i, map[string]string{"header": fmt.Sprintf("%q", h), "got": fmt.Sprintf("%q", got), "want": fmt.Sprintf("%q", want)},
				"decodeGrpcMessage(%q) = %q, want %q", h, got, want)
		}
	}()
}

func TestVerifC08(t *testing.T) {
	r := vlib.Start(t, "C08")
	alpha := []byte{'%', ' ', '~', 0x1F, 0x7F, 'A', '4', 'f', 0x80, 0xC3, 0xA9, 0xE2, 0x82, 0xAC, 0xFF, 0x00, '\n'}
	classes := map[string]bool{}
	classify := func(m string) string {
		c := ""
		if strings.Contains(m, "%") {
			c += "pct,"
		}
		if !utf8.ValidString(m) {
			c += "invalid,"
		}
		for _, b := range []byte(m) {
			if b >= 0x80 {
				c += "hi,"
				break
			}
		}
		for _, b := range []byte(m) {
			if b < 0x20 || b == 0x7F {
				c += "ctl,"
				break
			}
		}
		if n := len(m); n >= 1 && m[n-1] == '%' || n >= 2 && m[n-2] == '%' {
			c += "pct-at-end,"
		}
		return c
	}
	// exhaustive: every string of length <= 4 over the alphabet
	maxLen := 4
	idx := 0
	var rec func(prefix []byte)
	rec = func(prefix []byte) {
		s := string(prefix)
		if r.Want("exhaustive", idx) {
			c08Check(r, "exhaustive", idx, s)
			c08CheckDecode(r, "exhaustive-decode", idx, s)
			cl := classify(s)
			if !classes[cl] {
				classes[cl] = true
				r.Nontrivial("class:" + cl)
			}
		}
		idx++
		if len(prefix) == maxLen {
			return
		}
		for _, b := range alpha {
			rec(append(prefix, b))
		}
	}
	rec(nil)
	r.Count("exhaustive_strings", int64(idx))
	// random longer strings mixing valid multi-byte runes, truncated runes, percent signs
	n := r.N(200000, 3000000)
	pieces := []string{"%", "%4", "%41", "%zz", "%%", "é", "€", "😀", "\xc3", "\xe2\x82", "\xf0\x9f\x98", "\xff", "\x00", "\r\n", " ", "~", "abc", "%E2%82%AC", "K", "�"}
	for i := 0; i < n; i++ {
		if !r.Want("random", i) {
			continue
		}
		rng := r.Rand("random", i)
		var sb strings.Builder
		for k := rng.Intn(8); k >= 0; k-- {
			if rng.Intn(3) == 0 {
				sb.WriteByte(byte(rng.Intn(256)))
			} else {
				sb.WriteString(pieces[rng.Intn(len(pieces))])
			}
		}
		s := sb.String()
		c08Check(r, "random", i, s)
		c08CheckDecode(r, "random-decode", i, s)
		if i < 3 {
			r.Sample(map[string]string{"msg": fmt.Sprintf("%q", s), "encoded": encodeGrpcMessage(s), "decoded": fmt.Sprintf("%q", decodeGrpcMessage(encodeGrpcMessage(s)))})
		}
		cl := classify(s)
		if !classes[cl] {
			classes[cl] = true
			r.Nontrivial("class:" + cl)
		}
	}
	r.Finish(vlib.Spec{
		Level: "exploration",
		Rule:  "all strings of length<=4 over a 17-byte alphabet hitting every branch ('%', controls, 0x7F, hex digits, lone/leading/continuation UTF-8 bytes) exhaustively + PRNG strings built from percent/rune fragments; each used as message (encode->printable, decode(encode)==sanitised) and as raw header (decode == reference, no panic); distinct = byte-class signature of the input",
		Assumptions: []string{"reference sanitiser is Go's range-over-string (one U+FFFD per invalid byte)",
			"raw-header reference: %XY (two hex digits, not in the last two positions' gap) decodes to the byte, everything else literal"},
		Floor: 8,
	})
}
