// C17 (white-box part): the real writeQuota (flowcontrol.go) driven inside
// testing/synctest bubbles.
//
// A case is a PRNG script of *steps*.  In a step a set of operations
// (get(sz) by the stream's sender, replenish(n) by the "writer", close(done))
// is released at the same virtual instant, so they genuinely race; then
// synctest.Wait() returns at exact quiescence (every goroutine of the bubble is
// finished or durably blocked) and the monitor judges from its own ledger:
//
//	conservation      quota == initial - Σ get(ok) + Σ replenish          (every Q)
//	wake-up           ledger > 0  =>  the sender is not blocked in get     (every Q)
//	soft limit        get returned nil => the quota can have been > 0 during the call
//	stream end        after close(done) no sender is blocked; a failed get returned errStreamDone
//	                  and only if done was closed
//	restore           after everything obtained has been replenished: quota == initial
//
// R2 note: the one-slot wake-up channel serves ONE sender per stream (SendMsg
// must not be called concurrently on a stream, and nothing else calls get).  In
// the "multi" family (2-3 concurrent getters on one writeQuota, as DESIGN.md
// sketches) a second getter can legitimately stay parked while quota > 0, so
// there the wake-up oracle is only counted as evidence (multi_stranded_getter),
// never reported; conservation / soft-limit / done oracles still apply.
package transport

import (
	"fmt"
	"math/rand"
	"sync"
	"sync/atomic"
	"testing"
	"testing/synctest"
	"time"

	vlib "google.golang.org/grpc/internal/verifvlib"
)

type c17Event struct {
	Step int    `json:"step"`
	What string `json:"what"`
}

// c17Getter is one sender operation: 1-3 back-to-back get calls (a sender
// writing several messages in a row) issued by one goroutine.
type c17Getter struct {
	open       bool
	seq        []int64 // sizes of the back-to-back gets
	folded     int     // how many results are already in the ledger
	ownTaken   int64   // obtained by the earlier gets of this sequence
	openLedger int64   // ledger at the quiescent point before the sequence was issued
	replSince  int64   // replenished since then (upper bound of what it can have seen)
	results    []error // appended by the goroutine (under mu), one per finished get
	returned   bool    // the goroutine is finished (under mu)
	blockedAtQ bool    // the pending get was observed parked at an earlier quiescent point
}

func (g *c17Getter) pending() int64 {
	if g.folded < len(g.seq) {
		return g.seq[g.folded]
	}
	return 0
}

type c17Stats struct {
	qChecks, getsOK, getsErr, blockedAtQ, relReplenish, relDone, replenishes    int64
	crossFromZero, crossFromNeg, staleTokens, concSteps, multiStranded, hitZero int64
}

// c17RunCase runs one script inside the current bubble.
func c17RunCase(r *vlib.Run, fam string, idx int, rng *rand.Rand, k int, st *c17Stats) (sig string) {
	multi := k > 1
	initial := int64(vlib.Pick(rng, 1, 2, 7, 100, 1000, 65536))
	done := make(chan struct{})
	doneClosed := false
	var w writeQuota
	w.init(int32(initial), done)

	var mu sync.Mutex
	replPending := 0 // replenish calls that have not returned (under mu)
	getters := make([]*c17Getter, k)
	for g := range getters {
		getters[g] = &c17Getter{}
	}
	L := initial
	var outstanding int64
	var events []c17Event
	logf := func(step int, f string, a ...any) {
		events = append(events, c17Event{step, fmt.Sprintf(f, a...)})
	}
	detail := func() any {
		ev := events
		if len(ev) > 80 {
			ev = ev[len(ev)-80:]
		}
		return map[string]any{"initial": initial, "getters": k, "events": ev}
	}
	sawBlocked, sawRelRepl0, sawRelReplNeg, sawRelDone, sawZero, sawStale, sawConc := false, false, false, false, false, false, false
	violated := false
	viol := func(key, f string, a ...any) {
		violated = true
		r.Violation(key, fam, idx, detail(), f, a...)
	}

	// settle: wait for quiescence, fold the step's results into the ledger and judge.
	settle := func(step int, replN int64, closedNow bool) {
		// The released operations sleep 1µs of virtual time; this sleep lets the
		// clock pass that instant (virtual time only advances while every
		// goroutine of the bubble, this one included, is durably blocked), then
		// Wait() returns once they have all finished or parked for good.
		time.Sleep(2 * time.Microsecond)
		synctest.Wait()
		st.qChecks++
		prevL := L
		if replN > 0 {
			L += replN
			outstanding -= replN
			st.replenishes++
		}
		mu.Lock()
		if replPending != 0 && !violated {
			viol("replenish-blocked", "replenish(%d) has not returned at quiescence: the writer is parked inside writeQuota", replN)
		}
		for gi, g := range getters {
			if !g.open {
				continue
			}
			g.replSince += replN
			for g.folded < len(g.results) {
				sz, err := g.seq[g.folded], g.results[g.folded]
				g.folded++
				if err == nil {
					st.getsOK++
					// upper bound of the quota this get can have seen: ledger when the sequence was
					// issued + everything replenished since - what the sequence itself took before
					if g.openLedger+g.replSince-g.ownTaken <= 0 {
						viol("get-passed-without-quota", "getter %d: get(%d) returned nil although the quota was <= 0 during the whole call (ledger at issue %d, replenished since %d, taken before by the same sender %d)", gi, sz, g.openLedger, g.replSince, g.ownTaken)
					}
					L -= sz
					outstanding += sz
					g.ownTaken += sz
					if g.blockedAtQ {
						st.relReplenish++
						if prevL == 0 {
							sawRelRepl0 = true
						} else {
							sawRelReplNeg = true
						}
					}
					logf(step, "getter %d get(%d) -> ok", gi, sz)
				} else {
					st.getsErr++
					if err != errStreamDone {
						viol("get-wrong-error", "getter %d: get(%d) returned %v, want errStreamDone", gi, sz, err)
					}
					if !doneClosed && !closedNow {
						viol("get-failed-without-done", "getter %d: get(%d) returned %v although done was never closed", gi, sz, err)
					}
					if g.blockedAtQ {
						st.relDone++
						sawRelDone = true
					}
					logf(step, "getter %d get(%d) -> %v", gi, sz, err)
				}
				g.blockedAtQ = false
			}
			if g.returned {
				g.open = false
			}
		}
		if closedNow {
			doneClosed = true
		}
		// quiescent-point oracles
		q := int64(atomic.LoadInt32(&w.quota))
		if q != L {
			viol("conservation", "quota is %d at quiescence but initial(%d) - Σget + Σreplenish = %d", q, initial, L)
			L = q // resynchronise so that one defect is reported once
		}
		if L == 0 {
			sawZero = true
			st.hitZero++
		}
		if prevL <= 0 && L > 0 {
			if prevL == 0 {
				st.crossFromZero++
			} else {
				st.crossFromNeg++
			}
		}
		anyOpen := false
		for gi, g := range getters {
			if !g.open {
				continue
			}
			anyOpen = true
			g.blockedAtQ = true
			sawBlocked = true
			st.blockedAtQ++
			switch {
			case doneClosed:
				viol("getter-blocked-after-done", "getter %d is still blocked in get(%d) at quiescence after done was closed", gi, g.pending())
			case L > 0 && !multi:
				viol("getter-blocked-with-quota", "the sender is blocked in get(%d) at quiescence although quota = %d > 0 (lost wake-up)", g.pending(), L)
			case L > 0:
				st.multiStranded++
			}
		}
		if !anyOpen && len(w.ch) == 1 {
			sawStale = true
			st.staleTokens++
		}
		mu.Unlock()
		logf(step, "Q: ledger=%d quota=%d outstanding=%d", L, q, outstanding)
	}

	issueGet := func(step, gi int, seq []int64) {
		g := getters[gi]
		*g = c17Getter{open: true, seq: seq, openLedger: L}
		logf(step, "getter %d get%v issued at ledger %d", gi, seq, L)
		go func() {
			time.Sleep(time.Microsecond)
			for _, sz := range seq {
				err := w.get(int32(sz))
				mu.Lock()
				g.results = append(g.results, err)
				mu.Unlock()
				if err != nil {
					break
				}
			}
			mu.Lock()
			g.returned = true
			mu.Unlock()
		}()
	}
	issueReplenish := func(step int, n int64) {
		logf(step, "replenish(%d) issued at ledger %d", n, L)
		mu.Lock()
		replPending++
		mu.Unlock()
		go func() {
			time.Sleep(time.Microsecond)
			w.replenish(int(n))
			mu.Lock()
			replPending--
			mu.Unlock()
		}()
	}

	steps := 10 + rng.Intn(50)
	closeAt := -1
	if rng.Intn(3) == 0 {
		closeAt = rng.Intn(steps)
	}
	for step := 0; step < steps && !violated; step++ {
		nOps := 0
		for gi, g := range getters {
			if g.open || rng.Intn(10) < 3 {
				continue
			}
			var sz int64
			switch rng.Intn(6) {
			case 0:
				sz = L // lands exactly on 0
			case 1:
				sz = L + 1
			case 2:
				sz = L - 1
			case 3:
				sz = 1
			case 4:
				sz = 1 + rng.Int63n(2*initial)
			default:
				sz = 1 + rng.Int63n(initial)
			}
			if sz < 1 {
				sz = 1
			}
			if sz > 1<<20 {
				sz = 1 << 20
			}
			seq := []int64{sz}
			if rng.Intn(5) < 2 { // a sender writing several messages back to back
				for j := 1 + rng.Intn(2); j > 0; j-- {
					nx := int64(1)
					switch rng.Intn(4) {
					case 0:
						nx = L - sz // the pair lands exactly on 0
					case 1:
						nx = 1 + rng.Int63n(initial)
					case 2:
						nx = 1 + rng.Int63n(8)
					}
					if nx < 1 {
						nx = 1
					}
					if nx > 1<<20 {
						nx = 1 << 20
					}
					seq = append(seq, nx)
				}
			}
			issueGet(step, gi, seq)
			nOps++
		}
		var replN int64
		if outstanding > 0 && rng.Intn(10) < 6 {
			switch rng.Intn(6) {
			case 0:
				replN = -L // lands exactly on 0
			case 1:
				replN = -L + 1 // lands on 1: the smallest crossing
			case 2:
				replN = 1
			case 3:
				replN = outstanding
			default:
				replN = 1 + rng.Int63n(outstanding)
			}
			if replN < 1 {
				replN = 1
			}
			if replN > outstanding {
				replN = outstanding
			}
			issueReplenish(step, replN)
			nOps++
		}
		closedNow := false
		if step == closeAt && !doneClosed {
			closedNow = true
			logf(step, "close(done) issued")
			go func() {
				time.Sleep(time.Microsecond)
				close(done)
			}()
			nOps++
		}
		if nOps >= 2 {
			sawConc = true
			st.concSteps++
		}
		settle(step, replN, closedNow)
	}

	// drain: give everything back; every sender must come out and the quota must be restored.
	for round := 0; round < 2*k+4 && !violated; round++ {
		anyOpen := false
		for _, g := range getters {
			anyOpen = anyOpen || g.open
		}
		if outstanding == 0 && !anyOpen {
			break
		}
		if outstanding == 0 && anyOpen && (doneClosed || L > 0) {
			break // already reported by settle (or multi-stranded): nothing more to give back
		}
		n := outstanding
		if n > 0 {
			issueReplenish(1000+round, n)
		}
		settle(1000+round, n, false)
	}
	if !violated && outstanding == 0 {
		if q := int64(atomic.LoadInt32(&w.quota)); q != initial {
			viol("quota-not-restored", "all data was replenished but quota = %d, initial = %d", q, initial)
		}
	}
	// release whatever is still parked so that the bubble can end
	if !doneClosed {
		logf(2000, "close(done) (teardown)")
		close(done)
		settle(2000, 0, true)
	}

	if multi {
		sig = "multi"
	} else {
		sig = "single"
	}
	sig += fmt.Sprintf("/init%d/blk%v/rel0%v/relneg%v/reldone%v/zero%v/stale%v/conc%v", initial, sawBlocked, sawRelRepl0, sawRelReplNeg, sawRelDone, sawZero, sawStale, sawConc)
	if idx < 2 {
		ev := events
		if len(ev) > 12 {
			ev = ev[:12]
		}
		r.Sample(map[string]any{"family": fam, "case": idx, "initial": initial, "getters": k, "first_events": ev})
	}
	return sig
}

func c17Family(t *testing.T, r *vlib.Run, fam string, n int, kOf func(*rand.Rand) int, tot *c17Stats, totMu *sync.Mutex) {
	const shards = 8
	t.Run(fam, func(t *testing.T) {
		for s := 0; s < shards; s++ {
			t.Run(fmt.Sprint(s), func(t *testing.T) {
				t.Parallel()
				var st c17Stats
				for i := s; i < n; i += shards {
					if !r.Want(fam, i) {
						continue
					}
					rng := r.Rand(fam, i)
					k := kOf(rng)
					var sig string
					synctest.Test(t, func(t *testing.T) {
						sig = c17RunCase(r, fam, i, rng, k, &st)
					})
					r.Eval(1)
					r.Nontrivial(sig)
				}
				totMu.Lock()
				tot.qChecks += st.qChecks
				tot.getsOK += st.getsOK
				tot.getsErr += st.getsErr
				tot.blockedAtQ += st.blockedAtQ
				tot.relReplenish += st.relReplenish
				tot.relDone += st.relDone
				tot.replenishes += st.replenishes
				tot.crossFromZero += st.crossFromZero
				tot.crossFromNeg += st.crossFromNeg
				tot.staleTokens += st.staleTokens
				tot.concSteps += st.concSteps
				tot.multiStranded += st.multiStranded
				tot.hitZero += st.hitZero
				totMu.Unlock()
			})
		}
	})
}

func TestVerifC17(t *testing.T) {
	r := vlib.Start(t, "C17")
	var tot c17Stats
	var totMu sync.Mutex
	c17Family(t, r, "single", r.N(3000, 60000), func(*rand.Rand) int { return 1 }, &tot, &totMu)
	c17Family(t, r, "multi", r.N(800, 16000), func(rng *rand.Rand) int { return 2 + rng.Intn(2) }, &tot, &totMu)
	r.Count("quiescent_checks", tot.qChecks)
	r.Count("gets_ok", tot.getsOK)
	r.Count("gets_errStreamDone", tot.getsErr)
	r.Count("getter_blocked_at_quiescence", tot.blockedAtQ)
	r.Count("released_by_replenish", tot.relReplenish)
	r.Count("released_by_done", tot.relDone)
	r.Count("replenishes", tot.replenishes)
	r.Count("crossings_from_zero", tot.crossFromZero)
	r.Count("crossings_from_negative", tot.crossFromNeg)
	r.Count("stale_token_at_quiescence", tot.staleTokens)
	r.Count("steps_with_racing_ops", tot.concSteps)
	r.Count("ledger_exactly_zero_at_quiescence", tot.hitZero)
	r.Count("multi_stranded_getter_evidence_only", tot.multiStranded)
	r.Finish(vlib.Spec{
		Level: "exploration",
		Rule: "PRNG scripts of 10-60 steps on the real writeQuota inside synctest bubbles; per step a subset of {get(sz) per idle getter, replenish(n<=outstanding), close(done)} is released at the same virtual instant (real races), then synctest.Wait() and the quiescent-point oracles; sizes are biased to land the quota exactly on 0 / 1 / -1; initial quota in {1,2,7,100,1000,65536}; family single = 1 sender (all oracles), family multi = 2-3 getters (wake-up oracle counted only); " +
			"distinct = (family, initial, sender seen blocked at Q, released by replenish from exactly 0 / from negative / by done, ledger exactly 0 seen, stale token seen, racing step seen)",
		Assumptions: []string{
			"synctest.Wait() returns only when every goroutine of the bubble is finished or durably blocked, so the monitor's ledger is exact at each check",
			"one sender per stream (gRPC forbids concurrent SendMsg on a stream); Σreplenish <= Σget (the writer only gives back what was obtained)",
			"NewStream waiters (streamsQuotaAvailable) are judged by the C13/C17 black-box step, not here",
		},
		Floor: 25,
	})
}
