// C16 (white-box part): the real controlBuffer (controlbuf.go) driven inside
// testing/synctest bubbles with maxQueuedControlBufferItems in 1..8.
//
// A case is a PRNG script of steps.  In a step a set of operations — put /
// executeAndPut of throttled (ping, incomingSettings, cleanupStream,
// outgoingWindowUpdate) and unthrottled (dataFrame, clientHeaders) items by
// several producers, a consumer taking 1..m items with get(block), 1-3 connection
// "readers" calling throttle(), finish(), close(done) — is released at the same
// virtual instant so that they genuinely race.  Then synctest.Wait() returns at
// exact quiescence and the monitor judges from its OWN put/get log:
//
//	reader-blocked-below-limit   a reader parked in throttle() while fewer than `limit` throttled items are queued
//	reader-blocked-after-finish / -after-done   a reader still parked once finish() returned / done is closed
//	put-accepted-after-finish    put/executeAndPut issued after finish() returned did not fail with ErrConnClosing
//	item-enqueued-after-finish   the list is not empty after finish() (peeked under cb.mu at quiescence)
//	orphan-*                     every clientHeaders accepted and not dequeued when finish() ran gets onOrphaned(ErrConnClosing)
//	                             exactly once; dequeued or rejected ones never
//	dequeued-twice / -unknown    get() hands out each accepted item at most once
//	consumer-blocked-with-items  get(true) parked although items are queued (before finish), or after done
//	not-throttled-at-limit       a throttle() call issued while >= limit throttled items are queued and nothing can
//	                             remove one during the step returned instead of parking
//
// R2 note on the last oracle: the statement literally only says "blocked only
// while >= limit"; that throttling *does* engage at the limit is the documented
// design (comment on controlBuffer.trfChan, envconfig.ControlBufferThrottleLimit)
// and is pinned by the repo's TestControlBuffer_Throttle, so correct code never
// trips it.
package transport

import (
	"fmt"
	"math/rand"
	"sync"
	"testing"
	"testing/synctest"
	"time"

	vlib "google.golang.org/grpc/internal/verifvlib"
)

type c16Item struct {
	id        int
	kind      string
	throttled bool
	isHeaders bool
	viaExec   bool // executeAndPut with f
	fResult   bool // what f returns
	nilItem   bool // executeAndPut(f, nil)
	it        cbItem

	issuedAfterFinish bool // issued at a quiescent point where finish() had already returned
	issuedWithFinish  bool // issued in the same step as finish()

	// written by the op goroutines under mu
	returned  bool
	ok        bool
	err       error
	gotten    int
	orphaned  int
	orphanErr error
}

type c16Reader struct {
	open        bool
	returned    bool // under mu
	mustPark    bool // converse oracle precondition held when issued
	blockedAtQ  bool
	issuedLedgr int
}

type c16Stats struct {
	qChecks, putsOK, putsRejected, putsFFalse, gets, readerParked, relDrain, relFinish, relDone int64
	orphaned, crossUp, crossDown, throttleCalls, throttlePassed, mustParkChecks, consumerParked int64
	putRacedFinishOK, putRacedFinishRejected, racingSteps                                       int64
}

func (a *c16Stats) add(b *c16Stats) {
	a.qChecks += b.qChecks
	a.putsOK += b.putsOK
	a.putsRejected += b.putsRejected
	a.putsFFalse += b.putsFFalse
	a.gets += b.gets
	a.readerParked += b.readerParked
	a.relDrain += b.relDrain
	a.relFinish += b.relFinish
	a.relDone += b.relDone
	a.orphaned += b.orphaned
	a.crossUp += b.crossUp
	a.crossDown += b.crossDown
	a.throttleCalls += b.throttleCalls
	a.throttlePassed += b.throttlePassed
	a.mustParkChecks += b.mustParkChecks
	a.consumerParked += b.consumerParked
	a.putRacedFinishOK += b.putRacedFinishOK
	a.putRacedFinishRejected += b.putRacedFinishRejected
	a.racingSteps += b.racingSteps
}

type c16Event struct {
	Step int    `json:"step"`
	What string `json:"what"`
}

func c16RunCase(r *vlib.Run, fam string, idx int, rng *rand.Rand, limit int, st *c16Stats) string {
	done := make(chan struct{})
	cb := newControlBuffer(done)

	var mu sync.Mutex // guards the fields the op goroutines write
	var items []*c16Item
	byPtr := map[any]*c16Item{}
	var pendingPuts []*c16Item // issued, result not yet folded into the ledger
	nReaders := 1 + rng.Intn(3)
	readers := make([]*c16Reader, nReaders)
	for i := range readers {
		readers[i] = &c16Reader{}
	}
	// consumer (at most one outstanding op, like loopy)
	type consumerOp struct {
		open     bool
		returned bool // under mu
		got      []any
		err      error
		block    bool
		parkedQ  bool
	}
	cons := &consumerOp{}
	finishIssued, finished, finishReturned := false, false, false
	doneClosed := false
	thr, tot := 0, 0 // ledger: throttled / all items queued

	var events []c16Event
	logf := func(step int, f string, a ...any) { events = append(events, c16Event{step, fmt.Sprintf(f, a...)}) }
	violated := false
	viol := func(key, f string, a ...any) {
		violated = true
		ev := events
		if len(ev) > 100 {
			ev = ev[len(ev)-100:]
		}
		r.Violation(key, fam, idx, map[string]any{"limit": limit, "readers": nReaders, "events": ev}, f, a...)
	}
	sawParked, sawRelDrain, sawRelFinish, sawRelDone, sawOrphan, sawRaceOK, sawRaceRej, sawMustPark := false, false, false, false, false, false, false, false
	crossings := 0

	// guard reports a panic of the code under test as a violation and then lets it
	// propagate: controlBuffer.get does not unlock on panic, so the bubble could never
	// reach quiescence again; the VIOLATION line is what the driver reports.
	guard := func(op string) {
		if p := recover(); p != nil {
			r.Violation("panic-in-"+op, fam, idx, map[string]any{"limit": limit, "panic": fmt.Sprint(p)}, "controlBuffer.%s panicked: %v", op, p)
			panic(p)
		}
	}
	newItem := func(step int) *c16Item {
		it := &c16Item{id: len(items)}
		switch k := rng.Intn(20); {
		case k < 3:
			it.kind, it.throttled, it.it = "ping", true, &ping{}
		case k < 6:
			it.kind, it.throttled, it.it = "incomingSettings", true, &incomingSettings{}
		case k < 8:
			it.kind, it.throttled, it.it = "cleanupStream", true, &cleanupStream{}
		case k < 10:
			it.kind, it.throttled, it.it = "outgoingWindowUpdate", true, &outgoingWindowUpdate{}
		case k < 14:
			it.kind, it.it = "dataFrame", &dataFrame{}
		case k < 19:
			it.kind, it.isHeaders = "clientHeaders", true
			it.it = &clientHeaders{onOrphaned: func(err error) {
				mu.Lock()
				it.orphaned++
				it.orphanErr = err
				mu.Unlock()
			}}
		default:
			it.kind, it.nilItem, it.viaExec, it.fResult = "nil-item", true, true, true
		}
		if !it.nilItem && rng.Intn(10) < 3 {
			it.viaExec = true
			it.fResult = rng.Intn(4) != 0
		}
		items = append(items, it)
		if it.it != nil {
			byPtr[it.it] = it
		}
		return it
	}
	issuePut := func(step int, withFinish bool) {
		it := newItem(step)
		it.issuedAfterFinish = finished
		it.issuedWithFinish = withFinish
		pendingPuts = append(pendingPuts, it)
		logf(step, "put #%d %s exec=%v f=%v", it.id, it.kind, it.viaExec, it.fResult)
		go func() {
			defer guard("put")
			time.Sleep(time.Microsecond)
			var ok bool
			var err error
			switch {
			case it.nilItem:
				ok, err = cb.executeAndPut(func() bool { return true }, nil)
			case it.viaExec:
				ok, err = cb.executeAndPut(func() bool { return it.fResult }, it.it)
			default:
				err = cb.put(it.it)
				ok = err == nil
			}
			mu.Lock()
			it.returned, it.ok, it.err = true, ok, err
			mu.Unlock()
		}()
	}
	issueConsumer := func(step, m int, block bool) {
		*cons = consumerOp{open: true, block: block}
		c := cons
		logf(step, "consumer: take %d block=%v", m, block)
		go func() {
			defer guard("get")
			time.Sleep(time.Microsecond)
			var got []any
			var err error
			for j := 0; j < m; j++ {
				var x any
				x, err = cb.get(block)
				if err != nil || x == nil {
					break
				}
				got = append(got, x)
				if block {
					mu.Lock() // publish what was taken so far: the next get may park
					c.got = append([]any(nil), got...)
					mu.Unlock()
				}
			}
			mu.Lock()
			c.got, c.err, c.returned = got, err, true
			mu.Unlock()
		}()
	}
	issueThrottle := func(step, ri int, mustPark bool) {
		rd := readers[ri]
		*rd = c16Reader{open: true, mustPark: mustPark, issuedLedgr: thr}
		st.throttleCalls++
		logf(step, "reader %d: throttle() (ledger %d/%d)", ri, thr, limit)
		go func() {
			defer guard("throttle")
			time.Sleep(time.Microsecond)
			cb.throttle()
			mu.Lock()
			rd.returned = true
			mu.Unlock()
		}()
	}

	consFolded := 0 // how many of cons.got are already in the ledger
	settle := func(step int, finishNow, doneNow, consumerActive bool) {
		// see c17: the sleep lets virtual time pass the instant at which the
		// released operations start; Wait() then returns at exact quiescence.
		time.Sleep(2 * time.Microsecond)
		synctest.Wait()
		st.qChecks++
		// white-box peek (nothing is running at a quiescent point); taken before mu
		// so that the lock order cb.mu -> mu of the onOrphaned callback is kept
		cb.mu.Lock()
		listEmpty := cb.list.isEmpty()
		cb.mu.Unlock()
		mu.Lock()
		defer mu.Unlock()
		prevThr := thr
		// ---- fold puts
		for _, it := range pendingPuts {
			if !it.returned {
				viol("put-blocked", "put #%d (%s) has not returned at quiescence", it.id, it.kind)
				continue
			}
			switch {
			case it.err != nil:
				st.putsRejected++
				if it.err != ErrConnClosing {
					viol("put-wrong-error", "put #%d returned %v, want ErrConnClosing", it.id, it.err)
				}
				if it.ok {
					viol("put-ok-with-error", "executeAndPut #%d returned (true, %v)", it.id, it.err)
				}
				if !finishIssued {
					viol("put-rejected-without-finish", "put #%d (%s) failed with %v although finish() was never called", it.id, it.kind, it.err)
				}
				if it.issuedWithFinish {
					st.putRacedFinishRejected++
					sawRaceRej = true
				}
			case it.issuedAfterFinish:
				viol("put-accepted-after-finish", "put #%d (%s), issued after finish() had returned, returned (%v, nil) instead of ErrConnClosing", it.id, it.kind, it.ok)
			case it.viaExec && !it.fResult:
				st.putsFFalse++
				if it.ok {
					viol("put-ok-although-f-false", "executeAndPut #%d returned true although f returned false", it.id)
				}
			default:
				if !it.ok {
					viol("put-not-ok", "put #%d (%s) returned (false, nil) although f succeeded and the buffer was open", it.id, it.kind)
				}
				st.putsOK++
				if !it.nilItem {
					tot++
					if it.throttled {
						thr++
					}
				}
				if it.issuedWithFinish {
					st.putRacedFinishOK++
					sawRaceOK = true
				}
			}
			logf(step, "put #%d -> ok=%v err=%v", it.id, it.ok, it.err)
		}
		pendingPuts = pendingPuts[:0]
		// ---- fold the consumer
		if cons.open {
			for _, x := range cons.got[consFolded:] {
				it := byPtr[x]
				switch {
				case it == nil:
					viol("dequeued-unknown-item", "get() returned %T %v which was never put", x, x)
				case it.gotten > 0:
					viol("dequeued-twice", "get() returned item #%d (%s) a second time", it.id, it.kind)
				case !it.returned || !it.ok || it.err != nil:
					viol("dequeued-unaccepted-item", "get() returned item #%d (%s) whose put did not succeed (ok=%v err=%v)", it.id, it.kind, it.ok, it.err)
				}
				if it != nil {
					it.gotten++
					tot--
					if it.throttled {
						thr--
					}
					logf(step, "consumer got #%d %s", it.id, it.kind)
				}
				st.gets++
			}
			consFolded = len(cons.got)
			if cons.returned {
				if cons.err != nil && !finishIssued && !doneClosed && !doneNow {
					viol("get-failed-while-open", "get() returned error %v although neither finish() nor close(done) happened", cons.err)
				}
				logf(step, "consumer returned err=%v", cons.err)
				cons.open = false
				consFolded = 0
			}
		}
		if finishNow {
			if !finishReturned {
				viol("finish-blocked", "finish() has not returned at quiescence")
			}
			finished = true
			thr, tot = 0, 0 // finish() drops every queued item
		}
		if doneNow {
			doneClosed = true
		}
		// ---- quiescent-point oracles
		if prevThr < limit && thr >= limit {
			st.crossUp++
			crossings++
		}
		if prevThr >= limit && thr < limit {
			st.crossDown++
			crossings++
		}
		for ri, rd := range readers {
			if !rd.open {
				continue
			}
			if rd.returned {
				rd.open = false
				if rd.blockedAtQ {
					switch {
					case finishNow && !doneNow && !consumerActive:
						st.relFinish++
						sawRelFinish = true
					case doneNow && !finishNow && !consumerActive:
						st.relDone++
						sawRelDone = true
					case consumerActive && !finishNow && !doneNow:
						st.relDrain++
						sawRelDrain = true
					}
				} else {
					st.throttlePassed++
				}
				if rd.mustPark {
					viol("not-throttled-at-limit", "reader %d: throttle() returned although %d >= limit %d throttled items were queued when it was issued and nothing could dequeue during the step", ri, rd.issuedLedgr, limit)
				}
				continue
			}
			// parked in throttle()
			rd.blockedAtQ = true
			sawParked = true
			st.readerParked++
			if rd.mustPark {
				st.mustParkChecks++
				sawMustPark = true
				rd.mustPark = false
			}
			switch {
			case finished:
				viol("reader-blocked-after-finish", "reader %d is still parked in throttle() at quiescence after finish() returned", ri)
			case doneClosed:
				viol("reader-blocked-after-done", "reader %d is still parked in throttle() at quiescence after done was closed", ri)
			case thr < limit:
				viol("reader-blocked-below-limit", "reader %d is parked in throttle() at quiescence although only %d throttled items are queued (limit %d)", ri, thr, limit)
			}
		}
		if cons.open { // parked in get(true)
			cons.parkedQ = true
			st.consumerParked++
			switch {
			case doneClosed:
				viol("consumer-blocked-after-done", "get(true) is still parked at quiescence after done was closed")
			case !finished && tot > 0:
				viol("consumer-blocked-with-items", "get(true) is parked at quiescence although %d items are queued", tot)
			}
		}
		if finished {
			if !listEmpty {
				viol("item-enqueued-after-finish", "the control buffer's list is not empty at quiescence after finish()")
			}
		}
		logf(step, "Q: throttled=%d total=%d finished=%v done=%v", thr, tot, finished, doneClosed)
	}

	steps := 8 + rng.Intn(40)
	finishAt, doneAt := -1, -1
	switch rng.Intn(6) {
	case 0: // finish, done later or never
		finishAt = rng.Intn(steps)
		if rng.Intn(2) == 0 {
			doneAt = finishAt + 1 + rng.Intn(3)
		}
	case 1: // both in the same step
		finishAt = rng.Intn(steps)
		doneAt = finishAt
	case 2: // done first
		doneAt = rng.Intn(steps)
		finishAt = doneAt + 1 + rng.Intn(3)
	}
	for step := 0; step < steps && !violated; step++ {
		finishNow := step == finishAt && !finishIssued
		doneNow := step == doneAt && !doneClosed
		solo := rng.Intn(4) == 0 // one kind of operation only
		soloKind := rng.Intn(3)
		nOps := 0
		// producers
		if !solo || soloKind == 0 {
			n := rng.Intn(4)
			if thr < limit && rng.Intn(3) == 0 {
				n = limit - thr + rng.Intn(3) // push towards / over the limit
			}
			if n > 12 {
				n = 12
			}
			for j := 0; j < n; j++ {
				issuePut(step, finishNow)
				nOps++
			}
		}
		// consumer
		consumerActive := cons.open
		if !cons.open && (!solo || soloKind == 1) && rng.Intn(10) < 5 {
			m := 1
			switch rng.Intn(5) {
			case 0:
				m = 1
			case 1:
				m = 2
			case 2:
				m = tot // drain
			case 3:
				m = tot + 1 // drain and park (if blocking)
			default:
				m = 1 + rng.Intn(2*limit+2)
			}
			if m < 1 {
				m = 1
			}
			consFolded = 0
			issueConsumer(step, m, rng.Intn(10) < 3)
			consumerActive = true
			nOps++
		}
		// readers
		if !solo || soloKind == 2 {
			for ri, rd := range readers {
				if rd.open || rng.Intn(10) < 5 {
					continue
				}
				mustPark := thr >= limit && !finished && !doneClosed && !finishNow && !doneNow && !consumerActive
				issueThrottle(step, ri, mustPark)
				nOps++
			}
		}
		if finishNow {
			finishIssued = true
			logf(step, "finish()")
			go func() {
				defer guard("finish")
				time.Sleep(time.Microsecond)
				cb.finish()
				mu.Lock()
				finishReturned = true
				mu.Unlock()
			}()
			nOps++
		}
		if doneNow {
			logf(step, "close(done)")
			go func() {
				time.Sleep(time.Microsecond)
				close(done)
			}()
			nOps++
		}
		if nOps >= 2 {
			st.racingSteps++
		}
		settle(step, finishNow, doneNow, consumerActive)
	}

	// ---- epilogue: finish (if the script did not), judge orphaning, then release everything
	if !violated && !finishIssued {
		finishIssued = true
		logf(3000, "finish() (epilogue)")
		go func() {
			defer guard("finish")
			time.Sleep(time.Microsecond)
			cb.finish()
			mu.Lock()
			finishReturned = true
			mu.Unlock()
		}()
		settle(3000, true, false, cons.open)
	}
	if !violated && finished {
		// one more put after finish: must be refused
		issuePut(3001, false)
		settle(3001, false, false, cons.open)
	}
	if !violated {
		mu.Lock()
		for _, it := range items {
			if !it.isHeaders {
				continue
			}
			want := 0
			if finished && it.returned && it.ok && it.err == nil && it.gotten == 0 && !(it.viaExec && !it.fResult) {
				want = 1
			}
			switch {
			case it.orphaned > 0 && it.gotten > 0:
				viol("orphaned-and-dequeued", "clientHeaders #%d was handed to the consumer AND orphaned %d time(s)", it.id, it.orphaned)
			case it.orphaned > 0 && (it.err != nil || !it.ok):
				viol("orphaned-but-rejected", "clientHeaders #%d was refused by put (ok=%v err=%v) but onOrphaned ran %d time(s)", it.id, it.ok, it.err, it.orphaned)
			case it.orphaned < want:
				viol("orphan-missing", "clientHeaders #%d was queued when finish() ran but onOrphaned was never called", it.id)
			case it.orphaned > want:
				viol("orphan-duplicate", "clientHeaders #%d: onOrphaned ran %d times, want %d", it.id, it.orphaned, want)
			case it.orphaned == 1 && it.orphanErr != ErrConnClosing:
				viol("orphan-wrong-error", "clientHeaders #%d: onOrphaned(%v), want ErrConnClosing", it.id, it.orphanErr)
			}
			if it.orphaned > 0 {
				st.orphaned++
				sawOrphan = true
			}
		}
		mu.Unlock()
	}
	if !doneClosed {
		logf(4000, "close(done) (teardown)")
		close(done)
		if !violated {
			settle(4000, false, true, cons.open)
		} else {
			time.Sleep(2 * time.Microsecond)
			synctest.Wait()
		}
	}
	if idx < 1 {
		ev := events
		if len(ev) > 14 {
			ev = ev[:14]
		}
		r.Sample(map[string]any{"family": fam, "case": idx, "limit": limit, "readers": nReaders, "first_events": ev})
	}
	cr := crossings
	if cr > 3 {
		cr = 3
	}
	return fmt.Sprintf("limit%d/parked%v/drain%v/finish%v/done%v/orphan%v/raceOK%v/raceRej%v/mustpark%v/cross%d",
		limit, sawParked, sawRelDrain, sawRelFinish, sawRelDone, sawOrphan, sawRaceOK, sawRaceRej, sawMustPark, cr)
}

func TestVerifC16(t *testing.T) {
	r := vlib.Start(t, "C16")
	saved := maxQueuedControlBufferItems
	defer func() { maxQueuedControlBufferItems = saved }()
	var tot c16Stats
	var totMu sync.Mutex
	perLimit := r.N(400, 5000)
	const shards = 8
	for limit := 1; limit <= 8; limit++ {
		// package-level knob of the real code: constant while the cases of this group run
		maxQueuedControlBufferItems = limit
		fam := fmt.Sprintf("limit%d", limit)
		t.Run(fam, func(t *testing.T) {
			for s := 0; s < shards; s++ {
				t.Run(fmt.Sprint(s), func(t *testing.T) {
					t.Parallel()
					var st c16Stats
					for i := s; i < perLimit; i += shards {
						if !r.Want(fam, i) {
							continue
						}
						rng := r.Rand(fam, i)
						var sig string
						synctest.Test(t, func(t *testing.T) {
							sig = c16RunCase(r, fam, i, rng, limit, &st)
						})
						r.Eval(1)
						r.Nontrivial(sig)
					}
					totMu.Lock()
					tot.add(&st)
					totMu.Unlock()
				})
			}
		})
	}
	maxQueuedControlBufferItems = saved
	r.Count("quiescent_checks", tot.qChecks)
	r.Count("puts_accepted", tot.putsOK)
	r.Count("puts_rejected_ErrConnClosing", tot.putsRejected)
	r.Count("puts_f_false", tot.putsFFalse)
	r.Count("items_dequeued", tot.gets)
	r.Count("throttle_calls", tot.throttleCalls)
	r.Count("throttle_passed_without_parking", tot.throttlePassed)
	r.Count("reader_parked_at_quiescence", tot.readerParked)
	r.Count("reader_released_by_drain", tot.relDrain)
	r.Count("reader_released_by_finish", tot.relFinish)
	r.Count("reader_released_by_done", tot.relDone)
	r.Count("must_park_checks", tot.mustParkChecks)
	r.Count("consumer_parked_at_quiescence", tot.consumerParked)
	r.Count("limit_crossings_up", tot.crossUp)
	r.Count("limit_crossings_down", tot.crossDown)
	r.Count("client_headers_orphaned", tot.orphaned)
	r.Count("puts_racing_finish_accepted", tot.putRacedFinishOK)
	r.Count("puts_racing_finish_rejected", tot.putRacedFinishRejected)
	r.Count("steps_with_racing_ops", tot.racingSteps)
	r.Finish(vlib.Spec{
		Level: "exploration",
		Rule: "for every throttle limit 1..8: PRNG scripts of 8-48 steps on the real controlBuffer inside synctest bubbles; per step 0-12 puts/executeAndPuts (throttled and unthrottled kinds, f true/false, nil item), one consumer taking 1..m items with get(block), 1-3 readers calling throttle(), finish() and close(done) at script-chosen steps are released at the same virtual instant (real races), then synctest.Wait() and the quiescent-point oracles; a quarter of the steps release one kind of operation only; " +
			"distinct = (limit, reader seen parked, released by drain / finish / done, orphaned headers seen, put racing finish accepted / rejected, must-park check exercised, number of limit crossings capped at 3)",
		Assumptions: []string{
			"synctest.Wait() returns only when every goroutine of the bubble is finished or durably blocked, so the monitor's own put/get ledger is exact at each check",
			"one consumer (loopy) per control buffer; producers and readers are arbitrary goroutines",
			"maxQueuedControlBufferItems is constant during the life of a control buffer (it is set once per group of cases)",
			"not-throttled-at-limit relies on the documented design 'throttling engages when the count reaches the limit' (pinned by the repo's TestControlBuffer_Throttle), which is the converse of the statement's literal sentence",
		},
		Floor: 40,
	})
}
