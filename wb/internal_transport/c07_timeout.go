// C07: grpc-timeout encoding (grpcutil.EncodeDuration) and decoding
// (transport.decodeTimeout, unexported => white-box) against a reference
// written from the property statement and PROTOCOL-HTTP2.md
// (Timeout -> TimeoutValue TimeoutUnit; TimeoutValue = 1..8 ASCII digits).
//
// Oracles (all pure, no time involved):
//   - for d > 0: EncodeDuration(d) matches ^[0-9]{1,8}[HMSmun]$ ; its value
//     v*unit (computed here with math/big) satisfies d <= v*unit < d + unit ;
//     the real decoder accepts it and returns d' >= d.
//   - for every header string: decodeTimeout never panics, never returns a
//     negative duration, accepts exactly 1-8 ASCII digits + one of HMSmun and
//     returns min(v*unit, MaxInt64).
//   - for d <= 0 the statement promises nothing about the value; only "no
//     panic and the output is in the accepted language" is judged.
package transport

import (
	"fmt"
	"math"
	"math/big"
	"math/rand"
	"strings"
	"testing"
	"time"

	"google.golang.org/grpc/internal/grpcutil"
	vlib "google.golang.org/grpc/internal/verifvlib"
)

var c07Units = map[byte]int64{
	'H': int64(time.Hour), 'M': int64(time.Minute), 'S': int64(time.Second),
	'm': int64(time.Millisecond), 'u': int64(time.Microsecond), 'n': 1,
}

var c07MaxInt64 = big.NewInt(math.MaxInt64)

// c07RefParse is the reference acceptor/evaluator: ok iff s is 1-8 ASCII digits
// followed by one unit letter; val is the exact (unsaturated) value in ns.
func c07RefParse(s string) (ok bool, val *big.Int, unit int64, why string) {
	if len(s) < 2 {
		return false, nil, 0, "too-short"
	}
	u, isUnit := c07Units[s[len(s)-1]]
	digits := s[:len(s)-1]
	allDigits := true
	for i := 0; i < len(digits); i++ {
		if digits[i] < '0' || digits[i] > '9' {
			allDigits = false
		}
	}
	switch {
	case !isUnit && !allDigits:
		return false, nil, 0, "bad-unit+bad-digits"
	case !isUnit:
		return false, nil, 0, "bad-unit"
	case !allDigits:
		return false, nil, 0, "bad-digits"
	case len(digits) > 8:
		return false, nil, 0, "too-long"
	}
	v := new(big.Int)
	v.SetString(digits, 10)
	v.Mul(v, big.NewInt(u))
	return true, v, u, "ok"
}

type c07Detail struct {
	DurationNs int64  `json:"duration_ns,omitempty"`
	Header     string `json:"header_quoted,omitempty"`
	Encoded    string `json:"encoded,omitempty"`
	Decoded    int64  `json:"decoded_ns,omitempty"`
	Err        string `json:"err,omitempty"`
	Want       string `json:"want,omitempty"`
}

// c07Decode runs the real decoder and judges it against the reference.
// Returns the decoded value and whether it was accepted.
func c07Decode(r *vlib.Run, fam string, i int, s string) (got time.Duration, accepted bool, class string) {
	var err error
	panicked := false
	func() {
		defer func() {
			if p := recover(); p != nil {
				panicked = true
				r.Violation("decode-panic", fam, i, c07Detail{Header: fmt.Sprintf("%q", s)}, "decodeTimeout(%q) panicked: %v", s, p)
			}
		}()
		got, err = decodeTimeout(s)
	}()
	if panicked {
		return 0, false, "panic"
	}
	ok, val, _, why := c07RefParse(s)
	if got < 0 {
		r.Violation("decode-negative", fam, i, c07Detail{Header: fmt.Sprintf("%q", s), Decoded: int64(got), Err: fmt.Sprint(err)},
			"decodeTimeout(%q) returned a negative duration %d (err=%v)", s, int64(got), err)
	}
	if ok && err != nil {
		r.Violation("decode-rejects-valid", fam, i, c07Detail{Header: fmt.Sprintf("%q", s), Err: err.Error()},
			"decodeTimeout(%q) rejected a valid timeout (1-8 digits + unit): %v", s, err)
		return got, false, "ok"
	}
	if !ok && err == nil {
		r.Violation("decode-accepts-invalid:"+why, fam, i, c07Detail{Header: fmt.Sprintf("%q", s), Decoded: int64(got)},
			"decodeTimeout(%q) accepted a string outside 1-8 digits + [HMSmun] (%s) and returned %d", s, why, int64(got))
		return got, true, why
	}
	if !ok {
		return got, false, why
	}
	want := val
	class = "ok-" + string(s[len(s)-1])
	if val.Cmp(c07MaxInt64) > 0 {
		want = c07MaxInt64
		class += "-saturated"
	}
	if big.NewInt(int64(got)).Cmp(want) != 0 {
		r.Violation("decode-wrong-value", fam, i, c07Detail{Header: fmt.Sprintf("%q", s), Decoded: int64(got), Want: want.String()},
			"decodeTimeout(%q) = %d ns, want %s ns (value*unit saturated at MaxInt64)", s, int64(got), want.String())
	}
	return got, true, class
}

func c07ValidFormat(enc string) bool {
	if len(enc) < 2 || len(enc) > 9 {
		return false
	}
	if _, ok := c07Units[enc[len(enc)-1]]; !ok {
		return false
	}
	for k := 0; k < len(enc)-1; k++ {
		if enc[k] < '0' || enc[k] > '9' {
			return false
		}
	}
	return true
}

// c07Encode runs the real encoder on d and judges the result; returns a
// signature of the branch that was exercised.
func c07Encode(r *vlib.Run, fam string, i int, d int64) string {
	var enc string
	panicked := false
	func() {
		defer func() {
			if p := recover(); p != nil {
				panicked = true
				r.Violation("encode-panic", fam, i, c07Detail{DurationNs: d}, "EncodeDuration(%d) panicked: %v", d, p)
			}
		}()
		enc = grpcutil.EncodeDuration(time.Duration(d))
	}()
	if panicked {
		return "panic"
	}
	if !c07ValidFormat(enc) {
		key := "encode-bad-format"
		if d <= 0 {
			key = "encode-bad-format-nonpositive"
		}
		r.Violation(key, fam, i, c07Detail{DurationNs: d, Encoded: enc},
			"EncodeDuration(%d) = %q does not match ^[0-9]{1,8}[HMSmun]$", d, enc)
		return "bad-format"
	}
	got, accepted, _ := c07Decode(r, fam, i, enc)
	if !accepted {
		// c07Decode already reported decode-rejects-valid
		return "rejected"
	}
	if d <= 0 {
		return "nonpositive"
	}
	_, val, unit, _ := c07RefParse(enc)
	bd := big.NewInt(d)
	if val.Cmp(bd) < 0 {
		r.Violation("encode-shortens-deadline", fam, i, c07Detail{DurationNs: d, Encoded: enc, Want: ">= " + bd.String()},
			"EncodeDuration(%d) = %q denotes %s ns < d: the deadline is shortened", d, enc, val.String())
	}
	upper := new(big.Int).Add(bd, big.NewInt(unit))
	if val.Cmp(upper) >= 0 {
		r.Violation("encode-overshoots-unit", fam, i, c07Detail{DurationNs: d, Encoded: enc, Want: "< " + upper.String()},
			"EncodeDuration(%d) = %q denotes %s ns >= d + one unit (%d ns)", d, enc, val.String(), unit)
	}
	if int64(got) < d {
		r.Violation("roundtrip-shortens-deadline", fam, i, c07Detail{DurationNs: d, Encoded: enc, Decoded: int64(got)},
			"decodeTimeout(EncodeDuration(%d) = %q) = %d < d", d, enc, int64(got))
	}
	sig := fmt.Sprintf("enc:%c/digits%d", enc[len(enc)-1], len(enc)-1)
	if new(big.Int).Mod(bd, big.NewInt(unit)).Sign() == 0 {
		sig += "/exact"
	} else {
		sig += "/roundup"
	}
	if val.Cmp(c07MaxInt64) > 0 {
		sig += "/saturated"
	}
	return sig
}

func c07GenDuration(rng *rand.Rand) int64 {
	units := []int64{1, int64(time.Microsecond), int64(time.Millisecond), int64(time.Second), int64(time.Minute), int64(time.Hour)}
	switch rng.Intn(10) {
	case 0: // uniform over the whole positive range
		return rng.Int63()
	case 1: // log-uniform
		return rng.Int63() >> uint(rng.Intn(63))
	case 2: // k units +- small
		u := units[rng.Intn(len(units))]
		k := rng.Int63n(100000000) + 1
		if k > math.MaxInt64/u {
			k = math.MaxInt64 / u
		}
		return k*u + int64(rng.Intn(7)) - 3
	case 3: // just around the 8-digit limit of a unit
		u := units[rng.Intn(len(units))]
		k := int64(99999999) + int64(rng.Intn(5)) - 2
		if k > math.MaxInt64/u {
			return math.MaxInt64 - int64(rng.Intn(1000))
		}
		return k*u + rng.Int63n(2*u+1) - u
	case 4: // near MaxInt64
		return math.MaxInt64 - rng.Int63n(1<<uint(1+rng.Intn(45)))
	case 5: // negatives and zero
		switch rng.Intn(4) {
		case 0:
			return 0
		case 1:
			return -1 - rng.Int63n(1000)
		case 2:
			return math.MinInt64 + rng.Int63n(1000)
		default:
			return -rng.Int63()
		}
	case 6: // powers of ten +-1
		p := int64(1)
		for k := rng.Intn(19); k > 0; k-- {
			p *= 10
		}
		return p + int64(rng.Intn(3)) - 1
	case 7: // hour-range: only the H encoding can hold these
		return int64(99999999)*int64(time.Minute) + rng.Int63n(math.MaxInt64-int64(99999999)*int64(time.Minute))
	case 8: // small
		return rng.Int63n(1000)
	default: // exact multiples
		u := units[rng.Intn(len(units))]
		k := rng.Int63n(math.MaxInt64/u) + 1
		if rng.Intn(2) == 0 {
			k = rng.Int63n(200000000) + 1
			if k > math.MaxInt64/u {
				k = math.MaxInt64 / u
			}
		}
		return k * u
	}
}

func c07GenHeader(rng *rand.Rand) string {
	const digits = "0123456789"
	const units = "HMSmun"
	const junk = "+- _xhsUN.eE\x00\xff\t,٣" // incl. non-ASCII digit (Arabic-Indic three)
	var sb strings.Builder
	switch rng.Intn(8) {
	case 0, 1, 2: // k digits + unit, k in 0..11
		for k := rng.Intn(12); k > 0; k-- {
			sb.WriteByte(digits[rng.Intn(10)])
		}
		sb.WriteByte(units[rng.Intn(len(units))])
	case 3: // digits with one junk byte somewhere + unit
		n := 1 + rng.Intn(9)
		pos := rng.Intn(n)
		for k := 0; k < n; k++ {
			if k == pos {
				sb.WriteByte(junk[rng.Intn(len(junk))])
			} else {
				sb.WriteByte(digits[rng.Intn(10)])
			}
		}
		sb.WriteByte(units[rng.Intn(len(units))])
	case 4: // digits + wrong unit
		for k := 1 + rng.Intn(9); k > 0; k-- {
			sb.WriteByte(digits[rng.Intn(10)])
		}
		sb.WriteByte(junk[rng.Intn(len(junk))])
	case 5: // huge hour / minute values around the clamp
		v := int64(2562047) + int64(rng.Intn(5)) - 2
		if rng.Intn(2) == 0 {
			v = 99999999 - int64(rng.Intn(3))
		}
		sb.WriteString(fmt.Sprint(v))
		sb.WriteByte("HHM"[rng.Intn(3)])
	case 6: // unit in the middle, trailing things
		for k := rng.Intn(5); k > 0; k-- {
			sb.WriteByte(digits[rng.Intn(10)])
		}
		sb.WriteByte(units[rng.Intn(len(units))])
		for k := rng.Intn(4); k > 0; k-- {
			sb.WriteByte((digits + units + junk)[rng.Intn(len(digits)+len(units)+len(junk))])
		}
	default: // arbitrary bytes
		for k := rng.Intn(13); k > 0; k-- {
			if rng.Intn(3) == 0 {
				sb.WriteByte(byte(rng.Intn(256)))
			} else {
				sb.WriteByte((digits + units + junk)[rng.Intn(len(digits)+len(units)+len(junk))])
			}
		}
	}
	s := sb.String()
	if len(s) > 12 {
		s = s[:12]
	}
	return s
}

func TestVerifC07(t *testing.T) {
	r := vlib.Start(t, "C07")

	// ---- family "boundary": deterministic must-hit durations ----
	var fixed []int64
	units := []int64{1, int64(time.Microsecond), int64(time.Millisecond), int64(time.Second), int64(time.Minute), int64(time.Hour)}
	add := func(v *big.Int) {
		if v.IsInt64() {
			fixed = append(fixed, v.Int64())
		}
	}
	for _, u := range units {
		for _, k := range []int64{1, 2, 9, 10, 11, 99999998, 99999999, 100000000, 100000001} {
			for delta := int64(-3); delta <= 3; delta++ {
				v := new(big.Int).Mul(big.NewInt(k), big.NewInt(u))
				add(v.Add(v, big.NewInt(delta)))
			}
		}
	}
	p := int64(1)
	for k := 0; k <= 18; k++ {
		fixed = append(fixed, p-1, p, p+1)
		if k < 18 {
			p *= 10
		}
	}
	for k := int64(0); k <= 2000; k++ {
		fixed = append(fixed, math.MaxInt64-k)
	}
	maxH := int64(math.MaxInt64 / int64(time.Hour))
	for dh := int64(-2); dh <= 0; dh++ {
		for delta := int64(-2); delta <= 2; delta++ {
			v := new(big.Int).Mul(big.NewInt(maxH+dh), big.NewInt(int64(time.Hour)))
			add(v.Add(v, big.NewInt(delta)))
		}
	}
	fixed = append(fixed, 0, -1, -2, -1000, math.MinInt64, math.MinInt64+1, -int64(time.Hour))
	for i, d := range fixed {
		if !r.Want("boundary", i) {
			continue
		}
		r.Eval(1)
		r.Nontrivial(c07Encode(r, "boundary", i, d))
		if i%97 == 0 {
			r.Sample(map[string]any{"d_ns": d, "encoded": grpcutil.EncodeDuration(time.Duration(d))})
		}
	}
	r.Count("boundary_durations", int64(len(fixed)))

	// ---- family "random": PRNG durations ----
	n := r.N(300000, 3000000)
	for i := 0; i < n; i++ {
		if !r.Want("random", i) {
			continue
		}
		rng := r.Rand("random", i)
		d := c07GenDuration(rng)
		r.Eval(1)
		r.Nontrivial(c07Encode(r, "random", i, d))
	}
	r.Count("random_durations", int64(n))

	// ---- family "hdr-exhaustive": all strings of length <= 3 over a branch-covering alphabet ----
	alpha := []byte("0123456789HMSmun+- _x\x00\xff")
	idx := 0
	var accepted, rejected int64
	var rec func(prefix []byte)
	rec = func(prefix []byte) {
		if r.Want("hdr-exhaustive", idx) {
			r.Eval(1)
			_, acc, class := c07Decode(r, "hdr-exhaustive", idx, string(prefix))
			if acc {
				accepted++
			} else {
				rejected++
			}
			r.Nontrivial("dec:" + class)
		}
		idx++
		if len(prefix) == 3 {
			return
		}
		for _, b := range alpha {
			rec(append(prefix[:len(prefix):len(prefix)], b))
		}
	}
	rec(nil)
	r.Count("hdr_exhaustive_strings", int64(idx))

	// ---- family "hdr-fixed": length boundaries the short alphabet cannot reach ----
	fixedHdr := []string{"", "n", "0", "0n", "00000000n", "000000000n", "99999999H", "99999999M", "99999999S", "99999999m", "99999999u", "99999999n",
		"100000000n", "999999999n", "1000000000H", "2562047H", "2562048H", "2562049H", "9999999H", "12345678 ", "12345678", " 1S", "1S ", "1 S", "+1S", "-1S", "-0n",
		"1_0S", "0x1S", "1e3S", "1.5S", "١S", "1h", "1s", "1U", "1N", "18446744073709551615n", "18446744073709551616n", "99999999999999999999H"}
	for i, s := range fixedHdr {
		if !r.Want("hdr-fixed", i) {
			continue
		}
		r.Eval(1)
		_, acc, class := c07Decode(r, "hdr-fixed", i, s)
		if acc {
			accepted++
		} else {
			rejected++
		}
		r.Nontrivial(fmt.Sprintf("dec:%s/len%d", class, len(s)))
	}

	// ---- family "hdr-random": PRNG strings of length <= 12 ----
	m := r.N(300000, 2000000)
	for i := 0; i < m; i++ {
		if !r.Want("hdr-random", i) {
			continue
		}
		rng := r.Rand("hdr-random", i)
		s := c07GenHeader(rng)
		r.Eval(1)
		got, acc, class := c07Decode(r, "hdr-random", i, s)
		if acc {
			accepted++
		} else {
			rejected++
		}
		r.Nontrivial(fmt.Sprintf("dec:%s/len%d", class, len(s)))
		if i < 3 {
			r.Sample(map[string]any{"header": fmt.Sprintf("%q", s), "accepted": acc, "decoded_ns": int64(got), "class": class})
		}
	}
	r.Count("hdr_random_strings", int64(m))
	r.Count("headers_accepted", accepted)
	r.Count("headers_rejected", rejected)

	r.Finish(vlib.Spec{
		Level: "exploration",
		Rule: "encode: every unit boundary (k in {1,2,9,10,11,10^8-2..10^8+1} x 6 units, +-3 ns), 10^k+-1, MaxInt64-k (k<=2000), hour-clamp boundary, 0/negatives, + PRNG int64 (uniform, log-uniform, unit multiples +-3, near-limit, hour-only range); " +
			"decode: ALL strings of length<=3 over {0-9,HMSmun,'+','-',' ','_','x',0x00,0xFF}, a fixed list of length/overflow boundaries, + PRNG strings of length<=12 (0-11 digits + unit, junk byte inside, wrong unit, clamp values, arbitrary bytes); " +
			"distinct = (chosen unit, digit count, exact/rounded-up, saturated) for encodings and (accept class or reject reason, length) for headers",
		Assumptions: []string{
			"reference: a header denotes TimeoutValue*TimeoutUnit (PROTOCOL-HTTP2.md), saturated at MaxInt64 ns; computed with math/big",
			"for d <= 0 only 'no panic, output is in the accepted language' is judged (the statement quantifies the bound over positive d)",
		},
		Floor: 60,
	})
}
