// C50: the LRS load store neither loses nor double counts load.
//
// White-box (stats() is unexported): event goroutines call CallStarted /
// CallFinished / CallServerLoad / CallDropped on the PerClusterReporters of one
// LoadStore while snapshot goroutines call LoadStore.stats() in a loop; run
// with -race and GOMAXPROCS=64 (+ CPU hogs) so that threads are descheduled
// inside the swap-and-clear sequences.
//
// Oracles (from the statement):
//   conservation  Σ over all reports + one final report at quiescence of
//                 issued / succeeded / errored / total drops / per-category
//                 drops / load count / load sum == the totals of the events,
//                 per reporter, locality, category and load name (loads are
//                 integer valued so float sums are exact);
//   in-progress   each report's inProgress for a locality lies in
//                 [starts returned before stats() was called − finishes invoked
//                 before it returned, starts invoked before it returned −
//                 finishes returned before it was called] (R3 stamps, seq-cst
//                 atomics); a locality missing from a report counts as 0.
//
// Event discipline (as the cluster_impl picker uses the API): a call is
// finished only after its CallStarted returned; server load is recorded for a
// locality only after a call was started on it, before or after CallFinished.
package lrsclient

import (
	"errors"
	"fmt"
	"runtime"
	"sort"
	"sync"
	"sync/atomic"
	"testing"

	"google.golang.org/grpc/internal/xds/clients"
	vlib "google.golang.org/grpc/internal/verifvlib"
)

var c50Err = errors.New("c50: rpc failed")

type c50Event struct {
	kind byte // 's' start, 'f' finish ok, 'e' finish with error, 'l' server load, 'd' drop, 'y' yield
	rep  int
	loc  int
	name string // load name or drop category
	val  float64
}

type c50Stamps struct {
	startInv, startRet, finInv, finRet atomic.Int64
}

type c50LocTotals struct {
	issued, succeeded, errored uint64
	loadCount                  map[string]uint64
	loadSum                    map[string]float64
}

type c50RepTotals struct {
	totalDrops uint64
	drops      map[string]uint64
	locs       map[int]*c50LocTotals
}

func c50NewRepTotals() *c50RepTotals {
	return &c50RepTotals{drops: map[string]uint64{}, locs: map[int]*c50LocTotals{}}
}

func (t *c50RepTotals) loc(l int) *c50LocTotals {
	if x, ok := t.locs[l]; ok {
		return x
	}
	x := &c50LocTotals{loadCount: map[string]uint64{}, loadSum: map[string]float64{}}
	t.locs[l] = x
	return x
}

func (t *c50RepTotals) addEvent(e c50Event) {
	switch e.kind {
	case 's':
		t.loc(e.loc).issued++
	case 'f':
		t.loc(e.loc).succeeded++
	case 'e':
		t.loc(e.loc).errored++
	case 'l':
		t.loc(e.loc).loadCount[e.name]++
		t.loc(e.loc).loadSum[e.name] += e.val
	case 'd':
		t.totalDrops++
		if e.name != "" {
			t.drops[e.name]++
		}
	}
}

type c50Case struct {
	r        *vlib.Run
	fam      string
	idx      int
	ls       *LoadStore
	reps     []*PerClusterReporter
	repNames [][2]string
	locs     []clients.Locality
	stamps   [][]*c50Stamps // [rep][loc]

	mu         sync.Mutex // monitor state below
	reported   []*c50RepTotals
	reports    int
	overlapped int
	maxSpan    int64
	bad        bool
	desc       string
}

func (c *c50Case) viol(key string, detail any, f string, a ...any) {
	c.mu.Lock()
	c.bad = true
	c.mu.Unlock()
	c.r.Violation(key, c.fam, c.idx, detail, "[%s] "+f, append([]any{c.desc}, a...)...)
}

func (c *c50Case) repIndex(cluster, service string) int {
	for i, n := range c.repNames {
		if n[0] == cluster && n[1] == service {
			return i
		}
	}
	return -1
}

func (c *c50Case) locIndex(l clients.Locality) int {
	for i, x := range c.locs {
		if x == l {
			return i
		}
	}
	return -1
}

// snapshot takes one report through the real LoadStore.stats and folds it into
// the running sums; covered[i] tells whether reporter i is part of this report.
func (c *c50Case) snapshot(names []string) {
	nr, nl := len(c.reps), len(c.locs)
	covered := make([]bool, nr)
	for i, n := range c.repNames {
		if len(names) == 0 {
			covered[i] = true
		}
		for _, x := range names {
			if x == n[0] {
				covered[i] = true
			}
		}
	}
	a := make([]int64, nr*nl) // starts returned before the call
	b := make([]int64, nr*nl) // finishes returned before the call
	for i := 0; i < nr; i++ {
		for l := 0; l < nl; l++ {
			a[i*nl+l] = c.stamps[i][l].startRet.Load()
			b[i*nl+l] = c.stamps[i][l].finRet.Load()
		}
	}
	data := c.ls.stats(names)
	cc := make([]int64, nr*nl) // starts invoked before the return
	d := make([]int64, nr*nl)  // finishes invoked before the return
	for i := 0; i < nr; i++ {
		for l := 0; l < nl; l++ {
			cc[i*nl+l] = c.stamps[i][l].startInv.Load()
			d[i*nl+l] = c.stamps[i][l].finInv.Load()
		}
	}
	c.mu.Lock()
	defer c.mu.Unlock()
	c.reports++
	inProg := make([]uint64, nr*nl)
	seen := make([]bool, nr)
	for _, ld := range data {
		i := c.repIndex(ld.cluster, ld.service)
		if i < 0 || !covered[i] {
			c.mu.Unlock()
			c.viol("report-for-unknown-cluster", nil, "stats(%v) returned data for cluster %q service %q", names, ld.cluster, ld.service)
			c.mu.Lock()
			return
		}
		if seen[i] {
			c.mu.Unlock()
			c.viol("report-lists-cluster-twice", nil, "stats(%v) returned two entries for cluster %q service %q", names, ld.cluster, ld.service)
			c.mu.Lock()
			return
		}
		seen[i] = true
		t := c.reported[i]
		t.totalDrops += ld.totalDrops
		for k, v := range ld.drops {
			t.drops[k] += v
		}
		for loc, lsd := range ld.localityStats {
			l := c.locIndex(loc)
			if l < 0 {
				c.mu.Unlock()
				c.viol("report-for-unknown-locality", nil, "stats returned locality %v which never saw an event", loc)
				c.mu.Lock()
				return
			}
			lt := t.loc(l)
			lt.issued += lsd.requestStats.issued
			lt.succeeded += lsd.requestStats.succeeded
			lt.errored += lsd.requestStats.errored
			inProg[i*nl+l] = lsd.requestStats.inProgress
			for name, sl := range lsd.loadStats {
				lt.loadCount[name] += sl.count
				lt.loadSum[name] += sl.sum
			}
		}
	}
	over := false
	for i := 0; i < nr; i++ {
		if !covered[i] {
			continue
		}
		for l := 0; l < nl; l++ {
			k := i*nl + l
			lo, hi := a[k]-d[k], cc[k]-b[k]
			if lo < 0 {
				lo = 0
			}
			if cc[k] != a[k] || d[k] != b[k] {
				over = true
			}
			if span := hi - lo; span > c.maxSpan {
				c.maxSpan = span
			}
			got := int64(inProg[k])
			if got < lo || got > hi {
				det := map[string]any{"reporter": c.repNames[i], "locality": c.locs[l], "in_progress": inProg[k],
					"starts_returned_before_call": a[k], "finishes_returned_before_call": b[k], "starts_invoked_before_return": cc[k], "finishes_invoked_before_return": d[k]}
				c.mu.Unlock()
				c.viol("in-progress-out-of-range", det, "report #%d: inProgress=%d for %v/%v, but started-finished was within [%d,%d] during the snapshot (starts %d..%d, finishes %d..%d)",
					c.reports, inProg[k], c.repNames[i], c.locs[l].Region, lo, hi, a[k], cc[k], b[k], d[k])
				c.mu.Lock()
				return
			}
		}
	}
	if over {
		c.overlapped++
	}
}

// compare checks reported sums against event totals.  loadsOnly=false checks
// everything.  It returns the list of (reporter, locality, name) whose load was
// under-reported, and reports every other mismatch as a violation.
func (c *c50Case) compare(want []*c50RepTotals, phase string, tolerateWithheldLoad bool) (withheld []string, ok bool) {
	c.mu.Lock()
	rep := c.reported
	c.mu.Unlock()
	ok = true
	mism := func(key string, f string, a ...any) {
		ok = false
		c.viol(key, nil, phase+": "+f, a...)
	}
	for i := range want {
		w, g := want[i], rep[i]
		if g.totalDrops != w.totalDrops {
			key := "drops-lost"
			if g.totalDrops > w.totalDrops {
				key = "drops-double-counted"
			}
			mism(key, "reporter %v: Σ totalDrops over all reports = %d, events = %d", c.repNames[i], g.totalDrops, w.totalDrops)
			return
		}
		cats := map[string]bool{}
		for k := range w.drops {
			cats[k] = true
		}
		for k := range g.drops {
			cats[k] = true
		}
		for k := range cats {
			if g.drops[k] != w.drops[k] {
				key := "drops-lost"
				if g.drops[k] > w.drops[k] {
					key = "drops-double-counted"
				}
				mism(key, "reporter %v: Σ drops[%q] = %d, events = %d", c.repNames[i], k, g.drops[k], w.drops[k])
				return
			}
		}
		for l := range c.locs {
			wl, gl := w.loc(l), g.loc(l)
			for _, f := range []struct {
				name string
				g, w uint64
			}{{"issued", gl.issued, wl.issued}, {"succeeded", gl.succeeded, wl.succeeded}, {"errored", gl.errored, wl.errored}} {
				if f.g != f.w {
					key := "requests-lost"
					if f.g > f.w {
						key = "requests-double-counted"
					}
					mism(key, "reporter %v locality %v: Σ %s over all reports = %d, events = %d", c.repNames[i], c.locs[l].Region, f.name, f.g, f.w)
					return
				}
			}
			names := map[string]bool{}
			for k := range wl.loadCount {
				names[k] = true
			}
			for k := range gl.loadCount {
				names[k] = true
			}
			for k := range names {
				gc, wc, gs, ws := gl.loadCount[k], wl.loadCount[k], gl.loadSum[k], wl.loadSum[k]
				if gc == wc && gs == ws {
					continue
				}
				if gc > wc || gs > ws {
					mism("server-load-double-counted", "reporter %v locality %v load %q: Σ count/sum = %d/%v, events = %d/%v", c.repNames[i], c.locs[l].Region, k, gc, gs, wc, ws)
					return
				}
				if tolerateWithheldLoad {
					withheld = append(withheld, fmt.Sprintf("%v/%s/%s: reported %d/%v of %d/%v", c.repNames[i], c.locs[l].Region, k, gc, gs, wc, ws))
					continue
				}
				mism("server-load-lost", "reporter %v locality %v load %q: Σ count/sum = %d/%v, events = %d/%v", c.repNames[i], c.locs[l].Region, k, gc, gs, wc, ws)
				return
			}
		}
	}
	return withheld, ok
}

func c50Run(r *vlib.Run, fam string, idx int) {
	rng := r.Rand(fam, idx)
	c := &c50Case{r: r, fam: fam, idx: idx, ls: newLoadStore()}
	nrep := 1 + rng.Intn(3)
	nloc := 1 + rng.Intn(5)
	ncat := 1 + rng.Intn(4)
	nload := 1 + rng.Intn(3)
	ngo := 2 + rng.Intn(14)
	nsnap := 1 + rng.Intn(2)
	perG := 300 + rng.Intn(1700)
	hogs := 0
	if rng.Intn(2) == 0 {
		hogs = 4 + rng.Intn(12)
	}
	sequential := idx == 0 // deterministic must-hit prefix: the picker's order with a snapshot in between
	if sequential {
		nrep, nloc, ncat, nload, ngo, nsnap, perG, hogs = 1, 2, 2, 1, 1, 0, 40, 0
	}
	cats := []string{"", "throttle", "lb", "rate"}[:ncat]
	loads := []string{"cpu_utilization", "named_metrics.qps", "mem_utilization"}[:nload]
	for i := 0; i < nrep; i++ {
		n := [2]string{fmt.Sprintf("cluster-%d", i%2), fmt.Sprintf("service-%d", i)}
		c.repNames = append(c.repNames, n)
		c.reps = append(c.reps, c.ls.ReporterForCluster(n[0], n[1]))
		c.reported = append(c.reported, c50NewRepTotals())
	}
	for l := 0; l < nloc; l++ {
		c.locs = append(c.locs, clients.Locality{Region: fmt.Sprintf("region-%d", l), Zone: "z", SubZone: fmt.Sprintf("sz%d", l%2)})
	}
	c.stamps = make([][]*c50Stamps, nrep)
	for i := range c.stamps {
		for l := 0; l < nloc; l++ {
			c.stamps[i] = append(c.stamps[i], &c50Stamps{})
		}
	}
	c.desc = fmt.Sprintf("reporters=%d localities=%d categories=%d loads=%d goroutines=%d snapshotters=%d events/goroutine=%d hogs=%d", nrep, nloc, ncat, nload, ngo, nsnap, perG, hogs)
	r.Progress(fam, idx, c.desc)

	// scripts (PRNG used here only, never inside the goroutines)
	want := make([]*c50RepTotals, nrep)
	for i := range want {
		want[i] = c50NewRepTotals()
	}
	scripts := make([][]c50Event, ngo)
	loadAfterFinish := 0
	for g := 0; g < ngo; g++ {
		type open struct{ rep, loc int }
		var opens []open
		var sc []c50Event
		for len(sc) < perG {
			switch k := rng.Intn(20); {
			case k < 7:
				o := open{rng.Intn(nrep), rng.Intn(nloc)}
				opens = append(opens, o)
				sc = append(sc, c50Event{kind: 's', rep: o.rep, loc: o.loc})
			case k < 13 && len(opens) > 0:
				j := rng.Intn(len(opens))
				o := opens[j]
				opens = append(opens[:j], opens[j+1:]...)
				kind := byte('f')
				if rng.Intn(3) == 0 {
					kind = 'e'
				}
				if rng.Intn(2) == 0 { // load reported while the call is still open
					sc = append(sc, c50Event{kind: 'l', rep: o.rep, loc: o.loc, name: loads[rng.Intn(nload)], val: float64(rng.Intn(100))})
				}
				sc = append(sc, c50Event{kind: kind, rep: o.rep, loc: o.loc})
				if kind == 'f' && rng.Intn(2) == 0 { // the picker's order: CallFinished, then CallServerLoad
					for n := 1 + rng.Intn(nload); n > 0; n-- {
						sc = append(sc, c50Event{kind: 'l', rep: o.rep, loc: o.loc, name: loads[rng.Intn(nload)], val: float64(rng.Intn(100))})
						loadAfterFinish++
					}
				}
			case k < 17:
				sc = append(sc, c50Event{kind: 'd', rep: rng.Intn(nrep), name: cats[rng.Intn(ncat)]})
			case k < 18:
				sc = append(sc, c50Event{kind: 'y'})
			}
		}
		if sequential {
			// CallStarted, CallFinished, <report>, CallServerLoad — the order of the picker's Done
			// callback — on a locality that then goes quiet; a second locality keeps a call open.
			sc = []c50Event{
				{kind: 's', rep: 0, loc: 0}, {kind: 'f', rep: 0, loc: 0}, {kind: 'l', rep: 0, loc: 0, name: loads[0], val: 7},
				{kind: 'd', rep: 0, name: ""}, {kind: 'd', rep: 0, name: "throttle"},
				{kind: 's', rep: 0, loc: 1}, {kind: 'l', rep: 0, loc: 1, name: loads[0], val: 3}, {kind: 'e', rep: 0, loc: 1},
				{kind: 's', rep: 0, loc: 1},
			}
			loadAfterFinish = 1
		}
		// calls still in `opens` stay open for ever: inProgress must keep being reported
		scripts[g] = sc
		for _, e := range sc {
			want[e.rep].addEvent(e)
		}
	}

	exec := func(e c50Event) {
		p := c.reps[e.rep]
		switch e.kind {
		case 's':
			s := c.stamps[e.rep][e.loc]
			s.startInv.Add(1)
			p.CallStarted(c.locs[e.loc])
			s.startRet.Add(1)
		case 'f', 'e':
			s := c.stamps[e.rep][e.loc]
			var err error
			if e.kind == 'e' {
				err = c50Err
			}
			s.finInv.Add(1)
			p.CallFinished(c.locs[e.loc], err)
			s.finRet.Add(1)
		case 'l':
			p.CallServerLoad(c.locs[e.loc], e.name, e.val)
		case 'd':
			p.CallDropped(e.name)
		case 'y':
			runtime.Gosched()
		}
	}

	if sequential {
		// start, finish, SNAPSHOT, server load (the picker reports load after CallFinished), then quiescence
		for _, e := range scripts[0] {
			exec(e)
			if e.kind == 'f' || e.kind == 'e' {
				c.snapshot(nil)
			}
		}
	} else {
		var stop atomic.Bool
		var hogWG, evWG, snapWG sync.WaitGroup
		for h := 0; h < hogs; h++ {
			hogWG.Add(1)
			go func() {
				defer hogWG.Done()
				x := uint64(1)
				for !stop.Load() {
					for i := 0; i < 2000; i++ {
						x = x*6364136223846793005 + 1442695040888963407
					}
				}
				_ = x
			}()
		}
		start := make(chan struct{})
		for g := 0; g < ngo; g++ {
			evWG.Add(1)
			go func(sc []c50Event) {
				defer evWG.Done()
				<-start
				for _, e := range sc {
					exec(e)
				}
			}(scripts[g])
		}
		var eventsDone atomic.Bool
		for s := 0; s < nsnap; s++ {
			snapWG.Add(1)
			var names []string
			if s == 1 {
				names = []string{"cluster-0"} // a second stream reporting one cluster only
			}
			go func() {
				defer snapWG.Done()
				<-start
				for n := 0; !eventsDone.Load(); n++ {
					c.snapshot(names)
					c.mu.Lock()
					bad := c.bad
					c.mu.Unlock()
					if bad {
						return
					}
					if n%4 == 3 {
						runtime.Gosched()
					}
				}
			}()
		}
		close(start)
		evWG.Wait()
		eventsDone.Store(true)
		snapWG.Wait()
		stop.Store(true)
		hogWG.Wait()
	}
	if c.bad {
		return
	}
	// quiescence: no event is running; one final report
	c.snapshot(nil)
	if c.bad {
		return
	}
	withheld, ok := c.compare(want, "after the final report at quiescence", true)
	if !ok {
		return
	}
	if len(withheld) > 0 {
		sort.Strings(withheld)
		r.Count("cases_with_load_withheld_at_quiescence", 1)
		// literal reading of the statement: the load recorded after the locality's request
		// counters were swapped is in no report although nothing is running any more
		c.r.Violation("server-load-withheld-until-next-request", fam, idx, map[string]any{"params": c.desc, "withheld": withheld},
			"[%s] at quiescence (final report taken) server load is missing from the reports: %v — stats() skips a locality whose request counters are all zero without draining its server loads, so load recorded after CallFinished (the picker's order) stays unreported until the locality sees another request",
			c.desc, withheld[:min(3, len(withheld))])
		// Nothing may be lost for good: one more request per locality must flush it.
		for i := range c.reps {
			for l := range c.locs {
				for _, k := range []byte{'s', 'f'} {
					e := c50Event{kind: k, rep: i, loc: l}
					exec(e)
					want[i].addEvent(e)
				}
			}
		}
		c.snapshot(nil)
		if c.bad {
			return
		}
		if _, ok := c.compare(want, "after one more request per locality and another report", false); !ok {
			return
		}
	}
	// a further report must not contain anything but in-progress counts
	c.mu.Lock()
	before := c.reported
	c.reported = nil
	for range before {
		c.reported = append(c.reported, c50NewRepTotals())
	}
	c.mu.Unlock()
	c.snapshot(nil)
	empty := make([]*c50RepTotals, nrep)
	for i := range empty {
		empty[i] = c50NewRepTotals()
	}
	if _, ok := c.compare(empty, "idle report after everything was reported", false); !ok {
		return
	}
	r.Eval(1)
	var events int64
	for _, sc := range scripts {
		events += int64(len(sc))
	}
	r.Count("events", events)
	r.Count("reports", int64(c.reports))
	r.Count("reports_overlapping_events", int64(c.overlapped))
	r.Count("load_after_finish_events", int64(loadAfterFinish))
	r.Max("max_in_progress_interval_width", c.maxSpan)
	// non-trivial: at least one report was taken while events were in flight
	if c.overlapped > 0 || sequential {
		ob := 0
		for x := c.overlapped; x > 0; x >>= 4 {
			ob++
		}
		r.Nontrivial(fmt.Sprintf("rep%d/manyloc=%v/snap%d/hogs=%v/overlap~16^%d/withheld=%v", nrep, nloc > 2, nsnap, hogs > 0, ob, len(withheld) > 0))
	}
	if idx < 3 {
		r.Sample(map[string]any{"case": idx, "params": c.desc, "reports": c.reports, "reports_overlapping_events": c.overlapped, "withheld_at_quiescence": withheld})
	}
}

func TestVerifC50(t *testing.T) {
	r := vlib.Start(t, "C50")
	n := r.N(60, 600)
	for i := 0; i < n; i++ {
		if r.Want("store", i) {
			c50Run(r, "store", i)
		}
	}
	r.Count("gomaxprocs", int64(runtime.GOMAXPROCS(0)))
	r.Finish(vlib.Spec{
		Level: "exploration",
		Rule: "case 0: sequential script in the picker's order with a report after every CallFinished; other cases: 2-15 event goroutines x 300-2000 PRNG events (calls started/finished ok/err, loads before and after finish, drops in 1-4 categories incl. the empty one, some calls left open) on 1-3 reporters x 1-5 localities, 1-2 snapshot goroutines looping LoadStore.stats (one restricted to a cluster), optional CPU hogs, -race, GOMAXPROCS=64; distinct = (reporters, localities>2, snapshotters, hogs, log16 of reports that overlapped events, load withheld at quiescence) of cases in which at least one report overlapped events",
		Assumptions: []string{
			"event discipline of the cluster_impl picker: finish after the start returned; load only for localities that saw a start",
			"stamps are sequentially consistent atomics incremented immediately before/after each call (R3)",
			"schedules are sampled (oversubscription), not enumerated",
		},
		Floor: 10,
	})
}
