// C37: ring hash — real newRing / ring.pick / picker.Pick judged against
// references written from the property statement and gRFC A42/A61/A76
// (white-box: all of these are unexported).
package ringhash

import (
	"context"
	"errors"
	"fmt"
	"math"
	"math/rand"
	"sort"
	"strings"
	"testing"

	xxhash "github.com/cespare/xxhash/v2"
	"google.golang.org/grpc/balancer"
	"google.golang.org/grpc/connectivity"
	iringhash "google.golang.org/grpc/internal/ringhash"
	vlib "google.golang.org/grpc/internal/verifvlib"
	"google.golang.org/grpc/metadata"
	"google.golang.org/grpc/resolver"
)

type c37Ep struct {
	Key    string `json:"key"`
	Addr   string `json:"addr"`
	Weight uint32 `json:"weight"`
}

type c37RingCase struct {
	Eps    []c37Ep `json:"endpoints"`
	Min    uint64  `json:"min_ring_size"`
	Max    uint64  `json:"max_ring_size"`
	WClass string  `json:"weight_class"`
	SClass string  `json:"size_class"`
	Len    int     `json:"ring_len,omitempty"`
}

var c37Logger = prefixLogger(&ringhashBalancer{})

type c37Entry struct {
	hash   uint64
	key    string
	weight uint32
}

func c37GenRing(rng *rand.Rand, i int) c37RingCase {
	var c c37RingCase
	var n int
	switch rng.Intn(7) {
	case 0:
		n = 1
	case 1:
		n = 2 + rng.Intn(3)
	case 2:
		n = 5 + rng.Intn(8)
	case 3:
		n = 13 + rng.Intn(38)
	case 4:
		n = 51 + rng.Intn(150)
	case 5:
		n = 9
	default:
		n = 3 + rng.Intn(30)
	}
	wc := rng.Intn(6)
	// deterministic must-hit prefix: a few fixed shapes whatever the seed
	if i < 6 {
		n = []int{9, 3, 1, 20, 7, 150}[i]
		wc = []int{0, 2, 0, 3, 4, 1}[i]
	}
	eq := uint32(1 + rng.Intn(1000000))
	a, b := uint32(1+rng.Intn(50)), uint32(1+rng.Intn(50))
	c.Eps = make([]c37Ep, n)
	customKeys := rng.Intn(4) == 0
	base := rng.Intn(200)
	for k := 0; k < n; k++ {
		addr := fmt.Sprintf("10.%d.%d.%d:%d", base, k/250, k%250, 8000+rng.Intn(3))
		key := addr
		if customKeys {
			key = fmt.Sprintf("hk-%x-%d", rng.Uint32(), k)
		}
		var w uint32
		switch wc {
		case 0:
			w = 1
			c.WClass = "all-one"
		case 1:
			w = eq
			c.WClass = "all-equal"
		case 2:
			w = uint32(1 + rng.Intn(10))
			c.WClass = "small"
		case 3:
			w = uint32(1 + rng.Intn(1000000))
			c.WClass = "wide"
		case 4:
			w = 1
			if k == n/2 {
				w = 1000000
			}
			c.WClass = "one-heavy"
		default:
			w = a
			if rng.Intn(2) == 0 {
				w = b
			}
			c.WClass = "two-valued"
		}
		c.Eps[k] = c37Ep{Key: key, Addr: addr, Weight: w}
	}
	sc := rng.Intn(6)
	if i < 6 {
		sc = []int{0, 3, 0, 4, 2, 5}[i]
	}
	switch sc {
	case 0:
		c.Min = []uint64{1, 2, 3, 7, 16, 100, 1024, 4096}[rng.Intn(8)]
		if i == 0 {
			c.Min = 16
		}
		c.Max = c.Min
		c.SClass = "min=max"
	case 1:
		c.Min, c.Max = 1024, 4096
		c.SClass = "defaults"
	case 2:
		c.Min, c.Max = 1, uint64(1+rng.Intn(2*n+1))
		c.SClass = "min1"
	case 3:
		c.Min = uint64(1 + rng.Intn(64))
		c.Max = c.Min + uint64(rng.Intn(65))
		c.SClass = "narrow"
	case 4:
		c.Min = uint64(1 + rng.Intn(2000))
		c.Max = []uint64{4096, 8192, 16384}[rng.Intn(3)]
		c.SClass = "wide"
	default:
		c.Max = uint64(1 + rng.Intn(n))
		c.Min = uint64(1 + rng.Intn(int(c.Max)))
		c.SClass = "max<=n"
	}
	return c
}

func c37Build(c c37RingCase, perm []int) (*resolver.EndpointMap[*endpointState], *ring) {
	m := resolver.NewEndpointMap[*endpointState]()
	for _, k := range perm {
		e := c.Eps[k]
		m.Set(resolver.Endpoint{Addresses: []resolver.Address{{Addr: e.Addr}}}, &endpointState{hashKey: e.Key, weight: e.Weight})
	}
	return m, newRing(m, c.Min, c.Max, c37Logger)
}

func c37Snapshot(r *ring) []c37Entry {
	out := make([]c37Entry, len(r.items))
	for i, it := range r.items {
		out[i] = c37Entry{hash: it.hash, key: it.hashKey, weight: it.weight}
	}
	return out
}

// c37RefPick: the entry with the smallest hash >= h, or, if there is none, the
// entry with the smallest hash (wrap) — a linear scan that does not rely on
// the ring's order.
func c37RefPick(es []c37Entry, h uint64) c37Entry {
	var best, lowest *c37Entry
	for k := range es {
		e := &es[k]
		if lowest == nil || e.hash < lowest.hash {
			lowest = e
		}
		if e.hash >= h && (best == nil || e.hash < best.hash) {
			best = e
		}
	}
	if best == nil {
		return *lowest
	}
	return *best
}

// c37FloatSumExceeds emulates the documented construction (gRFC A42 / Envoy:
// scale = min(ceil(minNW*minRing)/minNW, maxRing); per endpoint in hash-key
// order target += scale*nw) in float64 and reports whether the accumulated
// target ends strictly above maxRing.  It is used ONLY to choose the key of a
// size violation (float accumulation, §5 F8, versus anything else).
func c37FloatSumExceeds(c c37RingCase) bool {
	var sum uint32
	for _, e := range c.Eps {
		sum += e.Weight
	}
	eps := append([]c37Ep(nil), c.Eps...)
	sort.Slice(eps, func(i, j int) bool { return eps[i].Key < eps[j].Key })
	minNW := 1.0
	for _, e := range eps {
		minNW = math.Min(minNW, float64(e.Weight)/float64(sum))
	}
	scale := math.Min(math.Ceil(minNW*float64(c.Min))/minNW, float64(c.Max))
	var tgt float64
	for _, e := range eps {
		tgt += scale * (float64(e.Weight) / float64(sum))
	}
	return tgt > float64(c.Max)
}

func c37JudgeRing(r *vlib.Run, fam string, i int, c c37RingCase, rg *ring) (f8 bool) {
	es := c37Snapshot(rg)
	L := len(es)
	c.Len = L
	var W uint64
	for _, e := range c.Eps {
		W += uint64(e.Weight)
	}
	// --- size bounds
	if uint64(L) < c.Min {
		r.Violation("ring-smaller-than-min", fam, i, c, "ring has %d entries < min_ring_size %d (n=%d max=%d)", L, c.Min, len(c.Eps), c.Max)
	}
	if uint64(L) > c.Max {
		if uint64(L) == c.Max+1 && c37FloatSumExceeds(c) {
			f8 = true
			r.Violation("ring-max-plus-one-float-accumulation", fam, i, c,
				"ring has %d entries = max_ring_size %d + 1 (n=%d endpoints, weights %s, min=%d): the float64 sum of scale*normalizedWeight ends above max_ring_size", L, c.Max, len(c.Eps), c.WClass, c.Min)
		} else {
			r.Violation("ring-larger-than-max", fam, i, c, "ring has %d entries > max_ring_size %d (n=%d min=%d)", L, c.Max, len(c.Eps), c.Min)
		}
	}
	// --- proportionality up to (cumulative) rounding
	cnt := map[string]int{}
	wOf := map[string]uint32{}
	for _, e := range es {
		cnt[e.key]++
		wOf[e.key] = e.weight
	}
	known := map[string]uint32{}
	for _, e := range c.Eps {
		known[e.Key] = e.Weight
	}
	for k, w := range wOf {
		if kw, ok := known[k]; !ok || kw != w {
			r.Violation("ring-entry-foreign", fam, i, c, "ring entry key=%q weight=%d does not belong to the endpoint set (want weight %d, known=%v)", k, w, kw, ok)
			return
		}
	}
	for _, e := range c.Eps {
		nw := float64(e.Weight) / float64(W)
		ideal := float64(L) * nw
		got := float64(cnt[e.Key])
		// cumulative rounding: entries_i = ceil(T_i)-ceil(T_{i-1}) is within 1 of
		// scale*nw, and len = ceil(scale) adds at most nw more.
		if math.Abs(got-ideal) > 1+nw+1e-6 {
			r.Violation("ring-not-proportional", fam, i, c, "endpoint %q weight %d/%d has %d of %d entries, ideal %.3f (allowed deviation %.3f)", e.Key, e.Weight, W, cnt[e.Key], L, ideal, 1+nw)
			break
		}
	}
	if L == 0 {
		r.Violation("ring-empty", fam, i, c, "ring is empty")
		return
	}
	// --- ring.pick vs linear scan; ring.next is the clockwise successor
	sorted := append([]c37Entry(nil), es...)
	sort.Slice(sorted, func(a, b int) bool { return sorted[a].hash < sorted[b].hash })
	dup := false
	for k := 1; k < L; k++ {
		if sorted[k].hash == sorted[k-1].hash {
			dup = true // 64-bit collision: ties make "first entry" ambiguous, skip picks
		}
	}
	if dup {
		r.Count("rings_with_hash_collision", 1)
		return
	}
	probes := []uint64{0, 1, math.MaxUint64, math.MaxUint64 - 1}
	prng := rand.New(rand.NewSource(int64(i)*7919 + r.Seed()))
	addEntry := func(k int) {
		h := es[k].hash
		probes = append(probes, h, h-1, h+1)
	}
	if L <= 64 {
		for k := 0; k < L; k++ {
			addEntry(k)
		}
	} else {
		addEntry(0)
		addEntry(L - 1)
		for k := 0; k < 40; k++ {
			addEntry(prng.Intn(L))
		}
	}
	for k := 0; k < 8; k++ {
		probes = append(probes, prng.Uint64())
	}
	for _, h := range probes {
		got := rg.pick(h)
		want := c37RefPick(es, h)
		r.Count("ring_pick_probes", 1)
		if got == nil || got.hash != want.hash || got.hashKey != want.key {
			r.Violation("ring-pick-mismatch", fam, i, c, "ring.pick(%d) = %+v, want first entry clockwise hash=%d key=%q (ring len %d)", h, got, want.hash, want.key, L)
			return
		}
		// successor
		nx := rg.next(got)
		pos := sort.Search(L, func(k int) bool { return sorted[k].hash >= got.hash })
		wantNx := sorted[(pos+1)%L]
		if nx == nil || nx.hash != wantNx.hash {
			r.Violation("ring-next-mismatch", fam, i, c, "ring.next(entry hash=%d) has hash %v, want %d", got.hash, nx, wantNx.hash)
			return
		}
	}
	return f8
}

func c37SameRing(a, b []c37Entry) bool {
	if len(a) != len(b) {
		return false
	}
	for i := range a {
		if a[i] != b[i] {
			return false
		}
	}
	return true
}

func c37RingFamily(r *vlib.Run) {
	const fam = "ring"
	n := r.N(700, 12000)
	for i := 0; i < n; i++ {
		if !r.Want(fam, i) {
			continue
		}
		rng := r.Rand(fam, i)
		c := c37GenRing(rng, i)
		ne := len(c.Eps)
		ident := make([]int, ne)
		for k := range ident {
			ident[k] = k
		}
		_, first := c37Build(c, ident)
		r.Eval(1)
		firstSnap := c37Snapshot(first)
		f8 := c37JudgeRing(r, fam, i, c, first)
		// same set inserted in other orders (and rebuilt: map iteration order differs per build)
		orders := 3
		for o := 0; o < orders; o++ {
			perm := rng.Perm(ne)
			if o == 0 {
				for k := range perm {
					perm[k] = ne - 1 - k
				}
			}
			_, other := c37Build(c, perm)
			r.Count("rings_rebuilt_in_other_order", 1)
			if !c37SameRing(firstSnap, c37Snapshot(other)) {
				c.Len = len(firstSnap)
				r.Violation("ring-depends-on-order", fam, i, c, "same endpoint set inserted in order %v gives a different ring (len %d vs %d)", perm, len(other.items), len(firstSnap))
				break
			}
		}
		r.Count("ring_entries_total", int64(len(firstSnap)))
		r.Max("max_ring_len", int64(len(firstSnap)))
		sizeSig := "within"
		switch {
		case f8:
			sizeSig = "max+1"
		case uint64(len(firstSnap)) == c.Max:
			sizeSig = "at-max"
		case uint64(len(firstSnap)) == c.Min:
			sizeSig = "at-min"
		}
		if f8 {
			r.Count("rings_exceeding_max_by_one", 1)
		}
		// non-trivial: more than one endpoint (rounding / ordering can matter)
		if ne > 1 {
			r.Nontrivial(fmt.Sprintf("ring/n%d/%s/%s/%s", c37Bucket(ne), c.WClass, c.SClass, sizeSig))
		}
		if i < 2 {
			c.Len = len(firstSnap)
			r.Sample(map[string]any{"n": ne, "weights": c.WClass, "min": c.Min, "max": c.Max, "ring_len": c.Len})
		}
	}
}

func c37Bucket(n int) int {
	b := 0
	for n > 0 {
		n /= 3
		b++
	}
	return b
}

// ---------------------------------------------------------------------------
// picker

type c37SC struct {
	balancer.SubConn
	ep int
}

type c37TFErr struct{ ep int }

func (e *c37TFErr) Error() string { return fmt.Sprintf("endpoint %d in TRANSIENT_FAILURE", e.ep) }

type c37Mon struct {
	childPicks []int
	exitIdles  []int
}

type c37Child struct {
	mon *c37Mon
	ep  int
	st  connectivity.State
}

func (p *c37Child) Pick(balancer.PickInfo) (balancer.PickResult, error) {
	p.mon.childPicks[p.ep]++
	switch p.st {
	case connectivity.Ready:
		return balancer.PickResult{SubConn: &c37SC{ep: p.ep}}, nil
	case connectivity.Idle, connectivity.Connecting:
		return balancer.PickResult{}, balancer.ErrNoSubConnAvailable
	default:
		return balancer.PickResult{}, &c37TFErr{ep: p.ep}
	}
}

type c37PickCase struct {
	Weights []uint32 `json:"weights"`
	States  []string `json:"states"`
	Ring    uint64   `json:"ring_size"`
	Mode    string   `json:"mode"`
	Hash    uint64   `json:"hash"`
	Header  []string `json:"header_values,omitempty"`
}

func c37PickerFamily(r *vlib.Run) {
	const fam = "picker"
	n := r.N(30000, 600000)
	stateSet := []connectivity.State{connectivity.Idle, connectivity.Connecting, connectivity.Ready, connectivity.TransientFailure}
	for i := 0; i < n; i++ {
		if !r.Want(fam, i) {
			continue
		}
		rng := r.Rand(fam, i)
		ne := 1 + rng.Intn(9)
		c := c37PickCase{}
		rc := c37RingCase{}
		// state mix classes
		mix := rng.Intn(7)
		states := make([]connectivity.State, ne)
		for k := 0; k < ne; k++ {
			w := uint32(1 + rng.Intn(4))
			c.Weights = append(c.Weights, w)
			rc.Eps = append(rc.Eps, c37Ep{Key: fmt.Sprintf("ep-%d-%d", i%17, k), Addr: fmt.Sprintf("ep-%d-%d", i%17, k), Weight: w})
			switch mix {
			case 0:
				states[k] = connectivity.TransientFailure
			case 1:
				states[k] = connectivity.Idle
			case 2: // TF and IDLE only
				states[k] = vlib.Pick(rng, connectivity.TransientFailure, connectivity.Idle)
			case 3: // no CONNECTING
				states[k] = vlib.Pick(rng, connectivity.TransientFailure, connectivity.Idle, connectivity.Ready)
			case 4: // mostly TF, one other
				states[k] = connectivity.TransientFailure
			default:
				states[k] = stateSet[rng.Intn(4)]
			}
		}
		if mix == 4 {
			states[rng.Intn(ne)] = stateSet[rng.Intn(4)]
		}
		for _, s := range states {
			c.States = append(c.States, s.String())
		}
		rc.Min = uint64(1 + rng.Intn(4*ne))
		rc.Max = rc.Min + uint64(rng.Intn(8))
		c.Ring = rc.Min

		mon := &c37Mon{childPicks: make([]int, ne), exitIdles: make([]int, ne)}
		m := resolver.NewEndpointMap[*endpointState]()
		epOfKey := map[string]int{}
		for k, e := range rc.Eps {
			k := k
			epOfKey[e.Key] = k
			m.Set(resolver.Endpoint{Addresses: []resolver.Address{{Addr: e.Addr}}}, &endpointState{
				hashKey: e.Key, weight: e.Weight,
				exitIdle: func() { mon.exitIdles[k]++ },
				state:    balancer.State{ConnectivityState: states[k], Picker: &c37Child{mon: mon, ep: k, st: states[k]}},
			})
		}
		rg := newRing(m, rc.Min, rc.Max, c37Logger)
		es := c37Snapshot(rg)
		sorted := append([]c37Entry(nil), es...)
		sort.Slice(sorted, func(a, b int) bool { return sorted[a].hash < sorted[b].hash })
		L := len(sorted)
		if L == 0 {
			continue
		}

		// choose the mode and the hash
		mode := rng.Intn(3)
		var h uint64
		switch rng.Intn(5) {
		case 0:
			h = sorted[rng.Intn(L)].hash
		case 1:
			h = sorted[rng.Intn(L)].hash + 1
		case 2:
			h = sorted[rng.Intn(L)].hash - 1
		case 3:
			h = vlib.Pick(rng, uint64(0), uint64(math.MaxUint64))
		default:
			h = rng.Uint64()
		}
		cfg := &iringhash.LBConfig{MinRingSize: rc.Min, MaxRingSize: rc.Max}
		ctx := context.Background()
		randomHash := false
		switch mode {
		case 0:
			c.Mode = "xds-request-hash"
			ctx = iringhash.SetXDSRequestHash(ctx, h)
		case 1:
			c.Mode = "header-hash"
			cfg.RequestHashHeader = "x-c37-hash"
			vals := []string{fmt.Sprintf("v%d", rng.Intn(1000))}
			if rng.Intn(3) == 0 {
				vals = append(vals, fmt.Sprintf("w%d", rng.Intn(1000)))
			}
			c.Header = vals
			ctx = metadata.NewOutgoingContext(ctx, metadata.MD{"x-c37-hash": vals})
			h = xxhash.Sum64String(strings.Join(vals, ",")) // gRFC A76: values joined with ','
		default:
			c.Mode = "random-hash"
			cfg.RequestHashHeader = "x-c37-hash"
			randomHash = true
			if rng.Intn(2) == 0 {
				ctx = metadata.NewOutgoingContext(ctx, metadata.MD{"other": []string{"x"}})
			}
		}
		c.Hash = h
		b := &ringhashBalancer{endpointStates: m, ring: rg, config: cfg}
		p := b.newPickerLocked()
		randCalls := 0
		p.randUint64 = func() uint64 { randCalls++; return h }

		r.Progress(fam, i, c.Mode)
		res, err := p.Pick(balancer.PickInfo{Ctx: ctx, FullMethodName: "/c37/M"})
		r.Eval(1)

		// ---- reference walk (clockwise from the first entry with hash >= h)
		start := sort.Search(L, func(k int) bool { return sorted[k].hash >= h })
		if start == L {
			start = 0
		}
		walk := make([]int, L) // endpoint index per step
		for k := 0; k < L; k++ {
			walk[k] = epOfKey[sorted[(start+k)%L].key]
		}
		anyConnecting := false
		for _, s := range states {
			if s == connectivity.Connecting {
				anyConnecting = true
			}
		}
		attempts := func(k int) int {
			a := mon.exitIdles[k]
			if states[k] == connectivity.Idle {
				a += mon.childPicks[k] // a pick on an IDLE child's picker starts a connection
			}
			return a
		}
		totalAttempts := 0
		for k := 0; k < ne; k++ {
			totalAttempts += attempts(k)
		}
		gotEp := -1
		if sc, ok := res.SubConn.(*c37SC); ok {
			gotEp = sc.ep
		}
		var tfe *c37TFErr
		isTF := errors.As(err, &tfe)
		bad := func(key, format string, args ...any) {
			r.Violation(key, fam, i, c, "%s [mode=%s states=%v walk=%v hash=%d result: ep=%d err=%v exitIdle=%v childPicks=%v]",
				fmt.Sprintf(format, args...), c.Mode, c.States, walk, h, gotEp, err, mon.exitIdles, mon.childPicks)
		}
		sig := c.Mode
		if !randomHash {
			if randCalls != 0 {
				bad("request-hash-ignored", "a request hash was supplied but the picker drew a random hash")
			}
			sel, steps := -1, 0
			for k, ep := range walk {
				if states[ep] != connectivity.TransientFailure {
					sel, steps = ep, k
					break
				}
			}
			switch {
			case sel < 0:
				sig += "/all-tf"
				if !isTF {
					bad("all-tf-not-failed", "every endpoint is in TRANSIENT_FAILURE but the pick did not fail with an endpoint's failure")
				}
			case states[sel] == connectivity.Ready:
				sig += "/ready"
				if err != nil || gotEp != sel {
					bad("request-hash-wrong-endpoint", "want READY endpoint %d (first non-TF entry clockwise, %d entries skipped)", sel, steps)
				}
			default:
				sig += "/" + states[sel].String()
				if err != balancer.ErrNoSubConnAvailable {
					bad("request-hash-wrong-endpoint", "first non-TF entry clockwise is endpoint %d in %v: the pick must queue (ErrNoSubConnAvailable)", sel, states[sel])
				}
				if states[sel] == connectivity.Idle && attempts(sel) < 1 {
					bad("idle-entry-not-connected", "selected endpoint %d is IDLE but no connection attempt was triggered on it", sel)
				}
			}
			for k := 0; k < ne; k++ {
				if k != sel && attempts(k) > 0 {
					bad("connect-on-unselected-endpoint", "connection attempt triggered on endpoint %d, which is not the selected entry %d", k, sel)
				}
				if k != sel && sel >= 0 && mon.childPicks[k] > 0 {
					bad("request-hash-wrong-endpoint", "pick delegated to endpoint %d, want only %d", k, sel)
				}
			}
			if steps > 0 {
				sig += "/skipped-tf"
			}
			if start == 0 && (h > sorted[L-1].hash) {
				sig += "/wrapped"
			}
		} else {
			if randCalls != 1 {
				bad("random-hash-not-drawn-once", "no request hash: want exactly one random draw, got %d", randCalls)
			}
			firstReady, readyAt := -1, L
			for k, ep := range walk {
				if states[ep] == connectivity.Ready {
					firstReady, readyAt = ep, k
					break
				}
			}
			idleBefore := map[int]bool{}
			for k := 0; k < readyAt; k++ {
				if states[walk[k]] == connectivity.Idle {
					idleBefore[walk[k]] = true
				}
			}
			switch {
			case firstReady >= 0:
				sig += "/ready"
				if err != nil || gotEp != firstReady {
					bad("random-hash-not-first-ready", "want the first READY endpoint clockwise: %d", firstReady)
				}
			case anyConnecting || len(idleBefore) > 0:
				sig += "/queue"
				if err != balancer.ErrNoSubConnAvailable {
					bad("random-hash-not-queued", "no READY endpoint but one is CONNECTING/IDLE: the pick must queue")
				}
			default:
				sig += "/all-tf"
				if !isTF {
					bad("all-tf-not-failed", "every endpoint is in TRANSIENT_FAILURE but the pick did not fail with an endpoint's failure")
				}
			}
			if totalAttempts > 1 {
				bad("more-than-one-connection-attempt", "a random-hash pick triggered %d connection attempts", totalAttempts)
			}
			if anyConnecting && totalAttempts > 0 {
				bad("connection-attempt-while-connecting", "an endpoint is CONNECTING yet the pick triggered %d connection attempt(s)", totalAttempts)
			}
			for k := 0; k < ne; k++ {
				if mon.exitIdles[k] > 0 && !idleBefore[k] {
					bad("connect-on-wrong-endpoint", "exitIdle called on endpoint %d (%v) which is not an IDLE entry on the way to the first READY entry", k, states[k])
				}
			}
			if firstReady < 0 && !anyConnecting && len(idleBefore) > 0 && totalAttempts != 1 {
				bad("no-connection-attempt", "no READY and no CONNECTING endpoint, IDLE ones exist: want exactly one connection attempt, got %d", totalAttempts)
			}
			if anyConnecting {
				sig += "/connecting"
			}
			sig += fmt.Sprintf("/attempts%d", totalAttempts)
			if readyAt > 0 && firstReady >= 0 {
				sig += "/walked"
			}
		}
		r.Count("picks_"+c.Mode, 1)
		r.Count("exitidle_calls", int64(func() int {
			s := 0
			for _, v := range mon.exitIdles {
				s += v
			}
			return s
		}()))
		// non-trivial: more than one endpoint on the ring
		if ne > 1 && L > 1 {
			r.Nontrivial("pick/" + sig)
		}
		if i < 2 {
			r.Sample(c)
		}
	}
}

func TestVerifC37(t *testing.T) {
	r := vlib.Start(t, "C37")
	c37RingFamily(r)
	c37PickerFamily(r)
	r.Finish(vlib.Spec{
		Level: "exploration",
		Rule: "ring: PRNG endpoint sets (1..200 endpoints; weights all-1/equal/1..10/1..1e6/one-heavy/two-valued; default or custom hash keys) x ring size bounds (min=max, defaults 1024/4096, min=1, narrow, wide, max<=n), each set built by the real newRing in 4 insertion orders, ring.pick/next probed at/around entry hashes, 0, MaxUint64; distinct = (endpoint-count bucket, weight class, size class, size outcome) for sets with >1 endpoint. " +
			"picker: PRNG (1..9 endpoints, weights 1..4, ring built by real newRing, per-endpoint state from {IDLE,CONNECTING,READY,TF} in 7 mixes) x (xDS request hash | header hash | random hash) with the hash at/around entry hashes, 0, MaxUint64 or random; picker built by real newPickerLocked with tagged stub child pickers; distinct = (mode, outcome class, skipped/wrapped/attempt flags) for rings with >1 endpoint",
		Assumptions: []string{
			"proportionality allowance is 1+nw entries around len*nw (cumulative ceil rounding of scale*nw; len=ceil(scale))",
			"endpoint hash keys are distinct; total weight < 2^32 (xDS validates both)",
			"rings with a 64-bit hash collision are not used for pick comparisons",
			"a Pick on an IDLE child's picker counts as a connection attempt on that endpoint (that is what pick_first's idle picker does)",
			"random source is the picker's randUint64 field (set to the chosen hash)",
		},
		Floor: 40,
	})
}
