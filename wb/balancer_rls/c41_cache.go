// C41 (part 2): the real RLS dataCache against a model written from the
// statement, over random add/get/resize/evict/updateEntrySize histories under
// virtual time (testing/synctest: dataCache reads time.Now directly).
//
// The harness follows the balancer's own calling discipline: single goroutine
// (the balancer holds cacheMu), addEntry only for a key that getEntry reported
// absent.
package rls

import (
	"fmt"
	"math/rand"
	"strings"
	"testing"
	"testing/synctest"
	"time"

	vlib "google.golang.org/grpc/internal/verifvlib"
)

type c41mEntry struct {
	key        cacheKey
	size       int64
	earliest   time.Time
	expiry     time.Time
	boExpiry   time.Time
	hasBackoff bool
	real       *cacheEntry
}

type c41Model struct {
	max   int64
	order []*c41mEntry // front = least recently used
}

func (m *c41Model) find(k cacheKey) int {
	for i, e := range m.order {
		if e.key == k {
			return i
		}
	}
	return -1
}

func (m *c41Model) sum() int64 {
	var s int64
	for _, e := range m.order {
		s += e.size
	}
	return s
}

// shrink is the statement's eviction rule: remove least-recently-used entries
// first while the accounted size exceeds the limit, stopping at the first entry
// that is not yet evictable.
func (m *c41Model) shrink(limit int64, now time.Time) (evicted int, blocked bool) {
	for m.sum() > limit && len(m.order) > 0 {
		if m.order[0].earliest.After(now) {
			return evicted, true
		}
		m.order = m.order[1:]
		evicted++
	}
	return evicted, false
}

type c41Op struct {
	Op   string `json:"op"`
	Key  string `json:"key,omitempty"`
	Size int64  `json:"size,omitempty"`
	AtMs int64  `json:"at_ms"`
	Note string `json:"note,omitempty"`
}

func c41CacheCompare(dc *dataCache, m *c41Model) (key, msg string) {
	// (a) accounted size == sum of the sizes of the entries actually stored
	var realSum int64
	for _, e := range dc.entries {
		realSum += e.size
	}
	if dc.currentSize != realSum {
		return "cache-size-accounting", fmt.Sprintf("currentSize=%d but the stored entries sum to %d", dc.currentSize, realSum)
	}
	// (b) same entries as the model
	if len(dc.entries) != len(m.order) {
		return "cache-entries-diverge", fmt.Sprintf("cache holds %d entries, model %d (model order %v)", len(dc.entries), len(m.order), c41Keys(m))
	}
	for _, me := range m.order {
		e, ok := dc.entries[me.key]
		if !ok {
			return "cache-entries-diverge", fmt.Sprintf("entry %v should be cached (model order %v) but is gone", me.key, c41Keys(m))
		}
		if e != me.real {
			return "cache-entries-diverge", fmt.Sprintf("entry %v is not the object that was added", me.key)
		}
		if e.size != me.size {
			return "cache-size-accounting", fmt.Sprintf("entry %v has size %d, model %d", me.key, e.size, me.size)
		}
	}
	// (c) LRU order
	if dc.keys.ll.Len() != len(m.order) || len(dc.keys.m) != len(m.order) {
		return "cache-lru-diverge", fmt.Sprintf("LRU list has %d elements (index %d), model %d", dc.keys.ll.Len(), len(dc.keys.m), len(m.order))
	}
	i := 0
	for el := dc.keys.ll.Front(); el != nil; el = el.Next() {
		if k := el.Value.(cacheKey); k != m.order[i].key {
			return "cache-lru-diverge", fmt.Sprintf("LRU position %d holds %v, model %v (model order %v)", i, k, m.order[i].key, c41Keys(m))
		}
		i++
	}
	return "", ""
}

func c41Keys(m *c41Model) []string {
	var ks []string
	for _, e := range m.order {
		ks = append(ks, e.key.keys)
	}
	return ks
}

// c41CacheHistory runs one random history inside a synctest bubble.
func c41CacheHistory(r *vlib.Run, fam string, ci int, rng *rand.Rand) {
	start := time.Now()
	atMs := func() int64 { return int64(time.Since(start) / time.Millisecond) }
	// off-grid offset: harness sleeps are whole milliseconds, every deadline
	// carries +1µs so "now == deadline" never happens (the statement does not
	// define the equality case).
	const off = time.Microsecond
	maxSize := int64(vlib.Pick(rng, 1, 3, 5, 10, 20, 100))
	dc := newDataCache(maxSize, nil, "verif")
	m := &c41Model{max: maxSize}
	var hist []c41Op
	sig := map[string]bool{}
	nkeys := 3 + rng.Intn(10)
	keyOf := func(i int) cacheKey { return cacheKey{path: "/s/m", keys: fmt.Sprintf("k%d", i)} }
	steps := 40 + rng.Intn(60)
	fail := func(op c41Op) bool {
		if key, msg := c41CacheCompare(dc, m); key != "" {
			r.Violation(key, fam, ci, map[string]any{"max_size": m.max, "history": hist}, "after %s(%s size=%d) at +%dms: %s", op.Op, op.Key, op.Size, op.AtMs, msg)
			return true
		}
		return false
	}
	var timers []*time.Timer
	defer func() {
		for _, tm := range timers {
			tm.Stop()
		}
	}()
	for s := 0; s < steps; s++ {
		now := time.Now()
		op := c41Op{AtMs: atMs()}
		switch x := rng.Intn(100); {
		case x < 34: // add (balancer discipline: only when getEntry says absent)
			k := keyOf(rng.Intn(nkeys))
			op.Op, op.Key = "get+add", k.keys
			got := dc.getEntry(k)
			if mi := m.find(k); mi >= 0 {
				// present: the lookup made it most recently used
				me := m.order[mi]
				m.order = append(append(m.order[:mi:mi], m.order[mi+1:]...), me)
				if got != me.real {
					r.Violation("cache-get-wrong-entry", fam, ci, map[string]any{"history": hist}, "getEntry(%v) returned %p, the cached object is %p", k, got, me.real)
					return
				}
				op.Note = "present"
				break
			}
			if got != nil {
				r.Violation("cache-get-wrong-entry", fam, ci, map[string]any{"history": hist}, "getEntry(%v) returned an entry for a key the model does not hold", k)
				return
			}
			size := int64(rng.Intn(int(m.max) + 2))
			if rng.Intn(4) == 0 {
				size = 1
			}
			op.Size = size
			me := &c41mEntry{key: k, size: size}
			switch rng.Intn(4) {
			case 0: // evictable at once
				me.earliest = now.Add(-time.Second + off)
			case 1:
				me.earliest = now.Add(time.Duration(1+rng.Intn(50))*time.Millisecond + off)
			default: // the balancer's 5 s
				me.earliest = now.Add(minEvictDuration + off)
			}
			me.expiry = now.Add(time.Duration(rng.Intn(20000))*time.Millisecond + off)
			e := &cacheEntry{size: size, earliestEvictTime: me.earliest, expiryTime: me.expiry}
			switch rng.Intn(4) {
			case 0:
				me.boExpiry = now.Add(time.Duration(rng.Intn(20000))*time.Millisecond + off)
				e.backoffExpiryTime = me.boExpiry
				tm := time.NewTimer(time.Duration(1+rng.Intn(10000))*time.Millisecond + off)
				timers = append(timers, tm)
				e.backoffState = &backoffState{bs: defaultBackoffStrategy, timer: tm}
				me.hasBackoff = true
			case 1:
				e.backoffState = &backoffState{bs: defaultBackoffStrategy}
				me.hasBackoff = true
			}
			me.real = e
			_, ok := dc.addEntry(k, e)
			wantOK := size <= m.max
			if ok != wantOK {
				r.Violation("cache-add-acceptance", fam, ci, map[string]any{"history": hist}, "addEntry(size=%d) with maxSize=%d returned ok=%v", size, m.max, ok)
				return
			}
			if wantOK {
				m.order = append(m.order, me)
				ev, blocked := m.shrink(m.max, now)
				op.Note = fmt.Sprintf("evicted=%d blocked=%v", ev, blocked)
				sig[fmt.Sprintf("add/evict=%d/blocked=%v", c41min(ev, 3), blocked)] = true
				r.Count("cache_add_evictions", int64(ev))
				if blocked {
					r.Count("cache_eviction_stopped_at_unevictable", 1)
				}
			} else {
				op.Note = "too-big"
				sig["add/too-big"] = true
			}
		case x < 54: // get
			k := keyOf(rng.Intn(nkeys))
			op.Op, op.Key = "get", k.keys
			got := dc.getEntry(k)
			mi := m.find(k)
			if (got != nil) != (mi >= 0) || (mi >= 0 && got != m.order[mi].real) {
				r.Violation("cache-get-wrong-entry", fam, ci, map[string]any{"history": hist}, "getEntry(%v) = %p; model present=%v", k, got, mi >= 0)
				return
			}
			if mi >= 0 {
				me := m.order[mi]
				if mi != len(m.order)-1 {
					sig["get/reorders"] = true
				}
				m.order = append(append(m.order[:mi:mi], m.order[mi+1:]...), me)
			}
		case x < 66: // resize
			ns := int64(rng.Intn(int(m.max)*2 + 1))
			op.Op, op.Size = "resize", ns
			dc.resize(ns)
			ev, blocked := m.shrink(ns, now)
			m.max = ns
			op.Note = fmt.Sprintf("evicted=%d blocked=%v", ev, blocked)
			sig[fmt.Sprintf("resize/evict=%d/blocked=%v", c41min(ev, 3), blocked)] = true
			r.Count("cache_resize_evictions", int64(ev))
			if blocked {
				r.Count("cache_eviction_stopped_at_unevictable", 1)
			}
		case x < 76: // updateEntrySize (an RLS response arrived for a cached entry)
			if len(m.order) == 0 {
				continue
			}
			me := m.order[rng.Intn(len(m.order))]
			ns := int64(rng.Intn(int(m.max) + 3))
			op.Op, op.Key, op.Size = "updateEntrySize", me.key.keys, ns
			dc.updateEntrySize(me.real, ns)
			if ns != me.size {
				sig["update/changes"] = true
			}
			me.size = ns
		case x < 84: // periodic expiry sweep
			op.Op = "evictExpired"
			dc.evictExpiredEntries()
			kept := m.order[:0:0]
			n := 0
			for _, me := range m.order {
				if me.expiry.After(now) || me.boExpiry.After(now) {
					kept = append(kept, me)
				} else {
					n++
				}
			}
			m.order = kept
			op.Note = fmt.Sprintf("expired=%d", n)
			sig[fmt.Sprintf("expire/%d", c41min(n, 2))] = true
		case x < 87:
			// resets the backoff of every entry that has a backoff state,
			// which includes its backoffExpiryTime
			op.Op = "resetBackoffState"
			dc.resetBackoffState(&backoffState{bs: defaultBackoffStrategy})
			for _, me := range m.order {
				if me.hasBackoff {
					me.boExpiry = time.Time{}
				}
			}
		default: // let virtual time pass
			d := time.Duration(vlib.Pick(rng, 1, 10, 100, 1000, 3000, 6000)) * time.Millisecond
			op.Op, op.Size = "sleep", int64(d/time.Millisecond)
			time.Sleep(d)
		}
		hist = append(hist, op)
		r.Eval(1)
		if fail(op) {
			return
		}
		// directly from the statement: the cache may stay above its limit only
		// because the least recently used entry is not yet evictable
		if ((op.Op == "get+add" && strings.HasPrefix(op.Note, "evicted=")) || op.Op == "resize") && dc.currentSize > dc.maxSize {
			front := dc.entries[dc.keys.getLeastRecentlyUsed()]
			if front == nil || !front.earliestEvictTime.After(time.Now()) {
				r.Violation("cache-over-limit-with-evictable-lru", fam, ci, map[string]any{"history": hist}, "after %s: size %d > max %d although the LRU entry is evictable", op.Op, dc.currentSize, dc.maxSize)
				return
			}
			sig["over-limit-legit"] = true
		}
	}
	dc.stop()
	r.Eval(1)
	if dc.currentSize != 0 || len(dc.entries) != 0 || dc.keys.ll.Len() != 0 {
		r.Violation("cache-size-accounting", fam, ci, map[string]any{"history": hist}, "after stop: currentSize=%d entries=%d lru=%d", dc.currentSize, len(dc.entries), dc.keys.ll.Len())
	}
	for s := range sig {
		r.Nontrivial("cache/" + s)
	}
	if ci < 1 {
		r.Sample(map[string]any{"cache_history_prefix": hist[:c41min(len(hist), 12)]})
	}
}

func c41min(a, b int) int {
	if a < b {
		return a
	}
	return b
}

func TestVerifC41Cache(t *testing.T) {
	r := vlib.Start(t, "C41")
	n := r.N(3000, 60000)
	const fam = "cache"
	for i := 0; i < n; i++ {
		if !r.Want(fam, i) {
			continue
		}
		rng := r.Rand(fam, i)
		synctest.Test(t, func(*testing.T) {
			c41CacheHistory(r, fam, i, rng)
		})
		if r.Violations() > 20 {
			break
		}
	}
	r.Finish(vlib.Spec{
		Level: "exploration",
		Rule:  "PRNG histories of 40-100 operations (get-then-add of new keys with sizes 0..max+1 and earliestEvictTime in the past / +1..50ms / +5s, get, resize to 0..2*max, updateEntrySize, evictExpiredEntries, resetBackoffState, virtual sleeps 1ms..6s) on the real dataCache inside a synctest bubble; after every operation currentSize, the entry set and the LRU order are compared with a model of the statement. distinct = (operation, evictions, stopped-at-unevictable) classes",
		Assumptions: []string{
			"calling discipline of the balancer: single goroutine, addEntry only after getEntry returned nil for that key",
			"deadlines are kept off the harness' millisecond grid, so 'now == earliestEvictTime/expiryTime' is never judged",
			"an entry is expired when neither expiryTime nor backoffExpiryTime is in the future (doc of evictExpiredEntries)",
		},
		Floor: 10,
	})
}
