// C38 (part 3): xds_cluster_impl across CONFIG UPDATES — generated sequences of
// drop configurations (categories added, removed, re-ordered, kept with a
// changed rate, kept unchanged, duplicated names) and max_requests / cluster
// changes are pushed through the real clusterImplBalancer.handleClusterConfigLocked
// + newPickerLocked; after EVERY update the random source of the picker's
// droppers is enumerated and the exact drop fraction of the CURRENT
// configuration is required per category and overall, and the circuit breaker
// must apply the new limit at once with an exact in-flight count.
package clusterimpl

import (
	"context"
	"fmt"
	"math/big"
	"math/rand"
	"sort"
	"strings"

	"google.golang.org/grpc/balancer"
	"google.golang.org/grpc/connectivity"
	vlib "google.golang.org/grpc/internal/verifvlib"
	"google.golang.org/grpc/internal/wrr"
	"google.golang.org/grpc/internal/xds/balancer/loadstore"
	"google.golang.org/grpc/internal/xds/xdsclient"
	"google.golang.org/grpc/internal/xds/xdsclient/xdsresource"
)

// c38Sel is an exact weighted selector whose draw is set by the harness: item
// k owns `weight` consecutive values of the draw in [0,total).
type c38Sel struct {
	items   []any
	weights []int64
	total   int64
	draw    int64
	bad     bool
}

func (s *c38Sel) Add(item any, weight int64) {
	if weight < 0 {
		s.bad = true
	}
	s.items = append(s.items, item)
	s.weights = append(s.weights, weight)
	s.total += weight
}

func (s *c38Sel) Next() any {
	var acc int64
	for k, w := range s.weights {
		acc += w
		if acc > s.draw {
			return s.items[k]
		}
	}
	return s.items[len(s.items)-1]
}

type c38Cat struct {
	Category string `json:"category"`
	Num      uint32 `json:"numerator"`
	Den      uint32 `json:"denominator"`
}

// frac is the fraction the statement prescribes: min(1, num/den), in whole
// millionths (all generated fractions are whole millionths).
func (c c38Cat) frac() *big.Rat {
	f := big.NewRat(int64(c.Num), int64(c.Den))
	if f.Cmp(big.NewRat(1, 1)) > 0 {
		f.SetInt64(1)
	}
	return f
}

type c38Update struct {
	Op          string   `json:"op"`
	Drops       []c38Cat `json:"drops"`
	MaxRequests *uint32  `json:"max_requests"` // nil = unset (default 1024)
	Cluster     string   `json:"cluster"`
	Service     string   `json:"eds_service"`
	HeldBefore  int      `json:"rpcs_in_flight_on_this_counter"`
	Space       int64    `json:"draws_enumerated,omitempty"`
	Got         string   `json:"got,omitempty"`
	Want        string   `json:"want,omitempty"`
}

type c38ConfigCase struct {
	Updates []c38Update `json:"updates"`
}

type c38Held struct {
	done func(balancer.DoneInfo)
	key  string
}

func c38GenRate(rng *rand.Rand) (num, den uint32) {
	den = vlib.Pick(rng, uint32(100), uint32(100), uint32(10000), uint32(1000000))
	q := vlib.Pick(rng, uint32(1), uint32(2), uint32(4), uint32(5), uint32(10))
	p := uint32(rng.Intn(int(q) + 1))
	switch rng.Intn(10) {
	case 0:
		p = 0
	case 1:
		p = q
	case 2:
		p = q + uint32(1+rng.Intn(2)) // above 100%
	}
	return den / q * p, den
}

func c38CloneCats(in []c38Cat) []c38Cat { return append([]c38Cat(nil), in...) }

// c38NextDrops derives the next drop configuration from the current one.
func c38NextDrops(rng *rand.Rand, cur []c38Cat, names []string) ([]c38Cat, string) {
	out := c38CloneCats(cur)
	newCat := func(name string) c38Cat {
		n, d := c38GenRate(rng)
		return c38Cat{Category: name, Num: n, Den: d}
	}
	unused := func() string {
		perm := rng.Perm(len(names))
		for _, k := range perm {
			found := false
			for _, c := range out {
				if c.Category == names[k] {
					found = true
				}
			}
			if !found {
				return names[k]
			}
		}
		return names[perm[0]]
	}
	op := rng.Intn(11)
	if len(out) == 0 && op != 8 {
		op = 0
	}
	switch op {
	case 0, 1:
		if len(out) >= 4 {
			return c38NextDropsChange(rng, out)
		}
		c := newCat(unused())
		pos := rng.Intn(len(out) + 1)
		out = append(out[:pos], append([]c38Cat{c}, out[pos:]...)...)
		return out, "add"
	case 2:
		k := rng.Intn(len(out))
		out = append(out[:k], out[k+1:]...)
		return out, "remove"
	case 3:
		if len(out) < 2 {
			return c38NextDropsChange(rng, out)
		}
		for tries := 0; tries < 4; tries++ {
			rng.Shuffle(len(out), func(a, b int) { out[a], out[b] = out[b], out[a] })
			if fmt.Sprint(out) != fmt.Sprint(cur) {
				break
			}
		}
		return out, "reorder"
	case 4, 5, 6:
		return c38NextDropsChange(rng, out)
	case 7:
		return out, "same"
	case 8:
		n := rng.Intn(4)
		out = nil
		for k := 0; k < n; k++ {
			out = append(out, newCat(names[rng.Intn(len(names))])) // may repeat a name
		}
		return out, "replace-all"
	case 9:
		if len(out) >= 4 {
			return c38NextDropsChange(rng, out)
		}
		// duplicated category name with its own rate
		c := newCat(out[rng.Intn(len(out))].Category)
		out = append(out, c)
		return out, "add-duplicate-name"
	default:
		// remove one and change another in the same update
		k := rng.Intn(len(out))
		out = append(out[:k], out[k+1:]...)
		if len(out) > 0 {
			o, _ := c38NextDropsChange(rng, out)
			return o, "remove+change-rate"
		}
		return out, "remove"
	}
}

// c38NextDropsChange keeps every category and changes the rate of one of them.
func c38NextDropsChange(rng *rand.Rand, out []c38Cat) ([]c38Cat, string) {
	k := rng.Intn(len(out))
	old := out[k].frac()
	for tries := 0; tries < 8; tries++ {
		n, d := c38GenRate(rng)
		out[k].Num, out[k].Den = n, d
		if out[k].frac().Cmp(old) != 0 {
			break
		}
	}
	// the extremes matter most: 100% <-> 0%
	if rng.Intn(4) == 0 {
		if old.Sign() == 0 {
			out[k].Num, out[k].Den = 100, 100
		} else {
			out[k].Num, out[k].Den = 0, 100
		}
	}
	if out[k].frac().Cmp(old) == 0 {
		return out, "same-rate-other-denominator"
	}
	return out, "change-rate"
}

func c38DropsKey(cats []c38Cat) string {
	var sb strings.Builder
	for _, c := range cats {
		fmt.Fprintf(&sb, "%s=%s;", c.Category, c.frac().RatString())
	}
	return sb.String()
}

func c38ConfigFamily(r *vlib.Run) {
	const fam = "config"
	n := r.N(400, 9000)
	orig := NewRandomWRR
	defer func() { NewRandomWRR = orig }()
	NewRandomWRR = func() wrr.WRR { return &c38Sel{} }
	names := []string{"throttle", "lb", "a", "b", "c"}
	for i := 0; i < n; i++ {
		if !r.Want(fam, i) {
			continue
		}
		rng := r.Rand(fam, i)
		b := &clusterImplBalancer{loadWrapper: loadstore.NewWrapper()}
		child := &c38Child{st: connectivity.Ready}
		b.childState = balancer.State{ConnectivityState: connectivity.Ready, Picker: child}
		var tc c38ConfigCase
		var cur []c38Cat
		cluster := fmt.Sprintf("c38-cfg-%d-%d", r.Seed(), i)
		service := "eds"
		var max *uint32
		inflight := map[string]int{} // per counter (cluster/service)
		var held []c38Held
		prevKey := ""
		nupd := 5 + rng.Intn(6)
		failed := false
		for u := 0; u < nupd && !failed; u++ {
			var op string
			switch {
			case i == 0 && u < 4:
				// deterministic must-hit prefix: one category whose rate goes 100% -> 0% -> 50% -> 150%
				cur = []c38Cat{{Category: "throttle", Num: []uint32{100, 0, 50, 150}[u], Den: 100}}
				op = "change-rate"
				if u == 0 {
					op = "add"
				}
			case i == 1 && u < 3:
				// 0% -> 100% on the second of two categories, then re-ordered
				cur = [][]c38Cat{
					{{"lb", 25, 100}, {"throttle", 0, 10000}},
					{{"lb", 25, 100}, {"throttle", 10000, 10000}},
					{{"throttle", 10000, 10000}, {"lb", 25, 100}},
				}[u]
				op = []string{"add", "change-rate", "reorder"}[u]
			default:
				cur, op = c38NextDrops(rng, cur, names)
			}
			// circuit-breaking settings
			maxChanged := false
			switch rng.Intn(6) {
			case 0:
				v := uint32(rng.Intn(6))
				max, maxChanged = &v, true
			case 1:
				if max != nil {
					max, maxChanged = nil, true
				}
			case 2:
				// exactly the number of RPCs in flight, or one more / one less
				v := uint32(inflight[cluster+"/"+service] + rng.Intn(3))
				if v > 0 && rng.Intn(2) == 0 {
					v--
				}
				max, maxChanged = &v, true
			}
			if rng.Intn(12) == 0 {
				service = fmt.Sprintf("eds-%d", u) // another request counter
			}
			ctrKey := cluster + "/" + service
			up := c38Update{Op: op, Drops: c38CloneCats(cur), Cluster: cluster, Service: service, HeldBefore: inflight[ctrKey]}
			if max != nil {
				v := *max
				up.MaxRequests = &v
			}
			tc.Updates = append(tc.Updates, up)
			upd := &tc.Updates[len(tc.Updates)-1]
			effMax := uint32(1024)
			if max != nil {
				effMax = *max
			}

			// ---- push the update through the real balancer and build its picker
			var drops []xdsresource.OverloadDropConfig
			for _, c := range cur {
				drops = append(drops, xdsresource.OverloadDropConfig{Category: c.Category, Numerator: c.Num, Denominator: c.Den})
			}
			cc := xdsresource.ClusterConfig{
				Cluster:        &xdsresource.ClusterUpdate{ClusterType: xdsresource.ClusterTypeEDS, ClusterName: cluster, EDSServiceName: service, MaxRequests: up.MaxRequests},
				EndpointConfig: &xdsresource.EndpointConfig{EDSUpdate: &xdsresource.EndpointsUpdate{Drops: drops}},
			}
			r.Progress(fam, i, fmt.Sprintf("update %d %s", u, op))
			b.mu.Lock()
			changedReported := b.handleClusterConfigLocked(cc)
			p := b.newPickerLocked()
			b.mu.Unlock()
			r.Eval(1)
			r.Count("config_updates_judged", 1)
			r.Count("config_updates_op_"+op, 1)
			if maxChanged {
				r.Count("config_updates_max_requests_changed", 1)
			}
			key := fmt.Sprintf("%s|%d|%s", c38DropsKey(cur), effMax, ctrKey)
			if key != prevKey && !changedReported {
				r.Violation("config-change-without-picker-update", fam, i, tc, "update %d (%s) changed the effective configuration (%s -> %s) but handleClusterConfigLocked reported that no new picker is needed", u, op, prevKey, key)
				failed = true
				break
			}
			prevKey = key
			load := &c38Load{}
			p.loadStore = load

			// ---- the picker must carry the CURRENT limit and counter
			ctr := xdsclient.GetClusterRequestsCounter(cluster, service)
			if p.counter != ctr || p.countMax != effMax {
				r.Violation("stale-circuit-breaker-config", fam, i, tc, "after update %d the picker uses max_requests %d on counter %p, want %d on the counter of %s (%p)", u, p.countMax, p.counter, effMax, ctrKey, ctr)
				failed = true
				break
			}

			// ---- enumerate the whole random space of the picker's droppers
			var sels []*c38Sel
			seen := map[*c38Sel]bool{}
			okSel := true
			for _, dp := range p.drops {
				s, is := dp.w.(*c38Sel)
				if !is || s.bad || s.total <= 0 {
					okSel = false
					break
				}
				if !seen[s] {
					seen[s] = true
					sels = append(sels, s)
				}
			}
			if !okSel {
				r.Violation("dropper-invalid-weights", fam, i, tc, "after update %d a dropper of the picker has no valid enumerating selector", u)
				failed = true
				break
			}
			space := int64(1)
			for _, s := range sels {
				space *= s.total
				s.draw = 0
			}
			upd.Space = space
			nheld := inflight[ctrKey]
			admits := uint32(nheld) < effMax
			if space <= 30000 {
				picks0 := child.npicks()
				for k := int64(0); k < space; k++ {
					pr, err := p.Pick(balancer.PickInfo{Ctx: context.Background(), FullMethodName: "/c38/M"})
					if err == nil && pr.Done != nil {
						pr.Done(balancer.DoneInfo{}) // finished at once: in-flight stays at nheld
					}
					for d := len(sels) - 1; d >= 0; d-- { // odometer
						sels[d].draw++
						if sels[d].draw < sels[d].total {
							break
						}
						sels[d].draw = 0
					}
				}
				r.Count("config_picks_enumerated", space)
				// want: entry j drops the RPCs that passed entries < j with ITS CURRENT fraction
				wantByName := map[string]*big.Rat{}
				pass := big.NewRat(space, 1)
				wantTotal := new(big.Rat)
				for _, c := range cur {
					f := c.frac()
					w := new(big.Rat).Mul(pass, f)
					if wantByName[c.Category] == nil {
						wantByName[c.Category] = new(big.Rat)
					}
					wantByName[c.Category].Add(wantByName[c.Category], w)
					wantTotal.Add(wantTotal, w)
					pass = new(big.Rat).Mul(pass, new(big.Rat).Sub(big.NewRat(1, 1), f))
				}
				var gotTotal int64
				gotDesc, wantDesc := []string{}, []string{}
				load.mu.Lock()
				gotNames := map[string]int64{}
				for k, v := range load.dropped {
					if k != "" {
						gotNames[k] = v
						gotTotal += v
					}
				}
				cbDrops := load.dropped[""]
				load.mu.Unlock()
				allNames := map[string]bool{}
				for k := range gotNames {
					allNames[k] = true
				}
				for k := range wantByName {
					allNames[k] = true
				}
				sorted := []string{}
				for k := range allNames {
					sorted = append(sorted, k)
				}
				sort.Strings(sorted)
				mismatch := ""
				for _, k := range sorted {
					w := wantByName[k]
					if w == nil {
						w = new(big.Rat)
					}
					gotDesc = append(gotDesc, fmt.Sprintf("%s:%d", k, gotNames[k]))
					wantDesc = append(wantDesc, fmt.Sprintf("%s:%s", k, w.RatString()))
					if w.Cmp(big.NewRat(gotNames[k], 1)) != 0 && mismatch == "" {
						mismatch = k
					}
				}
				upd.Got, upd.Want = strings.Join(gotDesc, " "), strings.Join(wantDesc, " ")
				if mismatch != "" {
					vkey := "drop-rate-not-current-config"
					if op == "change-rate" || op == "remove+change-rate" {
						vkey = "stale-drop-rate-after-update"
					}
					r.Violation(vkey, fam, i, tc, "after update %d (%s) to %v: over all %d draws category %q dropped %d RPCs, want %s (all categories got [%s] want [%s])",
						u, op, cur, space, mismatch, gotNames[mismatch], wantDesc[sort.SearchStrings(sorted, mismatch)], upd.Got, upd.Want)
					failed = true
					break
				}
				if wantTotal.Cmp(big.NewRat(gotTotal, 1)) != 0 {
					r.Violation("drop-rate-not-current-config", fam, i, tc, "after update %d (%s): %d of %d picks dropped overall, want %s", u, op, gotTotal, space, wantTotal.RatString())
					failed = true
					break
				}
				// undropped picks: all admitted or all refused, by the CURRENT limit
				undropped := space - gotTotal
				delegated := child.npicks() - picks0
				wantDelegated, wantCB := undropped, int64(0)
				if !admits {
					wantDelegated, wantCB = 0, undropped
				}
				if delegated != wantDelegated || cbDrops != wantCB {
					vkey := "admitted-above-max"
					if admits {
						vkey = "rejected-below-max"
					}
					r.Violation(vkey, fam, i, tc, "after update %d: max_requests=%d with %d RPCs in flight: %d undropped picks -> %d reached the child, %d refused by circuit breaking; want %d / %d",
						u, effMax, nheld, undropped, delegated, cbDrops, wantDelegated, wantCB)
					failed = true
					break
				}
			} else {
				r.Count("config_updates_space_too_large", 1)
			}
			if v, ok := c38CounterValue(ctr, uint32(nheld)); !ok {
				r.Violation("inflight-count-wrong", fam, i, tc, "after update %d and its enumeration the request counter of %s reads %d, want %d (RPCs still in flight)", u, ctrKey, v, nheld)
				failed = true
				break
			}

			// ---- fill up to the new limit: admitted iff in flight < max (draws set to "pass" where possible)
			passable := true
			for _, s := range sels {
				found := false
				for d := int64(0); d < s.total; d++ {
					s.draw = d
					if v, _ := s.Next().(bool); !v {
						found = true
						break
					}
				}
				if !found {
					passable = false
				}
			}
			for _, c := range cur {
				if c.frac().Cmp(big.NewRat(1, 1)) == 0 {
					passable = false // a 100% category: nothing can pass (by the configuration)
				}
			}
			if passable {
				tries := 3 + rng.Intn(4)
				for k := 0; k < tries && !failed; k++ {
					nh := inflight[ctrKey]
					pr, err := p.Pick(balancer.PickInfo{Ctx: context.Background(), FullMethodName: "/c38/M"})
					r.Count("config_breaker_picks", 1)
					switch {
					case err == nil && pr.Done != nil:
						if uint32(nh) >= effMax {
							r.Violation("admitted-above-max", fam, i, tc, "after update %d: pick admitted with %d RPCs in flight, max_requests now %d", u, nh, effMax)
							failed = true
						}
						inflight[ctrKey]++
						held = append(held, c38Held{done: pr.Done, key: ctrKey})
					case err == nil:
						r.Violation("admitted-without-done", fam, i, tc, "admitted pick has no Done callback")
						failed = true
					default:
						if uint32(nh) < effMax {
							r.Violation("rejected-below-max", fam, i, tc, "after update %d: pick failed (%v) with %d RPCs in flight < max_requests %d and no category able to drop it", u, err, nh, effMax)
							failed = true
						}
					}
				}
				if failed {
					break
				}
				if v, ok := c38CounterValue(ctr, uint32(inflight[ctrKey])); !ok {
					r.Violation("inflight-count-wrong", fam, i, tc, "after update %d and %d held RPCs the request counter of %s reads %d", u, inflight[ctrKey], ctrKey, v)
					failed = true
					break
				}
			}
			// finish a random part of the RPCs in flight (possibly admitted under older configurations)
			for k := 0; k < len(held); {
				if rng.Intn(3) == 0 {
					held[k].done(balancer.DoneInfo{})
					inflight[held[k].key]--
					held = append(held[:k], held[k+1:]...)
					continue
				}
				k++
			}
			dup := false
			cnt := map[string]int{}
			for _, c := range cur {
				cnt[c.Category]++
				if cnt[c.Category] > 1 {
					dup = true
				}
			}
			r.Nontrivial(fmt.Sprintf("config/%s/cats%d/dup%v/admits%v/held%v/maxchg%v", op, len(cur), dup, admits, nheld > 0, maxChanged))
		}
		if failed {
			continue
		}
		for _, h := range held {
			h.done(balancer.DoneInfo{})
			inflight[h.key]--
		}
		for k := range inflight {
			parts := strings.SplitN(k, "/", 2)
			if v, ok := c38CounterValue(xdsclient.GetClusterRequestsCounter(parts[0], parts[1]), 0); !ok {
				r.Violation("inflight-count-not-zero", fam, i, tc, "all RPCs finished but the request counter of %s reads %d", k, v)
			}
		}
		if i < 1 {
			r.Sample(tc)
		}
	}
}
