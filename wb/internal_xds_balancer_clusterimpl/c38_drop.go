// C38 (part 2): xds_cluster_impl — dropRequestsPerMillion + newDropper with the
// weighted-random source replaced by an exact enumerator, the picker's drop
// gating on the child's state, and the circuit breaker (ClusterRequestsCounter)
// on sequential and concurrent pick/finish histories.
package clusterimpl

import (
	"context"
	"errors"
	"fmt"
	"math/big"
	"math/rand"
	"sync"
	"testing"

	"google.golang.org/grpc/balancer"
	"google.golang.org/grpc/connectivity"
	vlib "google.golang.org/grpc/internal/verifvlib"
	"google.golang.org/grpc/internal/wrr"
	"google.golang.org/grpc/internal/xds/clients"
	"google.golang.org/grpc/internal/xds/xdsclient"
)

// c38Enum is an exact weighted selector: item k owns `weight` consecutive
// values of a draw in [0,total); the draw is digit `pos` of a shared odometer,
// so a set of selectors enumerates the whole product space of random values.
type c38Enum struct {
	od      *c38Odometer
	pos     int
	items   []any
	weights []int64
	total   int64
	bad     bool
	nexts   int64
}

type c38Odometer struct {
	mu     sync.Mutex
	digits []int64
	enums  []*c38Enum
}

func (o *c38Odometer) newWRR() wrr.WRR {
	o.mu.Lock()
	defer o.mu.Unlock()
	e := &c38Enum{od: o, pos: len(o.enums)}
	o.enums = append(o.enums, e)
	o.digits = append(o.digits, 0)
	return e
}

// step advances to the next tuple of draws; returns false after the last one.
func (o *c38Odometer) step() bool {
	o.mu.Lock()
	defer o.mu.Unlock()
	for k := len(o.digits) - 1; k >= 0; k-- {
		o.digits[k]++
		if o.digits[k] < o.enums[k].total {
			return true
		}
		o.digits[k] = 0
	}
	return false
}

func (o *c38Odometer) space() int64 {
	s := int64(1)
	for _, e := range o.enums {
		s *= e.total
	}
	return s
}

func (e *c38Enum) Add(item any, weight int64) {
	if weight < 0 {
		e.bad = true
	}
	e.items = append(e.items, item)
	e.weights = append(e.weights, weight)
	e.total += weight
}

func (e *c38Enum) Next() any {
	e.od.mu.Lock()
	d := e.od.digits[e.pos]
	e.od.mu.Unlock()
	e.nexts++
	var acc int64
	for k, w := range e.weights {
		acc += w
		if acc > d {
			return e.items[k]
		}
	}
	return e.items[len(e.items)-1]
}

// weightOf returns the weight registered for a bool item.
func (e *c38Enum) weightOf(v bool) (w int64, found bool) {
	for k, it := range e.items {
		if b, ok := it.(bool); ok && b == v {
			w += e.weights[k]
			found = true
		}
	}
	return
}

type c38Load struct {
	mu       sync.Mutex
	dropped  map[string]int64
	started  int64
	finished int64
}

func (l *c38Load) CallStarted(clients.Locality) { l.mu.Lock(); l.started++; l.mu.Unlock() }
func (l *c38Load) CallFinished(clients.Locality, error) {
	l.mu.Lock()
	l.finished++
	l.mu.Unlock()
}
func (l *c38Load) CallServerLoad(clients.Locality, string, float64) {}
func (l *c38Load) CallDropped(category string) {
	l.mu.Lock()
	if l.dropped == nil {
		l.dropped = map[string]int64{}
	}
	l.dropped[category]++
	l.mu.Unlock()
}
func (l *c38Load) drops(category string) int64 {
	l.mu.Lock()
	defer l.mu.Unlock()
	return l.dropped[category]
}

type c38SC struct {
	balancer.SubConn
	id int
}

var c38ErrTF = errors.New("c38 child in TRANSIENT_FAILURE")

type c38Child struct {
	mu      sync.Mutex
	st      connectivity.State
	picks   int64
	failNow bool // READY child failing this pick (e.g. its own queueing)
	dones   int64
}

func (c *c38Child) Pick(balancer.PickInfo) (balancer.PickResult, error) {
	c.mu.Lock()
	defer c.mu.Unlock()
	c.picks++
	switch c.st {
	case connectivity.Ready:
		if c.failNow {
			return balancer.PickResult{}, balancer.ErrNoSubConnAvailable
		}
		return balancer.PickResult{SubConn: &c38SC{id: 1}, Done: func(balancer.DoneInfo) {
			c.mu.Lock()
			c.dones++
			c.mu.Unlock()
		}}, nil
	case connectivity.TransientFailure:
		return balancer.PickResult{}, c38ErrTF
	default:
		return balancer.PickResult{}, balancer.ErrNoSubConnAvailable
	}
}

func (c *c38Child) npicks() int64 { c.mu.Lock(); defer c.mu.Unlock(); return c.picks }

// ---------------------------------------------------------------------------

type c38RPMCase struct {
	Numerator   uint32 `json:"numerator"`
	Denominator uint32 `json:"denominator"`
	RPM         uint32 `json:"requests_per_million"`
	TrueW       int64  `json:"weight_drop"`
	FalseW      int64  `json:"weight_pass"`
	Drops       int64  `json:"drops_over_cycle,omitempty"`
}

func c38GenFraction(rng *rand.Rand, i int) (num, den uint32, exactDen bool) {
	switch rng.Intn(5) {
	case 0:
		den = 100
	case 1:
		den = 10000
	case 2, 3:
		den = 1000000
	default:
		den = uint32(1 + rng.Int63n(4000000000))
	}
	exactDen = den == 100 || den == 10000 || den == 1000000
	switch rng.Intn(12) {
	case 0:
		num = 0
	case 1:
		num = 1
	case 2:
		num = den - 1
	case 3:
		num = den
	case 4:
		num = den + 1
	case 5:
		if uint64(den)*2 <= 4294967295 {
			num = den * 2
		} else {
			num = 4294967295
		}
	case 6:
		num = 4294967295
	case 7:
		num = uint32(4290 + rng.Intn(20)) // around 2^32/10^6
	case 8:
		num = uint32(rng.Int63n(4294967296))
	default:
		num = uint32(rng.Int63n(int64(den)))
	}
	if i < 6 { // deterministic must-hit prefix
		den = []uint32{100, 100, 1000000, 1000000, 10000, 1000000}[i]
		num = []uint32{25, 150, 4295, 1000001, 10000, 0}[i]
		exactDen = true
	}
	return
}

func c38RPMFamily(r *vlib.Run) {
	const fam = "rpm"
	n := r.N(3000, 60000)
	orig := NewRandomWRR
	defer func() { NewRandomWRR = orig }()
	million := big.NewRat(1000000, 1)
	for i := 0; i < n; i++ {
		if !r.Want(fam, i) {
			continue
		}
		rng := r.Rand(fam, i)
		num, den, exactDen := c38GenFraction(rng, i)
		c := c38RPMCase{Numerator: num, Denominator: den}
		od := &c38Odometer{}
		NewRandomWRR = od.newWRR
		r.Eval(1)
		c.RPM = dropRequestsPerMillion(num, den)
		d := newDropper(DropConfig{Category: "c", RequestsPerMillion: c.RPM})
		if len(od.enums) != 1 {
			r.Inconclusive("newDropper created %d weighted selectors, the enumerator expects 1", len(od.enums))
			return
		}
		e := od.enums[0]
		tw, okT := e.weightOf(true)
		fw, okF := e.weightOf(false)
		c.TrueW, c.FalseW = tw, fw
		if e.bad || e.total <= 0 || !okT || !okF {
			r.Violation("dropper-invalid-weights", fam, i, c, "newDropper for %d/%d (rpm %d) registered weights %v for items %v", num, den, c.RPM, e.weights, e.items)
			continue
		}
		// wanted fraction: min(1, num/den); the per-million representation may
		// round an inexact fraction down (or up) to the next millionth.
		want := big.NewRat(int64(num), int64(den))
		if want.Cmp(big.NewRat(1, 1)) > 0 {
			want.SetInt64(1)
		}
		got := big.NewRat(tw, tw+fw)
		scaled := new(big.Rat).Mul(want, million)
		fl := new(big.Int).Quo(scaled.Num(), scaled.Denom())
		lo := new(big.Rat).SetFrac(fl, big.NewInt(1000000))
		hi := new(big.Rat).Set(lo)
		if !scaled.IsInt() {
			hi.Add(hi, big.NewRat(1, 1000000))
		}
		if got.Cmp(lo) < 0 || got.Cmp(hi) > 0 {
			key := "drop-fraction-wrong"
			if num > den {
				key = "drop-fraction-above-100pct-not-capped"
			}
			r.Violation(key, fam, i, c, "drop %d/%d: dropper drops %s of RPCs (weights drop=%d pass=%d, rpm=%d), want %s", num, den, got.RatString(), tw, fw, c.RPM, want.RatString())
			continue
		}
		// drive the real dropper over every value of its random source (all
		// small spaces, the fixed prefix and every 40th of the large ones)
		var drops int64
		N := e.total
		if N > 50000 && i >= 6 && i%40 != 0 {
			r.Count("dropper_weight_checks_without_enumeration", 1)
			goto classify
		}
		for k := int64(0); k < N; k++ {
			if d.drop() {
				drops++
			}
			od.step()
		}
		c.Drops = drops
		r.Count("dropper_draws_enumerated", N)
		if drops != tw {
			r.Violation("drop-count-not-exact", fam, i, c, "drop %d/%d: %d of %d enumerated draws dropped, want %d", num, den, drops, N, tw)
			continue
		}
	classify:
		cls := "lt"
		switch {
		case num == 0:
			cls = "zero"
		case num == den:
			cls = "eq"
		case num > den:
			cls = "gt"
		}
		if num != 0 {
			r.Nontrivial(fmt.Sprintf("rpm/den%v-%d/num-%s/big%v", exactDen, c38Digits(den), cls, uint64(num)*1000000 > 4294967295))
		}
		if i < 2 {
			r.Sample(c)
		}
	}
}

func c38Digits(v uint32) int {
	d := 0
	for v > 0 {
		v /= 10
		d++
	}
	return d
}

type c38DropCase struct {
	Categories []c38RPMCase `json:"categories"`
	ChildState string       `json:"child_state"`
	Space      int64        `json:"product_space"`
	Drops      []int64      `json:"drops_per_category,omitempty"`
	Want       []int64      `json:"want_per_category,omitempty"`
	ChildPicks int64        `json:"child_picks"`
}

func c38PickDropFamily(r *vlib.Run) {
	const fam = "pick-drop"
	n := r.N(500, 12000)
	orig := NewRandomWRR
	defer func() { NewRandomWRR = orig }()
	dens := []uint32{100, 10000, 1000000}
	for i := 0; i < n; i++ {
		if !r.Want(fam, i) {
			continue
		}
		rng := r.Rand(fam, i)
		od := &c38Odometer{}
		NewRandomWRR = od.newWRR
		ncat := 1 + rng.Intn(3)
		var c c38DropCase
		var drops []*dropper
		for k := 0; k < ncat; k++ {
			// fractions whose reduced denominator is small: p/q with q | 100
			q := vlib.Pick(rng, uint32(1), uint32(2), uint32(4), uint32(5), uint32(10), uint32(20), uint32(25))
			p := uint32(rng.Intn(int(q) + 1))
			if rng.Intn(8) == 0 {
				p = q + uint32(1+rng.Intn(3)) // above 100%
			}
			den := dens[rng.Intn(3)]
			num := den / q * p
			rc := c38RPMCase{Numerator: num, Denominator: den, RPM: dropRequestsPerMillion(num, den)}
			drops = append(drops, newDropper(DropConfig{Category: fmt.Sprintf("cat%d", k), RequestsPerMillion: rc.RPM}))
			c.Categories = append(c.Categories, rc)
		}
		st := vlib.Pick(rng, connectivity.Ready, connectivity.Ready, connectivity.Ready, connectivity.Connecting, connectivity.Idle, connectivity.TransientFailure)
		if i < 4 {
			st = []connectivity.State{connectivity.Ready, connectivity.Connecting, connectivity.TransientFailure, connectivity.Idle}[i]
		}
		c.ChildState = st.String()
		child := &c38Child{st: st}
		load := &c38Load{}
		p := &picker{drops: drops, s: balancer.State{ConnectivityState: st, Picker: child}, loadStore: load, clusterName: "c38"}
		if rng.Intn(2) == 0 {
			p.counter = xdsclient.GetClusterRequestsCounter(fmt.Sprintf("c38-pd-%d-%d", r.Seed(), i), "")
			p.countMax = 1 << 30
		}
		bad := false
		for _, e := range od.enums {
			if e.bad || e.total <= 0 {
				bad = true
			}
		}
		if bad || len(od.enums) != ncat {
			r.Violation("dropper-invalid-weights", fam, i, c, "droppers registered invalid weights")
			continue
		}
		space := od.space()
		c.Space = space
		if space > 200000 {
			continue
		}
		r.Eval(1)
		ctx := context.Background()
		cats := make([]string, ncat)
		for j := range cats {
			cats[j] = fmt.Sprintf("cat%d", j)
		}
		var unexplained int64
		for k := int64(0); k < space; k++ {
			before := child.npicks()
			var tot0 int64
			for j := 0; j < ncat; j++ {
				tot0 += load.drops(cats[j])
			}
			pr, err := p.Pick(balancer.PickInfo{Ctx: ctx, FullMethodName: "/c38/M"})
			var tot1 int64
			for j := 0; j < ncat; j++ {
				tot1 += load.drops(cats[j])
			}
			consulted := child.npicks() != before
			if consulted == (tot1 != tot0) {
				unexplained++ // neither dropped nor passed on, or both
			}
			if err == nil && pr.Done != nil {
				pr.Done(balancer.DoneInfo{})
			}
			od.step()
		}
		r.Count("picks_through_picker", space)
		// exact expectation: category j drops the RPCs that passed categories < j
		// with its own fraction, only while the child is READY
		want := make([]int64, ncat)
		var wantTotal int64
		if st == connectivity.Ready {
			for j := 0; j < ncat; j++ {
				v := int64(1)
				for k2, e := range od.enums {
					tw, _ := e.weightOf(true)
					fw, _ := e.weightOf(false)
					switch {
					case k2 < j:
						v *= fw
					case k2 == j:
						v *= tw
					default:
						v *= tw + fw
					}
				}
				want[j] = v
				wantTotal += v
			}
		}
		c.Want = want
		c.ChildPicks = child.npicks()
		for j := 0; j < ncat; j++ {
			c.Drops = append(c.Drops, load.drops(fmt.Sprintf("cat%d", j)))
		}
		failed := false
		for j := 0; j < ncat; j++ {
			if c.Drops[j] != want[j] {
				key := "category-drop-count-not-exact"
				if st != connectivity.Ready {
					key = "dropped-while-child-not-ready"
				}
				r.Violation(key, fam, i, c, "category %d (%d/%d) dropped %d of %d picks over the whole random space, want %d (child %v; all: got %v want %v)",
					j, c.Categories[j].Numerator, c.Categories[j].Denominator, c.Drops[j], space, want[j], st, c.Drops, want)
				failed = true
				break
			}
		}
		if !failed && c.ChildPicks != space-wantTotal {
			r.Violation("undropped-pick-not-delegated", fam, i, c, "%d of %d picks reached the child picker, want %d (drops %v)", c.ChildPicks, space, space-wantTotal, c.Drops)
			failed = true
		}
		if !failed && unexplained != 0 {
			r.Violation("undropped-pick-not-delegated", fam, i, c, "%d picks were neither dropped by a category nor delegated to the child (or both)", unexplained)
		}
		if p.counter != nil {
			if v, ok := c38CounterValue(p.counter, 0); !ok {
				r.Violation("inflight-count-not-zero", fam, i, c, "after all picks finished the request counter reads %d, want 0", v)
			}
		}
		some, all := false, true
		for j := 0; j < ncat; j++ {
			if want[j] > 0 {
				some = true
			}
			if want[j] == 0 {
				all = false
			}
		}
		r.Nontrivial(fmt.Sprintf("pick-drop/%s/cats%d/some%v/all%v/cb%v", st, ncat, some, all, p.counter != nil))
		if i < 1 {
			r.Sample(c)
		}
	}
}

// c38CounterValue checks through the exported API that the counter's in-flight
// value is exactly want: StartRequest(want) must refuse (when want > 0) and
// StartRequest(want+1) must admit.  On mismatch it returns a located value.
func c38CounterValue(c *xdsclient.ClusterRequestsCounter, want uint32) (uint32, bool) {
	ok := true
	if want > 0 {
		if err := c.StartRequest(want); err == nil {
			c.EndRequest()
			ok = false
		}
	}
	if err := c.StartRequest(want + 1); err != nil {
		ok = false
	} else {
		c.EndRequest()
	}
	if ok {
		return want, true
	}
	for v := uint32(0); v < 1<<16; v++ { // locate the real value for the message
		if err := c.StartRequest(v + 1); err == nil {
			c.EndRequest()
			return v, false
		}
	}
	return 0xFFFFFFFF, false // 65536 or more, e.g. wrapped below zero
}

func TestVerifC38Drop(t *testing.T) {
	r := vlib.Start(t, "C38")
	c38RPMFamily(r)
	c38PickDropFamily(r)
	c38ConfigFamily(r)
	r.Finish(vlib.Spec{
		Level: "exploration",
		Rule: "rpm: PRNG numerator/denominator (denominators 100/10^4/10^6 and arbitrary; numerators 0, 1, d-1, d, d+1, 2d, MaxUint32, around 2^32/10^6, random) through the real dropRequestsPerMillion + newDropper whose weighted selector is an exact enumerator: registered weights give exactly min(1,n/d) (to the millionth for inexact fractions) and the real dropper.drop() is driven over EVERY draw; distinct = (denominator class, numerator class, n*10^6 overflows uint32). " +
			"pick-drop: 1..3 drop categories (incl. >100%) x child state {READY,CONNECTING,IDLE,TF} through the real picker.Pick over the WHOLE product space of the categories' random draws (odometer) with a recording load reporter: per-category drop counts exact, zero drops unless the child is READY, every undropped pick delegated; distinct = (child state, #categories, drop pattern, circuit breaker on). " +
			"config: PRNG SEQUENCES of 5..10 configuration updates (drop categories added / removed / re-ordered / kept with a changed rate incl. 100%<->0% / kept unchanged / same rate with another denominator / duplicated names / replaced; max_requests set, unset, set to the in-flight count +-1; EDS service switched) pushed through the real clusterImplBalancer.handleClusterConfigLocked + newPickerLocked with RPCs admitted under older configurations still in flight; after EVERY update the whole product space of the picker's droppers is enumerated through picker.Pick and per-category and overall drop counts must equal the CURRENT configuration exactly, undropped picks are admitted iff in-flight < the CURRENT max_requests, the counter value is exact, and a changed configuration must request a new picker; distinct = (update kind, #categories, duplicate names, admits, RPCs in flight, max changed)",
		Assumptions: []string{
			"clusterimpl.NewRandomWRR (the package's documented test override) is replaced by an exact enumerating selector; exactness of the real weighted-random selector is decided by the internal/wrr step of this property",
			"a fraction that is not a whole number of millionths may be rounded to either neighbouring millionth",
			"config family: the picker is built by newPickerLocked after handleClusterConfigLocked (as UpdateClientConnState does); only its load reporter is replaced by a recorder",
		},
		Floor: 40,
	})
}

// ---------------------------------------------------------------------------
// circuit breaking

type c38Op struct {
	Kind     string `json:"kind"` // pick | finish
	Admitted bool   `json:"admitted,omitempty"`
	Inflight int    `json:"inflight_before"`
	Note     string `json:"note,omitempty"`
}

type c38BreakerCase struct {
	Max  uint32  `json:"max_requests"`
	Drop uint32  `json:"drop_rpm"`
	Ops  []c38Op `json:"ops"`
}

func c38BreakerSeqFamily(r *vlib.Run) {
	const fam = "breaker"
	n := r.N(3000, 60000)
	orig := NewRandomWRR
	defer func() { NewRandomWRR = orig }()
	for i := 0; i < n; i++ {
		if !r.Want(fam, i) {
			continue
		}
		rng := r.Rand(fam, i)
		c := c38BreakerCase{Max: uint32(rng.Intn(7))}
		if rng.Intn(10) == 0 {
			c.Max = uint32(8 + rng.Intn(40))
		}
		od := &c38Odometer{}
		NewRandomWRR = od.newWRR
		var drops []*dropper
		if rng.Intn(3) == 0 {
			c.Drop = vlib.Pick(rng, uint32(250000), uint32(500000), uint32(1000000))
			drops = append(drops, newDropper(DropConfig{Category: "d", RequestsPerMillion: c.Drop}))
		}
		child := &c38Child{st: connectivity.Ready}
		load := &c38Load{}
		ctr := xdsclient.GetClusterRequestsCounter(fmt.Sprintf("c38-cb-%d-%d", r.Seed(), i), "eds")
		p := &picker{drops: drops, s: balancer.State{ConnectivityState: connectivity.Ready, Picker: child}, loadStore: load, counter: ctr, countMax: c.Max, clusterName: "c38"}
		var inflight []func(balancer.DoneInfo)
		nops := 10 + rng.Intn(60)
		r.Eval(1)
		failed := false
		maxSeen, rejected, admitted, childFailed, catDropped := 0, 0, 0, 0, 0
		fail := func(key, format string, args ...any) {
			r.Violation(key, fam, i, c, format, args...)
			failed = true
		}
		for o := 0; o < nops && !failed; o++ {
			doFinish := len(inflight) > 0 && rng.Intn(5) < 2
			if doFinish {
				k := rng.Intn(len(inflight))
				c.Ops = append(c.Ops, c38Op{Kind: "finish", Inflight: len(inflight)})
				inflight[k](balancer.DoneInfo{})
				inflight = append(inflight[:k], inflight[k+1:]...)
			} else {
				child.mu.Lock()
				child.failNow = rng.Intn(6) == 0
				child.mu.Unlock()
				if len(od.enums) > 0 {
					od.digits[0] = rng.Int63n(od.enums[0].total)
				}
				cb0, cat0, picks0 := load.drops(""), load.drops("d"), child.npicks()
				pr, err := p.Pick(balancer.PickInfo{Ctx: context.Background(), FullMethodName: "/c38/M"})
				op := c38Op{Kind: "pick", Inflight: len(inflight)}
				cbDrop := load.drops("") != cb0
				catDrop := load.drops("d") != cat0
				consulted := child.npicks() != picks0
				switch {
				case catDrop:
					op.Note = "dropped-by-category"
					catDropped++
					if err == nil {
						fail("dropped-pick-succeeded", "a pick reported as dropped returned no error")
					}
				case cbDrop || (!consulted && err != nil):
					op.Note = "rejected-by-circuit-breaker"
					rejected++
					if uint32(len(inflight)) < c.Max {
						c.Ops = append(c.Ops, op)
						fail("rejected-below-max", "pick rejected by circuit breaking with %d RPCs in flight < max_requests %d", len(inflight), c.Max)
					}
				case err != nil:
					op.Note = "child-failed"
					childFailed++
				default:
					op.Admitted = true
					admitted++
					if uint32(len(inflight)) >= c.Max {
						c.Ops = append(c.Ops, op)
						fail("admitted-above-max", "pick admitted with %d RPCs already in flight, max_requests %d", len(inflight), c.Max)
					}
					if pr.Done == nil {
						fail("admitted-without-done", "admitted pick has no Done callback: its slot can never be released")
					} else {
						inflight = append(inflight, pr.Done)
					}
				}
				c.Ops = append(c.Ops, op)
				if len(inflight) > maxSeen {
					maxSeen = len(inflight)
				}
			}
			if failed {
				break
			}
			if o%4 == 3 || o == nops-1 {
				if v, ok := c38CounterValue(ctr, uint32(len(inflight))); !ok {
					fail("inflight-count-wrong", "request counter reads %d with %d admitted RPCs in flight (after op %d: %+v)", v, len(inflight), o, c.Ops[len(c.Ops)-1])
				}
			}
		}
		if failed {
			continue
		}
		for _, d := range inflight {
			d(balancer.DoneInfo{})
		}
		if v, ok := c38CounterValue(ctr, 0); !ok {
			r.Violation("inflight-count-not-zero", fam, i, c, "all %d admitted RPCs finished but the request counter reads %d", admitted, v)
			continue
		}
		r.Count("breaker_picks_admitted", int64(admitted))
		r.Count("breaker_picks_rejected", int64(rejected))
		r.Count("breaker_child_failures_released", int64(childFailed))
		r.Count("breaker_category_drops", int64(catDropped))
		r.Max("breaker_max_inflight", int64(maxSeen))
		if rejected > 0 || childFailed > 0 {
			r.Nontrivial(fmt.Sprintf("breaker/max%d/rej%v/childfail%v/catdrop%v/full%v", c38Min(int(c.Max), 8), rejected > 0, childFailed > 0, catDropped > 0, uint32(maxSeen) == c.Max))
		}
		if i < 1 {
			r.Sample(c)
		}
	}
}

func c38Min(a, b int) int {
	if a < b {
		return a
	}
	return b
}

// c38BreakerConcFamily: concurrent pick/finish storms; judged only at the
// quiescent point after every goroutine has joined (conservation).  The bound
// may legitimately be exceeded under races (documented), so it is only recorded.
func c38BreakerConcFamily(r *vlib.Run) {
	const fam = "breaker-conc"
	n := r.N(60, 1500)
	for i := 0; i < n; i++ {
		if !r.Want(fam, i) {
			continue
		}
		rng := r.Rand(fam, i)
		max := uint32(1 + rng.Intn(8))
		g := 2 + rng.Intn(7)
		per := 200 + rng.Intn(400)
		child := &c38Child{st: connectivity.Ready}
		ctr := xdsclient.GetClusterRequestsCounter(fmt.Sprintf("c38-cc-%d-%d", r.Seed(), i), "eds")
		p := &picker{s: balancer.State{ConnectivityState: connectivity.Ready, Picker: child}, loadStore: &c38Load{}, counter: ctr, countMax: max, clusterName: "c38"}
		var mu sync.Mutex
		cur, peak, admitted, rejected := 0, 0, 0, 0
		var wg sync.WaitGroup
		for w := 0; w < g; w++ {
			wg.Add(1)
			seed := rng.Int63()
			go func() {
				defer wg.Done()
				lr := rand.New(rand.NewSource(seed))
				var held []func(balancer.DoneInfo)
				for k := 0; k < per; k++ {
					pr, err := p.Pick(balancer.PickInfo{Ctx: context.Background(), FullMethodName: "/c38/M"})
					mu.Lock()
					if err == nil {
						admitted++
						cur++
						if cur > peak {
							peak = cur
						}
					} else {
						rejected++
					}
					mu.Unlock()
					if err == nil && pr.Done != nil {
						held = append(held, pr.Done)
					}
					for len(held) > 0 && (lr.Intn(2) == 0 || len(held) > 3) {
						mu.Lock()
						cur--
						mu.Unlock()
						held[0](balancer.DoneInfo{})
						held = held[1:]
					}
				}
				for _, d := range held {
					mu.Lock()
					cur--
					mu.Unlock()
					d(balancer.DoneInfo{})
				}
			}()
		}
		wg.Wait() // quiescent: every admitted RPC has finished
		r.Eval(1)
		c := map[string]any{"max_requests": max, "goroutines": g, "picks_each": per, "admitted": admitted, "rejected": rejected, "peak_inflight_seen": peak}
		if v, ok := c38CounterValue(ctr, 0); !ok {
			r.Violation("inflight-count-not-zero", fam, i, c, "after %d admitted RPCs all finished (%d goroutines) the request counter reads %d, want 0", admitted, g, v)
			continue
		}
		r.Count("conc_picks_admitted", int64(admitted))
		r.Count("conc_picks_rejected", int64(rejected))
		r.Max("conc_peak_inflight_minus_max", int64(peak)-int64(max))
		if rejected > 0 && admitted > 0 {
			r.Nontrivial(fmt.Sprintf("breaker-conc/max%d/g%d", max, c38Min(g, 4)))
		}
	}
}

func TestVerifC38Breaker(t *testing.T) {
	r := vlib.Start(t, "C38")
	c38BreakerSeqFamily(r)
	c38BreakerConcFamily(r)
	r.Finish(vlib.Spec{
		Level: "exploration",
		Rule: "breaker: PRNG sequential histories of picks and RPC completions (max_requests 0..47, optional drop category, READY child that sometimes fails its pick) through the real picker.Pick with a real ClusterRequestsCounter: a pick is admitted iff fewer than max_requests admitted RPCs are in flight, failed/dropped picks hold no slot, and the counter (probed through StartRequest/EndRequest) equals the model after every 4th op and is 0 once all finished; distinct = (max bucket, rejected, child failure, category drop, limit reached) for histories with a rejection or a child failure. " +
			"breaker-conc: 2..8 goroutines x 200..600 pick/finish rounds; only conservation (counter == 0) is judged, at the join point; distinct = (max, goroutine bucket) for runs with both admissions and rejections",
		Assumptions: []string{
			"the in-flight value is observed through the exported API: StartRequest(v) refuses and StartRequest(v+1) admits iff the value is v",
			"under concurrent picks the limit may be exceeded (documented in StartRequest); only conservation is judged there",
		},
		Floor: 12,
	})
}
