// C50 (step 2): load conservation at the cluster_impl picker.
//
// The first C50 step drives the LRS load store directly; this step drives the
// REAL picker (internal/xds/balancer/clusterimpl/picker.go) the way the channel
// does — Pick, then exactly one PickResult.Done with every DoneInfo shape the
// channel produces — with a bookkeeping loadReporter in place of the load
// store, scripted droppers, a real circuit-breaker counter and scripted child
// pickers, and checks conservation at the reporter:
//
//   - a successful Pick records exactly one CallStarted (for the locality of the
//     picked SubConn) and nothing else; the returned SubConn is the unwrapped one;
//   - a failed Pick (category drop, circuit breaker, child picker error) records
//     no CallStarted; a category drop records exactly one CallDropped(category),
//     a circuit-breaker rejection exactly one CallDropped("");
//   - Done(info) records exactly one CallFinished(locality, info.Err) whatever
//     info looks like (zero value = pick discarded before re-pick, Err set, bytes
//     sent/received, trailers, ORCA load, foreign ServerLoad type, typed nil),
//     calls the child's own Done exactly once with the same info, and records
//     each server load at most once with the reported value (none without an
//     ORCA report);
//   - whenever no RPC is in flight: per locality started == finished
//     (in-progress 0), issued == succeeded + errored, and the circuit-breaker
//     counter is back to 0.
//
// A concurrent family (several goroutines picking and finishing on one picker,
// -race) checks the totals at quiescence.
package clusterimpl

import (
	"context"
	"errors"
	"fmt"
	"sort"
	"strings"
	"sync"
	"testing"

	v3orcapb "github.com/cncf/xds/go/xds/data/orca/v3"
	"google.golang.org/grpc/balancer"
	"google.golang.org/grpc/codes"
	"google.golang.org/grpc/connectivity"
	"google.golang.org/grpc/internal/envconfig"
	vlib "google.golang.org/grpc/internal/verifvlib"
	"google.golang.org/grpc/internal/xds/clients"
	"google.golang.org/grpc/internal/xds/xdsclient"
	"google.golang.org/grpc/internal/xds/xdsclient/xdsresource"
	"google.golang.org/grpc/metadata"
	"google.golang.org/grpc/status"
)

type c50Ev struct {
	kind string // started | finished | load | dropped
	loc  clients.Locality
	err  error
	name string
	val  float64
}

func (e c50Ev) String() string {
	switch e.kind {
	case "started":
		return "CallStarted(" + e.loc.Region + ")"
	case "finished":
		return fmt.Sprintf("CallFinished(%s,%v)", e.loc.Region, e.err)
	case "load":
		return fmt.Sprintf("CallServerLoad(%s,%s,%v)", e.loc.Region, e.name, e.val)
	}
	return fmt.Sprintf("CallDropped(%q)", e.name)
}

// c50Rec is the bookkeeping loadReporter.
type c50Rec struct {
	mu        sync.Mutex
	log       []c50Ev
	started   map[clients.Locality]int
	succeeded map[clients.Locality]int
	errored   map[clients.Locality]int
	drops     map[string]int
	loads     int
}

func c50NewRec() *c50Rec {
	return &c50Rec{started: map[clients.Locality]int{}, succeeded: map[clients.Locality]int{}, errored: map[clients.Locality]int{}, drops: map[string]int{}}
}

func (r *c50Rec) CallStarted(l clients.Locality) {
	r.mu.Lock()
	r.log = append(r.log, c50Ev{kind: "started", loc: l})
	r.started[l]++
	r.mu.Unlock()
}

func (r *c50Rec) CallFinished(l clients.Locality, err error) {
	r.mu.Lock()
	r.log = append(r.log, c50Ev{kind: "finished", loc: l, err: err})
	if err == nil {
		r.succeeded[l]++
	} else {
		r.errored[l]++
	}
	r.mu.Unlock()
}

func (r *c50Rec) CallServerLoad(l clients.Locality, name string, val float64) {
	r.mu.Lock()
	r.log = append(r.log, c50Ev{kind: "load", loc: l, name: name, val: val})
	r.loads++
	r.mu.Unlock()
}

func (r *c50Rec) CallDropped(category string) {
	r.mu.Lock()
	r.log = append(r.log, c50Ev{kind: "dropped", name: category})
	r.drops[category]++
	r.mu.Unlock()
}

// take returns and clears the events recorded since the last take.
func (r *c50Rec) take() []c50Ev {
	r.mu.Lock()
	defer r.mu.Unlock()
	out := r.log
	r.log = nil
	return out
}

// c50WRR is a scripted drop decision source.
type c50WRR struct {
	mu   sync.Mutex
	next []bool
	def  bool
}

func (w *c50WRR) Add(any, int64) {}
func (w *c50WRR) Next() any {
	w.mu.Lock()
	defer w.mu.Unlock()
	if len(w.next) == 0 {
		return w.def
	}
	v := w.next[0]
	w.next = w.next[1:]
	return v
}

type c50SC struct {
	balancer.SubConn
	id int
}

// c50Child is the scripted child picker.
type c50Child struct {
	mu       sync.Mutex
	script   []c50ChildStep
	def      c50ChildStep
	doneLog  []balancer.DoneInfo // DoneInfos seen by the child's own Done callbacks
	doneCall int
}

type c50ChildStep struct {
	sc       balancer.SubConn // *scWrapper, a bare SubConn, or nil
	err      error
	withDone bool
	md       metadata.MD
}

func (c *c50Child) Pick(balancer.PickInfo) (balancer.PickResult, error) {
	c.mu.Lock()
	st := c.def
	if len(c.script) > 0 {
		st = c.script[0]
		c.script = c.script[1:]
	}
	c.mu.Unlock()
	if st.err != nil {
		return balancer.PickResult{}, st.err
	}
	pr := balancer.PickResult{SubConn: st.sc, Metadata: st.md}
	if st.withDone {
		pr.Done = func(di balancer.DoneInfo) {
			c.mu.Lock()
			c.doneCall++
			c.doneLog = append(c.doneLog, di)
			c.mu.Unlock()
		}
	}
	return pr, nil
}

type c50DoneShape struct {
	name string
	info balancer.DoneInfo
	orca *v3orcapb.OrcaLoadReport
}

func c50Shapes(rng interface{ Intn(int) int }) []c50DoneShape {
	orca := func() *v3orcapb.OrcaLoadReport {
		o := &v3orcapb.OrcaLoadReport{CpuUtilization: float64(1+rng.Intn(9)) / 10, MemUtilization: float64(1+rng.Intn(9)) / 10, ApplicationUtilization: float64(1+rng.Intn(9)) / 10,
			NamedMetrics: map[string]float64{}}
		for k := rng.Intn(4); k > 0; k-- {
			o.NamedMetrics[fmt.Sprintf("m%d", rng.Intn(4))] = float64(1 + rng.Intn(50))
		}
		return o
	}
	o1, o2, o3 := orca(), orca(), orca()
	return []c50DoneShape{
		{name: "zero-value(pick discarded, re-pick)", info: balancer.DoneInfo{}},
		{name: "completed", info: balancer.DoneInfo{BytesSent: true, BytesReceived: true}},
		{name: "completed+trailer", info: balancer.DoneInfo{BytesSent: true, BytesReceived: true, Trailer: metadata.Pairs("k", "v")}},
		{name: "completed+orca", info: balancer.DoneInfo{BytesSent: true, BytesReceived: true, ServerLoad: o1}, orca: o1},
		{name: "zero-flags+orca", info: balancer.DoneInfo{ServerLoad: o2}, orca: o2},
		{name: "failed-after-send", info: balancer.DoneInfo{Err: status.Error(codes.Internal, "boom"), BytesSent: true}},
		{name: "failed-after-send+orca", info: balancer.DoneInfo{Err: errors.New("rst"), BytesSent: true, BytesReceived: true, ServerLoad: o3}, orca: o3},
		{name: "failed-before-send", info: balancer.DoneInfo{Err: status.Error(codes.Unavailable, "no stream")}},
		{name: "sent-only", info: balancer.DoneInfo{BytesSent: true}},
		{name: "received-only", info: balancer.DoneInfo{BytesReceived: true}},
		{name: "trailer-only", info: balancer.DoneInfo{Trailer: metadata.Pairs("grpc-status", "0")}},
		{name: "foreign-serverload", info: balancer.DoneInfo{BytesSent: true, BytesReceived: true, ServerLoad: "not an orca report"}},
		{name: "typed-nil-orca", info: balancer.DoneInfo{BytesSent: true, BytesReceived: true, ServerLoad: (*v3orcapb.OrcaLoadReport)(nil)}},
	}
}

type c50Held struct {
	done  func(balancer.DoneInfo)
	loc   clients.Locality
	child bool // the child supplied its own Done
	id    int
}

func c50EvStr(evs []c50Ev) string {
	var s []string
	for _, e := range evs {
		s = append(s, e.String())
	}
	return "[" + strings.Join(s, " ") + "]"
}

func c50PickerSeq(r *vlib.Run, fam string, idx int) {
	rng := r.Rand(fam, idx)
	rec := c50NewRec()
	nloc := 1 + rng.Intn(4)
	var scws []*scWrapper
	for l := 0; l < nloc; l++ {
		scws = append(scws, &scWrapper{SubConn: &c50SC{id: l}, localityID: clients.Locality{Region: fmt.Sprintf("region-%d", l), Zone: "z", SubZone: fmt.Sprintf("sz%d", l)}})
	}
	bare := &c50SC{id: 99} // a SubConn the child hands out without wrapper: empty locality
	ncat := rng.Intn(3)
	var drops []*dropper
	var wrrs []*c50WRR
	for k := 0; k < ncat; k++ {
		w := &c50WRR{}
		wrrs = append(wrrs, w)
		drops = append(drops, &dropper{category: fmt.Sprintf("cat%d", k), w: w})
	}
	st := vlib.Pick(rng, connectivity.Ready, connectivity.Ready, connectivity.Ready, connectivity.Connecting, connectivity.TransientFailure)
	child := &c50Child{}
	p := &picker{drops: drops, s: balancer.State{ConnectivityState: st, Picker: child}, loadStore: rec, clusterName: "c50"}
	useCB := rng.Intn(2) == 0
	if useCB {
		p.counter = xdsclient.GetClusterRequestsCounter(fmt.Sprintf("c50-picker-%d-%s-%d", r.Seed(), fam, idx), "")
		p.countMax = uint32(1 + rng.Intn(4))
	}
	oldFlag := envconfig.XDSORCAToLRSPropEnabled
	defer func() { envconfig.XDSORCAToLRSPropEnabled = oldFlag }()
	envconfig.XDSORCAToLRSPropEnabled = rng.Intn(2) == 0
	switch rng.Intn(4) {
	case 0:
		p.metrics = nil
	case 1:
		p.metrics = &xdsresource.LRSReportEndpointMetricsConfig{CPUUtilization: true, NamedMetricsAll: true}
	case 2:
		p.metrics = &xdsresource.LRSReportEndpointMetricsConfig{MemUtilization: true, ApplicationUtilization: true, NamedMetrics: map[string]struct{}{"m1": {}, "m3": {}}}
	default:
		p.metrics = &xdsresource.LRSReportEndpointMetricsConfig{}
	}
	desc := fmt.Sprintf("state=%v localities=%d categories=%d circuit-breaker=%v(max %d) orca-prop=%v metrics=%+v", st, nloc, ncat, useCB, p.countMax, envconfig.XDSORCAToLRSPropEnabled, p.metrics)
	r.Progress(fam, idx, desc)
	var trace []string
	fail := func(key, f string, a ...any) {
		tr := trace
		if len(tr) > 40 {
			tr = tr[len(tr)-40:]
		}
		r.Violation(key, fam, idx, map[string]any{"params": desc, "trace_tail": tr}, "[%s] "+f, append([]any{desc}, a...)...)
	}
	shapes := c50Shapes(rng)
	var held []c50Held
	picks, shapesSeen := 0, map[string]bool{}
	var cbRejects, catDrops, childErrs int
	nextID := 0

	quiescent := func(where string) bool {
		if len(held) != 0 {
			return true
		}
		rec.mu.Lock()
		defer rec.mu.Unlock()
		for l, s := range rec.started {
			f := rec.succeeded[l] + rec.errored[l]
			if s != f {
				rec.mu.Unlock()
				fail("started-call-never-finished", "%s: no RPC is in flight, but locality %q has issued=%d succeeded=%d errored=%d: in-progress stays at %d for ever", where, l.Region, s, rec.succeeded[l], rec.errored[l], s-f)
				rec.mu.Lock()
				return false
			}
		}
		for l := range rec.succeeded {
			if rec.succeeded[l]+rec.errored[l] > rec.started[l] {
				rec.mu.Unlock()
				fail("finished-more-than-started", "%s: locality %q finished %d calls but only %d were started", where, l.Region, rec.succeeded[l]+rec.errored[l], rec.started[l])
				rec.mu.Lock()
				return false
			}
		}
		if p.counter != nil {
			if err := p.counter.StartRequest(1); err != nil {
				rec.mu.Unlock()
				fail("circuit-breaker-count-leaked", "%s: no RPC is in flight but the request counter is not 0 (%v)", where, err)
				rec.mu.Lock()
				return false
			}
			p.counter.EndRequest()
		}
		return true
	}

	doPick := func() bool {
		// script this pick
		var wantDropCat string
		wantDrop := false
		for k, w := range wrrs {
			d := rng.Intn(6) == 0
			w.next = []bool{d}
			if d && !wantDrop && st == connectivity.Ready {
				wantDrop, wantDropCat = true, drops[k].category
			}
		}
		step := c50ChildStep{withDone: rng.Intn(2) == 0}
		var wantLoc clients.Locality
		var wantSC balancer.SubConn
		switch k := rng.Intn(10); {
		case k == 0:
			step.err = balancer.ErrNoSubConnAvailable
		case k == 1:
			step.err = status.Error(codes.Unavailable, "child says no")
		case k == 2:
			step.sc, wantSC = bare, bare
		default:
			w := scws[rng.Intn(nloc)]
			step.sc, wantSC, wantLoc = w, w.SubConn, w.localityID
		}
		if rng.Intn(4) == 0 {
			step.md = metadata.Pairs("x", "y")
		}
		child.script = []c50ChildStep{step}
		before := len(held)
		rec.take()
		pr, err := p.Pick(balancer.PickInfo{Ctx: context.Background(), FullMethodName: "/svc/m"})
		evs := rec.take()
		picks++
		trace = append(trace, fmt.Sprintf("Pick(in flight %d) -> err=%v events=%s", before, err, c50EvStr(evs)))
		if len(child.script) != 0 && err == nil {
			// the child was not consulted although the pick succeeded
			fail("pick-without-child", "Pick succeeded without consulting the child picker")
			return false
		}
		child.script = nil
		if err != nil {
			for _, e := range evs {
				if e.kind == "started" || e.kind == "finished" || e.kind == "load" {
					fail("failed-pick-recorded-call", "a Pick that failed with %v recorded %s", err, c50EvStr(evs))
					return false
				}
			}
			if len(evs) > 1 {
				fail("failed-pick-recorded-several-drops", "a Pick that failed with %v recorded %s", err, c50EvStr(evs))
				return false
			}
			switch {
			case wantDrop:
				if len(evs) != 1 || evs[0].name != wantDropCat {
					fail("category-drop-not-recorded", "dropper %q decided to drop; Pick failed with %v but recorded %s, want exactly CallDropped(%q)", wantDropCat, err, c50EvStr(evs), wantDropCat)
					return false
				}
				catDrops++
			case len(evs) == 1 && evs[0].name == "":
				if !useCB {
					fail("uncategorized-drop-without-circuit-breaker", "Pick failed with %v and recorded CallDropped(\"\") although no circuit breaker is configured", err)
					return false
				}
				if uint32(before) < p.countMax {
					fail("circuit-breaker-rejected-below-max", "circuit breaker rejected a pick with %d RPCs in flight, max_requests %d", before, p.countMax)
					return false
				}
				cbRejects++
			case len(evs) == 1:
				fail("unexpected-drop-recorded", "no dropper decided to drop, yet Pick failed with %v and recorded %s", err, c50EvStr(evs))
				return false
			default:
				if step.err == nil {
					fail("pick-failed-unaccounted", "Pick failed with %v although the child picker returned a SubConn, and nothing was recorded at the reporter", err)
					return false
				}
				childErrs++
			}
			return quiescent("after a failed pick")
		}
		if wantDrop {
			fail("drop-decision-ignored", "dropper %q decided to drop but Pick succeeded", wantDropCat)
			return false
		}
		if len(evs) != 1 || evs[0].kind != "started" || evs[0].loc != wantLoc {
			fail("pick-not-recorded-as-started", "successful Pick of a SubConn in locality %q recorded %s, want exactly CallStarted(%q)", wantLoc.Region, c50EvStr(evs), wantLoc.Region)
			return false
		}
		if pr.SubConn != wantSC {
			fail("wrong-subconn", "Pick returned SubConn %v, want the unwrapped %v", pr.SubConn, wantSC)
			return false
		}
		if pr.Done == nil {
			fail("no-done-callback", "Pick with load reporting returned a nil Done")
			return false
		}
		held = append(held, c50Held{done: pr.Done, loc: wantLoc, child: step.withDone, id: nextID})
		nextID++
		return true
	}

	doDone := func() bool {
		j := rng.Intn(len(held))
		h := held[j]
		held = append(held[:j], held[j+1:]...)
		sh := shapes[rng.Intn(len(shapes))]
		if len(shapesSeen) < len(shapes) {
			sh = shapes[len(shapesSeen)] // walk through every shape first (shapes are added in order)
		}
		shapesSeen[sh.name] = true
		child.mu.Lock()
		childBefore := child.doneCall
		child.mu.Unlock()
		rec.take()
		h.done(sh.info)
		evs := rec.take()
		trace = append(trace, fmt.Sprintf("Done#%d(%s) -> events=%s", h.id, sh.name, c50EvStr(evs)))
		nfin := 0
		seenLoad := map[string]bool{}
		for _, e := range evs {
			switch e.kind {
			case "finished":
				nfin++
				if e.loc != h.loc || e.err != sh.info.Err {
					fail("finished-with-wrong-locality-or-error", "Done(%s) of a call in locality %q recorded %s", sh.name, h.loc.Region, e)
					return false
				}
			case "load":
				if sh.orca == nil {
					fail("server-load-without-report", "Done(%s) carries no ORCA report but recorded %s", sh.name, e)
					return false
				}
				if e.loc != h.loc || seenLoad[e.name] {
					fail("server-load-reported-twice", "Done(%s) recorded %s (duplicate or wrong locality); all events %s", sh.name, e, c50EvStr(evs))
					return false
				}
				seenLoad[e.name] = true
				want, known := map[string]float64{"cpu_utilization": sh.orca.CpuUtilization, "mem_utilization": sh.orca.MemUtilization, "application_utilization": sh.orca.ApplicationUtilization}[e.name]
				if !known {
					n := strings.TrimPrefix(e.name, "named_metrics.")
					want, known = sh.orca.NamedMetrics[n]
				}
				if !known || want != e.val {
					fail("server-load-wrong-value", "Done(%s) recorded %s which is not a value of the ORCA report %v", sh.name, e, sh.orca)
					return false
				}
			default:
				fail("done-recorded-foreign-event", "Done(%s) recorded %s", sh.name, e)
				return false
			}
		}
		if nfin != 1 {
			key := "done-without-callfinished"
			if nfin > 1 {
				key = "done-recorded-callfinished-twice"
			}
			fail(key, "Done(%s) of a call started in locality %q recorded %s; want exactly one CallFinished(%q, %v): the call stays in total_requests_in_progress", sh.name, h.loc.Region, c50EvStr(evs), h.loc.Region, sh.info.Err)
			return false
		}
		if sh.orca != nil && (!envconfig.XDSORCAToLRSPropEnabled || (p.metrics != nil && p.metrics.NamedMetricsAll)) {
			for n := range sh.orca.NamedMetrics {
				if !seenLoad[n] && !seenLoad["named_metrics."+n] {
					fail("server-load-lost", "Done(%s): named metric %q of the ORCA report was not recorded (events %s)", sh.name, n, c50EvStr(evs))
					return false
				}
			}
		}
		child.mu.Lock()
		calls := child.doneCall - childBefore
		var last balancer.DoneInfo
		if len(child.doneLog) > 0 {
			last = child.doneLog[len(child.doneLog)-1]
		}
		child.mu.Unlock()
		if h.child && (calls != 1 || last.Err != sh.info.Err || last.BytesSent != sh.info.BytesSent || last.BytesReceived != sh.info.BytesReceived) {
			fail("child-done-not-forwarded", "Done(%s): the child picker's own Done ran %d times (want once, with the same DoneInfo)", sh.name, calls)
			return false
		}
		if !h.child && calls != 0 {
			fail("child-done-not-forwarded", "Done(%s): a child Done ran although the child supplied none", sh.name)
			return false
		}
		r.Count("picker_done_calls", 1)
		return quiescent("after Done(" + sh.name + ")")
	}

	nsteps := 30 + rng.Intn(60)
	for s := 0; s < nsteps; s++ {
		if len(held) > 0 && (rng.Intn(5) < 2 || len(held) > 6) {
			if !doDone() {
				return
			}
		} else if !doPick() {
			return
		}
	}
	for len(held) > 0 {
		if !doDone() {
			return
		}
	}
	if !quiescent("end of case") {
		return
	}
	r.Eval(1)
	r.Count("picker_picks", int64(picks))
	r.Count("picker_category_drops", int64(catDrops))
	r.Count("picker_circuit_breaker_rejections", int64(cbRejects))
	r.Count("picker_child_errors", int64(childErrs))
	var names []string
	for n := range shapesSeen {
		names = append(names, n)
		r.Nontrivial("done-shape:" + n)
	}
	sort.Strings(names)
	r.Nontrivial(fmt.Sprintf("picker-seq/state=%v/cats%d/cb=%v/cbrej=%v/drops=%v/orcaprop=%v/metrics=%v", st, ncat, useCB, cbRejects > 0, catDrops > 0, envconfig.XDSORCAToLRSPropEnabled, p.metrics != nil))
	if idx < 2 {
		r.Sample(map[string]any{"family": fam, "case": idx, "params": desc, "done_shapes": names, "trace_head": trace[:min(8, len(trace))]})
	}
}

// c50PickerConc: several goroutines pick and finish on one picker; totals at quiescence.
func c50PickerConc(r *vlib.Run, fam string, idx int) {
	rng := r.Rand(fam, idx)
	rec := c50NewRec()
	nloc := 1 + rng.Intn(3)
	var scws []*scWrapper
	for l := 0; l < nloc; l++ {
		scws = append(scws, &scWrapper{SubConn: &c50SC{id: l}, localityID: clients.Locality{Region: fmt.Sprintf("region-%d", l)}})
	}
	child := &c50Child{}
	p := &picker{s: balancer.State{ConnectivityState: connectivity.Ready, Picker: child}, loadStore: rec, clusterName: "c50"}
	w := &c50WRR{}
	p.drops = []*dropper{{category: "cat0", w: w}}
	if rng.Intn(2) == 0 {
		p.counter = xdsclient.GetClusterRequestsCounter(fmt.Sprintf("c50-picker-%d-%s-%d", r.Seed(), fam, idx), "")
		p.countMax = uint32(2 + rng.Intn(6))
	}
	ngo := 2 + rng.Intn(6)
	per := 100 + rng.Intn(300)
	desc := fmt.Sprintf("goroutines=%d picks/goroutine=%d localities=%d circuit-breaker max=%d", ngo, per, nloc, p.countMax)
	r.Progress(fam, idx, desc)
	// pre-generated scripts
	type step struct {
		loc   int
		shape int
		drop  bool
	}
	shapes := c50Shapes(rng)
	scripts := make([][]step, ngo)
	for g := range scripts {
		for k := 0; k < per; k++ {
			scripts[g] = append(scripts[g], step{loc: rng.Intn(nloc), shape: rng.Intn(len(shapes)), drop: rng.Intn(10) == 0})
		}
	}
	var okPicks, failed int64
	var mu sync.Mutex
	var wg sync.WaitGroup
	for g := 0; g < ngo; g++ {
		wg.Add(1)
		go func(sc []step) {
			defer wg.Done()
			var ok, bad int64
			for _, s := range sc {
				if s.drop {
					w.mu.Lock()
					w.next = append(w.next, true)
					w.mu.Unlock()
				}
				child.mu.Lock()
				child.def = c50ChildStep{sc: scws[s.loc]}
				child.mu.Unlock()
				pr, err := p.Pick(balancer.PickInfo{Ctx: context.Background(), FullMethodName: "/svc/m"})
				if err != nil {
					bad++
					continue
				}
				ok++
				pr.Done(shapes[s.shape].info)
			}
			mu.Lock()
			okPicks += ok
			failed += bad
			mu.Unlock()
		}(scripts[g])
	}
	wg.Wait()
	rec.mu.Lock()
	var started, finished, dropped int
	for l, s := range rec.started {
		started += s
		f := rec.succeeded[l] + rec.errored[l]
		finished += f
		if s != f {
			rec.mu.Unlock()
			r.Violation("started-call-never-finished", fam, idx, map[string]any{"params": desc}, "[%s] every Pick was followed by its Done, but locality %q has issued=%d succeeded=%d errored=%d (in-progress stuck at %d)", desc, l.Region, s, rec.succeeded[l], rec.errored[l], s-f)
			return
		}
	}
	for _, d := range rec.drops {
		dropped += d
	}
	rec.mu.Unlock()
	if int64(started) != okPicks || int64(dropped) != failed {
		r.Violation("picks-and-records-differ", fam, idx, map[string]any{"params": desc}, "[%s] %d successful and %d failed picks, but the reporter saw %d CallStarted and %d CallDropped", desc, okPicks, failed, started, dropped)
		return
	}
	if p.counter != nil {
		if err := p.counter.StartRequest(1); err != nil {
			r.Violation("circuit-breaker-count-leaked", fam, idx, map[string]any{"params": desc}, "[%s] no RPC in flight but the request counter is not 0: %v", desc, err)
			return
		}
		p.counter.EndRequest()
	}
	r.Eval(1)
	r.Count("picker_conc_picks", okPicks+failed)
	r.Nontrivial(fmt.Sprintf("picker-conc/go%d/cb=%v/failed=%v", (ngo+1)/2, p.counter != nil, failed > 0))
}

func TestVerifC50Picker(t *testing.T) {
	r := vlib.Start(t, "C50")
	n := r.N(1500, 30000)
	for i := 0; i < n; i++ {
		if r.Want("picker", i) {
			c50PickerSeq(r, "picker", i)
		}
	}
	n = r.N(60, 1000)
	for i := 0; i < n; i++ {
		if r.Want("picker-conc", i) {
			c50PickerConc(r, "picker-conc", i)
		}
	}
	r.Finish(vlib.Spec{
		Level: "exploration",
		Rule:  "picker: PRNG scripts of 30-90 Pick/Done steps on the real cluster_impl picker (1-4 localities, bare SubConns, child errors, child Done callbacks, 0-2 scripted droppers, real circuit-breaker counter with max 1-4, connectivity states, ORCA propagation flag on/off x 4 metric configs); every Done uses one of 13 DoneInfo shapes (zero value, Err, bytes sent/received, trailers, ORCA load, foreign/typed-nil ServerLoad), all shapes walked first; reporter events are audited per call and conservation whenever nothing is in flight; picker-conc: 2-7 goroutines x 100-400 pick+done on one picker under -race, totals at quiescence; distinct = DoneInfo shapes seen + (state, categories, circuit breaker, rejections, drops, flag, metrics) per case",
		Assumptions: []string{
			"the loadReporter is a bookkeeping recorder (same books as the LRS load store); droppers take their decisions from a scripted wrr.WRR",
			"the channel calls PickResult.Done exactly once per successful Pick (pickerWrapper / clientStream contract)",
		},
		Floor: 20,
	})
}
