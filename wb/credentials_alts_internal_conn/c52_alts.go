// C52: ALTS record protocol — exact round trip under arbitrary segmentation,
// frame-size limit on the wire, tamper detection, nonce/counter discipline.
//
// White-box placement only because credentials/alts/internal/conn is a nested
// internal tree; the monitor drives the exported API (NewConnWithMaxFrameSize,
// net.Conn Read/Write, readyreader.Reader.ReadOnReady, Counter, NewAES128GCM*)
// plus, for the "sealing fails once the counter would wrap" clause, record
// cryptos built with a reduced overflow length.
//
// Families:
//
//	roundtrip  two ALTS conns (client/server side) over an in-memory byte pipe
//	           with a middlebox that re-segments the ciphertext (1-byte dribble,
//	           coalescing, random cuts, cuts around record/header boundaries);
//	           writes and reads are interleaved by a PRNG script.
//	tamper     for a written stream, an enumerated list of corruptions (every
//	           field class x record, record drop/duplicate/swap/reflect,
//	           truncation, byte insert/delete; exhaustive single-byte corruption
//	           of small streams) is applied and a fresh reader reads to the end.
//	nonce      identical plaintext records must never produce identical
//	           ciphertext (a repeated nonce would), across counter carries and
//	           the rekey boundary.
//	counter    Counter with small overflow length: strictly increasing, bytes
//	           above the overflow length untouched, invalid exactly at the wrap.
//	nearwrap   the REAL overflow lengths (5 and 8 bytes): Counter, the record
//	           cryptos from the exported constructors and NewConn-level conns
//	           with their counters moved (white-box) just below the wrap.
//
// R2 note: the 3 high bytes of the 4-byte message-type field are neither
// authenticated nor checked by the implementation (only type&0xff); they are
// not ciphertext, and changing them cannot change the plaintext, so for that
// corruption class only "no wrong plaintext" is judged, not "must fail".
package conn

import (
	"bytes"
	"crypto/aes"
	"crypto/cipher"
	"encoding/binary"
	"errors"
	"fmt"
	"io"
	"math/rand"
	"net"
	"sync"
	"testing"

	core "google.golang.org/grpc/credentials/alts/internal"
	"google.golang.org/grpc/internal/transport/readyreader"
	vlib "google.golang.org/grpc/internal/verifvlib"
)

const (
	c52ProtoGCM   = "C52_VERIF_GCM_AES128"
	c52ProtoRekey = "C52_VERIF_GCM_AES128_REKEY"
	c52HdrLen     = 8  // length field + type field
	c52TagLen     = 16 // GCM tag
)

var c52Once sync.Once

func c52Register() {
	c52Once.Do(func() {
		_ = RegisterProtocol(c52ProtoGCM, func(s core.Side, k []byte) (ALTSRecordCrypto, error) { return NewAES128GCM(s, k) })
		_ = RegisterProtocol(c52ProtoRekey, func(s core.Side, k []byte) (ALTSRecordCrypto, error) { return NewAES128GCMRekey(s, k) })
	})
}

func c52Key(rng *rand.Rand, proto string) []byte {
	n := 16
	if proto == c52ProtoRekey {
		n = 44
	}
	k := make([]byte, n)
	rng.Read(k)
	return k
}

// ---------- in-memory pipe with a re-segmenting middlebox ----------

var (
	c52ErrWouldBlock = errors.New("c52: reader asked the network for bytes although every record of the pending plaintext was already delivered")
	c52ErrLivelock   = errors.New("c52: 10000 consecutive zero-length network reads")
)

type c52Pipe struct {
	buf       []byte // every byte written so far (or the tampered stream)
	rd        int
	recEnds   []int // absolute end offsets of the records written (valid for untampered pipes)
	writes    []int
	eof       bool // when drained: EOF instead of "would block"
	segMode   int
	rng       *rand.Rand
	zeroReads int
	netReads  int
	blocked   bool
	livelock  bool
}

func (p *c52Pipe) nextBoundary() int {
	for _, e := range p.recEnds {
		if e > p.rd {
			return e
		}
	}
	return len(p.buf)
}

func (p *c52Pipe) read(b []byte) (int, error) {
	if len(b) == 0 {
		p.zeroReads++
		if p.zeroReads > 10000 {
			p.livelock = true
			return 0, c52ErrLivelock
		}
		return 0, nil
	}
	p.zeroReads = 0
	avail := len(p.buf) - p.rd
	if avail == 0 {
		if p.eof {
			return 0, io.EOF
		}
		p.blocked = true
		return 0, c52ErrWouldBlock
	}
	n := min(avail, len(b))
	mode := p.segMode
	if mode == 5 {
		mode = p.rng.Intn(5)
	}
	switch mode {
	case 0: // dribble
		n = 1
	case 1: // coalesce: everything that fits
	case 2: // random cut
		n = 1 + p.rng.Intn(n)
	case 3: // small random cut
		n = 1 + p.rng.Intn(min(n, 9))
	case 4: // around the next record boundary / inside the next header
		d := p.nextBoundary() - p.rd + []int{-1, 0, 1, 2, 3, 4, 5, 7, 8, 9}[p.rng.Intn(10)]
		if d >= 1 && d <= n {
			n = d
		}
	}
	copy(b, p.buf[p.rd:p.rd+n])
	p.rd += n
	p.netReads++
	return n, nil
}

// c52Net is the net.Conn under one ALTS conn.
type c52Net struct {
	net.Conn // nil: only Read/Write are used by the record layer
	in, out  *c52Pipe
}

func (c *c52Net) Read(b []byte) (int, error) { return c.in.read(b) }
func (c *c52Net) Write(b []byte) (int, error) {
	c.out.buf = append(c.out.buf, b...)
	c.out.writes = append(c.out.writes, len(b))
	return len(b), nil
}
func (c *c52Net) Close() error { return nil }

type c52Record struct {
	start, end int // [start,end) in the wire, header included
	plainLen   int
}

// c52Parse splits an untampered wire into records.
func c52Parse(wire []byte) ([]c52Record, error) {
	var recs []c52Record
	off := 0
	for off < len(wire) {
		if len(wire)-off < c52HdrLen {
			return recs, fmt.Errorf("trailing %d bytes are shorter than a record header", len(wire)-off)
		}
		l := int(binary.LittleEndian.Uint32(wire[off:]))
		if l < 4+c52TagLen {
			return recs, fmt.Errorf("record at %d has length field %d < type+tag", off, l)
		}
		if off+4+l > len(wire) {
			return recs, fmt.Errorf("record at %d (length field %d) runs past the end of the wire (%d)", off, l, len(wire))
		}
		if t := binary.LittleEndian.Uint32(wire[off+4:]); t != 6 {
			return recs, fmt.Errorf("record at %d has message type %#x, want 0x6", off, t)
		}
		recs = append(recs, c52Record{start: off, end: off + 4 + l, plainLen: l - 4 - c52TagLen})
		off += 4 + l
	}
	return recs, nil
}

type c52Pool struct{}

func (c52Pool) Get(n int) *[]byte { b := make([]byte, n); return &b }
func (c52Pool) Put(*[]byte)       {}

// c52ReadOnce performs one read through one of the two read APIs.
func c52ReadOnce(c net.Conn, size int, api int) ([]byte, error) {
	if api == 1 {
		if rr, ok := c.(readyreader.Reader); ok {
			bp, n, err := rr.ReadOnReady(size, c52Pool{})
			if bp == nil {
				return nil, err
			}
			return (*bp)[:n], err
		}
	}
	b := make([]byte, size)
	n, err := c.Read(b)
	return b[:n], err
}

func c52Plain(rng *rand.Rand, n int) []byte {
	b := make([]byte, n)
	rng.Read(b)
	return b
}

func c52FrameLimit(negotiated int) int { return max(4096, negotiated) }

func c52GenFrameSize(rng *rand.Rand, small bool) int {
	if small { // slow segmentation modes: keep records small
		return vlib.Pick(rng, 0, 10, 4096, 4097, 5000, 8192)
	}
	switch rng.Intn(14) {
	case 0:
		return 0 // not negotiated
	case 1:
		return 10 // below the minimum: clamped to 4096
	case 2, 3:
		return 4096
	case 4:
		return 4097
	case 5:
		return 16 * 1024
	case 6:
		return 512 * 1024
	case 7:
		return 64*1024 + rng.Intn(3) - 1
	case 8:
		return 128 * 1024
	case 9, 10:
		return 4096 + rng.Intn(512*1024-4096+1)
	default:
		return 4096 + rng.Intn(28*1024)
	}
}

func c52GenWriteSize(rng *rand.Rand, limit int, big, small bool) int {
	payload := limit - c52HdrLen - c52TagLen
	if small {
		switch rng.Intn(8) {
		case 0:
			return 0
		case 1:
			return 1
		case 2:
			return payload + rng.Intn(3) - 1
		case 3:
			return 2*payload + rng.Intn(3) - 1
		default:
			return rng.Intn(3000)
		}
	}
	switch rng.Intn(16) {
	case 0:
		return 0
	case 1:
		return 1
	case 2:
		return payload - 1
	case 3:
		return payload
	case 4:
		return payload + 1
	case 5:
		return 2*payload + rng.Intn(3) - 1
	case 6:
		if big {
			return 512*1024 + rng.Intn(1536*1024) // beyond the 512 KiB write buffer, up to 2 MiB
		}
		return rng.Intn(70000)
	case 7:
		if big {
			k := 512 * 1024 / limit // frames per write buffer
			return k*payload + rng.Intn(3) - 1
		}
		return rng.Intn(5000)
	default:
		return rng.Intn(min(3*payload/2, 48*1024))
	}
}

func c52GenReadSize(rng *rand.Rand, pending int) int {
	switch rng.Intn(8) {
	case 0:
		return 1
	case 1:
		return 1 + rng.Intn(16)
	case 2:
		return pending
	case 3:
		return pending + 1 + rng.Intn(64)
	case 4:
		return 1 << 20
	case 5:
		return 4096 - c52HdrLen - c52TagLen + rng.Intn(3) - 1
	default:
		return 1 + rng.Intn(2*pending+1)
	}
}

type c52Dir struct {
	name    string
	w, r    net.Conn
	pipe    *c52Pipe
	plain   []byte // everything written
	readOff int    // plaintext consumed by the reader
	limit   int
}

// ---------- family roundtrip ----------

func c52Roundtrip(r *vlib.Run, fam string, idx int) {
	rng := r.Rand(fam, idx)
	proto := vlib.Pick(rng, c52ProtoGCM, c52ProtoRekey)
	key := c52Key(rng, proto)
	ab := &c52Pipe{segMode: rng.Intn(6), rng: rng}
	ba := &c52Pipe{segMode: rng.Intn(6), rng: rng}
	small := ab.segMode == 0 || ab.segMode == 3 || ba.segMode == 0 || ba.segMode == 3
	fs := c52GenFrameSize(rng, small)
	limit := c52FrameLimit(fs)
	big := !small && rng.Intn(10) == 0
	desc := fmt.Sprintf("proto=%s frame=%d seg=%d/%d big=%v", proto, fs, ab.segMode, ba.segMode, big)
	r.Progress(fam, idx, desc)
	var trace []string
	fail := func(key, f string, a ...any) {
		tr := trace
		if len(tr) > 40 {
			tr = tr[len(tr)-40:]
		}
		r.Violation(key, fam, idx, map[string]any{"params": desc, "trace_tail": tr}, "[%s] "+f, append([]any{desc}, a...)...)
	}
	defer func() {
		if p := recover(); p != nil {
			fail("roundtrip-panic", "the record layer panicked on well-formed traffic: %v", p)
		}
	}()
	a, err := NewConnWithMaxFrameSize(&c52Net{in: ba, out: ab}, core.ClientSide, proto, key, nil, fs)
	if err != nil {
		fail("newconn", "NewConnWithMaxFrameSize(client): %v", err)
		return
	}
	// the server side sometimes starts with bytes the handshaker already read
	var early []byte
	useEarly := rng.Intn(4) == 0
	dirs := []*c52Dir{{name: "c->s", w: a, pipe: ab, limit: limit}, {name: "s->c", pipe: ba, limit: limit}}
	if useEarly {
		n := c52GenWriteSize(rng, limit, false, small)
		p := c52Plain(rng, n)
		if k, err := a.Write(p); k != n || err != nil {
			fail("write", "Write(%d) = %d, %v", n, k, err)
			return
		}
		dirs[0].plain = append(dirs[0].plain, p...)
		cut := rng.Intn(len(ab.buf) + 1)
		early = append([]byte{}, ab.buf[:cut]...)
		ab.rd = cut
		trace = append(trace, fmt.Sprintf("early write %d, %d/%d wire bytes handed to NewConn as protected", n, cut, len(ab.buf)))
	}
	b, err := NewConnWithMaxFrameSize(&c52Net{in: ab, out: ba}, core.ServerSide, proto, key, early, fs)
	if err != nil {
		fail("newconn", "NewConnWithMaxFrameSize(server): %v", err)
		return
	}
	dirs[0].r, dirs[1].w, dirs[1].r = b, b, a
	refreshEnds := func(d *c52Dir) bool {
		recs, err := c52Parse(d.pipe.buf)
		if err != nil {
			fail("wire-malformed", "%s wire does not parse as ALTS records: %v", d.name, err)
			return false
		}
		d.pipe.recEnds = d.pipe.recEnds[:0]
		sum := 0
		for _, rc := range recs {
			d.pipe.recEnds = append(d.pipe.recEnds, rc.end)
			sum += rc.plainLen
			if rc.end-rc.start > d.limit {
				fail("record-exceeds-frame-size", "%s record at wire offset %d is %d bytes on the wire, frame size limit %d", d.name, rc.start, rc.end-rc.start, d.limit)
				return false
			}
			r.Max("max_record_bytes", int64(rc.end-rc.start))
		}
		if sum != len(d.plain) {
			fail("wire-plaintext-length", "%s records carry %d plaintext bytes, %d were written", d.name, sum, len(d.plain))
			return false
		}
		return true
	}
	nsteps := 6 + rng.Intn(30)
	if big {
		nsteps = 4 + rng.Intn(6)
	}
	var idleReads, zeroWrites, fullFrames int
	read := func(d *c52Dir) bool {
		pending := len(d.plain) - d.readOff
		size := c52GenReadSize(rng, pending)
		api := rng.Intn(2)
		wasIdle := false
		if ac, ok := d.r.(*conn); ok && ac.protectedHandle == nil {
			wasIdle = true
		}
		got, err := c52ReadOnce(d.r, size, api)
		trace = append(trace, fmt.Sprintf("%s read(size %d api %d) -> %d bytes err=%v (pending %d)", d.name, size, api, len(got), err, pending))
		if d.pipe.livelock {
			fail("reader-livelock", "%s: the record layer issued >10000 consecutive zero-length network reads", d.name)
			return false
		}
		if d.pipe.blocked {
			fail("reader-needs-more-bytes-than-sent", "%s: %d plaintext bytes are pending and all their records were delivered, yet Read went back to the network", d.name, pending)
			return false
		}
		if err != nil {
			fail("read-error", "%s: Read(size %d) with %d plaintext bytes pending failed: %v", d.name, size, pending, err)
			return false
		}
		if len(got) > pending || len(got) > size || !bytes.Equal(got, d.plain[d.readOff:d.readOff+len(got)]) {
			fail("wrong-plaintext", "%s: Read returned %d bytes that are not the next plaintext bytes (offset %d, pending %d)", d.name, len(got), d.readOff, pending)
			return false
		}
		if len(got) == 0 {
			fail("read-no-progress", "%s: Read(size %d) returned 0 bytes and no error with %d bytes pending", d.name, size, pending)
			return false
		}
		d.readOff += len(got)
		if wasIdle {
			idleReads++
		}
		r.Count("reads", 1)
		return true
	}
	for s := 0; s < nsteps; s++ {
		d := dirs[rng.Intn(2)]
		pending := len(d.plain) - d.readOff
		if pending > 0 && rng.Intn(5) < 3 {
			if !read(d) {
				return
			}
			continue
		}
		n := c52GenWriteSize(rng, limit, big, small)
		p := c52Plain(rng, n)
		before := len(d.pipe.buf)
		k, err := d.w.Write(p)
		trace = append(trace, fmt.Sprintf("%s write(%d) -> %d err=%v, %d wire bytes", d.name, n, k, err, len(d.pipe.buf)-before))
		if k != n || err != nil {
			fail("write", "%s: Write(%d) = %d, %v", d.name, n, k, err)
			return
		}
		d.plain = append(d.plain, p...)
		if n == 0 {
			zeroWrites++
		}
		if n >= limit-c52HdrLen-c52TagLen {
			fullFrames++
		}
		r.Count("writes", 1)
		r.Count("plaintext_bytes", int64(n))
		if !refreshEnds(d) {
			return
		}
	}
	// drain both directions, then the peer closes: the next read must report it
	for _, d := range dirs {
		if !refreshEnds(d) {
			return
		}
		for d.readOff < len(d.plain) {
			if !read(d) {
				return
			}
		}
		d.pipe.eof = true
		got, err := c52ReadOnce(d.r, 1+rng.Intn(64), rng.Intn(2))
		if err == nil || len(got) != 0 {
			fail("read-after-close", "%s: Read after the stream ended returned %d bytes, err=%v (want 0 bytes and an error)", d.name, len(got), err)
			return
		}
		r.Count("records", int64(len(d.pipe.recEnds)))
		r.Count("network_reads", int64(d.pipe.netReads))
	}
	r.Eval(1)
	sig := fmt.Sprintf("rt/%s/limit%s/seg%d+%d", proto[len("C52_VERIF_"):], c52Bucket(limit), ab.segMode, ba.segMode)
	if idleReads > 0 {
		sig += "/idle-realloc"
	}
	if useEarly {
		sig += "/early"
	}
	if big {
		sig += "/big"
	}
	if fullFrames > 0 {
		sig += "/fullframe"
	}
	// non-trivial: at least one record crossed a network-read boundary or several records were coalesced
	if ab.netReads+ba.netReads > 0 && len(ab.recEnds)+len(ba.recEnds) > 0 {
		r.Nontrivial(sig)
	}
	if idx < 2 {
		r.Sample(map[string]any{"family": fam, "case": idx, "params": desc, "records": len(ab.recEnds) + len(ba.recEnds), "trace_head": trace[:min(6, len(trace))]})
	}
}

func c52Bucket(n int) string {
	switch {
	case n <= 4096:
		return "4K"
	case n <= 16384:
		return "16K"
	case n <= 65536+1:
		return "64K"
	case n < 512*1024:
		return "<512K"
	}
	return "512K"
}

// ---------- family tamper ----------

type c52Tamper struct {
	name     string
	wire     []byte
	limit    int  // the reader may return at most this many plaintext bytes
	mustFail bool // false only for the unauthenticated high type bytes
}

func c52PlainOffset(recs []c52Record, i int) int {
	s := 0
	for k := 0; k < i && k < len(recs); k++ {
		s += recs[k].plainLen
	}
	return s
}

func c52RecordAt(recs []c52Record, pos int) int {
	for i, rc := range recs {
		if pos < rc.end {
			return i
		}
	}
	return len(recs)
}

func c52Splice(parts ...[]byte) []byte {
	var out []byte
	for _, p := range parts {
		out = append(out, p...)
	}
	return out
}

func c52BuildTampers(rng *rand.Rand, wire, reflect []byte, recs []c52Record, exhaustive bool) []c52Tamper {
	var ts []c52Tamper
	total := c52PlainOffset(recs, len(recs))
	flip := func(pos int, mask byte, name string) {
		w := append([]byte{}, wire...)
		w[pos] ^= mask
		i := c52RecordAt(recs, pos)
		rel := pos - recs[i].start
		t := c52Tamper{name: fmt.Sprintf("%s rec=%d byte=%d mask=%#x", name, i, rel, mask), wire: w, limit: c52PlainOffset(recs, i), mustFail: true}
		if rel >= 5 && rel <= 7 { // high bytes of the message type: not ciphertext, not authenticated (R2 note)
			t.limit, t.mustFail = total, false
		}
		ts = append(ts, t)
	}
	if exhaustive {
		for pos := range wire {
			for _, m := range []byte{0x01, 0x80, 0xFF} {
				flip(pos, m, "flip")
			}
		}
	}
	pickRecs := map[int]bool{0: true, len(recs) / 2: true, len(recs) - 1: true}
	for i := range recs {
		if !pickRecs[i] {
			continue
		}
		rc := recs[i]
		ctLen := rc.end - rc.start - c52HdrLen - c52TagLen
		pos := []int{0, 1, 2, 3, 4, 5, 7, rc.end - rc.start - c52TagLen, rc.end - rc.start - 1}
		if ctLen > 0 {
			pos = append(pos, c52HdrLen, c52HdrLen+ctLen/2, c52HdrLen+ctLen-1)
		}
		for _, p := range pos {
			flip(rc.start+p, byte(1<<uint(rng.Intn(8))), "flip-field")
		}
		// length field set to interesting values
		for _, l := range []uint32{0, 3, 4, 19, 20, uint32(rc.end-rc.start-4) - 1, uint32(rc.end-rc.start-4) + 1, 1 << 20, 1<<20 + 1, 0xFFFFFFFF} {
			if int(l) == rc.end-rc.start-4 {
				continue
			}
			w := append([]byte{}, wire...)
			binary.LittleEndian.PutUint32(w[rc.start:], l)
			ts = append(ts, c52Tamper{name: fmt.Sprintf("length rec=%d := %d", i, l), wire: w, limit: c52PlainOffset(recs, i), mustFail: true})
		}
		// drop / duplicate / swap
		ts = append(ts, c52Tamper{name: fmt.Sprintf("drop rec=%d", i), wire: c52Splice(wire[:rc.start], wire[rc.end:]), limit: c52PlainOffset(recs, i), mustFail: i < len(recs)-1})
		ts = append(ts, c52Tamper{name: fmt.Sprintf("duplicate rec=%d", i), wire: c52Splice(wire[:rc.end], wire[rc.start:rc.end], wire[rc.end:]), limit: c52PlainOffset(recs, i+1), mustFail: true})
		if j := rng.Intn(len(recs)); j != i {
			lo, hi := min(i, j), max(i, j)
			a, b := recs[lo], recs[hi]
			ts = append(ts, c52Tamper{name: fmt.Sprintf("swap rec=%d,%d", lo, hi), wire: c52Splice(wire[:a.start], wire[b.start:b.end], wire[a.end:b.start], wire[a.start:a.end], wire[b.end:]), limit: c52PlainOffset(recs, lo), mustFail: true})
		}
		// reflection: a record the reader itself could have produced (other direction, same index)
		if rr, err := c52Parse(reflect); err == nil && i < len(rr) {
			ts = append(ts, c52Tamper{name: fmt.Sprintf("reflect rec=%d", i), wire: c52Splice(wire[:rc.start], reflect[rr[i].start:rr[i].end], wire[rc.end:]), limit: c52PlainOffset(recs, i), mustFail: true})
		}
		// truncation inside this record
		for _, cut := range []int{1, 4, 7, 8, rc.end - rc.start - 1} {
			ts = append(ts, c52Tamper{name: fmt.Sprintf("truncate rec=%d at +%d", i, cut), wire: append([]byte{}, wire[:rc.start+cut]...), limit: c52PlainOffset(recs, i), mustFail: true})
		}
	}
	// insert / delete one byte at random positions
	for k := 0; k < 4; k++ {
		pos := rng.Intn(len(wire))
		i := c52RecordAt(recs, pos)
		ts = append(ts, c52Tamper{name: fmt.Sprintf("insert byte at %d (rec %d)", pos, i), wire: c52Splice(wire[:pos], []byte{byte(rng.Intn(256))}, wire[pos:]), limit: c52PlainOffset(recs, i), mustFail: true})
		ts = append(ts, c52Tamper{name: fmt.Sprintf("delete byte at %d (rec %d)", pos, i), wire: c52Splice(wire[:pos], wire[pos+1:]), limit: c52PlainOffset(recs, i), mustFail: true})
	}
	// The limit is finally derived from the tampered bytes themselves: every record that
	// lies completely inside the longest common prefix of the original and the tampered
	// wire is untouched and may be delivered (e.g. an inserted byte that equals the byte it
	// displaces at the end of a record leaves that record intact).
	for k := range ts {
		t := &ts[k]
		if !t.mustFail && t.limit == total {
			continue // unauthenticated type bytes: only "no wrong plaintext" is judged
		}
		l := 0
		for l < len(wire) && l < len(t.wire) && wire[l] == t.wire[l] {
			l++
		}
		t.limit = c52PlainOffset(recs, c52RecordAt(recs, l))
	}
	return ts
}

func c52TamperCase(r *vlib.Run, fam string, idx int) {
	rng := r.Rand(fam, idx)
	proto := vlib.Pick(rng, c52ProtoGCM, c52ProtoRekey)
	key := c52Key(rng, proto)
	fs := vlib.Pick(rng, 0, 4096, 8192, 16384)
	exhaustive := idx%8 == 0
	side := vlib.Pick(rng, core.ClientSide, core.ServerSide)
	peer := core.ServerSide
	if side == core.ServerSide {
		peer = core.ClientSide
	}
	// the writer's stream and a stream of the same shape from the reader's own side (for reflection)
	mk := func(s core.Side, sizes []int, plain *[]byte) []byte {
		p := &c52Pipe{rng: rng}
		w, err := NewConnWithMaxFrameSize(&c52Net{in: &c52Pipe{rng: rng}, out: p}, s, proto, key, nil, fs)
		if err != nil {
			return nil
		}
		for _, n := range sizes {
			b := c52Plain(rng, n)
			if plain != nil {
				*plain = append(*plain, b...)
			}
			if _, err := w.Write(b); err != nil {
				return nil
			}
		}
		return p.buf
	}
	var sizes []int
	nw := 1 + rng.Intn(4)
	for k := 0; k < nw; k++ {
		switch {
		case exhaustive:
			sizes = append(sizes, rng.Intn(24))
		case rng.Intn(4) == 0:
			sizes = append(sizes, 4000+rng.Intn(9000)) // several records per write
		default:
			sizes = append(sizes, rng.Intn(300))
		}
	}
	if exhaustive && sizes[0] == 0 {
		sizes[0] = 5
	}
	var plain []byte
	wire := mk(side, sizes, &plain)
	reflect := mk(peer, sizes, nil)
	recs, err := c52Parse(wire)
	if wire == nil || err != nil || len(recs) == 0 {
		if len(wire) == 0 && err == nil {
			return // only zero-length writes: nothing on the wire
		}
		r.Violation("wire-malformed", fam, idx, map[string]any{"sizes": sizes}, "writer produced an unparsable wire: %v", err)
		return
	}
	tampers := c52BuildTampers(rng, wire, reflect, recs, exhaustive)
	desc := fmt.Sprintf("proto=%s frame=%d writes=%v records=%d wire=%dB exhaustive=%v", proto, fs, sizes, len(recs), len(wire), exhaustive)
	for ti, tm := range tampers {
		r.Progress(fam, idx, fmt.Sprintf("%s tamper#%d %s", desc, ti, tm.name))
		pipe := &c52Pipe{buf: tm.wire, eof: true, segMode: rng.Intn(4), rng: rng}
		var early []byte
		if rng.Intn(5) == 0 && len(tm.wire) > 0 {
			cut := rng.Intn(len(tm.wire) + 1)
			early, pipe.rd = append([]byte{}, tm.wire[:cut]...), cut
		}
		rd, err := NewConnWithMaxFrameSize(&c52Net{in: pipe, out: &c52Pipe{rng: rng}}, peer, proto, key, early, fs)
		if err != nil {
			r.Violation("newconn", fam, idx, nil, "NewConnWithMaxFrameSize: %v", err)
			return
		}
		var got []byte
		var rerr error
		reads := 0
		func() {
			defer func() {
				if p := recover(); p != nil {
					rerr = fmt.Errorf("panic: %v", p)
					r.Violation("tamper-panic", fam, idx, map[string]any{"params": desc, "tamper": tm.name}, "[%s] reading a stream with %q panicked: %v", desc, tm.name, p)
				}
			}()
			for rerr == nil && reads < 100000 {
				var b []byte
				b, rerr = c52ReadOnce(rd, 1+rng.Intn(600), rng.Intn(2))
				got = append(got, b...)
				reads++
			}
		}()
		r.Count("tampered_streams_read", 1)
		if pipe.livelock {
			r.Violation("reader-livelock", fam, idx, map[string]any{"params": desc, "tamper": tm.name}, "[%s] %q: >10000 consecutive zero-length network reads", desc, tm.name)
			return
		}
		if rerr == nil {
			r.Violation("tamper-no-error", fam, idx, map[string]any{"params": desc, "tamper": tm.name}, "[%s] %q: 100000 reads without an error", desc, tm.name)
			return
		}
		if !bytes.HasPrefix(plain, got) {
			r.Violation("tamper-wrong-plaintext", fam, idx, map[string]any{"params": desc, "tamper": tm.name}, "[%s] %q: reader returned %d bytes that are not a prefix of the written plaintext", desc, tm.name, len(got))
			return
		}
		if len(got) > tm.limit {
			r.Violation("tamper-undetected", fam, idx, map[string]any{"params": desc, "tamper": tm.name, "error": rerr.Error()}, "[%s] %q: reader delivered %d plaintext bytes, i.e. data from the corrupted record or beyond it (at most %d are untouched); final error: %v", desc, tm.name, len(got), tm.limit, rerr)
			return
		}
		if tm.mustFail {
			r.Count("tamper_detected", 1)
		} else {
			r.Count("tamper_unauthenticated_type_bytes_or_tail_drop", 1)
		}
		cls := tm.name
		if k := bytes.IndexByte([]byte(cls), ' '); k > 0 {
			cls = cls[:k]
		}
		r.Nontrivial(fmt.Sprintf("tamper/%s/%s/err=%s", proto[len("C52_VERIF_"):], cls, c52ErrClass(rerr)))
	}
	r.Eval(1)
	if idx < 2 {
		r.Sample(map[string]any{"family": fam, "case": idx, "params": desc, "tampers": len(tampers)})
	}
}

func c52ErrClass(err error) string {
	switch {
	case err == io.EOF:
		return "eof"
	case err == ErrAuth:
		return "auth"
	case err == nil:
		return "nil"
	}
	s := err.Error()
	for _, k := range []string{"larger than the limit", "incorrect message type", "shorter than message type", "invalid counter"} {
		if bytes.Contains([]byte(s), []byte(k)) {
			return k
		}
	}
	return "other"
}

// ---------- family nonce ----------

func c52Nonce(r *vlib.Run, fam string, idx int) {
	rng := r.Rand(fam, idx)
	proto := []string{c52ProtoGCM, c52ProtoRekey}[idx%2]
	side := []core.Side{core.ClientSide, core.ServerSide}[(idx/2)%2]
	peer := core.ServerSide
	if side == core.ServerSide {
		peer = core.ClientSide
	}
	nrec := 300 + rng.Intn(400) // crosses the 255->256 carry of the counter
	if idx < 2 || r.Thorough() {
		nrec = 66000 + rng.Intn(500) // crosses the 65535->65536 carry, i.e. the rekey boundary of the rekey protocol
	}
	key := c52Key(rng, proto)
	psize := vlib.Pick(rng, 1, 16, 32)
	r.Progress(fam, idx, fmt.Sprintf("proto=%s side=%v records=%d plaintext=%d zero bytes", proto, side, nrec, psize))
	pipe := &c52Pipe{segMode: 1, rng: rng}
	w, err := NewConnWithMaxFrameSize(&c52Net{in: &c52Pipe{rng: rng}, out: pipe}, side, proto, key, nil, 0)
	if err != nil {
		r.Violation("newconn", fam, idx, nil, "NewConnWithMaxFrameSize: %v", err)
		return
	}
	zero := make([]byte, psize)
	for i := 0; i < nrec; i++ {
		if n, err := w.Write(zero); n != psize || err != nil {
			r.Violation("write", fam, idx, nil, "Write #%d = %d, %v", i, n, err)
			return
		}
	}
	recs, err := c52Parse(pipe.buf)
	if err != nil || len(recs) != nrec {
		r.Violation("wire-malformed", fam, idx, nil, "%d writes of %d bytes produced %d records (parse error %v)", nrec, psize, len(recs), err)
		return
	}
	seen := make(map[string]int, nrec)
	for i, rc := range recs {
		ct := string(pipe.buf[rc.start+c52HdrLen : rc.end])
		if j, dup := seen[ct]; dup {
			r.Violation("nonce-reused", fam, idx, map[string]any{"proto": proto, "first": j, "second": i}, "records #%d and #%d of identical plaintext have identical ciphertext+tag: the same key and nonce were used twice (%s, side %v)", j, i, proto, side)
			return
		}
		seen[ct] = i
	}
	// and the peer accepts all of them in order
	rd, err := NewConnWithMaxFrameSize(&c52Net{in: pipe, out: &c52Pipe{rng: rng}}, peer, proto, key, nil, 0)
	if err != nil {
		r.Violation("newconn", fam, idx, nil, "NewConnWithMaxFrameSize: %v", err)
		return
	}
	pipe.eof = true
	total := 0
	buf := make([]byte, 1<<16)
	for {
		n, err := rd.Read(buf)
		if !bytes.Equal(buf[:n], make([]byte, n)) {
			r.Violation("wrong-plaintext", fam, idx, nil, "peer decrypted non-zero bytes from an all-zero stream at offset %d", total)
			return
		}
		total += n
		if err != nil {
			if err != io.EOF || total != nrec*psize {
				r.Violation("read-error", fam, idx, map[string]any{"proto": proto}, "peer read %d of %d bytes and then failed with %v (record #%d)", total, nrec*psize, err, total/psize)
				return
			}
			break
		}
	}
	r.Eval(1)
	r.Count("nonce_records_compared", int64(nrec))
	r.Nontrivial(fmt.Sprintf("nonce/%s/side%v/carry16=%v", proto[len("C52_VERIF_"):], side, nrec > 65536))
}

// ---------- family counter ----------

func c52LE(b []byte) uint64 {
	var v uint64
	for i := len(b) - 1; i >= 0; i-- {
		v = v<<8 | uint64(b[i])
	}
	return v
}

func c52CounterCase(r *vlib.Run, fam string, idx int) {
	rng := r.Rand(fam, idx)
	ovf := 1 + idx%2
	if r.Thorough() && idx%7 == 0 {
		ovf = 3
	}
	var c Counter
	var how string
	var start [counterLen]byte
	switch idx % 3 {
	case 0:
		c, how = NewOutCounter(core.Side(idx/3%2), ovf), "NewOutCounter"
	case 1:
		c, how = NewInCounter(core.Side(idx/3%2), ovf), "NewInCounter"
	default:
		rng.Read(start[:])
		if rng.Intn(2) == 0 { // close to the wrap
			for i := 0; i < ovf; i++ {
				start[i] = 0xFF
			}
			start[0] = byte(0xF0 + rng.Intn(16))
		}
		c, how = CounterFromValue(start[:], ovf), "CounterFromValue"
	}
	v0, err := c.Value()
	if err != nil {
		r.Violation("counter-invalid-at-start", fam, idx, nil, "%s(overflowLen %d): fresh counter is invalid", how, ovf)
		return
	}
	first := append([]byte{}, v0...)
	want := (uint64(1) << (8 * uint(ovf))) - c52LE(first[:ovf]) // number of valid values including the first
	var n uint64
	prev := uint64(0)
	for {
		v, err := c.Value()
		if err != nil {
			break
		}
		cur := c52LE(v[:ovf])
		if n > 0 && cur <= prev {
			r.Violation("counter-repeats", fam, idx, map[string]any{"how": how, "overflow_len": ovf, "n": n}, "%s(overflowLen %d): value #%d is %d after %d — the counter wrapped/repeated instead of becoming invalid", how, ovf, n, cur, prev)
			return
		}
		if !bytes.Equal(v[ovf:], first[ovf:]) {
			r.Violation("counter-high-bytes-changed", fam, idx, map[string]any{"how": how, "overflow_len": ovf, "n": n}, "%s(overflowLen %d): bytes above the overflow length changed at value #%d: %x -> %x", how, ovf, n, first[ovf:], v[ovf:])
			return
		}
		prev = cur
		n++
		if n > want+5 {
			break
		}
		c.Inc()
	}
	if n != want {
		r.Violation("counter-wrap-point", fam, idx, map[string]any{"how": how, "overflow_len": ovf, "start": fmt.Sprintf("%x", first)}, "%s(overflowLen %d) starting at %x yielded %d valid values, want exactly %d (invalid once it would wrap)", how, ovf, first[:ovf], n, want)
		return
	}
	for k := 0; k < 600; k++ { // stays invalid
		c.Inc()
		if _, err := c.Value(); err == nil {
			r.Violation("counter-revived", fam, idx, nil, "%s(overflowLen %d): counter became valid again %d increments after the wrap", how, ovf, k+1)
			return
		}
	}
	r.Eval(1)
	r.Count("counter_values_checked", int64(n))
	r.Nontrivial(fmt.Sprintf("counter/%s/ovf%d/start-low=%v", how, ovf, c52LE(first[:ovf]) != 0))
}

// c52SealWrap: record cryptos with a one-byte overflow length must seal exactly
// 256 records and then fail, and open exactly 256.
func c52SealWrap(r *vlib.Run, fam string, idx int) {
	rng := r.Rand(fam, idx)
	side := core.Side(idx % 2)
	peer := core.Side(1 - idx%2)
	rekey := idx/2%2 == 1
	var enc, dec ALTSRecordCrypto
	if rekey {
		key := c52Key(rng, c52ProtoRekey)
		mk := func() cipher.AEAD { a, _ := newRekeyAEAD(key); return a }
		enc = &aes128gcmRekey{inCounter: NewInCounter(side, 1), outCounter: NewOutCounter(side, 1), inAEAD: mk(), outAEAD: mk()}
		dec = &aes128gcmRekey{inCounter: NewInCounter(peer, 1), outCounter: NewOutCounter(peer, 1), inAEAD: mk(), outAEAD: mk()}
	} else {
		key := c52Key(rng, c52ProtoGCM)
		blk, _ := aes.NewCipher(key)
		a, _ := cipher.NewGCM(blk)
		enc = &aes128gcm{inCounter: NewInCounter(side, 1), outCounter: NewOutCounter(side, 1), aead: a}
		dec = &aes128gcm{inCounter: NewInCounter(peer, 1), outCounter: NewOutCounter(peer, 1), aead: a}
	}
	seen := map[string]bool{}
	sealed := 0
	var last []byte
	for i := 0; i < 300; i++ {
		var ct []byte
		var err error
		func() {
			defer func() {
				if p := recover(); p != nil {
					err = fmt.Errorf("panic: %v", p)
				}
			}()
			ct, err = enc.Encrypt(nil, make([]byte, 8))
		}()
		if err != nil {
			break
		}
		if seen[string(ct)] {
			r.Violation("nonce-reused", fam, idx, map[string]any{"rekey": rekey}, "Encrypt #%d produced a ciphertext already seen for the same plaintext: nonce reused (rekey=%v)", i, rekey)
			return
		}
		seen[string(ct)] = true
		last = ct
		pt, err := dec.Decrypt(nil, append([]byte{}, ct...))
		if err != nil || !bytes.Equal(pt, make([]byte, 8)) {
			r.Violation("sealwrap-roundtrip", fam, idx, map[string]any{"rekey": rekey}, "record #%d does not decrypt at the peer: %v", i, err)
			return
		}
		sealed++
	}
	if sealed != 256 {
		r.Violation("seal-after-wrap", fam, idx, map[string]any{"rekey": rekey, "sealed": sealed}, "a crypto with a 1-byte counter sealed %d records, want exactly 256 and then an error (rekey=%v)", sealed, rekey)
		return
	}
	if _, err := dec.Decrypt(nil, append([]byte{}, last...)); err == nil {
		r.Violation("open-after-wrap", fam, idx, map[string]any{"rekey": rekey}, "Decrypt succeeded after the incoming counter wrapped (replayed record accepted)")
		return
	}
	r.Eval(1)
	r.Nontrivial(fmt.Sprintf("sealwrap/rekey=%v/side%v", rekey, side))
}

// ---------- family nearwrap: the REAL overflow lengths (5: aes128gcm, 8: aes128gcmRekey) just below their wrap ----------

// c52NearWrapValue returns cur with its low ovf bytes set to (2^(8*ovf)-1) - k.
func c52NearWrapValue(cur []byte, ovf int, k uint64) []byte {
	v := append([]byte{}, cur...)
	for i := 0; i < ovf; i++ {
		v[i] = 0xFF
	}
	// subtract k (k < 2^16) from the little-endian low bytes
	borrow := k
	for i := 0; i < ovf && borrow > 0; i++ {
		d := borrow & 0xFF
		borrow >>= 8
		if uint64(v[i]) < d {
			v[i] = byte(uint64(v[i]) + 256 - d)
			borrow++
		} else {
			v[i] -= byte(d)
		}
	}
	return v
}

// c52SetCounters positions the out counter of crypto w and/or the in counter of
// crypto r k records before the wrap, keeping the side bit they were created with.
func c52SetCounters(w, r ALTSRecordCrypto, k uint64) (ovf int, ok bool) {
	set := func(c *Counter, o int) {
		cur, _ := c.Value()
		*c = CounterFromValue(c52NearWrapValue(cur, o, k), o)
	}
	switch x := w.(type) {
	case *aes128gcm:
		ovf = overflowLenAES128GCM
		set(&x.outCounter, ovf)
	case *aes128gcmRekey:
		ovf = overflowLenAES128GCMRekey
		set(&x.outCounter, ovf)
	case nil:
	default:
		return 0, false
	}
	switch x := r.(type) {
	case *aes128gcm:
		ovf = overflowLenAES128GCM
		set(&x.inCounter, ovf)
	case *aes128gcmRekey:
		ovf = overflowLenAES128GCMRekey
		set(&x.inCounter, ovf)
	case nil:
	default:
		return 0, false
	}
	return ovf, true
}

func c52NearWrap(r *vlib.Run, fam string, idx int) {
	rng := r.Rand(fam, idx)
	proto := []string{c52ProtoRekey, c52ProtoGCM}[idx%2]
	side := []core.Side{core.ClientSide, core.ServerSide}[(idx/2)%2]
	peer := core.Side(1 - int(side))
	k := uint64(rng.Intn(40)) // records that can still be sealed after the first one
	if rng.Intn(5) == 0 {
		k = 250 + uint64(rng.Intn(20)) // crosses a byte carry on the way to the wrap
	}
	if idx < 4 {
		k = uint64(idx) // must-hit prefix: cases 0..3 cover both cryptos x both sides right at the wrap
	}
	key := c52Key(rng, proto)
	desc := fmt.Sprintf("proto=%s side=%v records-before-wrap=%d", proto, side, k+1)
	r.Progress(fam, idx, desc)
	fail := func(kk, f string, a ...any) {
		r.Violation(kk, fam, idx, map[string]any{"params": desc}, "[%s] "+f, append([]any{desc}, a...)...)
	}
	defer func() {
		if p := recover(); p != nil {
			fail("nearwrap-panic", "panic: %v", p)
		}
	}()
	mkCrypto := func(s core.Side) ALTSRecordCrypto {
		var c ALTSRecordCrypto
		var err error
		if proto == c52ProtoRekey {
			c, err = NewAES128GCMRekey(s, key)
		} else {
			c, err = NewAES128GCM(s, key)
		}
		if err != nil {
			panic(err)
		}
		return c
	}

	// (a) the Counter itself with the configured overflow length, started k below the wrap
	ovf := overflowLenAES128GCM
	if proto == c52ProtoRekey {
		ovf = overflowLenAES128GCMRekey
	}
	func() {
		base := NewOutCounter(side, ovf)
		cur, _ := base.Value()
		c := CounterFromValue(c52NearWrapValue(cur, ovf, k), ovf)
		first, _ := c.Value()
		high := append([]byte{}, first[ovf:]...)
		var n uint64
		prev := uint64(0)
		for n <= k+5 {
			v, err := c.Value()
			if err != nil {
				break
			}
			lowv := c52LE(v[:ovf])
			if n > 0 && lowv <= prev {
				fail("counter-repeats", "Counter(overflowLen %d) started %d below the wrap: value #%d is %#x after %#x — it wrapped instead of becoming invalid", ovf, k, n, lowv, prev)
				return
			}
			if !bytes.Equal(v[ovf:], high) {
				fail("counter-high-bytes-changed", "Counter(overflowLen %d): bytes above the overflow length changed: %x -> %x", ovf, high, v[ovf:])
				return
			}
			prev = lowv
			n++
			c.Inc()
		}
		if n != k+1 {
			fail("counter-wrap-point", "Counter(overflowLen %d) started %d below the wrap yielded %d valid values, want exactly %d", ovf, k, n, k+1)
			return
		}
		for j := 0; j < 300; j++ {
			c.Inc()
			if _, err := c.Value(); err == nil {
				fail("counter-revived", "Counter(overflowLen %d) became valid again %d increments after the wrap", ovf, j+1)
				return
			}
		}
		r.Count("nearwrap_counter_values", int64(n))
	}()

	// record 0..2 of a fresh crypto with the same key and side: what a wrapped counter would reproduce
	pt := make([]byte, 24)
	fresh := mkCrypto(side)
	var early [][]byte
	for j := 0; j < 3; j++ {
		ct, err := fresh.Encrypt(nil, pt)
		if err != nil {
			fail("nearwrap-setup", "fresh Encrypt: %v", err)
			return
		}
		early = append(early, ct)
	}

	// (b) the record crypto built by the exported constructor, counters moved next to the wrap
	func() {
		enc, dec := mkCrypto(side), mkCrypto(peer)
		if _, ok := c52SetCounters(enc, dec, k); !ok {
			fail("nearwrap-setup", "unknown crypto type %T", enc)
			return
		}
		seen := map[string]uint64{}
		for j, e := range early {
			seen[string(e)] = uint64(1<<62) + uint64(j)
		}
		var sealed uint64
		for sealed <= k+4 {
			ct, err := enc.Encrypt(nil, pt)
			if err != nil {
				break
			}
			if j, dup := seen[string(ct)]; dup {
				what := fmt.Sprintf("record #%d", j)
				if j >= 1<<62 {
					what = fmt.Sprintf("record #%d of a fresh connection with the same key", j-(1<<62))
				}
				fail("nonce-reused", "Encrypt #%d (counter started %d below the wrap) produced the ciphertext of %s: key and nonce reused after the counter wrapped", sealed, k, what)
				return
			}
			seen[string(ct)] = sealed
			if sealed <= k {
				if got, err := dec.Decrypt(nil, append([]byte{}, ct...)); err != nil || !bytes.Equal(got, pt) {
					fail("nearwrap-roundtrip", "record #%d before the wrap does not decrypt at the peer: %v", sealed, err)
					return
				}
			}
			sealed++
		}
		if sealed != k+1 {
			fail("seal-after-wrap", "%T with its real overflow length sealed %d records from a counter %d below the wrap; want exactly %d and then an error", enc, sealed, k, k+1)
			return
		}
		// the receiver's counter is exhausted as well: a record sealed under counter 0 must not be accepted
		for j, e := range early {
			if _, err := dec.Decrypt(nil, append([]byte{}, e...)); err == nil {
				fail("open-after-wrap", "receiver whose in-counter wrapped accepted record #%d of a fresh connection (sealed under a repeated counter)", j)
				return
			}
		}
		r.Count("nearwrap_crypto_records", int64(sealed))
	}()

	// (c) through the record protocol: NewConn-level Write/Read
	{
		pipe := &c52Pipe{segMode: rng.Intn(5), rng: rng, eof: true}
		wn, err := NewConnWithMaxFrameSize(&c52Net{in: &c52Pipe{rng: rng, eof: true}, out: pipe}, side, proto, key, nil, 0)
		if err != nil {
			fail("newconn", "%v", err)
			return
		}
		rn, err := NewConnWithMaxFrameSize(&c52Net{in: pipe, out: &c52Pipe{rng: rng}}, peer, proto, key, nil, 0)
		if err != nil {
			fail("newconn", "%v", err)
			return
		}
		if _, ok := c52SetCounters(wn.(*conn).crypto, rn.(*conn).crypto, k); !ok {
			fail("nearwrap-setup", "unknown crypto type %T", wn.(*conn).crypto)
			return
		}
		var written uint64
		var plain []byte
		for written <= k+4 {
			msg := c52Plain(rng, 1+rng.Intn(40))
			n, err := wn.Write(msg)
			if err != nil {
				break
			}
			if n != len(msg) {
				fail("write", "Write(%d) = %d, nil", len(msg), n)
				return
			}
			plain = append(plain, msg...)
			written++
		}
		if written != k+1 {
			fail("seal-after-wrap", "conn.Write kept succeeding after the record counter wrapped: %d single-record writes succeeded from a counter %d below the wrap, want exactly %d (%s)", written, k, k+1, proto)
			return
		}
		recs, perr := c52Parse(pipe.buf)
		if perr != nil || uint64(len(recs)) != k+1 {
			fail("wire-malformed", "%d successful writes left %d parsable records on the wire (%v)", written, len(recs), perr)
			return
		}
		// the peer reads exactly what was written ...
		var got []byte
		var rerr error
		for rerr == nil && len(got) <= len(plain)+64 {
			var b []byte
			b, rerr = c52ReadOnce(rn, 1+rng.Intn(100), rng.Intn(2))
			got = append(got, b...)
		}
		if !bytes.Equal(got, plain) {
			fail("wrong-plaintext", "peer read %d bytes != the %d written before the wrap (err %v)", len(got), len(plain), rerr)
			return
		}
		// ... and then must reject a record sealed under counter 0 (what a wrapped sender would emit)
		wn2, _ := NewConnWithMaxFrameSize(&c52Net{in: &c52Pipe{rng: rng, eof: true}, out: &c52Pipe{rng: rng}}, side, proto, key, nil, 0)
		p2 := wn2.(*conn).Conn.(*c52Net).out
		if _, err := wn2.Write([]byte("replayed under counter zero")); err != nil {
			fail("nearwrap-setup", "fresh conn Write: %v", err)
			return
		}
		pipe.buf = append(pipe.buf, p2.buf...)
		b, err := c52ReadOnce(rn, 64, 0)
		if err == nil || len(b) > 0 {
			fail("open-after-wrap", "receiver whose in-counter is exhausted accepted a record sealed under counter 0: Read = %q, %v", b, err)
			return
		}
		r.Count("nearwrap_conn_records", int64(written))
	}
	r.Eval(1)
	kb := "k<4"
	switch {
	case k >= 250:
		kb = "k>=250(carry)"
	case k >= 4:
		kb = "k4-39"
	}
	r.Nontrivial(fmt.Sprintf("nearwrap/%s/ovf%d/side%v/%s", proto[len("C52_VERIF_"):], ovf, side, kb))
}

func TestVerifC52(t *testing.T) {
	c52Register()
	r := vlib.Start(t, "C52")
	run := func(fam string, n int, f func(*vlib.Run, string, int)) {
		for i := 0; i < n; i++ {
			if r.Want(fam, i) {
				f(r, fam, i)
			}
		}
	}
	run("roundtrip", r.N(1200, 25000), c52Roundtrip)
	run("tamper", r.N(160, 4000), c52TamperCase)
	run("nonce", r.N(8, 40), c52Nonce)
	run("counter", r.N(60, 600), c52CounterCase)
	run("sealwrap", r.N(8, 40), c52SealWrap)
	run("nearwrap", r.N(48, 600), c52NearWrap)
	r.Finish(vlib.Spec{
		Level: "fault_enumeration",
		Rule:  "roundtrip: PRNG scripts of interleaved writes (0..2 MiB, sizes around payload/frame/write-buffer boundaries) and reads (1 B..1 MiB, Read and ReadOnReady) in both directions over a re-segmenting pipe (dribble, coalesce, random, header/record-boundary cuts, bytes pre-read by the handshaker), frame sizes 0/10/4096..524288, both record cryptos; tamper: per written stream an enumerated fault list (bit flips in every field class of first/middle/last record, length-field values, drop/duplicate/swap/reflect records, truncation, byte insert/delete; every 8th case all single-byte corruptions x3 masks of a small stream) each read by a fresh peer to the end; nonce: identical-plaintext records compared pairwise across the 2^8 and 2^16 counter carries (rekey boundary); counter/sealwrap: Counter and record cryptos with overflow length 1..3 run to the wrap; nearwrap: the configured overflow lengths (5 aes128gcm, 8 aes128gcmRekey), both sides, counters placed 0..270 records below the wrap (white-box) at Counter, record-crypto (exported constructors) and NewConn level: exactly k+1 seals, then error; no ciphertext equal to a fresh connection's first records; exhausted receiver rejects a counter-0 record; distinct = (family, crypto, frame-size bucket, segmentation modes, idle-realloc/early/big/full-frame flags) | (crypto, fault class, error class) | ...",
		Assumptions: []string{
			"wire format parsed by the monitor: 4-byte LE length, 4-byte LE type (0x6), ciphertext, 16-byte tag",
			"frame sizes below 4096 (incl. 0 = not negotiated) are clamped to 4096 by design; the limit judged is max(4096, negotiated)",
			"R2: the 3 high bytes of the message-type field are unauthenticated and ignored by the implementation; for them only 'no wrong plaintext' is judged. Dropping whole records at the very end of a stream is indistinguishable from a close and only yields EOF",
			"sealwrap builds aes128gcm/aes128gcmRekey values with a 1-byte overflow length (white-box) because the exported constructors fix it at 5/8 bytes",
		},
		Floor: 60,
	})
}
