// C46 (part 3, white-box in internal/wrr): the weighted picker the xDS resolver
// uses for a route's weighted clusters (wrr.NewRandom), under an ENUMERATED
// random source: playing every value the picker can draw, item i must be
// returned in exact proportion w_i / sum(w).
package wrr

import (
	"fmt"
	"testing"

	vlib "google.golang.org/grpc/internal/verifvlib"
)

func TestVerifC46WRR(t *testing.T) {
	r := vlib.Start(t, "C46")
	orig := randInt64n
	defer func() { randInt64n = orig }()
	const fam = "wrr"
	n := r.N(3000, 60000)
	for i := 0; i < n; i++ {
		if !r.Want(fam, i) {
			continue
		}
		rng := r.Rand(fam, i)
		k := 1 + rng.Intn(5)
		ws := make([]int64, k)
		for j := range ws {
			switch rng.Intn(4) {
			case 0:
				ws[j] = int64(1 + rng.Intn(3))
			case 1:
				ws[j] = int64(1 + rng.Intn(1000))
			default:
				ws[j] = int64(1 + rng.Intn(20))
			}
		}
		if rng.Intn(4) == 0 {
			for j := range ws {
				ws[j] = ws[0] // xDS weighted clusters with equal weights
			}
		}
		var total int64
		w := NewRandom()
		for j, x := range ws {
			w.Add(j, x)
			total += x
		}
		var asked, draw int64
		calls := 0
		randInt64n = func(nn int64) int64 {
			calls++
			asked = nn
			return draw
		}
		draw = 0
		w.Next() // learn the size of the picker's sample space
		space := asked
		if calls != 1 || space <= 0 {
			r.Violation("wrr-random-source-use", fam, i, ws, "weights %v: Next() consulted the random source %d times with n=%d", ws, calls, space)
			continue
		}
		counts := make([]int64, k)
		bad := false
		for d := int64(0); d < space; d++ {
			draw = d
			it, ok := w.Next().(int)
			if !ok || it < 0 || it >= k {
				r.Violation("wrr-returned-foreign-item", fam, i, ws, "weights %v draw %d: Next() returned %v", ws, d, it)
				bad = true
				break
			}
			counts[it]++
		}
		r.Eval(1)
		r.Count("wrr_draws_enumerated", space)
		if bad {
			continue
		}
		for j := range ws {
			if counts[j]*total != ws[j]*space {
				r.Violation("wrr-proportion-not-exact", fam, i, map[string]any{"weights": ws, "counts": counts, "sample_space": space},
					"weights %v: over all %d values of the random source the items were returned %v times; item %d is not in proportion %d/%d", ws, space, counts, j, ws[j], total)
				break
			}
		}
		shape := "unequal"
		if space != total {
			shape = "uniform-path"
		}
		r.Nontrivial(fmt.Sprintf("wrr/items%d/%s", k, shape))
		if i < 2 {
			r.Sample(map[string]any{"weights": ws, "counts": counts, "sample_space": space})
		}
	}
	r.Finish(vlib.Spec{
		Level: "exploration",
		Rule:  "PRNG weight vectors (1-5 items, weights 1..1000, a quarter with all weights equal) added to wrr.NewRandom; randInt64n replaced by an enumerator that plays every value of the picker's sample space once; distinct = (#items, weighted / uniform code path)",
		Assumptions: []string{"weights are >= 1 (xDS validation rejects zero-weight clusters)"},
		Floor:       6,
	})
}
