// C38 (part 1): internal/wrr — the real randomWRR with the package's random
// source (randInt64n) replaced by an enumerator that plays every value once,
// and the real edfWrr judged on every prefix of its pick sequence.
package wrr

import (
	"fmt"
	"math/big"
	"math/rand"
	"testing"

	vlib "google.golang.org/grpc/internal/verifvlib"
)

type c38RandCase struct {
	Weights []int64 `json:"weights"`
	Class   string  `json:"class"`
	Range   int64   `json:"random_range,omitempty"`
	Counts  []int64 `json:"counts,omitempty"`
	Draw    int64   `json:"draw,omitempty"`
}

func c38GenWeights(rng *rand.Rand, i int) ([]int64, string) {
	n := 1 + rng.Intn(12)
	cl := rng.Intn(9)
	if i < 9 {
		cl = i
		n = []int{4, 5, 6, 3, 7, 1, 8, 5, 6}[i]
	}
	ws := make([]int64, n)
	var class string
	switch cl {
	case 0:
		class = "all-equal"
		w := int64(1 + rng.Intn(50))
		for k := range ws {
			ws[k] = w
		}
	case 1:
		class = "all-zero"
	case 2:
		class = "small-with-zeros"
		for k := range ws {
			if rng.Intn(3) != 0 {
				ws[k] = int64(1 + rng.Intn(20))
			}
		}
		ws[rng.Intn(n)] = int64(1 + rng.Intn(20))
		if n > 1 {
			ws[(rng.Intn(n-1)+1)%n] += 21 // never all equal
		}
	case 3:
		class = "leading-zero"
		for k := range ws {
			ws[k] = int64(rng.Intn(10))
		}
		ws[0] = 0
		ws[n-1] = int64(11 + rng.Intn(10))
	case 4:
		class = "one-dominant"
		for k := range ws {
			ws[k] = 1
		}
		ws[rng.Intn(n)] = int64(500 + rng.Intn(3000))
	case 5:
		class = "single"
		ws = []int64{int64(rng.Intn(100))}
	case 6:
		class = "equal-prefix-then-different" // equality must be tracked over ALL items
		w := int64(1 + rng.Intn(9))
		for k := range ws {
			ws[k] = w
		}
		ws[rng.Intn(n)] = w + int64(1+rng.Intn(9))
		if n >= 3 { // ... including when the last two are equal again
			ws[0] = w + 3
			ws[n-1], ws[n-2] = w, w
		}
	case 7:
		class = "trailing-zero"
		for k := range ws {
			ws[k] = int64(1 + rng.Intn(30))
		}
		ws[n-1] = 0
		if n == 1 {
			ws[0] = 5
		}
	default:
		class = "random"
		for k := range ws {
			ws[k] = int64(rng.Intn(400))
		}
	}
	return ws, class
}

func c38GenLarge(rng *rand.Rand) ([]int64, string) {
	n := 2 + rng.Intn(8)
	ws := make([]int64, n)
	for k := range ws {
		switch rng.Intn(4) {
		case 0:
			ws[k] = 0
		case 1:
			ws[k] = int64(1) << uint(20+rng.Intn(36))
		case 2:
			ws[k] = rng.Int63n(int64(1) << 58)
		default:
			ws[k] = int64(1 + rng.Intn(3))
		}
	}
	ws[rng.Intn(n)] = int64(1)<<40 + rng.Int63n(1<<30)
	ws[(rng.Intn(n-1)+1)%n] |= 1 << 33
	return ws, "large"
}

// c38RefItem: the item owning draw r when items own consecutive blocks of
// `weight` draws in insertion order.
func c38RefItem(ws []int64, r int64) int {
	var acc int64
	for k, w := range ws {
		acc += w
		if acc > r {
			return k
		}
	}
	return -1
}

func c38RandomFamily(r *vlib.Run) {
	const fam = "random"
	n := r.N(1500, 40000)
	orig := randInt64n
	defer func() { randInt64n = orig }()
	for i := 0; i < n; i++ {
		if !r.Want(fam, i) {
			continue
		}
		rng := r.Rand(fam, i)
		large := i%10 == 9
		var ws []int64
		var class string
		if large {
			ws, class = c38GenLarge(rng)
		} else {
			ws, class = c38GenWeights(rng, i)
		}
		c := c38RandCase{Weights: ws, Class: class}
		var total int64
		allEqual := true
		for k, w := range ws {
			total += w
			if k > 0 && w != ws[0] {
				allEqual = false
			}
		}
		rw := NewRandom()
		for k, w := range ws {
			rw.Add(k, w)
		}
		var calls int
		var lastN, draw int64
		badRange := false
		randInt64n = func(nn int64) int64 {
			calls++
			lastN = nn
			if nn <= 0 {
				badRange = true
				return 0
			}
			if draw >= nn {
				badRange = true
				return nn - 1
			}
			return draw
		}
		next := func(d int64) (item int, ok bool) {
			draw = d
			calls = 0
			var v any
			func() {
				defer func() {
					if p := recover(); p != nil {
						c.Draw = d
						r.Violation("next-panics", fam, i, c, "randomWRR.Next panicked for draw %d of %d with weights %v: %v", d, lastN, ws, p)
						ok = false
						v = nil
					}
				}()
				v = rw.Next()
				ok = true
			}()
			if !ok {
				return -1, false
			}
			it, isInt := v.(int)
			if !isInt || it < 0 || it >= len(ws) {
				c.Draw = d
				r.Violation("next-returns-foreign-item", fam, i, c, "Next returned %v for weights %v", v, ws)
				return -1, false
			}
			return it, true
		}
		r.Eval(1)
		first, ok := next(0)
		if !ok {
			continue
		}
		if calls != 1 || badRange {
			r.Inconclusive("random case %d: Next consulted the random source %d times (range %d): the enumerator assumes exactly one draw per pick", i, calls, lastN)
			return
		}
		N := lastN
		c.Range = N
		counts := make([]int64, len(ws))
		sig := class
		if N <= 6000 {
			// ---- exhaustive: every value of the random source once
			counts[first]++
			failed := false
			for d := int64(1); d < N; d++ {
				it, ok := next(d)
				if !ok {
					failed = true
					break
				}
				if calls != 1 || lastN != N || badRange {
					r.Inconclusive("random case %d: random source consulted %d times with range %d (first pick used %d)", i, calls, lastN, N)
					return
				}
				counts[it]++
			}
			if failed {
				continue
			}
			r.Count("random_draws_enumerated", N)
			c.Counts = counts
			for k, w := range ws {
				// probability of item k = counts[k]/N must equal w/total (uniform if all equal, incl. all zero)
				var lhs, rhs big.Int
				if allEqual {
					lhs.Mul(big.NewInt(counts[k]), big.NewInt(int64(len(ws))))
					rhs.SetInt64(N)
				} else {
					lhs.Mul(big.NewInt(counts[k]), big.NewInt(total))
					rhs.Mul(big.NewInt(w), big.NewInt(N))
				}
				if lhs.Cmp(&rhs) != 0 {
					key := "probability-not-weight-over-total"
					if w == 0 && !allEqual {
						key = "zero-weight-item-returned"
					} else if allEqual {
						key = "equal-weights-not-uniform"
					}
					r.Violation(key, fam, i, c, "item %d (weight %d of total %d) returned for %d of the %d values of the random source (weights %v)", k, w, total, counts[k], N, ws)
					break
				}
			}
			sig += "/exhaustive"
		} else {
			// ---- large weights: draws at every accumulated-weight boundary -1/0/+1, 0, N-1, random
			if N != total {
				r.Inconclusive("random case %d: random range %d differs from the total weight %d; boundary probing assumes draw in [0,total)", i, N, total)
				return
			}
			probes := []int64{0, 1, N - 1, N - 2}
			var acc int64
			for _, w := range ws {
				acc += w
				for _, d := range []int64{acc - 1, acc, acc + 1} {
					if d >= 0 && d < N {
						probes = append(probes, d)
					}
				}
			}
			for k := 0; k < 16; k++ {
				probes = append(probes, rng.Int63n(N))
			}
			for _, d := range probes {
				if d < 0 || d >= N {
					continue
				}
				it, ok := next(d)
				if !ok {
					break
				}
				r.Count("random_boundary_draws", 1)
				want := c38RefItem(ws, d)
				if it != want {
					c.Draw = d
					key := "probability-not-weight-over-total"
					if ws[it] == 0 {
						key = "zero-weight-item-returned"
					}
					r.Violation(key, fam, i, c, "draw %d of %d returned item %d (weight %d), want item %d: item blocks must have exactly `weight` draws (weights %v)", d, N, it, ws[it], want, ws)
					break
				}
			}
			sig += "/boundaries"
		}
		hasZero := false
		for _, w := range ws {
			if w == 0 {
				hasZero = true
			}
		}
		if len(ws) > 1 {
			r.Nontrivial(fmt.Sprintf("random/%s/n%d/zero%v/equal%v", sig, c38Bucket(len(ws)), hasZero, allEqual))
		}
		if i < 2 {
			r.Sample(c)
		}
	}
}

func c38Bucket(n int) int {
	b := 0
	for n > 0 {
		n /= 2
		b++
	}
	return b
}

type c38EDFCase struct {
	Weights []int64 `json:"weights"`
	Picks   int     `json:"picks"`
	AtPick  int     `json:"at_pick,omitempty"`
	Counts  []int64 `json:"counts,omitempty"`
}

func c38EDFFamily(r *vlib.Run) {
	const fam = "edf"
	n := r.N(400, 8000)
	for i := 0; i < n; i++ {
		if !r.Want(fam, i) {
			continue
		}
		rng := r.Rand(fam, i)
		ne := 1 + rng.Intn(10)
		ws := make([]int64, ne)
		cl := rng.Intn(6)
		for k := range ws {
			switch cl {
			case 0:
				ws[k] = int64(1 + rng.Intn(5))
			case 1:
				ws[k] = int64(1 + rng.Intn(50))
			case 2: // one dominant, many small: ties at integer times
				ws[k] = 1
			case 3:
				ws[k] = int64(1 + rng.Intn(1000000))
			case 4: // zero-weight items among positive ones
				if rng.Intn(3) != 0 {
					ws[k] = int64(1 + rng.Intn(20))
				}
			default:
				ws[k] = int64(3 + rng.Intn(3))
			}
		}
		if cl == 2 {
			ws[rng.Intn(ne)] = int64(50 + rng.Intn(100))
		}
		if cl == 4 {
			ws[rng.Intn(ne)] = int64(1 + rng.Intn(20))
		}
		var total int64
		for _, w := range ws {
			total += w
		}
		picks := 10 * total
		if lim := int64(r.N(60000, 400000)); picks > lim {
			picks = lim
		}
		c := c38EDFCase{Weights: ws, Picks: int(picks)}
		e := NewEDF()
		for k, w := range ws {
			e.Add(k, w)
		}
		counts := make([]int64, ne)
		fn := float64(ne)
		ft := float64(total)
		r.Eval(1)
		failed := false
		var worst float64
		for k := int64(1); k <= picks && !failed; k++ {
			v := e.Next()
			it, ok := v.(int)
			if !ok || it < 0 || it >= ne {
				r.Violation("next-returns-foreign-item", fam, i, c, "EDF Next returned %v", v)
				failed = true
				break
			}
			counts[it]++
			// EDF theory: after k picks with T the k-th earliest deadline, every
			// deadline < T has been served, so k*w/W - 1 <= count <= (k+n)*w/W;
			// one more either way for float64 deadline sums resolving ties.
			fk := float64(k)
			if hi := (fk+fn)*float64(ws[it])/ft + 1 + 1e-9; float64(counts[it]) > hi {
				c.AtPick, c.Counts = int(k), counts
				key := "edf-not-proportional"
				if ws[it] == 0 {
					key = "zero-weight-item-returned"
				}
				r.Violation(key, fam, i, c, "after %d picks item %d (weight %d of %d) was returned %d times, more than the EDF bound %.2f (weights %v)", k, it, ws[it], total, counts[it], hi, ws)
				failed = true
				break
			}
			for j := range ws {
				lo := fk*float64(ws[j])/ft - 2 - 1e-9
				if d := fk*float64(ws[j])/ft - float64(counts[j]); d > worst {
					worst = d
				}
				if float64(counts[j]) < lo {
					c.AtPick, c.Counts = int(k), counts
					r.Violation("edf-not-proportional", fam, i, c, "after %d picks item %d (weight %d of %d) was returned only %d times, fewer than the EDF bound %.2f (weights %v)", k, j, ws[j], total, counts[j], lo, ws)
					failed = true
					break
				}
			}
		}
		r.Count("edf_picks", picks)
		r.Max("edf_worst_lag_x1000", int64(worst*1000))
		if ne > 1 {
			r.Nontrivial(fmt.Sprintf("edf/class%d/n%d/long%v", cl, c38Bucket(ne), picks >= 10*total))
		}
		if i < 1 {
			c.Counts = counts
			r.Sample(c)
		}
	}
}

func TestVerifC38WRR(t *testing.T) {
	r := vlib.Start(t, "C38")
	c38RandomFamily(r)
	c38EDFFamily(r)
	r.Finish(vlib.Spec{
		Level: "exploration",
		Rule: "random: PRNG weight lists (1..12 items; equal, all-zero, zeros mixed in, leading/trailing zero, dominant, equal-prefix-then-different, random) with total <= 6000 — EVERY value of the random source (randInt64n replaced by an enumerator) played once and per-item return counts compared exactly with weight/total; every 10th case uses weights up to 2^58 probed at each accumulated-weight boundary -1/0/+1; distinct = (class, mode, n bucket, has-zero, all-equal) for lists with >1 item. " +
			"edf: PRNG weight lists (1..10 items, weights 1..1e6, zeros among positives, dominant+many-small) picked min(10*total, cap) times with the EDF service bound k*w/W-2 <= count <= (k+n)*w/W+1 checked after every pick; distinct = (class, n bucket, full-length) for lists with >1 item",
		Assumptions: []string{
			"randomWRR consults randInt64n exactly once per Next (otherwise the run is inconclusive)",
			"for totals above 6000 items own consecutive blocks of draws in insertion order (boundary probing)",
			"EDF bound allows one extra pick either way for ties between float64 deadline sums",
		},
		Floor: 30,
	})
}
