// C49 (white-box in internal/xds/server): random Listener protos -> the REAL
// LDS decoder/validation (xdsresource.NewListenerResourceTypeDecoder) -> the
// real newFilterChainManager -> the real lookup, against a reference
// most-specific-match over the PROTO written from the property statement, the
// Envoy FilterChainMatch documentation and gRFC A36:
//
//	supported chains only (no destination_port / server_names / application_protocols,
//	transport_protocol "" or "raw_buffer")
//	1. destination prefix: most specific containing prefix; no prefix_ranges = less specific than /0
//	2. transport protocol: "raw_buffer" beats ""
//	3. source type: SAME_IP_OR_LOOPBACK / EXTERNAL beats ANY
//	4. source prefix: most specific
//	5. source port: listed port beats no ports
//	exactly one survivor -> that chain; none -> default chain (or error); several -> the
//	configuration is ambiguous and must have been rejected by validation.
package server

import (
	"errors"
	"fmt"
	"math/rand"
	"net"
	"net/netip"
	"os"
	"strings"
	"testing"
	"time"

	v3corepb "github.com/envoyproxy/go-control-plane/envoy/config/core/v3"
	v3listenerpb "github.com/envoyproxy/go-control-plane/envoy/config/listener/v3"
	v3routerpb "github.com/envoyproxy/go-control-plane/envoy/extensions/filters/http/router/v3"
	v3httppb "github.com/envoyproxy/go-control-plane/envoy/extensions/filters/network/http_connection_manager/v3"
	"google.golang.org/grpc/connectivity"
	vlib "google.golang.org/grpc/internal/verifvlib"
	"google.golang.org/grpc/internal/xds/bootstrap"
	"google.golang.org/grpc/internal/xds/clients/xdsclient"
	_ "google.golang.org/grpc/internal/xds/httpfilter/router" // registers the router HTTP filter
	"google.golang.org/grpc/internal/xds/xdsclient/xdsresource"
	"google.golang.org/grpc/internal/xds/xdsclient/xdsresource/version"
	"google.golang.org/protobuf/proto"
	"google.golang.org/protobuf/types/known/anypb"
	"google.golang.org/protobuf/types/known/wrapperspb"
)

// ---------------------------------------------------------------- spec of one chain (what the proto says)

type c49Prefix struct {
	Addr string `json:"addr"`
	Bits int    `json:"bits"`
}

func c49IsV4(ip net.IP) bool { return ip.To4() != nil }

// c49IP parses with a cache (the monitor is single-threaded).
var c49IPCache = map[string]net.IP{}

func c49IP(s string) net.IP {
	if ip, ok := c49IPCache[s]; ok {
		return ip
	}
	ip := net.ParseIP(s)
	c49IPCache[s] = ip
	return ip
}

// contains: same family (IPv4-mapped IPv6 counts as IPv4, as the server unmaps
// both prefixes and connection addresses) and the first Bits bits agree.
func (p c49Prefix) contains(ip net.IP) bool {
	a := c49IP(p.Addr)
	var x, y []byte
	switch {
	case c49IsV4(a) && c49IsV4(ip):
		x, y = a.To4(), ip.To4()
	case !c49IsV4(a) && !c49IsV4(ip):
		x, y = a.To16(), ip.To16()
	default:
		return false
	}
	for i := 0; i < p.Bits; i++ {
		if (x[i/8]>>(7-i%8))&1 != (y[i/8]>>(7-i%8))&1 {
			return false
		}
	}
	return true
}

type c49Chain struct {
	Name        string      `json:"name"` // also its route config name: how the chosen chain is recognised
	DstPrefixes []c49Prefix `json:"prefix_ranges,omitempty"`
	SrcType     string      `json:"source_type"` // ANY | SAME_IP_OR_LOOPBACK | EXTERNAL
	SrcPrefixes []c49Prefix `json:"source_prefix_ranges,omitempty"`
	SrcPorts    []uint32    `json:"source_ports,omitempty"`
	Transport   string      `json:"transport_protocol,omitempty"`
	DstPort     uint32      `json:"destination_port,omitempty"`
	ServerNames []string    `json:"server_names,omitempty"`
	ALPN        []string    `json:"application_protocols,omitempty"`
}

func (c c49Chain) supported() bool {
	return c.DstPort == 0 && len(c.ServerNames) == 0 && len(c.ALPN) == 0 && (c.Transport == "" || c.Transport == "raw_buffer")
}

// bestPrefix: -2 no match, -1 no ranges configured, else the longest containing prefix.
func c49BestPrefix(ps []c49Prefix, ip net.IP) int {
	if len(ps) == 0 {
		return -1
	}
	best := -2
	for _, p := range ps {
		if p.contains(ip) && p.Bits > best {
			best = p.Bits
		}
	}
	return best
}

type c49Conn struct {
	Dst     string `json:"local_ip"`
	Src     string `json:"remote_ip"`
	SrcPort int    `json:"remote_port"`
}

// c49Ref returns the surviving chains.  skipDst: the listener is bound to a
// specific address, where grpc-go documents that destination prefixes are not
// considered.
func c49Ref(chains []c49Chain, conn c49Conn, skipDst bool) []int {
	dst, src := c49IP(conn.Dst), c49IP(conn.Src)
	var s []int
	for i, c := range chains {
		if c.supported() {
			s = append(s, i)
		}
	}
	keepMax := func(in []int, score func(int) int) []int {
		max := -2
		for _, i := range in {
			if v := score(i); v > max {
				max = v
			}
		}
		var out []int
		for _, i := range in {
			if v := score(i); v == max && v > -2 {
				out = append(out, i)
			}
		}
		return out
	}
	if !skipDst {
		s = keepMax(s, func(i int) int { return c49BestPrefix(chains[i].DstPrefixes, dst) })
	}
	s = keepMax(s, func(i int) int {
		if chains[i].Transport == "raw_buffer" {
			return 1
		}
		return 0
	})
	connType := "EXTERNAL"
	if dst.Equal(src) || src.IsLoopback() {
		connType = "SAME_IP_OR_LOOPBACK"
	}
	s = keepMax(s, func(i int) int {
		switch chains[i].SrcType {
		case connType:
			return 1
		case "ANY":
			return 0
		}
		return -2
	})
	s = keepMax(s, func(i int) int { return c49BestPrefix(chains[i].SrcPrefixes, src) })
	s = keepMax(s, func(i int) int {
		if len(chains[i].SrcPorts) == 0 {
			return 0
		}
		for _, p := range chains[i].SrcPorts {
			if int(p) == conn.SrcPort {
				return 1
			}
		}
		return -2
	})
	return s
}

// c49MatchesSource: the chain's own source criteria admit the connection
// (safety oracle for listeners bound to a specific address).
func c49MatchesSource(c c49Chain, conn c49Conn) bool {
	dst, src := c49IP(conn.Dst), c49IP(conn.Src)
	if !c.supported() {
		return false
	}
	same := dst.Equal(src) || src.IsLoopback()
	if c.SrcType == "SAME_IP_OR_LOOPBACK" && !same || c.SrcType == "EXTERNAL" && same {
		return false
	}
	if c49BestPrefix(c.SrcPrefixes, src) == -2 {
		return false
	}
	if len(c.SrcPorts) > 0 {
		ok := false
		for _, p := range c.SrcPorts {
			if int(p) == conn.SrcPort {
				ok = true
			}
		}
		return ok
	}
	return true
}

// c49PrefixKey is the identity of a prefix after masking (what makes two
// prefix_ranges "the same destination prefix").
func (p c49Prefix) key() string {
	raw := c49IP(p.Addr).To4()
	if raw == nil {
		raw = c49IP(p.Addr).To16()
	}
	m := append(net.IP(nil), raw...)
	for i := p.Bits; i < len(m)*8; i++ {
		m[i/8] &^= 1 << (7 - i%8)
	}
	return fmt.Sprintf("%s/%d", m, p.Bits)
}

// c49SpecificResult is the reference outcome for a listener bound to a specific
// address.  grpc-go documents that destination prefixes are not considered there
// (every chain proceeds past stage 1); all later stages are specified as usual:
// transport protocol (raw_buffer beats "" among chains of the same destination
// prefix, which is how validated configurations are built), source type,
// source prefix, source port, default chain last.
//
// Because destination prefixes were not used to separate chains, chains that
// differ only in their destination prefix reach the source-prefix stage together;
// grpc-go documents that such configurations are NOT rejected at validation and
// that lookup then fails with "multiple matching filter chains".  Groups counts
// the distinct destination prefixes among the survivors of the source-prefix
// stage: Groups > 1 with several different chains is such a documented tie.
type c49SpecificResult struct {
	Groups    int   // distinct destination prefixes among survivors of the source-prefix stage
	AtPrefix  []int // distinct chains surviving the source-prefix stage
	Survivors []int // distinct chains surviving all stages
}

func c49RefSpecific(chains []c49Chain, conn c49Conn) c49SpecificResult {
	dst, src := c49IP(conn.Dst), c49IP(conn.Src)
	type pair struct {
		c int
		d string
	}
	var ps []pair
	rawBuffer := map[string]bool{}
	for i, c := range chains {
		if !c.supported() {
			continue
		}
		keys := []string{"-"}
		if len(c.DstPrefixes) > 0 {
			keys = nil
			for _, p := range c.DstPrefixes {
				keys = append(keys, p.key())
			}
		}
		for _, k := range keys {
			ps = append(ps, pair{i, k})
			if c.Transport == "raw_buffer" {
				rawBuffer[k] = true
			}
		}
	}
	keepMax := func(in []pair, score func(pair) int) []pair {
		max := -2
		for _, p := range in {
			if v := score(p); v > max {
				max = v
			}
		}
		var out []pair
		for _, p := range in {
			if v := score(p); v == max && v > -2 {
				out = append(out, p)
			}
		}
		return out
	}
	ps = keepMax(ps, func(p pair) int { // transport protocol, per destination prefix
		if rawBuffer[p.d] && chains[p.c].Transport == "" {
			return -2
		}
		return 0
	})
	connType := "EXTERNAL"
	if dst.Equal(src) || src.IsLoopback() {
		connType = "SAME_IP_OR_LOOPBACK"
	}
	ps = keepMax(ps, func(p pair) int {
		switch chains[p.c].SrcType {
		case connType:
			return 1
		case "ANY":
			return 0
		}
		return -2
	})
	ps = keepMax(ps, func(p pair) int { return c49BestPrefix(chains[p.c].SrcPrefixes, src) })
	distinct := func(in []pair) []int {
		seen := map[int]bool{}
		var out []int
		for _, p := range in {
			if !seen[p.c] {
				seen[p.c] = true
				out = append(out, p.c)
			}
		}
		return out
	}
	var res c49SpecificResult
	groups := map[string]bool{}
	for _, p := range ps {
		groups[p.d] = true
	}
	res.Groups, res.AtPrefix = len(groups), distinct(ps)
	ps = keepMax(ps, func(p pair) int {
		if len(chains[p.c].SrcPorts) == 0 {
			return 0
		}
		for _, port := range chains[p.c].SrcPorts {
			if int(port) == conn.SrcPort {
				return 1
			}
		}
		return -2
	})
	res.Survivors = distinct(ps)
	return res
}

// ---------------------------------------------------------------- proto construction

func c49Any(m proto.Message) *anypb.Any {
	a, err := anypb.New(m)
	if err != nil {
		panic(err)
	}
	return a
}

func c49Filters(routeName string) []*v3listenerpb.Filter {
	hcm := &v3httppb.HttpConnectionManager{
		RouteSpecifier: &v3httppb.HttpConnectionManager_Rds{Rds: &v3httppb.Rds{
			ConfigSource:    &v3corepb.ConfigSource{ConfigSourceSpecifier: &v3corepb.ConfigSource_Ads{Ads: &v3corepb.AggregatedConfigSource{}}},
			RouteConfigName: routeName,
		}},
		HttpFilters: []*v3httppb.HttpFilter{{Name: "router", ConfigType: &v3httppb.HttpFilter_TypedConfig{TypedConfig: c49Any(&v3routerpb.Router{})}}},
	}
	return []*v3listenerpb.Filter{{Name: "hcm", ConfigType: &v3listenerpb.Filter_TypedConfig{TypedConfig: c49Any(hcm)}}}
}

func c49Cidrs(ps []c49Prefix) []*v3corepb.CidrRange {
	var out []*v3corepb.CidrRange
	for _, p := range ps {
		out = append(out, &v3corepb.CidrRange{AddressPrefix: p.Addr, PrefixLen: wrapperspb.UInt32(uint32(p.Bits))})
	}
	return out
}

func c49Listener(chains []c49Chain, withDefault bool, listenAddr string) *v3listenerpb.Listener {
	lis := &v3listenerpb.Listener{
		Name: "c49-listener",
		Address: &v3corepb.Address{Address: &v3corepb.Address_SocketAddress{SocketAddress: &v3corepb.SocketAddress{
			Address: listenAddr, PortSpecifier: &v3corepb.SocketAddress_PortValue{PortValue: 8080}}}},
	}
	for _, c := range chains {
		m := &v3listenerpb.FilterChainMatch{
			PrefixRanges:         c49Cidrs(c.DstPrefixes),
			SourceType:           v3listenerpb.FilterChainMatch_ConnectionSourceType(v3listenerpb.FilterChainMatch_ConnectionSourceType_value[c.SrcType]),
			SourcePrefixRanges:   c49Cidrs(c.SrcPrefixes),
			SourcePorts:          c.SrcPorts,
			TransportProtocol:    c.Transport,
			ServerNames:          c.ServerNames,
			ApplicationProtocols: c.ALPN,
		}
		if c.DstPort != 0 {
			m.DestinationPort = wrapperspb.UInt32(c.DstPort)
		}
		lis.FilterChains = append(lis.FilterChains, &v3listenerpb.FilterChain{Name: c.Name, FilterChainMatch: m, Filters: c49Filters(c.Name)})
	}
	if withDefault {
		lis.DefaultFilterChain = &v3listenerpb.FilterChain{Name: "rc-default", Filters: c49Filters("rc-default")}
	}
	return lis
}

// ---------------------------------------------------------------- the real Accept() path
//
// A share of the probes is not handed to lookup() directly but arrives as a
// connection on a real listenerWrapper: created with the exported
// NewListenerWrapper, configured by delivering the decoded Listener (and empty
// route configurations) to the watchers it registers with the xDS client, and
// driven through Accept().  The connection's addresses come in the forms package
// net really produces: 4-byte IPv4, 16-byte IPv4 (net.ParseIP / dual-stack
// sockets), IPv4-mapped literals, zoned link-local IPv6, plain IPv6.  Whatever
// normalisation Accept() performs is thereby part of the code under test.

type c49XDS struct {
	bc  *bootstrap.Config
	lds xdsclient.ResourceWatcher
	rds []xdsclient.ResourceWatcher
}

func (x *c49XDS) BootstrapConfig() *bootstrap.Config { return x.bc }

func (x *c49XDS) WatchResource(typeURL, _ string, w xdsclient.ResourceWatcher) func() {
	if typeURL == version.V3ListenerURL {
		x.lds = w
	} else {
		x.rds = append(x.rds, w)
	}
	return func() {}
}

type c49Conn2 struct {
	local, remote net.Addr
	closed        bool
}

func (c *c49Conn2) Read([]byte) (int, error)         { return 0, errC49NoConn }
func (c *c49Conn2) Write(b []byte) (int, error)      { return len(b), nil }
func (c *c49Conn2) Close() error                     { c.closed = true; return nil }
func (c *c49Conn2) LocalAddr() net.Addr              { return c.local }
func (c *c49Conn2) RemoteAddr() net.Addr             { return c.remote }
func (c *c49Conn2) SetDeadline(time.Time) error      { return nil }
func (c *c49Conn2) SetReadDeadline(time.Time) error  { return nil }
func (c *c49Conn2) SetWriteDeadline(time.Time) error { return nil }

var errC49NoConn = errors.New("c49: no more connections") // not Temporary(): Accept returns it

type c49Lis struct {
	addr net.Addr
	next net.Conn
}

func (l *c49Lis) Accept() (net.Conn, error) {
	if c := l.next; c != nil {
		l.next = nil
		return c, nil
	}
	return nil, errC49NoConn
}
func (l *c49Lis) Close() error   { return nil }
func (l *c49Lis) Addr() net.Addr { return l.addr }

type c49Server struct {
	lis     *c49Lis
	wrapped net.Listener
	serving bool
	forms   map[string]int64
}

// c49Serve brings a listenerWrapper into SERVING with the given (already
// validated) Listener, the way the xDS client would.
func c49Serve(bc *bootstrap.Config, upd xdsresource.ListenerUpdate, listenIP string) (*c49Server, error) {
	x := &c49XDS{bc: bc}
	srv := &c49Server{lis: &c49Lis{addr: &net.TCPAddr{IP: net.ParseIP(listenIP), Port: 8080}}, forms: map[string]int64{}}
	srv.wrapped = NewListenerWrapper(ListenerWrapperParams{
		Listener: srv.lis, ListenerResourceName: "c49-listener", XDSClient: x,
		ModeCallback: func(_ net.Addr, mode connectivity.ServingMode, _ error) { srv.serving = mode == connectivity.ServingModeServing },
	})
	if x.lds == nil {
		return nil, errors.New("NewListenerWrapper registered no Listener watch")
	}
	x.lds.ResourceChanged(&xdsresource.ListenerResourceData{Resource: upd}, func() {})
	for k := 0; k < len(x.rds); k++ { // route configurations requested by the filter chains
		x.rds[k].ResourceChanged(&xdsresource.RouteConfigResourceData{Resource: xdsresource.RouteConfigUpdate{}}, func() {})
	}
	if !srv.serving {
		srv.wrapped.Close()
		return nil, errors.New("listener did not become SERVING after the Listener and all route configurations were delivered")
	}
	return srv, nil
}

// c49TCPAddr renders ip in one of the forms package net produces.
func (s *c49Server) tcpAddr(rng *rand.Rand, ipStr string, port int) *net.TCPAddr {
	ip := c49IP(ipStr)
	if v4 := ip.To4(); v4 != nil {
		switch rng.Intn(3) {
		case 0:
			s.forms["ipv4-4byte"]++
			return &net.TCPAddr{IP: append(net.IP(nil), v4...), Port: port}
		case 1:
			s.forms["ipv4-16byte"]++
			return &net.TCPAddr{IP: append(net.IP(nil), ip.To16()...), Port: port}
		default:
			s.forms["ipv4-mapped-literal"]++
			return &net.TCPAddr{IP: net.ParseIP("::ffff:" + v4.String()), Port: port}
		}
	}
	if ip.IsLinkLocalUnicast() && rng.Intn(3) != 0 {
		s.forms["ipv6-zoned-link-local"]++
		return &net.TCPAddr{IP: ip, Port: port, Zone: "eth0"}
	}
	s.forms["ipv6-plain"]++
	return &net.TCPAddr{IP: ip, Port: port}
}

// accept plays one incoming connection; "error" = the wrapper found no chain and
// closed the connection.
func (s *c49Server) accept(rng *rand.Rand, c c49Conn) (string, error) {
	fc := &c49Conn2{local: s.tcpAddr(rng, c.Dst, 8080), remote: s.tcpAddr(rng, c.Src, c.SrcPort)}
	s.lis.next = fc
	conn, err := s.wrapped.Accept()
	if err != nil {
		if err == errC49NoConn && fc.closed {
			return "error", nil
		}
		return "", fmt.Errorf("Accept: %v (connection closed=%v)", err, fc.closed)
	}
	defer conn.Close()
	// the only place that looks inside the accepted connection: which chain was picked
	cw, ok := conn.(*connWrapper)
	if !ok || cw.filterChain == nil {
		return "", fmt.Errorf("Accept returned %T without a filter chain", conn)
	}
	return cw.filterChain.routeConfigName, nil
}

// ---------------------------------------------------------------- generators

var c49V4Pool = []c49Prefix{{"10.0.0.0", 8}, {"10.1.0.0", 16}, {"10.1.2.0", 24}, {"10.1.2.3", 32}, {"10.1.2.3", 16}, {"192.168.0.0", 16}, {"192.168.7.0", 24}, {"0.0.0.0", 0}, {"127.0.0.0", 8}, {"10.1.2.128", 25}}
var c49V6Pool = []c49Prefix{{"2001:db8::", 32}, {"2001:db8:1::", 48}, {"2001:db8:1::5", 128}, {"::", 0}, {"::1", 128}, {"fe80::", 10}}
var c49Ports = []uint32{1000, 2000, 3000}

func c49GenPrefixes(rng *rand.Rand) []c49Prefix {
	var out []c49Prefix
	n := []int{0, 0, 1, 1, 1, 2}[rng.Intn(6)]
	for ; n > 0; n-- {
		p := c49V4Pool[rng.Intn(len(c49V4Pool))]
		if rng.Intn(4) == 0 {
			p = c49V6Pool[rng.Intn(len(c49V6Pool))]
		}
		// the same range twice in one chain makes the chain overlap with itself
		// (rejected by validation; redundant rather than ambiguous): not generated
		dup := false
		for _, o := range out {
			if o.Bits == p.Bits && o.contains(c49IP(p.Addr)) {
				dup = true
			}
		}
		if !dup {
			out = append(out, p)
		}
	}
	return out
}

func c49AddPort(ps []uint32, p uint32) []uint32 {
	out := append([]uint32(nil), ps...)
	for _, o := range ps {
		if o == p {
			return out
		}
	}
	return append(out, p)
}

func c49AddPrefix(ps []c49Prefix, p c49Prefix) []c49Prefix {
	out := append([]c49Prefix(nil), ps...)
	for _, o := range ps {
		if o.Bits == p.Bits && o.contains(c49IP(p.Addr)) {
			return out
		}
	}
	return append(out, p)
}

func c49GenChain(rng *rand.Rand, idx int) c49Chain {
	c := c49Chain{Name: fmt.Sprintf("rc-%d", idx), SrcType: []string{"ANY", "ANY", "SAME_IP_OR_LOOPBACK", "EXTERNAL"}[rng.Intn(4)]}
	c.DstPrefixes = c49GenPrefixes(rng)
	c.SrcPrefixes = c49GenPrefixes(rng)
	for n := []int{0, 0, 0, 1, 2}[rng.Intn(5)]; n > 0; n-- {
		p := c49Ports[rng.Intn(len(c49Ports))]
		if len(c.SrcPorts) == 0 || c.SrcPorts[0] != p {
			c.SrcPorts = append(c.SrcPorts, p)
		}
	}
	switch rng.Intn(16) {
	case 0:
		c.Transport = "tls" // unsupported: the chain can never match
	case 1, 2, 3:
		c.Transport = "raw_buffer"
	case 4:
		c.DstPort = 443
	case 5:
		c.ServerNames = []string{"example.com"}
	case 6:
		c.ALPN = []string{"h2"}
	}
	return c
}

// c49Addresses: connection addresses derived from the configuration's own
// prefixes (first address, one inside, the last address) plus fixed ones, so
// that every configured boundary is probed.
func c49Addresses(rng *rand.Rand, chains []c49Chain) []string {
	seen := map[string]bool{}
	var out []string
	add := func(ip net.IP) {
		if ip == nil {
			return
		}
		s := ip.String()
		if !seen[s] {
			seen[s] = true
			out = append(out, s)
		}
	}
	for _, s := range []string{"10.1.2.3", "10.9.9.9", "192.168.7.7", "8.8.8.8", "127.0.0.1", "2001:db8:1::5", "2001:db8:2::1", "::1", "fe80::1"} {
		add(net.ParseIP(s))
	}
	for _, c := range chains {
		for _, ps := range [][]c49Prefix{c.DstPrefixes, c.SrcPrefixes} {
			for _, p := range ps {
				base := net.ParseIP(p.Addr)
				raw := base.To4()
				if raw == nil {
					raw = base.To16()
				}
				first := append(net.IP(nil), raw...)
				last := append(net.IP(nil), raw...)
				mid := append(net.IP(nil), raw...)
				for i := p.Bits; i < len(raw)*8; i++ {
					first[i/8] &^= 1 << (7 - i%8)
					last[i/8] |= 1 << (7 - i%8)
					if rng.Intn(2) == 0 {
						mid[i/8] |= 1 << (7 - i%8)
					} else {
						mid[i/8] &^= 1 << (7 - i%8)
					}
				}
				add(first)
				add(last)
				add(mid)
			}
		}
	}
	return out
}

type c49Case struct {
	Chains     []c49Chain `json:"filter_chains"`
	Default    bool       `json:"default_filter_chain"`
	Conn       c49Conn    `json:"connection"`
	Wildcard   bool       `json:"listener_bound_to_wildcard"`
	Got        string     `json:"got"`
	Want       string     `json:"want"`
	DecodeErr  string     `json:"decode_error,omitempty"`
	Ambiguity  []string   `json:"tied_chains,omitempty"`
	AmbigConn  *c49Conn   `json:"tie_witness,omitempty"`
	LookupsRun int        `json:"lookups_run,omitempty"`
}

func c49Names(chains []c49Chain, idx []int) []string {
	out := make([]string, len(idx))
	for i, k := range idx {
		out[i] = chains[k].Name
	}
	return out
}

func c49Lookup(fcm *filterChainManager, conn c49Conn, wildcard bool) (string, error) {
	// the same normalisation listenerWrapper.Accept applies before calling lookup
	d, _ := netip.AddrFromSlice(c49IP(conn.Dst))
	s, _ := netip.AddrFromSlice(c49IP(conn.Src))
	fc, err := fcm.lookup(lookupParams{isUnspecifiedListener: wildcard, dstAddr: d.Unmap(), srcAddr: s.Unmap(), srcPort: conn.SrcPort})
	if err != nil {
		return "", err
	}
	if fc == nil {
		return "", fmt.Errorf("lookup returned (nil, nil)")
	}
	return fc.routeConfigName, nil
}

func TestVerifC49(t *testing.T) {
	r := vlib.Start(t, "C49")
	bc, err := bootstrap.NewConfigFromContents([]byte(`{"xds_servers":[{"server_uri":"ipv4:///127.0.0.1:1","channel_creds":[{"type":"insecure"}]}],"node":{"id":"c49-node"}}`))
	if err != nil {
		r.Inconclusive("bootstrap.NewConfigFromContents: %v", err)
		r.Finish(vlib.Spec{Rule: "setup failed"})
		return
	}
	decoder := xdsresource.NewListenerResourceTypeDecoder(bc, nil)
	const fam = "listener"
	n := r.N(1500, 40000)
	for i := 0; i < n; i++ {
		if !r.Want(fam, i) {
			continue
		}
		rng := r.Rand(fam, i)
		chains := make([]c49Chain, 1+rng.Intn(6))
		for k := range chains {
			chains[k] = c49GenChain(rng, k)
		}
		if rng.Intn(3) == 0 && len(chains) > 1 {
			// near-duplicate of another chain: the raw material of ties
			src := chains[rng.Intn(len(chains)-1)]
			dup := src
			dup.Name = chains[len(chains)-1].Name
			switch rng.Intn(5) {
			case 0: // exact duplicate of the match criteria
			case 1:
				dup.SrcPorts = c49AddPort(src.SrcPorts, c49Ports[rng.Intn(len(c49Ports))])
			case 2:
				dup.SrcPrefixes = c49AddPrefix(src.SrcPrefixes, c49V4Pool[rng.Intn(len(c49V4Pool))])
			case 3:
				dup.DstPrefixes = c49AddPrefix(src.DstPrefixes, c49V4Pool[rng.Intn(len(c49V4Pool))])
			default:
				dup.SrcType = []string{"ANY", "SAME_IP_OR_LOOPBACK", "EXTERNAL"}[rng.Intn(3)]
			}
			chains[len(chains)-1] = dup
		}
		withDefault := rng.Intn(2) == 0
		lis := c49Listener(chains, withDefault, "0.0.0.0")
		r.Progress(fam, i, "decode+lookup")
		res, derr := decoder.Decode(xdsclient.NewAnyProto(c49Any(lis)), xdsclient.DecodeOptions{})

		// reference pass over the probe connections: is the configuration ambiguous?
		addrs := c49Addresses(rng, chains)
		var conns []c49Conn
		for _, d := range addrs {
			for _, s := range addrs {
				for _, p := range []int{1000, 2000, 3000, 4000} {
					conns = append(conns, c49Conn{Dst: d, Src: s, SrcPort: p})
				}
			}
		}
		var tie []int
		var tieConn c49Conn
		survivors := make([][]int, len(conns))
		for k, c := range conns {
			survivors[k] = c49Ref(chains, c, false)
			if len(survivors[k]) > 1 && tie == nil {
				tie, tieConn = survivors[k], c
			}
		}
		r.Eval(1)
		base := c49Case{Chains: chains, Default: withDefault, Wildcard: true}
		if derr != nil {
			base.DecodeErr = derr.Error()
			switch {
			case strings.Contains(derr.Error(), "overlapping matching rules"):
				r.Count("configs_rejected_as_overlapping", 1)
				if tie != nil {
					r.Count("configs_rejected_as_overlapping_and_reference_found_a_tie", 1)
					r.Nontrivial(fmt.Sprintf("rejected-tie/chains%d", len(chains)))
				} else {
					r.Count("configs_rejected_as_overlapping_without_reachable_tie(over-rejection, not judged)", 1)
					if os.Getenv("VERIF_C49_DEBUG") != "" {
						t.Logf("OVER-REJECT %d: %+v", i, chains)
					}
				}
			case strings.Contains(derr.Error(), "no supported filter chains and no default filter chain"):
				r.Count("configs_rejected_nothing_usable", 1)
				usable := false
				for _, c := range chains {
					usable = usable || c.supported()
				}
				if usable || withDefault {
					r.Violation("usable-config-rejected", fam, i, base, "decoder rejected a listener with usable chains: %v", derr)
				}
			default:
				r.Violation("valid-listener-rejected", fam, i, base, "LDS decoder rejected a well-formed listener: %v", derr)
			}
			continue
		}
		lrd, ok := res.Resource.(*xdsresource.ListenerResourceData)
		if !ok || lrd.Resource.TCPListener == nil {
			r.Violation("decode-result-shape", fam, i, base, "decoder returned %T without TCPListener", res.Resource)
			continue
		}
		r.Count("configs_accepted", 1)
		if tie != nil {
			base.Ambiguity, base.AmbigConn = c49Names(chains, tie), &tieConn
			r.Violation("ambiguous-config-accepted", fam, i, base, "validation accepted a listener in which chains %v tie for connection %+v (most-specific-match leaves both): %+v",
				c49Names(chains, tie), tieConn, chains)
			continue
		}
		upd := lrd.Resource
		fcm := newFilterChainManager(&upd.TCPListener.FilterChains, &upd.TCPListener.DefaultFilterChain)
		stages := map[string]bool{}
		directWild, directSpec := make([]string, len(conns)), make([]string, len(conns))
		for k, c := range conns {
			surv := survivors[k]
			want := "error"
			switch {
			case len(surv) == 1:
				want = chains[surv[0]].Name
			case withDefault:
				want = "rc-default"
			}
			got, lerr := c49Lookup(fcm, c, true)
			if lerr != nil {
				got = "error"
			}
			directWild[k] = got
			r.Count("lookups_judged", 1)
			if got != want {
				cc := base
				cc.Conn, cc.Got, cc.Want = c, got, want
				if lerr != nil {
					cc.Got = "error: " + lerr.Error()
				}
				key := "wrong-filter-chain"
				switch {
				case want == "rc-default" && got == "error":
					key = "default-chain-not-used"
				case want == "rc-default" || want == "error":
					key = "chain-selected-although-none-matches"
				case got == "rc-default" || got == "error":
					key = "matching-chain-not-selected"
				}
				r.Violation(key, fam, i, cc, "lookup(local %s, remote %s:%d) = %s, reference most-specific match = %s; chains %+v default=%v", c.Dst, c.Src, c.SrcPort, cc.Got, want, chains, withDefault)
				break
			}
			if len(surv) == 1 {
				w := chains[surv[0]]
				stages[fmt.Sprintf("dst%d/tp%v/st%s/src%d/port%v", c49BestPrefix(w.DstPrefixes, c49IP(c.Dst)), w.Transport != "", w.SrcType[:1], c49BestPrefix(w.SrcPrefixes, c49IP(c.Src)), len(w.SrcPorts) > 0)] = true
			} else {
				stages["fallback/"+want] = true
			}
		}
		for s := range stages {
			r.Nontrivial("win/" + s)
		}

		// listener bound to a specific address: destination prefixes are documented as
		// not considered; every later stage is judged exactly (see c49RefSpecific).
		fcm2 := newFilterChainManager(&upd.TCPListener.FilterChains, &upd.TCPListener.DefaultFilterChain)
		for k, c := range conns {
			got, lerr := c49Lookup(fcm2, c, false)
			if lerr != nil {
				got = "error"
			}
			directSpec[k] = got
			ref := c49RefSpecific(chains, c)
			cc := base
			cc.Wildcard, cc.Conn, cc.Got = false, c, got
			if lerr != nil {
				cc.Got = "error: " + lerr.Error()
			}
			// safety, always: a chosen chain admits the connection
			if got != "error" && got != "rc-default" {
				okc := false
				for _, ch := range chains {
					if ch.Name == got && c49MatchesSource(ch, c) {
						okc = true
					}
				}
				if !okc {
					r.Violation("chain-does-not-admit-connection", fam, i, cc, "lookup on a specific-address listener (remote %s:%d, local %s) chose %s whose source criteria do not admit the connection; chains %+v", c.Src, c.SrcPort, c.Dst, got, chains)
					break
				}
			}
			want := "error"
			switch {
			case len(ref.Survivors) == 1:
				want = chains[ref.Survivors[0]].Name
			case len(ref.Survivors) == 0 && withDefault:
				want = "rc-default"
			}
			cc.Want = want
			switch {
			case ref.Groups > 1 && len(ref.AtPrefix) > 1:
				// documented: chains separated only by their destination prefix are not
				// pre-validated for specific-address listeners; lookup may fail or pick one of them
				r.Count("lookups_specific_address_documented_tie(error or any tied chain accepted)", 1)
				okc := got == "error"
				for _, k := range ref.AtPrefix {
					okc = okc || chains[k].Name == got
				}
				if !okc {
					cc.Ambiguity = c49Names(chains, ref.AtPrefix)
					r.Violation("specific-address-tie-resolved-outside-tied-chains", fam, i, cc, "specific-address listener: chains %v tie at the source-prefix stage for remote %s:%d local %s, lookup returned %s; chains %+v",
						c49Names(chains, ref.AtPrefix), c.Src, c.SrcPort, c.Dst, cc.Got, chains)
				}
				r.Nontrivial("specific/documented-tie")
				continue
			case len(ref.Survivors) > 1:
				// two chains of one destination prefix with identical source criteria: only
				// reachable when validation missed a tie no wildcard probe could reach
				r.Count("lookups_specific_address_unvalidated_duplicate_unjudged", 1)
				continue
			}
			r.Count("lookups_specific_address_listener_judged_exactly", 1)
			if got != want {
				key := "specific-address-wrong-filter-chain"
				switch {
				case ref.Groups > 1 && got == "error":
					// one chain listing several destination prefixes competes with itself
					key = "specific-address-chain-with-several-destination-prefixes-ties-with-itself"
				case want == "rc-default" && got == "error":
					key = "specific-address-default-chain-not-used"
				case want == "rc-default" || want == "error":
					key = "specific-address-chain-selected-although-none-matches"
				case got == "rc-default" || got == "error":
					key = "specific-address-matching-chain-not-selected"
				}
				if r.Violation(key, fam, i, cc, "specific-address listener: lookup(local %s, remote %s:%d) = %s, reference (destination stage skipped, then transport > source type > source prefix > source port) = %s; chains %+v default=%v",
					c.Dst, c.Src, c.SrcPort, cc.Got, want, chains, withDefault) {
					break // one report per listener; a known finding does not stop the judging of the other probes
				}
				continue
			}
			if len(ref.Survivors) == 1 {
				w := chains[ref.Survivors[0]]
				r.Nontrivial(fmt.Sprintf("specific/st%s/src%d/port%v/groups%d", w.SrcType[:1], c49BestPrefix(w.SrcPrefixes, c49IP(c.Src)), len(w.SrcPorts) > 0, ref.Groups))
			} else {
				r.Nontrivial("specific/fallback/" + want)
			}
		}
		// the same probes as real connections through listenerWrapper.Accept(), in
		// every address form package net produces; the chain must be the one the
		// reference-judged lookup of the canonical address gave
		for _, mode := range []struct {
			wildcard bool
			ip       string
			direct   []string
		}{{true, "0.0.0.0", directWild}, {false, "10.1.2.3", directSpec}} {
			u := upd
			if !mode.wildcard { // the Listener resource must name the address the server listens on
				res2, err2 := decoder.Decode(xdsclient.NewAnyProto(c49Any(c49Listener(chains, withDefault, mode.ip))), xdsclient.DecodeOptions{})
				if err2 != nil {
					r.Violation("valid-listener-rejected", fam, i, base, "the same listener bound to %s was rejected: %v", mode.ip, err2)
					continue
				}
				u = res2.Resource.(*xdsresource.ListenerResourceData).Resource
			}
			srv, err := c49Serve(bc, u, mode.ip)
			if err != nil {
				r.Violation("listener-wrapper-not-serving", fam, i, base, "listenerWrapper on %s: %v", mode.ip, err)
				continue
			}
			stride := 1 + len(conns)/1200
			for k := rng.Intn(stride); k < len(conns); k += stride {
				if mode.direct[k] == "" {
					continue // the direct pass stopped at a violation before this probe
				}
				got, err := srv.accept(rng, conns[k])
				r.Count("connections_through_listenerWrapper_Accept", 1)
				if err != nil {
					r.Violation("accept-path-broken", fam, i, base, "listenerWrapper.Accept on %s: %v", mode.ip, err)
					break
				}
				if got != mode.direct[k] {
					cc := base
					cc.Wildcard, cc.Conn, cc.Got, cc.Want = mode.wildcard, conns[k], got, mode.direct[k]
					r.Violation("accept-path-picks-different-chain-than-canonical-address", fam, i, cc,
						"a connection local %s remote %s:%d accepted by listenerWrapper.Accept() (listener on %s; addresses as 4-byte / 16-byte / IPv4-mapped / zoned forms) got chain %s; the most-specific match for the canonical addresses is %s; chains %+v",
						conns[k].Dst, conns[k].Src, conns[k].SrcPort, mode.ip, got, mode.direct[k], chains)
					break
				}
			}
			for f, n := range srv.forms {
				r.Count("accept_address_form_"+f, n)
				r.Nontrivial("accept/" + f + fmt.Sprintf("/wildcard=%v", mode.wildcard))
			}
			srv.wrapped.Close()
		}
		if i < 2 {
			base.LookupsRun = len(conns)
			r.Sample(base)
		}
	}
	r.Finish(vlib.Spec{
		Level: "exploration",
		Rule: "PRNG listeners: 1-6 filter chains with 0-2 destination and source prefixes (v4/v6 pools incl. unmasked, /0, /32, /128), source type, 0-2 source ports, raw_buffer/unsupported transport protocol, dropped criteria (destination_port, server_names, ALPN), a third with a near-duplicate chain, optional default chain -> real LDS decoder; " +
			"probe connections = cross product of (first, inner, last address of every configured prefix + fixed v4/v6/loopback addresses) for local and remote x 4 source ports (hundreds to thousands of lookups per listener); " +
			"every probe connection is looked up twice: listener bound to the wildcard address and to a specific address; up to ~1200 of them per listener and mode additionally arrive as connections on a real listenerWrapper (NewListenerWrapper + watcher callbacks + Accept) with addresses in 4-byte / 16-byte / IPv4-mapped / zoned link-local / plain IPv6 form; " +
			"distinct = winning chain's (destination prefix length, transport, source type, source prefix length, port specificity) or fallback kind, rejected-with-tie per chain count, and for specific-address lookups (source type, source prefix length, port specificity, #destination prefixes reaching the source-prefix stage)",
		Assumptions: []string{
			"reference = Envoy FilterChainMatch / gRFC A36 most-specific-match over the proto; a configuration is ambiguous iff some probe connection leaves two chains after all stages",
			"rejection of a configuration in which no probe connection finds a tie (e.g. tie shadowed by a more specific chain, same prefix listed twice in one chain) is counted, not judged",
			"direct lookup() probes pass canonical (unmapped, zone-less) addresses; the normalisation itself is exercised by the probes that go through listenerWrapper.Accept(), which must pick the chain of the canonical address",
			"listeners bound to a specific address: grpc-go documents that destination prefixes are not considered; the reference skips only that stage and judges transport protocol (per destination prefix), source type, source prefix, source port and the default fallback exactly; chains separated only by their destination prefix are documented as not pre-validated there, so for such ties an error or any tied chain is accepted",
		},
		Floor: 40,
	})
}
