// C51, workload 1 ("direct"): the real xDS resolver + the real dependency
// manager + the real config selector, fed by an in-memory xDS client that
// delivers already-validated resources (no network, no timers).  Each history
// runs inside a synctest bubble, so "the configuration has settled" is exact
// quiescence (synctest.Wait), not a sleep.
package resolver_test

import (
	"context"
	"fmt"
	"math/rand"
	"strings"
	"sync"
	"sync/atomic"
	"testing"
	"testing/synctest"
	"time"

	estats "google.golang.org/grpc/experimental/stats"
	"google.golang.org/grpc/internal"
	"google.golang.org/grpc/internal/testutils"
	"google.golang.org/grpc/internal/xds/bootstrap"
	gxdsclient "google.golang.org/grpc/internal/xds/clients/xdsclient"
	"google.golang.org/grpc/internal/xds/clients/lrsclient"
	"google.golang.org/grpc/internal/xds/clusterspecifier"
	"google.golang.org/grpc/internal/xds/xdsclient"
	"google.golang.org/grpc/internal/xds/xdsclient/xdsresource"
	"google.golang.org/grpc/internal/xds/xdsclient/xdsresource/version"
	"google.golang.org/grpc/resolver"

	vlib "google.golang.org/grpc/internal/verifvlib"
)

const (
	c51Service = "c51-service"
	c51RDSName = "c51-route-config"
)

// ---- in-memory xDS client ----

type c51Watch struct {
	typ, name string
	w         gxdsclient.ResourceWatcher
	cancelled bool
}

type c51Delivery struct {
	w    *c51Watch
	data gxdsclient.ResourceData
}

// c51FakeXDS implements xdsclient.XDSClient.  Like the real client it never
// calls a watcher from inside WatchResource and delivers all callbacks from one
// goroutine, in order.
type c51FakeXDS struct {
	bc   *bootstrap.Config
	mu   sync.Mutex
	cond *sync.Cond
	res  map[[2]string]gxdsclient.ResourceData
	ws   map[[2]string][]*c51Watch
	q    []c51Delivery
	stop bool
	done chan struct{}

	watchesStarted, watchesCancelled, delivered int
}

var _ xdsclient.XDSClient = (*c51FakeXDS)(nil)

func c51NewFakeXDS(bc *bootstrap.Config) *c51FakeXDS {
	f := &c51FakeXDS{bc: bc, res: map[[2]string]gxdsclient.ResourceData{}, ws: map[[2]string][]*c51Watch{}, done: make(chan struct{})}
	f.cond = sync.NewCond(&f.mu)
	go f.loop()
	return f
}

func (f *c51FakeXDS) loop() {
	defer close(f.done)
	for {
		f.mu.Lock()
		for len(f.q) == 0 && !f.stop {
			f.cond.Wait()
		}
		if f.stop {
			f.mu.Unlock()
			return
		}
		d := f.q[0]
		f.q = f.q[1:]
		skip := d.w.cancelled
		if !skip {
			f.delivered++
		}
		f.mu.Unlock()
		if skip {
			continue
		}
		doneCh := make(chan struct{})
		d.w.w.ResourceChanged(d.data, func() { close(doneCh) })
		<-doneCh // ADS flow control: the next update is read only after the watcher is done
	}
}

func (f *c51FakeXDS) close() {
	f.mu.Lock()
	f.stop = true
	f.cond.Broadcast()
	f.mu.Unlock()
	<-f.done
}

func (f *c51FakeXDS) BootstrapConfig() *bootstrap.Config { return f.bc }

func (f *c51FakeXDS) ReportLoad(*bootstrap.ServerConfig) (*lrsclient.LoadStore, func(context.Context)) {
	return nil, func(context.Context) {}
}

func (f *c51FakeXDS) WatchResource(typeURL, name string, w gxdsclient.ResourceWatcher) func() {
	f.mu.Lock()
	defer f.mu.Unlock()
	k := [2]string{typeURL, name}
	cw := &c51Watch{typ: typeURL, name: name, w: w}
	if f.stop {
		cw.cancelled = true
		return func() {}
	}
	f.watchesStarted++
	f.ws[k] = append(f.ws[k], cw)
	if d, ok := f.res[k]; ok {
		f.q = append(f.q, c51Delivery{w: cw, data: d})
		f.cond.Broadcast()
	}
	return func() {
		f.mu.Lock()
		defer f.mu.Unlock()
		if cw.cancelled {
			return
		}
		cw.cancelled = true
		f.watchesCancelled++
		l := f.ws[k]
		for i, x := range l {
			if x == cw {
				f.ws[k] = append(l[:i:i], l[i+1:]...)
				break
			}
		}
	}
}

func (f *c51FakeXDS) set(typeURL, name string, d gxdsclient.ResourceData) {
	f.mu.Lock()
	defer f.mu.Unlock()
	k := [2]string{typeURL, name}
	f.res[k] = d
	for _, cw := range f.ws[k] {
		f.q = append(f.q, c51Delivery{w: cw, data: d})
	}
	f.cond.Broadcast()
}

// ---- route configurations ----

type c51WC struct {
	Name   string `json:"name"`
	Weight uint32 `json:"weight"`
}

type c51Route struct {
	Prefix   string  `json:"prefix"`
	Clusters []c51WC `json:"clusters,omitempty"`
	Plugin   string  `json:"plugin,omitempty"`
}

type c51RouteCfg struct {
	Routes []c51Route `json:"routes"`
}

func (c c51RouteCfg) keys() map[string]bool {
	out := map[string]bool{}
	for _, rt := range c.Routes {
		if rt.Plugin != "" {
			out[c51PluginPrefix+rt.Plugin] = true
		}
		for _, wc := range rt.Clusters {
			out[c51ClusterPrefix+wc.Name] = true
		}
	}
	return out
}

func (c c51RouteCfg) String() string {
	var sb strings.Builder
	for i, rt := range c.Routes {
		if i > 0 {
			sb.WriteString(" ")
		}
		sb.WriteString(rt.Prefix + "->")
		if rt.Plugin != "" {
			sb.WriteString("plugin:" + rt.Plugin)
		}
		for j, wc := range rt.Clusters {
			if j > 0 {
				sb.WriteString("|")
			}
			fmt.Fprintf(&sb, "%s:%d", wc.Name, wc.Weight)
		}
	}
	return sb.String()
}

var (
	c51Clusters = []string{"c0", "c1", "c2", "c3"}
	c51Plugins  = []string{"p0", "p1"}
)

func c51GenRoute(rng *rand.Rand, idx int, allowPlugin bool) c51Route {
	rt := c51Route{Prefix: fmt.Sprintf("/r%d/", idx)}
	switch x := rng.Intn(100); {
	case x < 20 && allowPlugin:
		rt.Plugin = c51Plugins[rng.Intn(len(c51Plugins))]
	case x < 50:
		n := 2 + rng.Intn(2)
		for _, j := range rng.Perm(len(c51Clusters))[:n] {
			rt.Clusters = append(rt.Clusters, c51WC{Name: c51Clusters[j], Weight: uint32(1 + rng.Intn(3))})
		}
	default:
		rt.Clusters = []c51WC{{Name: c51Clusters[rng.Intn(len(c51Clusters))], Weight: 1}}
	}
	return rt
}

func c51GenRouteCfg(rng *rand.Rand, allowPlugin bool) c51RouteCfg {
	n := 1
	if x := rng.Intn(10); x >= 8 {
		n = 3
	} else if x >= 5 {
		n = 2
	}
	var c c51RouteCfg
	for i := 0; i < n; i++ {
		c.Routes = append(c.Routes, c51GenRoute(rng, i, allowPlugin))
	}
	return c
}

func (c c51RouteCfg) update(host string) xdsresource.RouteConfigUpdate {
	vh := &xdsresource.VirtualHost{Domains: []string{host}}
	plugins := map[string]clusterspecifier.BalancerConfig{}
	for _, rt := range c.Routes {
		prefix := rt.Prefix
		xr := &xdsresource.Route{Prefix: &prefix, ActionType: xdsresource.RouteActionRoute}
		if rt.Plugin != "" {
			xr.ClusterSpecifierPlugin = rt.Plugin
			plugins[rt.Plugin] = clusterspecifier.BalancerConfig{{"csp_experimental": map[string]any{"arbitrary_field": rt.Plugin}}}
		}
		for _, wc := range rt.Clusters {
			xr.WeightedClusters = append(xr.WeightedClusters, xdsresource.WeightedCluster{Name: wc.Name, Weight: wc.Weight})
		}
		vh.Routes = append(vh.Routes, xr)
	}
	return xdsresource.RouteConfigUpdate{VirtualHosts: []*xdsresource.VirtualHost{vh}, ClusterSpecifierPlugins: plugins}
}

// ---- histories ----

type c51Act struct {
	Op    string `json:"op"` // route sel commit cc dbl wait gate ungate
	Arg   int    `json:"arg,omitempty"`
	Async bool   `json:"async,omitempty"`
}

type c51History struct {
	Inline  bool          `json:"inline_route_config"`
	Palette []c51RouteCfg `json:"palette"`
	Acts    []c51Act      `json:"acts"`
}

func c51GenHistory(rng *rand.Rand, shape int) c51History {
	h := c51History{Inline: rng.Intn(4) == 0}
	np := 2 + rng.Intn(3)
	for i := 0; i < np; i++ {
		h.Palette = append(h.Palette, c51GenRouteCfg(rng, true))
	}
	switch shape {
	case 0:
		// Must-hit prefix A: overlapping RPCs on a cluster, route moves away, the
		// first RPC commits twice, the second one is still uncommitted.
		a, b := c51Clusters[rng.Intn(2)], c51Clusters[2+rng.Intn(2)]
		h.Palette = []c51RouteCfg{{Routes: []c51Route{{Prefix: "/r0/", Clusters: []c51WC{{a, 1}}}}}, {Routes: []c51Route{{Prefix: "/r0/", Clusters: []c51WC{{b, 1}}}}}}
		h.Acts = []c51Act{{Op: "sel"}, {Op: "sel"}, {Op: "route", Arg: 1}, {Op: "wait"}, {Op: "commit"}, {Op: "dbl"}, {Op: "wait"}, {Op: "route", Arg: 0}, {Op: "wait"}, {Op: "route", Arg: 1}, {Op: "wait"}, {Op: "commit"}, {Op: "wait"}}
		return h
	case 1:
		// Must-hit prefix B: same with a cluster specifier plugin.
		h.Palette = []c51RouteCfg{{Routes: []c51Route{{Prefix: "/r0/", Plugin: "p0"}}}, {Routes: []c51Route{{Prefix: "/r0/", Plugin: "p1"}}}}
		h.Acts = []c51Act{{Op: "sel"}, {Op: "sel"}, {Op: "route", Arg: 1}, {Op: "wait"}, {Op: "commit"}, {Op: "dbl"}, {Op: "wait"}, {Op: "commit"}, {Op: "wait"}}
		return h
	case 2:
		// Must-hit prefix C: events while the channel is still applying the state
		// that removes the cluster (UpdateState parked): selection through the old
		// selector and a commit.
		a, b := c51Clusters[rng.Intn(2)], c51Clusters[2+rng.Intn(2)]
		h.Palette = []c51RouteCfg{{Routes: []c51Route{{Prefix: "/r0/", Clusters: []c51WC{{a, 1}}}}}, {Routes: []c51Route{{Prefix: "/r0/", Clusters: []c51WC{{b, 1}, {a, 1}}}}}, {Routes: []c51Route{{Prefix: "/r0/", Clusters: []c51WC{{b, 1}}}}}}
		h.Acts = []c51Act{{Op: "sel"}, {Op: "gate", Arg: 2}, {Op: "sel"}, {Op: "commit"}, {Op: "ungate"}, {Op: "wait"}, {Op: "commit"}, {Op: "wait"}}
		return h
	case 3:
		// Must-hit prefix D: the route configuration flaps a -> b -> a while the
		// channel is still applying the first change, then moves to b for good
		// with an RPC on a in flight (re-add before the cluster was ever dropped).
		a, b := c51Clusters[rng.Intn(2)], c51Clusters[2+rng.Intn(2)]
		h.Inline = false
		h.Palette = []c51RouteCfg{{Routes: []c51Route{{Prefix: "/r0/", Clusters: []c51WC{{a, 1}}}}}, {Routes: []c51Route{{Prefix: "/r0/", Clusters: []c51WC{{b, 1}}}}}}
		h.Acts = []c51Act{{Op: "gate", Arg: 1}, {Op: "route", Arg: 0}, {Op: "ungate"}, {Op: "wait"}, {Op: "sel"}, {Op: "route", Arg: 1}, {Op: "wait"}, {Op: "commit"}, {Op: "wait"}}
		return h
	}
	n := 6 + rng.Intn(24)
	gated := false
	for i := 0; i < n; i++ {
		x := rng.Intn(100)
		switch {
		case x < 22:
			h.Acts = append(h.Acts, c51Act{Op: "route", Arg: rng.Intn(np)})
		case x < 52:
			arg := rng.Intn(3)
			if rng.Intn(12) == 0 {
				arg = 100
			}
			h.Acts = append(h.Acts, c51Act{Op: "sel", Arg: arg, Async: rng.Intn(3) == 0})
		case x < 72:
			h.Acts = append(h.Acts, c51Act{Op: "commit", Arg: rng.Intn(8), Async: rng.Intn(2) == 0})
		case x < 77:
			h.Acts = append(h.Acts, c51Act{Op: "cc", Arg: rng.Intn(8)})
		case x < 84:
			h.Acts = append(h.Acts, c51Act{Op: "dbl", Arg: rng.Intn(8), Async: rng.Intn(2) == 0})
		case x < 93:
			h.Acts = append(h.Acts, c51Act{Op: "wait"})
		default:
			if gated {
				h.Acts = append(h.Acts, c51Act{Op: "ungate"})
			} else {
				h.Acts = append(h.Acts, c51Act{Op: "gate", Arg: rng.Intn(np)})
			}
			gated = !gated
		}
	}
	return h
}

// c51World is what differs between the two workloads: how a route
// configuration reaches the resolver and how "the resolver has nothing left to
// do" is established.
type c51World interface {
	// install hands a route configuration to the xDS side (asynchronous).
	install(rc c51RouteCfg)
	// idle blocks until the resolver has nothing left to do.  Direct workload:
	// exact (synctest.Wait), always true.  End-to-end workload: polls until the
	// last pushed state reflects the installed route configuration and
	// children == route U held; false if the watchdog expired (inconclusive).
	idle() bool
	// parked blocks until ch is closed (an UpdateState parked) or gives up.
	parked(ch <-chan struct{}) bool
	// drain lets asynchronous consequences of the actions issued so far happen
	// (direct: synctest.Wait; end-to-end: best effort, nothing is judged on it).
	drain()
	// serial reports whether every route update must be followed by idle()
	// (end-to-end workload: keeps real-time histories free of back-to-back
	// updates whose processing order the harness could not observe).
	serial() bool
}

// c51Exec executes one history against a world.
type c51Exec struct {
	mon   *c51Mon
	cc    *c51CC
	w     c51World
	h     c51History
	cur   c51RouteCfg
	// pending: done channels of the asynchronous actions issued so far; main
	// goroutine of the history only.  (Deliberately not a sync.WaitGroup: Go
	// 1.25.0 ties WaitGroups to synctest bubbles by address and a run of ~20000
	// bubbles died with "WaitGroup.Add called from multiple synctest bubbles".)
	pending []chan struct{}
	rng   *rand.Rand
	qchks int
	gates int
	abort bool // a settle watchdog expired (end-to-end only)
}

func (e *c51Exec) setRoute(rc c51RouteCfg) {
	e.cur = rc
	e.mon.setRoute(rc.keys(), rc.String())
	e.w.install(rc)
}

// settle joins the harness' own goroutines, waits for the resolver to be idle
// and (unless an UpdateState is parked) applies the quiescent-point oracle.
func (e *c51Exec) settle(judge bool, where string) bool {
	e.join()
	if !judge {
		return true
	}
	if !e.w.idle() {
		e.abort = true
		return false
	}
	e.mon.quiescentCheck(where)
	e.qchks++
	return true
}

func (e *c51Exec) do(async bool, f func()) {
	if !async {
		f()
		return
	}
	ch := make(chan struct{})
	e.pending = append(e.pending, ch)
	go func() {
		defer close(ch)
		f()
	}()
}

// join waits for every asynchronous action issued so far.
func (e *c51Exec) join() {
	for _, ch := range e.pending {
		<-ch
	}
	e.pending = nil
}

func (e *c51Exec) feature(f string) {
	e.mon.mu.Lock()
	e.mon.feat[f] = true
	e.mon.mu.Unlock()
}

// run executes the actions, then commits everything that is still held and
// probes the final configuration.  The resolver must have pushed its first
// config selector before run is called.
func (e *c51Exec) run() {
	mon, h := e.mon, e.h
	var release func()
	gated := func() bool { return release != nil }
	ungate := func() bool {
		if release == nil {
			return true
		}
		e.join()
		e.w.drain() // let everything that can run while the channel is parked run
		release()
		release = nil
		return e.settle(true, "after-parked-update-state")
	}
	defer func() {
		if release != nil { // never leave the resolver parked
			release()
			release = nil
		}
	}()
	if !e.settle(true, "initial") {
		return
	}
	for _, a := range h.Acts {
		switch a.Op {
		case "route":
			if gated() && e.w.serial() {
				continue
			}
			e.setRoute(h.Palette[a.Arg%len(h.Palette)])
			if e.w.serial() && !e.settle(true, "after-route-update") {
				return
			}
		case "sel":
			// Arg < 100: a route of the configuration handed over last; otherwise
			// a path no route matches (SelectConfig fails, nothing is held).
			method := "/nomatch/m"
			if a.Arg < 100 && len(e.cur.Routes) > 0 {
				method = fmt.Sprintf("/r%d/m", a.Arg%len(e.cur.Routes))
			}
			e.do(a.Async, func() { e.cc.startRPC(method) })
		case "commit":
			held := c51Unclaimed(mon.heldRPCs())
			if len(held) == 0 {
				continue
			}
			rp := held[a.Arg%len(held)]
			rp.claimed = true
			e.do(a.Async, func() { e.cc.commit(rp) })
		case "cc":
			held := c51Unclaimed(mon.heldRPCs())
			if len(held) == 0 {
				continue
			}
			rp := held[a.Arg%len(held)]
			rp.claimed = true
			e.feature("concurrent-double-commit")
			e.do(true, func() { e.cc.commit(rp) })
			e.do(true, func() { e.cc.commit(rp) })
		case "dbl":
			done := mon.committedRPCs()
			if len(done) == 0 {
				continue
			}
			rp := done[a.Arg%len(done)]
			e.do(a.Async, func() { e.cc.commit(rp) })
		case "wait":
			if !e.settle(!gated(), "mid-history") {
				return
			}
		case "gate":
			if gated() {
				continue
			}
			if e.w.serial() && h.Palette[a.Arg%len(h.Palette)].String() == e.cur.String() {
				continue // identical configuration: the real client would not propagate it
			}
			if !e.settle(true, "before-parking") {
				return
			}
			parked, rel := e.cc.armGate()
			e.setRoute(h.Palette[a.Arg%len(h.Palette)])
			if e.w.parked(parked) {
				release = rel
				e.gates++
				e.feature("events-during-update-state")
			} else {
				// No state was pushed for this route update (identical
				// configuration); disarm.
				rel()
				if e.w.serial() && !e.settle(true, "after-route-update") {
					return
				}
			}
		case "ungate":
			if !ungate() {
				return
			}
		}
	}
	if !ungate() || !e.settle(true, "end-of-actions") {
		return
	}

	// Commit everything that is still held, in a random order, some of them
	// concurrently; then the removed clusters must be gone.
	held := c51Unclaimed(mon.heldRPCs())
	e.rng.Shuffle(len(held), func(a, b int) { held[a], held[b] = held[b], held[a] })
	for _, rp := range held {
		rp := rp
		rp.claimed = true
		e.do(e.rng.Intn(2) == 0, func() { e.cc.commit(rp) })
	}
	if !e.settle(true, "all-rpcs-committed") {
		return
	}

	// One probe RPC per route of the final configuration: a fresh selection must
	// land on a cluster of the pushed configuration (O1 at selection time).
	for k := range e.cur.Routes {
		rp := e.cc.startRPC(fmt.Sprintf("/r%d/probe", k))
		rp.claimed = true
		e.cc.commit(rp)
	}
	e.settle(true, "after-probes")
}

// ---- the direct world ----

type c51DirectWorld struct {
	fake   *c51FakeXDS
	inline bool
	key    string
}

func (w *c51DirectWorld) listener(rc *c51RouteCfg) *xdsresource.ListenerResourceData {
	hcm := &xdsresource.HTTPConnectionManagerConfig{
		HTTPFilters: []xdsresource.HTTPFilter{{Name: c51FilterName, Filter: c51FilterBuilder{}, Config: testFilterCfg{path: w.key}}},
	}
	if rc != nil {
		u := rc.update(c51Service)
		hcm.InlineRouteConfig = &u
	} else {
		hcm.RouteConfigName = c51RDSName
	}
	return &xdsresource.ListenerResourceData{Resource: xdsresource.ListenerUpdate{APIListener: hcm}}
}

func (w *c51DirectWorld) install(rc c51RouteCfg) {
	if w.inline {
		w.fake.set(version.V3ListenerURL, c51Service, w.listener(&rc))
		return
	}
	w.fake.set(version.V3RouteConfigURL, c51RDSName, &xdsresource.RouteConfigResourceData{Resource: rc.update(c51Service)})
}

// idle: every goroutine of the bubble (resolver serializer, dependency manager,
// xDS delivery loop) is durably blocked.
func (w *c51DirectWorld) idle() bool { synctest.Wait(); return true }

func (w *c51DirectWorld) parked(ch <-chan struct{}) bool {
	synctest.Wait()
	select {
	case <-ch:
		return true
	default:
		return false
	}
}

func (w *c51DirectWorld) serial() bool { return false }
func (w *c51DirectWorld) drain()       { synctest.Wait() }

func c51RunDirect(t *testing.T, r *vlib.Run, bc *bootstrap.Config, fam string, i int, h c51History) (*c51Exec, *c51FakeXDS) {
	key := fmt.Sprintf("c51/%s/%d/%d", fam, r.Seed(), i)
	mon := c51NewMon(key, true)
	mon.exactQ = true
	c51Monitors.Store(key, mon)
	defer c51Monitors.Delete(key)
	fake := c51NewFakeXDS(bc)
	w := &c51DirectWorld{fake: fake, inline: h.Inline, key: key}
	e := &c51Exec{mon: mon, cc: c51NewCC(mon), w: w, h: h, rng: r.Rand(fam+"/exec", i)}

	for _, c := range c51Clusters {
		fake.set(version.V3ClusterURL, c, &xdsresource.ClusterResourceData{Resource: xdsresource.ClusterUpdate{ClusterType: xdsresource.ClusterTypeEDS, ClusterName: c}})
		fake.set(version.V3EndpointsURL, c, &xdsresource.EndpointsResourceData{Resource: xdsresource.EndpointsUpdate{}})
	}
	if !h.Inline {
		fake.set(version.V3ListenerURL, c51Service, w.listener(nil))
	}
	e.setRoute(h.Palette[0])

	builder, err := internal.NewXDSResolverWithClientForTesting.(func(xdsclient.XDSClient) (resolver.Builder, error))(fake)
	if err != nil {
		r.Inconclusive("direct: cannot create resolver builder: %v", err)
		fake.close()
		return e, fake
	}
	res, err := builder.Build(resolver.Target{URL: *testutils.MustParseURL("xds:///" + c51Service)}, e.cc, resolver.BuildOptions{Authority: c51Service, MetricsRecorder: estats.MetricsRecorder(nil)})
	if err != nil {
		r.Inconclusive("direct: Build failed: %v", err)
		fake.close()
		return e, fake
	}
	defer func() {
		e.join()
		res.Close()
		fake.close()
		synctest.Wait()
	}()

	synctest.Wait()
	select {
	case <-e.cc.ready:
	default:
		r.Inconclusive("direct %s/%d: resolver quiescent without having pushed a config selector (trace %v)", fam, i, mon.trace)
		return e, fake
	}
	e.run()
	return e, fake
}

// c51Unclaimed filters out RPCs that an earlier (possibly still running,
// asynchronous) commit action already owns: handing the same held RPC to two
// "commit" actions would be an unintended double commit.  claimed is touched by
// the history's main goroutine only.
func c51Unclaimed(rs []*c51RPC) []*c51RPC {
	var out []*c51RPC
	for _, r := range rs {
		if !r.claimed {
			out = append(out, r)
		}
	}
	return out
}

// ---- driver ----

type c51Detail struct {
	History    any            `json:"history"`
	Violations []c51Violation `json:"violations"`
	Trace      []string       `json:"trace"`
}

// c51Report turns the per-history monitor into evidence and verdicts.
func c51Report(r *vlib.Run, fam string, i int, mon *c51Mon, h any, sigPrefix string) {
	r.Eval(1)
	mon.mu.Lock()
	viol := append([]c51Violation(nil), mon.viol...)
	trace := append([]string(nil), mon.trace...)
	pushes, rpcs, icpts := len(mon.pushes), len(mon.rpcs), len(mon.icpts)
	var commits, doubles, selFailed, icptClosed, readded int64
	for _, rp := range mon.rpcs {
		if rp.commitCalls > 0 {
			commits++
		}
		if rp.commitCalls > 1 {
			doubles++
		}
		if rp.state == c51SelectFailed {
			selFailed++
		}
	}
	for _, ic := range mon.icpts {
		if ic.closed > 0 {
			icptClosed++
		}
	}
	for _, v := range mon.reAdded {
		if v {
			readded++
		}
	}
	heldAtPush, offRoute, errs, xdsMiss := mon.heldAtPsh, mon.offRoute, mon.errors, mon.xdsMiss
	mon.mu.Unlock()
	r.Count(sigPrefix+"_observed_held_cluster_missing_from_xdsconfig", int64(xdsMiss))
	r.Count(sigPrefix+"_states_pushed", int64(pushes))
	r.Count(sigPrefix+"_rpcs_selected", int64(rpcs)-selFailed)
	r.Count(sigPrefix+"_select_no_route", selFailed)
	r.Count(sigPrefix+"_rpcs_committed", commits)
	r.Count(sigPrefix+"_rpcs_commit_hook_called_twice_or_more", doubles)
	r.Count(sigPrefix+"_pushes_judged_with_held_rpc", int64(heldAtPush))
	r.Count(sigPrefix+"_held_rpc_x_push_pairs_cluster_off_route", int64(offRoute))
	r.Count(sigPrefix+"_interceptors_built", int64(icpts))
	r.Count(sigPrefix+"_interceptors_closed", icptClosed)
	r.Count(sigPrefix+"_clusters_readded_before_drop", readded)
	r.Count(sigPrefix+"_report_error_calls", int64(errs))
	if sig, ok := mon.signature(); ok {
		r.Nontrivial(sigPrefix + ":" + sig)
	}
	for _, v := range viol {
		r.Violation(v.Key, fam, i, c51Detail{History: h, Violations: viol, Trace: trace}, "%s", v.Msg)
	}
}

func c51Bootstrap() (*bootstrap.Config, error) {
	bs, err := bootstrap.NewContentsForTesting(bootstrap.ConfigOptionsForTesting{
		Servers: []byte(`[{"server_uri": "passthrough:///c51-unused", "channel_creds": [{"type": "insecure"}]}]`),
		Node:    []byte(`{"id": "c51-node"}`),
	})
	if err != nil {
		return nil, err
	}
	return bootstrap.NewConfigFromContents(bs)
}

func TestVerifC51Direct(t *testing.T) {
	r := vlib.Start(t, "C51")
	stop := r.Watchdog(time.Duration(r.N(8, 38)) * time.Minute)
	defer stop()
	bc, err := c51Bootstrap()
	if err != nil {
		r.Inconclusive("cannot build bootstrap config: %v", err)
		r.Finish(vlib.Spec{Rule: "setup failed"})
		return
	}
	const fam = "direct"
	n := r.N(3000, 40000)
	workers := 16
	var qchecks, gates atomic.Int64
	t.Run("histories", func(t *testing.T) {
		for w := 0; w < workers; w++ {
			w := w
			t.Run(fmt.Sprintf("w%d", w), func(t *testing.T) {
				t.Parallel()
				for i := w; i < n; i += workers {
					if !r.Want(fam, i) {
						continue
					}
					shape := 4 // random
					if i < 48 {
						shape = i % 5
					}
					h := c51GenHistory(r.Rand(fam, i), shape)
					r.Progress(fam, i, fmt.Sprintf("shape=%d acts=%d", shape, len(h.Acts)))
					var mon *c51Mon
					synctest.Test(t, func(t *testing.T) {
						e, fake := c51RunDirect(t, r, bc, fam, i, h)
						mon = e.mon
						qchecks.Add(int64(e.qchks))
						gates.Add(int64(e.gates))
						r.Count("direct_xds_watches_started", int64(fake.watchesStarted))
						r.Count("direct_xds_watches_cancelled", int64(fake.watchesCancelled))
					})
					c51Report(r, fam, i, mon, h, "direct")
					if i < 2 {
						mon.mu.Lock()
						r.Sample(map[string]any{"family": fam, "case": i, "history": h, "trace": append([]string(nil), mon.trace...)})
						mon.mu.Unlock()
					}
				}
			})
		}
	})
	r.Count("direct_quiescent_checks", qchecks.Load())
	r.Count("direct_pushes_parked_inside_update_state", gates.Load())
	r.Finish(vlib.Spec{
		Level: "exploration",
		Rule: "PRNG-generated histories over 4 clusters + 2 cluster specifier plugins (palette of 2-4 route configurations with single / weighted / plugin routes; actions: route update, SelectConfig through the real SafeConfigSelector (sync or in its own goroutine), OnCommitted of a held RPC, two concurrent OnCommitted calls, repeated OnCommitted of a committed RPC, quiescent check, park the channel inside UpdateState while further actions run); the first 48 cases cycle through four fixed must-hit shapes (and random ones). The real resolver + dependency manager + config selector run in a synctest bubble against an in-memory xDS client. Non-trivial = at least one state was pushed while an uncommitted RPC held a cluster outside the then-current route configuration; distinct = (off-route pair bucket, max RPCs on one cluster, double commit, re-added cluster, plugin, features)",
		Assumptions: []string{
			"the harness plays the channel faithfully: config selectors are swapped through the real iresolver.SafeConfigSelector inside UpdateState, an RPC never calls SelectConfig on a selector after the UpdateState that replaced it returned",
			"CDS/EDS resources of all clusters exist for the whole history and LDS/RDS resources are never deleted (resource-deletion states '{}' are outside the property's quantifier and are not judged)",
			"synctest.Wait() is exact quiescence of the resolver serializer, the dependency manager and the in-memory xDS client",
		},
		Floor: 12,
	})
}
