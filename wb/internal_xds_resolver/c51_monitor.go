// C51: a cluster stays usable until every RPC routed to it is committed.
//
// Shared monitor for the two C51 workloads (c51_direct.go, c51_e2e.go).  It
// sits at the resolver's boundary and records, under its own mutex:
//
//   - every resolver.State pushed through resolver.ClientConn.UpdateState
//     (stamped on entry, before the channel would apply it): the children of the
//     xds_cluster_manager service config and the clusters carried by the
//     XDSConfig attribute;
//   - every RPC: SelectConfig call/return (through the real
//     iresolver.SafeConfigSelector, exactly like grpc.ClientConn does),
//     OnCommitted call/return;
//   - every interceptor built by a tracking HTTP filter: NewStream and Close.
//
// Oracles (all safety facts, written from the property statement):
//
//	O1 every state pushed while an RPC is between "SelectConfig returned X" and
//	   "OnCommitted called" contains X in the service config; the state that is
//	   current when SelectConfig returns contains X as well.
//	    (Observation only, never a verdict: whether the XDSConfig attribute of
//	    such a state also carries X's cluster resource.  The statement speaks of
//	    the channel's configuration, i.e. the service config; counted as
//	    "held_cluster_missing_from_xdsconfig".)
//	O2 the interceptor handed to an RPC is not closed before that RPC's
//	   OnCommitted is called.
//	O3 (judged only at exact quiescent points, i.e. in the synctest workload) a
//	   cluster that is neither in the route configuration nor held by an
//	   uncommitted RPC is absent from the last pushed service config, and every
//	   cluster of the route configuration is present.
//
// "A second invocation of the commit hook changes nothing" needs no oracle of
// its own: a double decrement drops a cluster / closes an interceptor that an
// overlapping RPC still holds, which O1/O2 report.
package resolver_test

import (
	"context"
	"encoding/json"
	"fmt"
	"sort"
	"strings"
	"sync"

	"google.golang.org/grpc"
	"google.golang.org/grpc/internal/xds/balancer/clustermanager"
	"google.golang.org/grpc/internal/xds/httpfilter"
	"google.golang.org/grpc/internal/xds/xdsclient/xdsresource"
	"google.golang.org/grpc/resolver"
	"google.golang.org/grpc/serviceconfig"
	"google.golang.org/protobuf/proto"

	iresolver "google.golang.org/grpc/internal/resolver"
)

const (
	c51ClusterPrefix = "cluster:"
	c51PluginPrefix  = "cluster_specifier_plugin:"
	c51FilterTypeURL = "verif.c51.tracking_filter"
	c51FilterName    = "c51-tracker"
)

// RPC states.
const (
	c51Selecting = iota
	c51Held
	c51CommitCalled
	c51CommitReturned
	c51SelectFailed
)

type c51Push struct {
	idx      int
	children map[string]bool // keys of the cluster manager's children map
	xdsOK    map[string]bool // cluster names with an error-free entry in XDSConfig.Clusters
	hasXDS   bool
	errCfg   bool // "{}" (resource error) or unparsable
	raw      string
	routeSig string // printed form of the routes in the XDSConfig attribute
	returned bool
}

type c51RPC struct {
	id          int
	method      string
	cluster     string // child key picked by the config selector
	state       int
	icpt        *c51Interceptor
	res         *iresolver.RPCConfig
	commitCalls int
	selPush     int  // index of the latest push when SelectConfig returned
	claimed     bool // harness-local, main goroutine of the history only
}

type c51Violation struct {
	Key string `json:"key"`
	Msg string `json:"msg"`
}

// c51Mon is the per-history monitor.
type c51Mon struct {
	mu        sync.Mutex
	name      string
	checkXDS  bool
	exactQ    bool // quiescent points are exact (direct workload): O3 is judged
	pushes    []*c51Push
	rpcs      []*c51RPC
	icpts     []*c51Interceptor
	trace     []string
	viol      []c51Violation
	violKeys  map[string]bool
	// reAdded[k]: k re-entered the route configuration although it had not been
	// seen absent from the pushed configuration at any quiescent point since it
	// last left the route configuration (input class "re-added before it was
	// dropped").
	reAdded   map[string]bool
	dropped   map[string]bool // k seen absent at a quiescent point since it last left the route configuration
	everRoute map[string]bool
	xdsMiss   int // observation: (push, held RPC) pairs whose cluster resource was absent from XDSConfig
	xdsMissEx string
	errors    int             // ReportError calls
	pushCh    chan struct{}   // cap 1, poked on every push (e2e polling)
	feat      map[string]bool // features observed (for the non-triviality signature)
	heldAtPsh int             // pushes judged with >=1 held RPC
	offRoute  int             // (push, held RPC) pairs whose cluster was outside the current route configuration
	route     map[string]bool // child keys of the most recently *installed* route configuration (harness intent)
	routeSig  string          // its printed form (compared with c51Push.routeSig by the end-to-end workload)
}

func c51NewMon(name string, checkXDS bool) *c51Mon {
	return &c51Mon{name: name, checkXDS: checkXDS, violKeys: map[string]bool{}, reAdded: map[string]bool{}, dropped: map[string]bool{}, everRoute: map[string]bool{},
		pushCh: make(chan struct{}, 1), feat: map[string]bool{}, route: map[string]bool{}}
}

func (m *c51Mon) logLocked(format string, args ...any) {
	if len(m.trace) < 600 {
		m.trace = append(m.trace, fmt.Sprintf(format, args...))
	}
}

func (m *c51Mon) log(format string, args ...any) {
	m.mu.Lock()
	m.logLocked(format, args...)
	m.mu.Unlock()
}

// keyFor appends the input-class suffix: a violation that concerns a cluster
// which was removed from the route configuration and re-added before the
// resolver was seen (at a quiescent point) to have dropped it is a different
// input class from one that shows on a first removal or on a re-add after a
// clean drop.
func (m *c51Mon) keyForLocked(base, child string) string {
	if m.reAdded[child] {
		return base + "-readd-before-drop"
	}
	return base
}

func (m *c51Mon) violLocked(key, format string, args ...any) {
	if m.violKeys[key] {
		return
	}
	m.violKeys[key] = true
	msg := fmt.Sprintf(format, args...)
	m.viol = append(m.viol, c51Violation{Key: key, Msg: msg})
	m.logLocked("!! %s: %s", key, msg)
}

// setRoute records the harness' intent: the child keys of the route
// configuration that has just been handed to the xDS side.
func (m *c51Mon) setRoute(keys map[string]bool, sig string) {
	m.mu.Lock()
	defer m.mu.Unlock()
	for k := range keys {
		if !m.route[k] && m.everRoute[k] && !m.dropped[k] {
			m.reAdded[k] = true
		}
		m.everRoute[k] = true
	}
	for k := range m.route {
		if !keys[k] {
			m.dropped[k] = false // leaves the route configuration now
		}
	}
	m.route = keys
	m.routeSig = sig
	m.logLocked("route := %s  %v", sig, c51Keys(keys))
}

func c51Keys(s map[string]bool) []string {
	out := make([]string, 0, len(s))
	for k, v := range s {
		if v {
			out = append(out, k)
		}
	}
	sort.Strings(out)
	return out
}

// ---- service config parsing (the channel's side of ParseServiceConfig) ----

type c51SC struct {
	serviceconfig.Config
	raw      string
	children map[string]bool
	errCfg   bool
}

func c51ParseSC(js string) *serviceconfig.ParseResult {
	sc := &c51SC{raw: js, children: map[string]bool{}}
	var top struct {
		LB []map[string]json.RawMessage `json:"loadBalancingConfig"`
	}
	if err := json.Unmarshal([]byte(js), &top); err != nil {
		return &serviceconfig.ParseResult{Err: err}
	}
	if len(top.LB) == 0 {
		sc.errCfg = true
		return &serviceconfig.ParseResult{Config: sc}
	}
	raw, ok := top.LB[0]["xds_cluster_manager_experimental"]
	if !ok {
		sc.errCfg = true
		return &serviceconfig.ParseResult{Config: sc}
	}
	var cm struct {
		Children map[string]json.RawMessage `json:"children"`
	}
	if err := json.Unmarshal(raw, &cm); err != nil {
		return &serviceconfig.ParseResult{Err: err}
	}
	for k := range cm.Children {
		sc.children[k] = true
	}
	return &serviceconfig.ParseResult{Config: sc}
}

// ---- pushes ----

func (m *c51Mon) onPush(s resolver.State) *c51Push {
	p := &c51Push{children: map[string]bool{}, xdsOK: map[string]bool{}}
	if s.ServiceConfig == nil || s.ServiceConfig.Err != nil {
		p.errCfg = true
	} else if sc, ok := s.ServiceConfig.Config.(*c51SC); ok {
		p.children, p.errCfg, p.raw = sc.children, sc.errCfg, sc.raw
	} else {
		p.errCfg = true
	}
	if xc := xdsresource.XDSConfigFromResolverState(s); xc != nil {
		p.hasXDS = true
		for name, cr := range xc.Clusters {
			if cr != nil && cr.Err == nil {
				p.xdsOK[name] = true
			}
		}
		p.routeSig = c51RouteSig(xc.VirtualHost)
	}
	m.mu.Lock()
	defer m.mu.Unlock()
	p.idx = len(m.pushes)
	m.pushes = append(m.pushes, p)
	m.logLocked("push#%d enter children=%v xds=%v err=%v", p.idx, c51Keys(p.children), c51Keys(p.xdsOK), p.errCfg)
	held := 0
	for _, r := range m.rpcs {
		if r.state != c51Held {
			continue
		}
		held++
		if !m.route[r.cluster] {
			m.offRoute++
		}
		m.judgeLocked(p, r, "pushed while the RPC is uncommitted")
	}
	if held > 0 {
		m.heldAtPsh++
	}
	select {
	case m.pushCh <- struct{}{}:
	default:
	}
	return p
}

// judgeLocked applies O1 / O1x to (push, held RPC).
func (m *c51Mon) judgeLocked(p *c51Push, r *c51RPC, when string) {
	if p.errCfg {
		// Resource-error configs ("{}") are outside the property's quantifier
		// (route configuration updates); the workloads never provoke them.
		m.feat["errcfg-with-held-rpc"] = true
		return
	}
	if !p.children[r.cluster] {
		m.violLocked(m.keyForLocked("held-cluster-missing-from-service-config", r.cluster),
			"push#%d %s: rpc#%d (%s) holds %q (selected, OnCommitted not yet called) but the service config children are %v",
			p.idx, when, r.id, r.method, r.cluster, c51Keys(p.children))
	}
	if m.checkXDS && p.hasXDS && strings.HasPrefix(r.cluster, c51ClusterPrefix) {
		if name := strings.TrimPrefix(r.cluster, c51ClusterPrefix); !p.xdsOK[name] {
			// Observation only (see the header comment).
			m.xdsMiss++
			if m.xdsMissEx == "" {
				m.xdsMissEx = fmt.Sprintf("push#%d %s: rpc#%d holds %q, XDSConfig has cluster resources for %v only", p.idx, when, r.id, r.cluster, c51Keys(p.xdsOK))
			}
			m.logLocked("observation: push#%d lacks the cluster resource of held %q in XDSConfig", p.idx, r.cluster)
		}
	}
}

func (m *c51Mon) pushReturned(p *c51Push) {
	m.mu.Lock()
	p.returned = true
	m.logLocked("push#%d return", p.idx)
	m.mu.Unlock()
}

func (m *c51Mon) numPushes() int {
	m.mu.Lock()
	defer m.mu.Unlock()
	return len(m.pushes)
}

func (m *c51Mon) lastPush() *c51Push {
	m.mu.Lock()
	defer m.mu.Unlock()
	if len(m.pushes) == 0 {
		return nil
	}
	return m.pushes[len(m.pushes)-1]
}

// ---- RPCs ----

type c51HolderKey struct{}

type c51Holder struct{ rpc *c51RPC }

func (m *c51Mon) selectBegin(method string) *c51RPC {
	m.mu.Lock()
	defer m.mu.Unlock()
	r := &c51RPC{id: len(m.rpcs), method: method, state: c51Selecting, selPush: -1}
	m.rpcs = append(m.rpcs, r)
	m.logLocked("rpc#%d select %s call", r.id, method)
	return r
}

func (m *c51Mon) selectEnd(r *c51RPC, res *iresolver.RPCConfig, err error) {
	m.mu.Lock()
	defer m.mu.Unlock()
	if err != nil || res == nil {
		r.state = c51SelectFailed
		m.logLocked("rpc#%d select failed: %v", r.id, err)
		return
	}
	r.res = res
	r.cluster = clustermanager.PickedCluster(res.Context)
	r.state = c51Held
	m.logLocked("rpc#%d select return cluster=%q", r.id, r.cluster)
	if n := len(m.pushes); n > 0 {
		r.selPush = n - 1
		m.judgeLocked(m.pushes[n-1], r, "is the channel's configuration when SelectConfig returned")
	}
}

func (m *c51Mon) commitBegin(r *c51RPC) {
	m.mu.Lock()
	defer m.mu.Unlock()
	r.commitCalls++
	if r.state == c51Held {
		r.state = c51CommitCalled
	}
	m.logLocked("rpc#%d OnCommitted call #%d", r.id, r.commitCalls)
}

func (m *c51Mon) commitEnd(r *c51RPC) {
	m.mu.Lock()
	defer m.mu.Unlock()
	if r.state == c51CommitCalled {
		r.state = c51CommitReturned
	}
	m.logLocked("rpc#%d OnCommitted return", r.id)
}

func (m *c51Mon) heldRPCs() []*c51RPC {
	m.mu.Lock()
	defer m.mu.Unlock()
	var out []*c51RPC
	for _, r := range m.rpcs {
		if r.state == c51Held {
			out = append(out, r)
		}
	}
	return out
}

func (m *c51Mon) committedRPCs() []*c51RPC {
	m.mu.Lock()
	defer m.mu.Unlock()
	var out []*c51RPC
	for _, r := range m.rpcs {
		if r.state == c51CommitReturned {
			out = append(out, r)
		}
	}
	return out
}

// ---- tracking HTTP filter ----

// c51Monitors maps the "path" field of the filter's config to the monitor of
// the history that configured it (the filter registry is global).
var c51Monitors sync.Map

type c51FilterBuilder struct{}

func (c51FilterBuilder) TypeURLs() []string { return []string{c51FilterTypeURL} }
func (c51FilterBuilder) ParseFilterConfig(cfg proto.Message, _ httpfilter.ParseOptions) (httpfilter.FilterConfig, error) {
	return filterConfigFromProto(cfg)
}
func (c51FilterBuilder) ParseFilterConfigOverride(cfg proto.Message, _ httpfilter.ParseOptions) (httpfilter.FilterConfig, error) {
	return filterConfigFromProto(cfg)
}
func (c51FilterBuilder) IsTerminal() bool { return false }
func (c51FilterBuilder) BuildClientFilter(httpfilter.ClientFilterOptions) httpfilter.ClientFilter {
	return c51ClientFilter{}
}

type c51ClientFilter struct{}

func (c51ClientFilter) Close() {}
func (c51ClientFilter) BuildClientInterceptor(config, _ httpfilter.FilterConfig) (httpfilter.ClientInterceptor, error) {
	cfg, ok := config.(testFilterCfg)
	if !ok {
		return nil, fmt.Errorf("c51: unexpected filter config %T", config)
	}
	v, ok := c51Monitors.Load(cfg.path)
	if !ok {
		return nil, fmt.Errorf("c51: no monitor registered for %q", cfg.path)
	}
	m := v.(*c51Mon)
	ic := &c51Interceptor{mon: m}
	m.mu.Lock()
	ic.id = len(m.icpts)
	m.icpts = append(m.icpts, ic)
	m.mu.Unlock()
	return ic, nil
}

type c51Interceptor struct {
	mon    *c51Mon
	id     int
	closed int // guarded by mon.mu
	users  []*c51RPC
}

func (ic *c51Interceptor) NewStream(ctx context.Context, _ iresolver.RPCInfo, newStream func(ctx context.Context, opts ...grpc.CallOption) (grpc.ClientStream, error), opts ...grpc.CallOption) (grpc.ClientStream, error) {
	if h, ok := ctx.Value(c51HolderKey{}).(*c51Holder); ok && h.rpc != nil {
		m := ic.mon
		m.mu.Lock()
		r := h.rpc
		if r.icpt == nil {
			r.icpt = ic
			ic.users = append(ic.users, r)
		}
		m.logLocked("rpc#%d NewStream on interceptor#%d (closed=%d)", r.id, ic.id, ic.closed)
		if ic.closed > 0 && r.state == c51Held {
			m.violLocked(m.keyForLocked("interceptor-closed-before-commit", r.cluster),
				"rpc#%d (%s, cluster %q) is uncommitted but its interceptor#%d had already been closed when the RPC used it", r.id, r.method, r.cluster, ic.id)
		}
		m.mu.Unlock()
	}
	return newStream(ctx, opts...)
}

func (ic *c51Interceptor) Close() {
	m := ic.mon
	m.mu.Lock()
	defer m.mu.Unlock()
	ic.closed++
	m.logLocked("interceptor#%d Close (#%d)", ic.id, ic.closed)
	for _, r := range ic.users {
		if r.state == c51Held {
			m.violLocked(m.keyForLocked("interceptor-closed-before-commit", r.cluster),
				"interceptor#%d closed while rpc#%d (%s, cluster %q) that was handed this interceptor has not been committed", ic.id, r.id, r.method, r.cluster)
		}
	}
}

// ---- the recording resolver.ClientConn ----

// c51CC plays the channel: it judges every pushed state on entry, optionally
// parks inside UpdateState (a slow channel: the blocking collaborator that
// widens the window between "state pushed" and "old config selector stopped"),
// and then swaps the config selector exactly like grpc.ClientConn does.
type c51CC struct {
	mon  *c51Mon
	safe iresolver.SafeConfigSelector

	mu     sync.Mutex
	gate   chan struct{} // when non-nil the next UpdateState parks on it
	parked chan struct{} // closed when an UpdateState has parked
	ready  chan struct{} // closed on the first state carrying a config selector
	isRdy  bool
}

func c51NewCC(m *c51Mon) *c51CC {
	cc := &c51CC{mon: m, ready: make(chan struct{})}
	cc.safe.UpdateConfigSelector(c51NoSelector{})
	return cc
}

type c51NoSelector struct{}

func (c51NoSelector) SelectConfig(iresolver.RPCInfo) (*iresolver.RPCConfig, error) {
	return nil, fmt.Errorf("c51: no config selector installed")
}

// armGate makes the next UpdateState park until the returned release func is
// called; parked is closed once it has parked.
func (cc *c51CC) armGate() (parked <-chan struct{}, release func()) {
	cc.mu.Lock()
	defer cc.mu.Unlock()
	g, p := make(chan struct{}), make(chan struct{})
	cc.gate, cc.parked = g, p
	var once sync.Once
	return p, func() {
		once.Do(func() {
			cc.mu.Lock()
			if cc.gate == g {
				cc.gate, cc.parked = nil, nil
			}
			cc.mu.Unlock()
			close(g)
		})
	}
}

func (cc *c51CC) UpdateState(s resolver.State) error {
	p := cc.mon.onPush(s)
	cc.mu.Lock()
	g, pk := cc.gate, cc.parked
	cc.gate, cc.parked = nil, nil
	cc.mu.Unlock()
	if g != nil {
		cc.mon.log("push#%d parked inside UpdateState", p.idx)
		close(pk)
		<-g
	}
	if cs := iresolver.GetConfigSelector(s); cs != nil {
		cc.safe.UpdateConfigSelector(cs)
		cc.mu.Lock()
		if !cc.isRdy {
			cc.isRdy = true
			close(cc.ready)
		}
		cc.mu.Unlock()
	} else {
		cc.safe.UpdateConfigSelector(c51NoSelector{})
	}
	cc.mon.pushReturned(p)
	return nil
}

func (cc *c51CC) ReportError(err error) {
	cc.mon.mu.Lock()
	cc.mon.errors++
	cc.mon.logLocked("ReportError: %v", err)
	cc.mon.mu.Unlock()
}

func (cc *c51CC) NewAddress([]resolver.Address) {}

func (cc *c51CC) ParseServiceConfig(js string) *serviceconfig.ParseResult { return c51ParseSC(js) }

// startRPC performs what the channel does for a new RPC up to (not including)
// the commit: SelectConfig through the SafeConfigSelector, then a first use of
// the returned interceptor.
func (cc *c51CC) startRPC(method string) *c51RPC {
	m := cc.mon
	r := m.selectBegin(method)
	var res *iresolver.RPCConfig
	var err error
	func() {
		defer func() {
			if p := recover(); p != nil {
				err = fmt.Errorf("panic: %v", p)
				m.mu.Lock()
				m.violLocked("select-config-panicked", "SelectConfig(%s) panicked: %v", method, p)
				m.mu.Unlock()
			}
		}()
		res, err = cc.safe.SelectConfig(iresolver.RPCInfo{Context: context.Background(), Method: method})
	}()
	m.selectEnd(r, res, err)
	if err == nil && res != nil {
		cc.useInterceptor(r)
	}
	return r
}

func (cc *c51CC) useInterceptor(r *c51RPC) {
	if r.res == nil || r.res.Interceptor == nil {
		return
	}
	// RPCConfig.Interceptor is typed `any`; the channel type-asserts it to a
	// structurally identical interface (stream.go), so does the harness.
	ic, ok := r.res.Interceptor.(httpfilter.ClientInterceptor)
	if !ok {
		return
	}
	ctx := context.WithValue(context.Background(), c51HolderKey{}, &c51Holder{rpc: r})
	_, _ = ic.NewStream(ctx, iresolver.RPCInfo{Context: ctx, Method: r.method},
		func(context.Context, ...grpc.CallOption) (grpc.ClientStream, error) { return nil, nil })
}

// commit invokes the RPC's commit hook (again, if it was invoked before).
func (cc *c51CC) commit(r *c51RPC) {
	if r.res == nil || r.res.OnCommitted == nil {
		return
	}
	m := cc.mon
	m.commitBegin(r)
	func() {
		defer func() {
			if p := recover(); p != nil {
				m.mu.Lock()
				m.violLocked("commit-hook-panicked", "OnCommitted of rpc#%d (call #%d) panicked: %v", r.id, r.commitCalls, p)
				m.mu.Unlock()
			}
		}()
		r.res.OnCommitted()
	}()
	m.commitEnd(r)
}

// quiescentCheck applies O3 (and the converse sanity facts) to the last pushed
// state.  Only called when the resolver is known to be quiescent and no harness
// goroutine is inside SelectConfig / OnCommitted.
func (m *c51Mon) quiescentCheck(where string) {
	m.mu.Lock()
	defer m.mu.Unlock()
	if len(m.pushes) == 0 {
		return
	}
	p := m.pushes[len(m.pushes)-1]
	if p.errCfg {
		m.feat["quiescent-errcfg"] = true
		return
	}
	held := map[string]bool{}
	for _, r := range m.rpcs {
		if r.state == c51Held {
			held[r.cluster] = true
		}
	}
	m.logLocked("quiescent(%s): last push#%d children=%v route=%v held=%v", where, p.idx, c51Keys(p.children), c51Keys(m.route), c51Keys(held))
	for k := range m.everRoute {
		if !m.route[k] && !p.children[k] {
			// Seen absent at a quiescent point: the resolver has certainly
			// forgotten the cluster (a state pushed earlier could predate the
			// resolver's processing of the route updates issued so far).
			m.dropped[k] = true
		}
	}
	if !m.exactQ {
		return // real-time settle point: nothing beyond O1/O2 is judged
	}
	for k := range p.children {
		if !m.route[k] && !held[k] {
			m.violLocked(m.keyForLocked("stale-cluster-after-quiescence", k),
				"%s: the resolver is quiescent, %q is neither in the route configuration %v nor held by an uncommitted RPC %v, yet the last pushed service config (push#%d) still has children %v",
				where, k, c51Keys(m.route), c51Keys(held), p.idx, c51Keys(p.children))
		}
	}
	for k := range m.route {
		if !p.children[k] {
			m.violLocked(m.keyForLocked("route-cluster-missing-at-quiescence", k),
				"%s: the resolver is quiescent and %q is in the route configuration, but the last pushed service config (push#%d) has children %v",
				where, k, p.idx, c51Keys(p.children))
		}
	}
}

// signature summarises what the history exercised (non-triviality rule: at
// least one state was pushed while an RPC held a cluster that the route
// configuration no longer contained).
func (m *c51Mon) signature() (sig string, nontrivial bool) {
	m.mu.Lock()
	defer m.mu.Unlock()
	maxSame := 0
	perCluster := map[string]int{}
	for _, r := range m.rpcs {
		if r.cluster != "" {
			perCluster[r.cluster]++
			if perCluster[r.cluster] > maxSame {
				maxSame = perCluster[r.cluster]
			}
		}
	}
	if maxSame > 3 {
		maxSame = 3
	}
	dbl, readd, plug := 0, 0, 0
	for _, r := range m.rpcs {
		if r.commitCalls > 1 {
			dbl = 1
		}
		if m.reAdded[r.cluster] {
			readd = 1
		}
		if strings.HasPrefix(r.cluster, c51PluginPrefix) {
			plug = 1
		}
	}
	off := m.offRoute
	if off > 3 {
		off = 3
	}
	fs := c51Keys(m.feat)
	return fmt.Sprintf("off%d/same%d/dbl%d/readd%d/plug%d/%s", off, maxSame, dbl, readd, plug, strings.Join(fs, "+")), m.offRoute > 0
}

// c51RouteSig prints the routes of a virtual host in the format of
// c51RouteCfg.String().
func c51RouteSig(vh *xdsresource.VirtualHost) string {
	if vh == nil {
		return ""
	}
	var sb strings.Builder
	for i, rt := range vh.Routes {
		if i > 0 {
			sb.WriteString(" ")
		}
		if rt.Prefix != nil {
			sb.WriteString(*rt.Prefix)
		}
		sb.WriteString("->")
		if rt.ClusterSpecifierPlugin != "" {
			sb.WriteString("plugin:" + rt.ClusterSpecifierPlugin)
		}
		for j, wc := range rt.WeightedClusters {
			if j > 0 {
				sb.WriteString("|")
			}
			fmt.Fprintf(&sb, "%s:%d", wc.Name, wc.Weight)
		}
	}
	return sb.String()
}
