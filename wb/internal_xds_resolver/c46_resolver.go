// C46 (part 2, white-box in internal/xds/resolver): the real newConfigSelector /
// SelectConfig / generateHash against a reference written from the property
// statement: FIRST matching route, cluster chosen among the route's weighted
// clusters exactly in proportion to the weights (enumerated random source),
// request hash = Envoy/A42 combination of the configured hash-policy inputs only.
//
// No repo code is replaced: the monitor plugs into the two package variables the
// repo exposes for tests (xdsresource.RandInt64n and rinternal.NewWRR).
package resolver

import (
	"context"
	"fmt"
	"math/rand"
	"regexp"
	"strconv"
	"strings"
	"testing"

	xxhash "github.com/cespare/xxhash/v2"
	"google.golang.org/grpc/internal/grpcutil"
	iresolver "google.golang.org/grpc/internal/resolver"
	iringhash "google.golang.org/grpc/internal/ringhash"
	vlib "google.golang.org/grpc/internal/verifvlib"
	"google.golang.org/grpc/internal/wrr"
	"google.golang.org/grpc/internal/xds/balancer/clustermanager"
	"google.golang.org/grpc/internal/xds/bootstrap"
	"google.golang.org/grpc/internal/xds/httpfilter"
	"google.golang.org/grpc/internal/xds/matcher"
	rinternal "google.golang.org/grpc/internal/xds/resolver/internal"
	"google.golang.org/grpc/internal/xds/xdsclient"
	"google.golang.org/grpc/internal/xds/xdsclient/xdsresource"
	"google.golang.org/grpc/metadata"
)

const c46KeyF5 = "fraction-draw-equal-to-fraction-matches"

// ---------------------------------------------------------------- harness WRR

// c46WRR is the monitor's wrr.WRR: it records what newConfigSelector adds and
// serves Next() from a draw the monitor sets, so that every value of the random
// source can be played.  Next implements the textbook weighted choice: item i owns
// the draws [sum(w[:i]), sum(w[:i+1])).
type c46WRR struct {
	ctl     *c46Ctl
	items   []any
	weights []int64
}

type c46Ctl struct {
	draw      uint64 // used modulo the total weight
	nextCalls int
	made      []*c46WRR
}

func (w *c46WRR) Add(item any, weight int64) {
	w.items = append(w.items, item)
	w.weights = append(w.weights, weight)
}

func (w *c46WRR) Next() any {
	w.ctl.nextCalls++
	var total int64
	for _, x := range w.weights {
		total += x
	}
	if total <= 0 {
		return nil
	}
	d := int64(w.ctl.draw % uint64(total))
	for i, x := range w.weights {
		if d < x {
			return w.items[i]
		}
		d -= x
	}
	return nil
}

// ---------------------------------------------------------------- specs + reference

type c46Hdr struct {
	Name    string
	Exact   string // exact string match when Present == nil
	Present *bool
	Invert  bool
}

type c46Policy struct {
	ChannelID bool
	Header    string
	Terminal  bool
	ReKind    int    // 0 none, 1 literal, 2 [0-9]+
	ReLit     string // ReKind 1
	Subst     string
}

type c46Route struct {
	Prefix   *string
	Path     *string
	Hdrs     []c46Hdr
	Fraction *uint32
	Action   xdsresource.RouteActionType
	Clusters []xdsresource.WeightedCluster
	Policies []c46Policy
}

func (rt c46Route) String() string {
	var sb strings.Builder
	if rt.Prefix != nil {
		fmt.Fprintf(&sb, "prefix=%q", *rt.Prefix)
	} else {
		fmt.Fprintf(&sb, "path=%q", *rt.Path)
	}
	for _, h := range rt.Hdrs {
		if h.Present != nil {
			fmt.Fprintf(&sb, " hdr(%s present=%v inv=%v)", h.Name, *h.Present, h.Invert)
		} else {
			fmt.Fprintf(&sb, " hdr(%s==%q inv=%v)", h.Name, h.Exact, h.Invert)
		}
	}
	if rt.Fraction != nil {
		fmt.Fprintf(&sb, " fraction=%d", *rt.Fraction)
	}
	fmt.Fprintf(&sb, " action=%d clusters=", rt.Action)
	for _, c := range rt.Clusters {
		fmt.Fprintf(&sb, "%s:%d,", c.Name, c.Weight)
	}
	for _, p := range rt.Policies {
		fmt.Fprintf(&sb, " policy%+v", p)
	}
	return sb.String()
}

// c46RefMatch: path AND headers AND fraction (strict: draw < f).
func c46RefMatch(rt c46Route, method string, md map[string][]string, draw int64, strict bool) bool {
	if rt.Prefix != nil && !strings.HasPrefix(method, *rt.Prefix) {
		return false
	}
	if rt.Path != nil && method != *rt.Path {
		return false
	}
	for _, h := range rt.Hdrs {
		vs, present := md[h.Name]
		if h.Present != nil {
			if (present == *h.Present) == h.Invert {
				return false
			}
			continue
		}
		if !present {
			return false
		}
		if (strings.Join(vs, ",") == h.Exact) == h.Invert {
			return false
		}
	}
	if rt.Fraction != nil {
		f := int64(*rt.Fraction)
		if strict && draw >= f || !strict && draw > f {
			return false
		}
	}
	return true
}

// c46RefFirst returns the index of the first matching route or -1.
func c46RefFirst(routes []c46Route, method string, md map[string][]string, draw int64, strict bool) int {
	for i, rt := range routes {
		if c46RefMatch(rt, method, md, draw, strict) {
			return i
		}
	}
	return -1
}

// c46RefCluster: weighted choice for an absolute draw.
func c46RefCluster(cl []xdsresource.WeightedCluster, draw uint64) string {
	var total uint64
	for _, c := range cl {
		total += uint64(c.Weight)
	}
	d := draw % total
	for _, c := range cl {
		if d < uint64(c.Weight) {
			return c.Name
		}
		d -= uint64(c.Weight)
	}
	return ""
}

// c46RefRewrite applies the policy's regex rewrite without package regexp.
func c46RefRewrite(p c46Policy, v string) string {
	switch p.ReKind {
	case 1:
		return strings.ReplaceAll(v, p.ReLit, p.Subst)
	case 2:
		var sb strings.Builder
		inRun := false
		for i := 0; i < len(v); i++ {
			if v[i] >= '0' && v[i] <= '9' {
				if !inRun {
					sb.WriteString(p.Subst)
					inRun = true
				}
				continue
			}
			inRun = false
			sb.WriteByte(v[i])
		}
		return sb.String()
	}
	return v
}

// c46RefHash: gRFC A42 / Envoy: for each policy in order that yields a value,
// hash = rotl(hash,1) XOR policyHash; a terminal policy stops the walk once a
// hash exists; header policies hash the comma-joined (rewritten) header value,
// are a no-op when the header is absent, and never look at "-bin" headers.
// generated=false: no policy produced a hash (the result is then random).
//
// R2 note: A42 is ambiguous about a TERMINAL policy that itself yields nothing
// (header absent / -bin) while an earlier policy already produced a hash: "if
// there is already a hash computed, ignore the rest" (Envoy, gRPC C++/Java:
// stop) versus "if a terminal policy doesn't work, fall back to the rest of the
// list" (grpc-go: continue).  The property statement does not pin it, so both
// are accepted: stopAtNoopTerminal selects the variant.
func c46RefHash(pols []c46Policy, channelID uint64, md map[string][]string, stopAtNoopTerminal bool) (h uint64, generated bool) {
	for _, p := range pols {
		var ph uint64
		have := false
		if p.ChannelID {
			ph, have = channelID, true
		} else if !strings.HasSuffix(p.Header, "-bin") {
			if vs, ok := md[p.Header]; ok && len(vs) > 0 {
				ph, have = xxhash.Sum64String(c46RefRewrite(p, strings.Join(vs, ","))), true
			}
		}
		if have {
			h = (h<<1 | h>>63) ^ ph
			generated = true
		}
		if p.Terminal && generated && (have || stopAtNoopTerminal) {
			break
		}
	}
	return h, generated
}

// c46JudgeHash compares got with both accepted variants of the reference.
func c46JudgeHash(r *vlib.Run, pols []c46Policy, channelID uint64, md map[string][]string, got uint64) (ok, generated bool, want uint64) {
	a, gen := c46RefHash(pols, channelID, md, true)
	b, _ := c46RefHash(pols, channelID, md, false)
	if !gen {
		return true, false, 0
	}
	if a != b {
		r.Count("hash_cases_with_noop_terminal_policy_after_a_hash(both readings accepted)", 1)
		if got == a {
			r.Count("hash_noop_terminal_impl_stops(envoy reading)", 1)
		} else if got == b {
			r.Count("hash_noop_terminal_impl_continues(fallback reading)", 1)
		}
	}
	return got == a || got == b, true, a
}

// ---------------------------------------------------------------- building the real thing

type c46FakeXDSClient struct {
	xdsclient.XDSClient
	bc *bootstrap.Config
}

func (c *c46FakeXDSClient) BootstrapConfig() *bootstrap.Config { return c.bc }

func c46ToRoutes(specs []c46Route) []*xdsresource.Route {
	out := make([]*xdsresource.Route, len(specs))
	for i, s := range specs {
		rt := &xdsresource.Route{Prefix: s.Prefix, Path: s.Path, Fraction: s.Fraction, ActionType: s.Action, WeightedClusters: s.Clusters}
		for _, h := range s.Hdrs {
			inv := h.Invert
			hm := &xdsresource.HeaderMatcher{Name: h.Name, InvertMatch: &inv, PresentMatch: h.Present}
			if h.Present == nil {
				sm := matcher.NewExactStringMatcher(h.Exact, false)
				hm.StringMatch = &sm
			}
			rt.Headers = append(rt.Headers, hm)
		}
		for _, p := range s.Policies {
			hp := &xdsresource.HashPolicy{Terminal: p.Terminal}
			if p.ChannelID {
				hp.HashPolicyType = xdsresource.HashPolicyTypeChannelID
			} else {
				hp.HashPolicyType = xdsresource.HashPolicyTypeHeader
				hp.HeaderName = p.Header
				switch p.ReKind {
				case 1:
					hp.Regex = regexp.MustCompile(regexp.QuoteMeta(p.ReLit))
					hp.RegexSubstitution = p.Subst
				case 2:
					hp.Regex = regexp.MustCompile("[0-9]+")
					hp.RegexSubstitution = p.Subst
				}
			}
			rt.HashPolicies = append(rt.HashPolicies, hp)
		}
		out[i] = rt
	}
	return out
}

func c46NewSelector(t *testing.T, bc *bootstrap.Config, specs []c46Route, channelID uint64) (*configSelector, error) {
	r := &xdsResolver{
		xdsClient:      &c46FakeXDSClient{bc: bc},
		activeClusters: map[string]*clusterInfo{},
		activePlugins:  map[string]*clusterInfo{},
		httpFilters:    map[clientFilterKey]httpfilter.ClientFilter{},
		channelID:      channelID,
	}
	for _, s := range specs {
		for _, c := range s.Clusters {
			// pre-registered so that no dependency manager is needed
			r.activeClusters[clusterPrefix+c.Name] = &clusterInfo{unsubscribe: func() {}}
		}
	}
	r.xdsConfig = &xdsresource.XDSConfig{
		Listener:    &xdsresource.ListenerUpdate{APIListener: &xdsresource.HTTPConnectionManagerConfig{}},
		RouteConfig: &xdsresource.RouteConfigUpdate{},
		VirtualHost: &xdsresource.VirtualHost{Domains: []string{"*"}, Routes: c46ToRoutes(specs)},
	}
	return r.newConfigSelector()
}

// ---------------------------------------------------------------- generators

var c46Methods = []string{"/pkg.Svc/Get", "/pkg.Svc/Put", "/pkg.Other/Get", "/a/b", "/pkg.Svc/GetAll"}
var c46HdrNames = []string{"x-env", "x-user", "session", "trace-bin"}
var c46HdrVals = []string{"prod", "canary", "u42", "u7-s19", "abc", "a,b"}

func c46GenRoute(rng *rand.Rand, nClusters *int) c46Route {
	var rt c46Route
	m := c46Methods[rng.Intn(len(c46Methods))]
	switch rng.Intn(4) {
	case 0:
		p := ""
		rt.Prefix = &p
	case 1:
		p := m[:1+rng.Intn(len(m))]
		rt.Prefix = &p
	default:
		rt.Path = &m
	}
	for k := rng.Intn(3); k > 0; k-- {
		h := c46Hdr{Name: c46HdrNames[rng.Intn(3)], Invert: rng.Intn(4) == 0}
		if rng.Intn(2) == 0 {
			p := rng.Intn(3) != 0
			h.Present = &p
		} else {
			h.Exact = c46HdrVals[rng.Intn(len(c46HdrVals))]
		}
		rt.Hdrs = append(rt.Hdrs, h)
	}
	if rng.Intn(3) == 0 {
		f := uint32([]int{0, 1, 250000, 500000, 999999, 1000000}[rng.Intn(6)])
		rt.Fraction = &f
	}
	rt.Action = xdsresource.RouteActionRoute
	if rng.Intn(12) == 0 {
		rt.Action = xdsresource.RouteActionNonForwardingAction
	}
	for k := 1 + rng.Intn(4); k > 0; k-- {
		w := uint32(1 + rng.Intn(9))
		if rng.Intn(5) == 0 {
			w = uint32(1 + rng.Intn(1000))
		}
		rt.Clusters = append(rt.Clusters, xdsresource.WeightedCluster{Name: "c" + strconv.Itoa(*nClusters), Weight: w})
		*nClusters++
	}
	if rng.Intn(4) == 0 { // equal weights: a distinct code path in weighted pickers
		for i := range rt.Clusters {
			rt.Clusters[i].Weight = rt.Clusters[0].Weight
		}
	}
	for k := rng.Intn(4); k > 0; k-- {
		p := c46Policy{Terminal: rng.Intn(3) == 0}
		if rng.Intn(4) == 0 {
			p.ChannelID = true
		} else {
			p.Header = c46HdrNames[rng.Intn(len(c46HdrNames))]
			switch rng.Intn(4) {
			case 0:
				p.ReKind, p.ReLit, p.Subst = 1, []string{"u", "-", "prod", "a"}[rng.Intn(4)], []string{"", "X", "user"}[rng.Intn(3)]
			case 1:
				p.ReKind, p.Subst = 2, []string{"", "N", "#"}[rng.Intn(3)]
			}
		}
		rt.Policies = append(rt.Policies, p)
	}
	return rt
}

func c46GenMD(rng *rand.Rand) map[string][]string {
	md := map[string][]string{}
	for _, n := range c46HdrNames {
		switch rng.Intn(4) {
		case 0:
		case 1:
			md[n] = []string{c46HdrVals[rng.Intn(len(c46HdrVals))], c46HdrVals[rng.Intn(len(c46HdrVals))]}
		default:
			md[n] = []string{c46HdrVals[rng.Intn(len(c46HdrVals))]}
		}
	}
	return md
}

type c46Case struct {
	Routes   []string            `json:"routes"`
	Method   string              `json:"method"`
	MD       map[string][]string `json:"md"`
	FracDraw int64               `json:"fraction_draw"`
	WRRDraw  uint64              `json:"wrr_draw"`
	Got      string              `json:"got"`
	Want     string              `json:"want"`
}

// ---------------------------------------------------------------- the test

func TestVerifC46Resolver(t *testing.T) {
	r := vlib.Start(t, "C46")
	bc, err := bootstrap.NewConfigFromContents([]byte(`{"xds_servers":[{"server_uri":"ipv4:///127.0.0.1:1","channel_creds":[{"type":"insecure"}]}],"node":{"id":"c46-node"}}`))
	if err != nil {
		r.Inconclusive("bootstrap.NewConfigFromContents: %v", err)
		r.Finish(vlib.Spec{Rule: "setup failed"})
		return
	}
	origRand, origWRR := xdsresource.RandInt64n, rinternal.NewWRR
	defer func() { xdsresource.RandInt64n, rinternal.NewWRR = origRand, origWRR }()
	ctl := &c46Ctl{}
	rinternal.NewWRR = func() wrr.WRR {
		w := &c46WRR{ctl: ctl}
		ctl.made = append(ctl.made, w)
		return w
	}
	var fracDraw int64
	xdsresource.RandInt64n = func(int64) int64 { return fracDraw }

	const famSel = "select"
	n := r.N(4000, 80000)
	for i := 0; i < n; i++ {
		if !r.Want(famSel, i) {
			continue
		}
		rng := r.Rand(famSel, i)
		nClusters := 0
		specs := make([]c46Route, 1+rng.Intn(5))
		for k := range specs {
			specs[k] = c46GenRoute(rng, &nClusters)
		}
		channelID := rng.Uint64()
		ctl.made = nil
		cs, err := c46NewSelector(t, bc, specs, channelID)
		if err != nil {
			r.Violation("config-selector-construction-failed", famSel, i, fmt.Sprint(specs), "newConfigSelector failed on a valid route list: %v", err)
			continue
		}
		descr := make([]string, len(specs))
		for k := range specs {
			descr[k] = specs[k].String()
		}
		// what newConfigSelector handed to the weighted picker
		if len(ctl.made) != len(specs) {
			r.Violation("wrr-per-route", famSel, i, descr, "newConfigSelector created %d weighted pickers for %d routes", len(ctl.made), len(specs))
		} else {
			for k, w := range ctl.made {
				ok := len(w.weights) == len(specs[k].Clusters)
				for j := 0; ok && j < len(w.weights); j++ {
					ok = w.weights[j] == int64(specs[k].Clusters[j].Weight)
				}
				if !ok {
					r.Violation("cluster-weights-not-passed", famSel, i, descr, "route %d: weighted picker received weights %v for clusters %v", k, w.weights, specs[k].Clusters)
				}
			}
		}

		rpcs := 12
		for j := 0; j < rpcs; j++ {
			method := c46Methods[rng.Intn(len(c46Methods))]
			md := c46GenMD(rng)
			extra := map[string][]string{}
			if rng.Intn(3) == 0 {
				extra["content-type"] = []string{"application/grpc"}
			}
			fracDraw = rng.Int63n(1000000)
			if rng.Intn(2) == 0 {
				fracDraw = []int64{0, 1, 249999, 250000, 250001, 499999, 500000, 500001, 999998, 999999}[rng.Intn(10)]
			}
			ctl.draw = rng.Uint64()
			c46OneRPC(r, famSel, i, cs, specs, descr, channelID, method, md, extra, fracDraw, ctl, nil)
		}

		// exact proportions: play every value of the random source for one RPC
		method := c46Methods[rng.Intn(len(c46Methods))]
		md := c46GenMD(rng)
		fracDraw = 300000 // not equal to any generated fraction: the F5 boundary is judged above, not here
		if k := c46RefFirst(specs, method, md, fracDraw, true); k >= 0 && specs[k].Action == xdsresource.RouteActionRoute {
			var total uint64
			for _, c := range specs[k].Clusters {
				total += uint64(c.Weight)
			}
			if total <= 4096 {
				counts := map[string]int64{}
				for d := uint64(0); d < total; d++ {
					ctl.draw = d
					c46OneRPC(r, famSel, i, cs, specs, descr, channelID, method, md, nil, fracDraw, ctl, counts)
				}
				for _, c := range specs[k].Clusters {
					if counts[clusterPrefix+c.Name] != int64(c.Weight) {
						r.Violation("cluster-proportion-not-exact", famSel, i, map[string]any{"routes": descr, "counts": counts},
							"route %d: over all %d draws cluster %s was chosen %d times, weight %d (all: %v)", k, total, c.Name, counts[clusterPrefix+c.Name], c.Weight, counts)
						break
					}
				}
				r.Count("wrr_draws_enumerated", int64(total))
				r.Count("routes_with_enumerated_cluster_choice", 1)
				eq := "uneq"
				if specs[k].Clusters[0].Weight == specs[k].Clusters[len(specs[k].Clusters)-1].Weight {
					eq = "eq-ends"
				}
				r.Nontrivial(fmt.Sprintf("enum/clusters%d/%s", len(specs[k].Clusters), eq))
			}
		}
		cs.stop()
	}

	// ---- hash: depends only on the configured inputs (metamorphic) + reference value
	const famHash = "hash"
	n = r.N(30000, 600000)
	for i := 0; i < n; i++ {
		if !r.Want(famHash, i) {
			continue
		}
		rng := r.Rand(famHash, i)
		nc := 0
		rt := c46GenRoute(rng, &nc)
		for len(rt.Policies) == 0 {
			rt = c46GenRoute(rng, &nc)
		}
		channelID := rng.Uint64()
		cs := &configSelector{channelID: channelID}
		pols := c46ToRoutes([]c46Route{rt})[0].HashPolicies
		md := c46GenMD(rng)
		ctx := metadata.NewOutgoingContext(context.Background(), metadata.MD(c46Copy(md)))
		got := cs.generateHash(iresolver.RPCInfo{Context: ctx, Method: "/s/m"}, pols)
		r.Eval(1)
		ok, generated, want := c46JudgeHash(r, rt.Policies, channelID, md, got)
		if !generated {
			r.Count("hash_no_policy_applied_random_unjudged", 1)
			r.Nontrivial("hash/none-applied")
			continue
		}
		if !ok {
			r.Violation("request-hash-mismatch", famHash, i, map[string]any{"policies": fmt.Sprintf("%+v", rt.Policies), "md": md, "channel_id": channelID, "got": got, "want": want},
				"generateHash(policies=%+v, channelID=%d, md=%v) = %d, reference (rotl1-xor of xxhash64 of the joined/rewritten header values) = %d", rt.Policies, channelID, md, got, want)
		}
		// perturb everything that is NOT a configured input: other headers, method
		used := map[string]bool{}
		for _, p := range rt.Policies {
			used[p.Header] = true
		}
		md2 := c46Copy(md)
		for _, hn := range c46HdrNames {
			if !used[hn] {
				md2[hn] = []string{"perturbed-" + strconv.Itoa(rng.Intn(1000))}
			}
		}
		md2["unrelated"] = []string{"zzz"}
		ctx2 := metadata.NewOutgoingContext(context.Background(), metadata.MD(md2))
		if got2 := cs.generateHash(iresolver.RPCInfo{Context: ctx2, Method: "/other/" + strconv.Itoa(rng.Intn(100))}, pols); got2 != got {
			r.Violation("request-hash-depends-on-unconfigured-input", famHash, i, map[string]any{"policies": fmt.Sprintf("%+v", rt.Policies), "md": md, "md2": md2},
				"hash changed from %d to %d after changing only headers/method that no hash policy names (policies %+v, md %v -> %v)", got, got2, rt.Policies, md, md2)
		}
		kinds := ""
		for _, p := range rt.Policies {
			switch {
			case p.ChannelID:
				kinds += "C"
			case strings.HasSuffix(p.Header, "-bin"):
				kinds += "b"
			case len(md[p.Header]) == 0:
				kinds += "a" // absent
			default:
				kinds += "h" + strconv.Itoa(p.ReKind)
			}
			if p.Terminal {
				kinds += "!"
			}
		}
		r.Nontrivial("hash/" + kinds)
	}

	r.Finish(vlib.Spec{
		Level: "exploration",
		Rule: "select: PRNG route lists (1-5 routes: prefix/path, 0-2 header matchers, optional fraction, 1-4 weighted clusters, 0-3 hash policies, occasional non-forwarding action) -> real newConfigSelector; " +
			"12 PRNG RPCs each with scripted fraction draw (incl. f-1,f,f+1) and scripted weighted-choice draw -> SelectConfig; then ALL draws of the weighted choice for one RPC (total weight <= 4096) counted per cluster; " +
			"hash: PRNG policy lists (header with/without regex rewrite, -bin, channel id, terminal) x PRNG metadata -> generateHash vs reference, then unrelated headers and the method perturbed; " +
			"distinct = (matched route index, #routes, error class) | enumerated (#clusters, weight shape) | hash policy-kind string",
		Assumptions: []string{
			"the weighted picker is replaced through the repo's own test seam rinternal.NewWRR by the monitor's textbook picker: this part judges the weights handed over and the use of the pick; internal/wrr itself is judged by the wb/internal_wrr step and by C38",
			"hash policies and metadata keys do not overlap with the transport's extra metadata (precedence between the two is not pinned by the statement)",
			"xxhash64 (github.com/cespare/xxhash) is trusted; regex rewrites are literals or [0-9]+ with literal substitutions, evaluated in the reference without package regexp",
		},
		Floor: 40,
	})
}

func c46Copy(md map[string][]string) map[string][]string {
	out := map[string][]string{}
	for k, v := range md {
		out[k] = append([]string(nil), v...)
	}
	return out
}

// c46Predict is the reference outcome of one RPC: "error" or the cluster name.
func c46Predict(specs []c46Route, method string, all map[string][]string, fracDraw int64, wrrDraw uint64, strict bool) (route int, outcome string) {
	k := c46RefFirst(specs, method, all, fracDraw, strict)
	if k < 0 || specs[k].Action != xdsresource.RouteActionRoute {
		return k, "error"
	}
	return k, clusterPrefix + c46RefCluster(specs[k].Clusters, wrrDraw)
}

// c46OneRPC runs SelectConfig once and judges route, cluster and hash.
func c46OneRPC(r *vlib.Run, fam string, i int, cs *configSelector, specs []c46Route, descr []string, channelID uint64,
	method string, md, extra map[string][]string, fracDraw int64, ctl *c46Ctl, counts map[string]int64) {
	ctx := metadata.NewOutgoingContext(context.Background(), metadata.MD(c46Copy(md)))
	all := c46Copy(md)
	if len(extra) > 0 {
		ctx = grpcutil.WithExtraMetadata(ctx, metadata.MD(c46Copy(extra)))
		for k, v := range extra {
			all[k] = v
		}
	}
	ctl.nextCalls = 0
	cfg, err := cs.SelectConfig(iresolver.RPCInfo{Context: ctx, Method: method})
	r.Eval(1)
	want, wantOutcome := c46Predict(specs, method, all, fracDraw, ctl.draw, true)
	got := "error"
	if err == nil {
		got = clustermanager.PickedCluster(cfg.Context)
		defer func() {
			if cfg.OnCommitted != nil {
				cfg.OnCommitted()
			}
		}()
		if counts != nil {
			counts[got]++
		}
	}
	c := c46Case{Routes: descr, Method: method, MD: md, FracDraw: fracDraw, WRRDraw: ctl.draw, Got: got, Want: wantOutcome}
	if err != nil {
		c.Got = "error: " + err.Error()
	}
	if got != wantOutcome {
		key := "wrong-route-selected"
		switch {
		case got == "error":
			key = "route-not-selected"
		case wantOutcome == "error":
			key = "routed-without-matching-route"
		default:
			for _, cl := range specs[want].Clusters {
				if clusterPrefix+cl.Name == got {
					key = "wrong-cluster-within-route"
				}
			}
		}
		// F5 attribution: only when "draw <= f" instead of "draw < f" predicts exactly what was observed
		if _, loose := c46Predict(specs, method, all, fracDraw, ctl.draw, false); loose != wantOutcome && loose == got {
			key = c46KeyF5
		}
		r.Violation(key, fam, i, c, "SelectConfig(%s, %v, fraction draw %d, weighted draw %d) -> %s; reference: first matching route %d -> %s (routes %v)",
			method, md, fracDraw, ctl.draw, c.Got, want, wantOutcome, descr)
		return
	}
	if err != nil {
		if want < 0 {
			r.Nontrivial(fmt.Sprintf("sel/no-route/of%d", len(specs)))
		} else {
			r.Nontrivial(fmt.Sprintf("sel/unsupported-action/%d-of%d", want, len(specs)))
		}
		return
	}
	if ctl.nextCalls != 1 {
		r.Violation("weighted-pick-count", fam, i, c, "SelectConfig consulted the weighted picker %d times for one RPC", ctl.nextCalls)
	}
	gotHash, present := iringhash.XDSRequestHash(cfg.Context)
	if ok, generated, wantHash := c46JudgeHash(r, specs[want].Policies, channelID, all, gotHash); generated {
		if !present || !ok {
			r.Violation("request-hash-mismatch", fam, i, c, "SelectConfig(%s, %v) set request hash %d (present=%v); reference for route %d policies %+v = %d", method, md, gotHash, present, want, specs[want].Policies, wantHash)
		}
		r.Count("select_hash_checked", 1)
	}
	r.Nontrivial(fmt.Sprintf("sel/route%d-of%d/frac%v", want, len(specs), specs[want].Fraction != nil))
	if i < 1 && counts == nil {
		r.Sample(c)
	}
}
