// C46 (part 2, white-box in internal/xds/resolver): the real newConfigSelector /
// SelectConfig / generateHash against a reference written from the property
// statement: FIRST matching route, cluster chosen among the route's weighted
// clusters exactly in proportion to the weights (enumerated random source),
// request hash = Envoy/A42 combination of the configured hash-policy inputs only.
//
// Added for the seeded change C46-1: on one resolver (channel) the channel_id
// request hash must be IDENTICAL across the config selectors built after
// successive xDS updates, and differ only between resolvers.
//
// No repo code is replaced: the monitor plugs into the two package variables the
// repo exposes for tests (xdsresource.RandInt64n and rinternal.NewWRR) and builds
// the resolver through the exported hook internal.NewXDSResolverWithClientForTesting.
package resolver

import (
	"context"
	"fmt"
	"math/rand"
	"net/url"
	"regexp"
	"strconv"
	"strings"
	"sync"
	"testing"
	"time"

	xxhash "github.com/cespare/xxhash/v2"
	"google.golang.org/grpc/internal"
	"google.golang.org/grpc/internal/grpcutil"
	iresolver "google.golang.org/grpc/internal/resolver"
	iringhash "google.golang.org/grpc/internal/ringhash"
	vlib "google.golang.org/grpc/internal/verifvlib"
	"google.golang.org/grpc/internal/wrr"
	"google.golang.org/grpc/internal/xds/balancer/clustermanager"
	"google.golang.org/grpc/internal/xds/bootstrap"
	gxdsclient "google.golang.org/grpc/internal/xds/clients/xdsclient"
	"google.golang.org/grpc/internal/xds/matcher"
	rinternal "google.golang.org/grpc/internal/xds/resolver/internal"
	"google.golang.org/grpc/internal/xds/xdsclient"
	"google.golang.org/grpc/internal/xds/xdsclient/xdsresource"
	"google.golang.org/grpc/metadata"
	"google.golang.org/grpc/resolver"
	"google.golang.org/grpc/serviceconfig"
)

const c46KeyF5 = "fraction-draw-equal-to-fraction-matches"

// ---------------------------------------------------------------- harness WRR

// c46WRR is the monitor's wrr.WRR: it records what newConfigSelector adds and
// serves Next() from a draw the monitor sets, so that every value of the random
// source can be played.  Next implements the textbook weighted choice: item i owns
// the draws [sum(w[:i]), sum(w[:i+1])).
type c46WRR struct {
	ctl     *c46Ctl
	items   []any
	weights []int64
}

type c46Ctl struct {
	draw      uint64 // used modulo the total weight
	nextCalls int
	made      []*c46WRR
}

func (w *c46WRR) Add(item any, weight int64) {
	w.items = append(w.items, item)
	w.weights = append(w.weights, weight)
}

func (w *c46WRR) Next() any {
	w.ctl.nextCalls++
	var total int64
	for _, x := range w.weights {
		total += x
	}
	if total <= 0 {
		return nil
	}
	d := int64(w.ctl.draw % uint64(total))
	for i, x := range w.weights {
		if d < x {
			return w.items[i]
		}
		d -= x
	}
	return nil
}

// ---------------------------------------------------------------- specs + reference

type c46Hdr struct {
	Name    string
	Exact   string // exact string match when Present == nil
	Present *bool
	Invert  bool
}

type c46Policy struct {
	ChannelID bool
	Header    string
	Terminal  bool
	ReKind    int    // 0 none, 1 literal, 2 [0-9]+
	ReLit     string // ReKind 1
	Subst     string
}

type c46Route struct {
	Prefix   *string
	Path     *string
	Hdrs     []c46Hdr
	Fraction *uint32
	Action   xdsresource.RouteActionType
	Clusters []xdsresource.WeightedCluster
	Policies []c46Policy
}

func (rt c46Route) String() string {
	var sb strings.Builder
	if rt.Prefix != nil {
		fmt.Fprintf(&sb, "prefix=%q", *rt.Prefix)
	} else {
		fmt.Fprintf(&sb, "path=%q", *rt.Path)
	}
	for _, h := range rt.Hdrs {
		if h.Present != nil {
			fmt.Fprintf(&sb, " hdr(%s present=%v inv=%v)", h.Name, *h.Present, h.Invert)
		} else {
			fmt.Fprintf(&sb, " hdr(%s==%q inv=%v)", h.Name, h.Exact, h.Invert)
		}
	}
	if rt.Fraction != nil {
		fmt.Fprintf(&sb, " fraction=%d", *rt.Fraction)
	}
	fmt.Fprintf(&sb, " action=%d clusters=", rt.Action)
	for _, c := range rt.Clusters {
		fmt.Fprintf(&sb, "%s:%d,", c.Name, c.Weight)
	}
	for _, p := range rt.Policies {
		fmt.Fprintf(&sb, " policy%+v", p)
	}
	return sb.String()
}

// c46RefMatch: path AND headers AND fraction (strict: draw < f).
func c46RefMatch(rt c46Route, method string, md map[string][]string, draw int64, strict bool) bool {
	if rt.Prefix != nil && !strings.HasPrefix(method, *rt.Prefix) {
		return false
	}
	if rt.Path != nil && method != *rt.Path {
		return false
	}
	for _, h := range rt.Hdrs {
		vs, present := md[h.Name]
		if h.Present != nil {
			if (present == *h.Present) == h.Invert {
				return false
			}
			continue
		}
		if !present {
			return false
		}
		if (strings.Join(vs, ",") == h.Exact) == h.Invert {
			return false
		}
	}
	if rt.Fraction != nil {
		f := int64(*rt.Fraction)
		if strict && draw >= f || !strict && draw > f {
			return false
		}
	}
	return true
}

// c46RefFirst returns the index of the first matching route or -1.
func c46RefFirst(routes []c46Route, method string, md map[string][]string, draw int64, strict bool) int {
	for i, rt := range routes {
		if c46RefMatch(rt, method, md, draw, strict) {
			return i
		}
	}
	return -1
}

// c46RefCluster: weighted choice for an absolute draw.
func c46RefCluster(cl []xdsresource.WeightedCluster, draw uint64) string {
	var total uint64
	for _, c := range cl {
		total += uint64(c.Weight)
	}
	d := draw % total
	for _, c := range cl {
		if d < uint64(c.Weight) {
			return c.Name
		}
		d -= uint64(c.Weight)
	}
	return ""
}

// c46RefRewrite applies the policy's regex rewrite without package regexp.
func c46RefRewrite(p c46Policy, v string) string {
	switch p.ReKind {
	case 1:
		return strings.ReplaceAll(v, p.ReLit, p.Subst)
	case 2:
		var sb strings.Builder
		inRun := false
		for i := 0; i < len(v); i++ {
			if v[i] >= '0' && v[i] <= '9' {
				if !inRun {
					sb.WriteString(p.Subst)
					inRun = true
				}
				continue
			}
			inRun = false
			sb.WriteByte(v[i])
		}
		return sb.String()
	}
	return v
}

// c46RefHash: gRFC A42 / Envoy: for each policy in order that yields a value,
// hash = rotl(hash,1) XOR policyHash; a terminal policy stops the walk once a
// hash exists; header policies hash the comma-joined (rewritten) header value,
// are a no-op when the header is absent, and never look at "-bin" headers.
// generated=false: no policy produced a hash (the result is then random).
//
// R2 note: A42 is ambiguous about a TERMINAL policy that itself yields nothing
// (header absent / -bin) while an earlier policy already produced a hash: "if
// there is already a hash computed, ignore the rest" (Envoy, gRPC C++/Java:
// stop) versus "if a terminal policy doesn't work, fall back to the rest of the
// list" (grpc-go: continue).  The property statement does not pin it, so both
// are accepted: stopAtNoopTerminal selects the variant.
func c46RefHash(pols []c46Policy, channelID uint64, md map[string][]string, stopAtNoopTerminal bool) (h uint64, generated bool) {
	for _, p := range pols {
		var ph uint64
		have := false
		if p.ChannelID {
			ph, have = channelID, true
		} else if !strings.HasSuffix(p.Header, "-bin") {
			if vs, ok := md[p.Header]; ok && len(vs) > 0 {
				ph, have = xxhash.Sum64String(c46RefRewrite(p, strings.Join(vs, ","))), true
			}
		}
		if have {
			h = (h<<1 | h>>63) ^ ph
			generated = true
		}
		if p.Terminal && generated && (have || stopAtNoopTerminal) {
			break
		}
	}
	return h, generated
}

// c46JudgeHash compares got with both accepted variants of the reference.
func c46JudgeHash(r *vlib.Run, pols []c46Policy, channelID uint64, md map[string][]string, got uint64) (ok, generated bool, want uint64) {
	a, gen := c46RefHash(pols, channelID, md, true)
	b, _ := c46RefHash(pols, channelID, md, false)
	if !gen {
		return true, false, 0
	}
	if a != b {
		r.Count("hash_cases_with_noop_terminal_policy_after_a_hash(both readings accepted)", 1)
		if got == a {
			r.Count("hash_noop_terminal_impl_stops(envoy reading)", 1)
		} else if got == b {
			r.Count("hash_noop_terminal_impl_continues(fallback reading)", 1)
		}
	}
	return got == a || got == b, true, a
}

// ---------------------------------------------------------------- building the real thing
//
// The resolver is created by the package's own builder (through the exported test
// hook internal.NewXDSResolverWithClientForTesting) and fed through its exported
// Update method, exactly as the dependency manager does after every xDS update.
// No unexported field of the resolver or of the config selector is named here, so
// the monitor keeps building when those are refactored; everything it needs to
// know (e.g. the channel id) is learned from behaviour.

// c46ClusterPrefix is the child-policy name prefix of the cluster manager LB config.
const c46ClusterPrefix = "cluster:"

// c46ProbePath: every pushed route list starts with a route for exactly this path
// whose only hash policy is channel_id: its request hash IS the channel id
// (rotl(0,1) XOR id), which is how the monitor learns the id of a config selector.
const c46ProbePath = "/verif.Probe/ChannelID"

func c46ProbeRoute() c46Route {
	p := c46ProbePath
	return c46Route{Path: &p, Action: xdsresource.RouteActionRoute,
		Clusters: []xdsresource.WeightedCluster{{Name: "probe", Weight: 1}}, Policies: []c46Policy{{ChannelID: true}}}
}

type c46FakeXDSClient struct {
	xdsclient.XDSClient
	bc *bootstrap.Config
}

func (c *c46FakeXDSClient) BootstrapConfig() *bootstrap.Config { return c.bc }

// WatchResource: the management server never answers; configuration is pushed
// through Update by the monitor.
func (c *c46FakeXDSClient) WatchResource(string, string, gxdsclient.ResourceWatcher) func() {
	return func() {}
}

// c46CC is the resolver.ClientConn the resolver reports to.
type c46CC struct {
	states chan resolver.State
}

func (cc *c46CC) UpdateState(s resolver.State) error {
	cc.states <- s
	return nil
}
func (cc *c46CC) ReportError(error)            {}
func (cc *c46CC) NewAddress([]resolver.Address) {}
func (cc *c46CC) ParseServiceConfig(string) *serviceconfig.ParseResult {
	return &serviceconfig.ParseResult{}
}

// c46Channel is one resolver = one channel.
type c46Channel struct {
	res resolver.Resolver
	upd interface {
		Update(*xdsresource.XDSConfig)
	}
	cc *c46CC
}

func c46NewChannel(bc *bootstrap.Config, n int) (*c46Channel, error) {
	mk, ok := internal.NewXDSResolverWithClientForTesting.(func(xdsclient.XDSClient) (resolver.Builder, error))
	if !ok {
		return nil, fmt.Errorf("internal.NewXDSResolverWithClientForTesting has type %T", internal.NewXDSResolverWithClientForTesting)
	}
	b, err := mk(&c46FakeXDSClient{bc: bc})
	if err != nil {
		return nil, err
	}
	cc := &c46CC{states: make(chan resolver.State, 16)}
	res, err := b.Build(resolver.Target{URL: url.URL{Scheme: "xds", Path: "/c46-service-" + strconv.Itoa(n)}}, cc, resolver.BuildOptions{})
	if err != nil {
		return nil, err
	}
	upd, ok := res.(interface {
		Update(*xdsresource.XDSConfig)
	})
	if !ok {
		res.Close()
		return nil, fmt.Errorf("resolver %T has no Update(*xdsresource.XDSConfig)", res)
	}
	return &c46Channel{res: res, upd: upd, cc: cc}, nil
}

var errC46Timeout = fmt.Errorf("resolver did not report a state within the watchdog")

// push delivers a new aggregated xDS configuration (what the dependency manager
// does after any LDS/RDS/CDS/EDS update) and returns the config selector the
// resolver hands to the channel.  generation only varies the cluster/endpoint
// part of the configuration.
func (ch *c46Channel) push(specs []c46Route, generation int) (iresolver.ConfigSelector, error) {
	clusters := map[string]*xdsresource.ClusterResult{}
	for _, s := range specs {
		for _, c := range s.Clusters {
			clusters[c.Name] = &xdsresource.ClusterResult{Config: xdsresource.ClusterConfig{}}
		}
	}
	clusters["generation-"+strconv.Itoa(generation)] = &xdsresource.ClusterResult{}
	ch.upd.Update(&xdsresource.XDSConfig{
		Listener:    &xdsresource.ListenerUpdate{APIListener: &xdsresource.HTTPConnectionManagerConfig{}},
		RouteConfig: &xdsresource.RouteConfigUpdate{},
		VirtualHost: &xdsresource.VirtualHost{Domains: []string{"*"}, Routes: c46ToRoutes(specs)},
		Clusters:    clusters,
	})
	select {
	case st := <-ch.cc.states:
		cs := iresolver.GetConfigSelector(st)
		if cs == nil {
			return nil, fmt.Errorf("resolver state carries no config selector")
		}
		return cs, nil
	case <-time.After(3 * time.Minute): // watchdog only: never a verdict
		return nil, errC46Timeout
	}
}

// learnID returns the request hash of the probe route = the channel id of cs.
func c46LearnID(cs iresolver.ConfigSelector) (uint64, error) {
	cfg, err := cs.SelectConfig(iresolver.RPCInfo{Context: context.Background(), Method: c46ProbePath})
	if err != nil {
		return 0, err
	}
	if cfg.OnCommitted != nil {
		defer cfg.OnCommitted()
	}
	h, ok := iringhash.XDSRequestHash(cfg.Context)
	if !ok {
		return 0, fmt.Errorf("no request hash in the context of the probe route")
	}
	return h, nil
}

func c46ToRoutes(specs []c46Route) []*xdsresource.Route {
	out := make([]*xdsresource.Route, len(specs))
	for i, s := range specs {
		rt := &xdsresource.Route{Prefix: s.Prefix, Path: s.Path, Fraction: s.Fraction, ActionType: s.Action, WeightedClusters: s.Clusters}
		for _, h := range s.Hdrs {
			inv := h.Invert
			hm := &xdsresource.HeaderMatcher{Name: h.Name, InvertMatch: &inv, PresentMatch: h.Present}
			if h.Present == nil {
				sm := matcher.NewExactStringMatcher(h.Exact, false)
				hm.StringMatch = &sm
			}
			rt.Headers = append(rt.Headers, hm)
		}
		for _, p := range s.Policies {
			hp := &xdsresource.HashPolicy{Terminal: p.Terminal}
			if p.ChannelID {
				hp.HashPolicyType = xdsresource.HashPolicyTypeChannelID
			} else {
				hp.HashPolicyType = xdsresource.HashPolicyTypeHeader
				hp.HeaderName = p.Header
				switch p.ReKind {
				case 1:
					hp.Regex = regexp.MustCompile(regexp.QuoteMeta(p.ReLit))
					hp.RegexSubstitution = p.Subst
				case 2:
					hp.Regex = regexp.MustCompile("[0-9]+")
					hp.RegexSubstitution = p.Subst
				}
			}
			rt.HashPolicies = append(rt.HashPolicies, hp)
		}
		out[i] = rt
	}
	return out
}

// ---------------------------------------------------------------- generators

var c46Methods = []string{"/pkg.Svc/Get", "/pkg.Svc/Put", "/pkg.Other/Get", "/a/b", "/pkg.Svc/GetAll"}
var c46HdrNames = []string{"x-env", "x-user", "session", "trace-bin"}
var c46HdrVals = []string{"prod", "canary", "u42", "u7-s19", "abc", "a,b"}

func c46GenRoute(rng *rand.Rand, nClusters *int) c46Route {
	var rt c46Route
	m := c46Methods[rng.Intn(len(c46Methods))]
	switch rng.Intn(4) {
	case 0:
		p := ""
		rt.Prefix = &p
	case 1:
		p := m[:1+rng.Intn(len(m))]
		rt.Prefix = &p
	default:
		rt.Path = &m
	}
	for k := rng.Intn(3); k > 0; k-- {
		h := c46Hdr{Name: c46HdrNames[rng.Intn(3)], Invert: rng.Intn(4) == 0}
		if rng.Intn(2) == 0 {
			p := rng.Intn(3) != 0
			h.Present = &p
		} else {
			h.Exact = c46HdrVals[rng.Intn(len(c46HdrVals))]
		}
		rt.Hdrs = append(rt.Hdrs, h)
	}
	if rng.Intn(3) == 0 {
		f := uint32([]int{0, 1, 250000, 500000, 999999, 1000000}[rng.Intn(6)])
		rt.Fraction = &f
	}
	rt.Action = xdsresource.RouteActionRoute
	if rng.Intn(12) == 0 {
		rt.Action = xdsresource.RouteActionNonForwardingAction
	}
	for k := 1 + rng.Intn(4); k > 0; k-- {
		w := uint32(1 + rng.Intn(9))
		if rng.Intn(5) == 0 {
			w = uint32(1 + rng.Intn(1000))
		}
		rt.Clusters = append(rt.Clusters, xdsresource.WeightedCluster{Name: "c" + strconv.Itoa(*nClusters), Weight: w})
		*nClusters++
	}
	if rng.Intn(4) == 0 { // equal weights: a distinct code path in weighted pickers
		for i := range rt.Clusters {
			rt.Clusters[i].Weight = rt.Clusters[0].Weight
		}
	}
	for k := rng.Intn(4); k > 0; k-- {
		p := c46Policy{Terminal: rng.Intn(3) == 0}
		if rng.Intn(4) == 0 {
			p.ChannelID = true
		} else {
			p.Header = c46HdrNames[rng.Intn(len(c46HdrNames))]
			switch rng.Intn(4) {
			case 0:
				p.ReKind, p.ReLit, p.Subst = 1, []string{"u", "-", "prod", "a"}[rng.Intn(4)], []string{"", "X", "user"}[rng.Intn(3)]
			case 1:
				p.ReKind, p.Subst = 2, []string{"", "N", "#"}[rng.Intn(3)]
			}
		}
		rt.Policies = append(rt.Policies, p)
	}
	return rt
}

func c46GenMD(rng *rand.Rand) map[string][]string {
	md := map[string][]string{}
	for _, n := range c46HdrNames {
		switch rng.Intn(4) {
		case 0:
		case 1:
			md[n] = []string{c46HdrVals[rng.Intn(len(c46HdrVals))], c46HdrVals[rng.Intn(len(c46HdrVals))]}
		default:
			md[n] = []string{c46HdrVals[rng.Intn(len(c46HdrVals))]}
		}
	}
	return md
}

type c46Case struct {
	Routes   []string            `json:"routes"`
	Method   string              `json:"method"`
	MD       map[string][]string `json:"md"`
	FracDraw int64               `json:"fraction_draw"`
	WRRDraw  uint64              `json:"wrr_draw"`
	Got      string              `json:"got"`
	Want     string              `json:"want"`
}

// ---------------------------------------------------------------- the test

func c46Descr(specs []c46Route) []string {
	d := make([]string, len(specs))
	for k := range specs {
		d[k] = specs[k].String()
	}
	return d
}

// c46CheckWeights: what newConfigSelector handed to the weighted picker.
func c46CheckWeights(r *vlib.Run, fam string, i int, ctl *c46Ctl, specs []c46Route, descr []string) {
	if len(ctl.made) != len(specs) {
		r.Violation("wrr-per-route", fam, i, descr, "the config selector was built with %d weighted pickers for %d routes", len(ctl.made), len(specs))
		return
	}
	for k, w := range ctl.made {
		ok := len(w.weights) == len(specs[k].Clusters)
		for j := 0; ok && j < len(w.weights); j++ {
			ok = w.weights[j] == int64(specs[k].Clusters[j].Weight)
		}
		if !ok {
			r.Violation("cluster-weights-not-passed", fam, i, descr, "route %d: weighted picker received weights %v for clusters %v", k, w.weights, specs[k].Clusters)
		}
	}
}

func TestVerifC46Resolver(t *testing.T) {
	r := vlib.Start(t, "C46")
	bc, err := bootstrap.NewConfigFromContents([]byte(`{"xds_servers":[{"server_uri":"ipv4:///127.0.0.1:1","channel_creds":[{"type":"insecure"}]}],"node":{"id":"c46-node"}}`))
	if err != nil {
		r.Inconclusive("bootstrap.NewConfigFromContents: %v", err)
		r.Finish(vlib.Spec{Rule: "setup failed"})
		return
	}
	origRand, origWRR := xdsresource.RandInt64n, rinternal.NewWRR
	defer func() { xdsresource.RandInt64n, rinternal.NewWRR = origRand, origWRR }()
	ctl := &c46Ctl{}
	var ctlMu sync.Mutex // pickers are created on the resolver's serializer goroutine
	rinternal.NewWRR = func() wrr.WRR {
		w := &c46WRR{ctl: ctl}
		ctlMu.Lock()
		ctl.made = append(ctl.made, w)
		ctlMu.Unlock()
		return w
	}
	resetMade := func() { ctlMu.Lock(); ctl.made = nil; ctlMu.Unlock() }
	var fracDraw int64
	xdsresource.RandInt64n = func(int64) int64 { return fracDraw }
	chanN := 0
	aborted := false
	abort := func(fam string, i int, what string, err error) bool {
		if err == nil {
			return false
		}
		aborted = true
		if err == errC46Timeout {
			r.Inconclusive("%s: %v", what, err)
		} else {
			r.Violation("resolver-update-failed", fam, i, what, "%s on a valid configuration: %v", what, err)
		}
		return true
	}
	seenIDs := map[uint64]int{}

	const famSel = "select"
	n := r.N(3000, 60000)
	for i := 0; i < n && !aborted; i++ {
		if !r.Want(famSel, i) {
			continue
		}
		rng := r.Rand(famSel, i)
		chanN++
		ch, err := c46NewChannel(bc, chanN)
		if abort(famSel, i, "building the xDS resolver", err) {
			break
		}
		var firstID uint64
		var prev []c46Route
		updates := 2 + rng.Intn(2)
		for u := 0; u < updates; u++ {
			// update kinds: new route configuration | same routes, new weights | same routes (cluster/endpoint-only update)
			nClusters := 0
			var specs []c46Route
			kind := "rds"
			switch {
			case u == 0 || rng.Intn(3) == 0:
				specs = []c46Route{c46ProbeRoute()}
				for k := 1 + rng.Intn(5); k > 0; k-- {
					specs = append(specs, c46GenRoute(rng, &nClusters))
				}
			case rng.Intn(2) == 0:
				kind = "weights"
				specs = append([]c46Route(nil), prev...)
				for k := 1; k < len(specs); k++ {
					cl := append([]xdsresource.WeightedCluster(nil), specs[k].Clusters...)
					for j := range cl {
						cl[j].Weight = uint32(1 + rng.Intn(9))
					}
					specs[k].Clusters = cl
				}
			default:
				kind = "eds-only"
				specs = prev
			}
			prev = specs
			descr := c46Descr(specs)
			resetMade()
			cs, err := ch.push(specs, u)
			if abort(famSel, i, "pushing an xDS configuration ("+kind+")", err) {
				break
			}
			ctlMu.Lock()
			c46CheckWeights(r, famSel, i, ctl, specs, descr)
			ctlMu.Unlock()
			id, err := c46LearnID(cs)
			if err != nil {
				r.Violation("channel-id-probe-failed", famSel, i, descr, "RPC to the probe route (channel_id hash policy) failed: %v", err)
				break
			}
			r.Eval(1)
			if u == 0 {
				firstID = id
				if other, dup := seenIDs[id]; dup {
					r.Violation("channel-id-hash-identical-across-channels", famSel, i, map[string]any{"id": id, "other_case": other},
						"two different resolvers (channels) produce the same channel_id request hash %d", id)
				}
				seenIDs[id] = i
			} else {
				r.Count("channel_id_compared_across_updates_"+kind, 1)
				if id != firstID {
					r.Violation("channel-id-hash-changes-across-config-updates", famSel, i, map[string]any{"first": firstID, "now": id, "update": u, "kind": kind, "routes": descr},
						"channel_id request hash was %d with the first config selector and is %d after xDS update #%d (%s) on the SAME resolver: the hash must depend only on the configured inputs and the channel", firstID, id, u, kind)
				}
				r.Nontrivial("chanid/stable-after-" + kind)
			}
			rpcs := 12
			if u > 0 {
				rpcs = 4
			}
			for j := 0; j < rpcs; j++ {
				method := c46Methods[rng.Intn(len(c46Methods))]
				md := c46GenMD(rng)
				extra := map[string][]string{}
				if rng.Intn(3) == 0 {
					extra["content-type"] = []string{"application/grpc"}
				}
				fracDraw = rng.Int63n(1000000)
				if rng.Intn(2) == 0 {
					fracDraw = []int64{0, 1, 249999, 250000, 250001, 499999, 500000, 500001, 999998, 999999}[rng.Intn(10)]
				}
				ctl.draw = rng.Uint64()
				c46OneRPC(r, famSel, i, cs, specs, descr, id, method, md, extra, fracDraw, ctl, nil)
			}
			if u > 0 {
				continue
			}
			// exact proportions: play every value of the random source for one RPC
			method := c46Methods[rng.Intn(len(c46Methods))]
			md := c46GenMD(rng)
			fracDraw = 300000 // not equal to any generated fraction: the F5 boundary is judged above, not here
			if k := c46RefFirst(specs, method, md, fracDraw, true); k >= 0 && specs[k].Action == xdsresource.RouteActionRoute {
				var total uint64
				for _, c := range specs[k].Clusters {
					total += uint64(c.Weight)
				}
				if total <= 4096 {
					counts := map[string]int64{}
					for d := uint64(0); d < total; d++ {
						ctl.draw = d
						c46OneRPC(r, famSel, i, cs, specs, descr, id, method, md, nil, fracDraw, ctl, counts)
					}
					for _, c := range specs[k].Clusters {
						if counts[c46ClusterPrefix+c.Name] != int64(c.Weight) {
							r.Violation("cluster-proportion-not-exact", famSel, i, map[string]any{"routes": descr, "counts": counts},
								"route %d: over all %d draws cluster %s was chosen %d times, weight %d (all: %v)", k, total, c.Name, counts[c46ClusterPrefix+c.Name], c.Weight, counts)
							break
						}
					}
					r.Count("wrr_draws_enumerated", int64(total))
					r.Count("routes_with_enumerated_cluster_choice", 1)
					eq := "uneq"
					if specs[k].Clusters[0].Weight == specs[k].Clusters[len(specs[k].Clusters)-1].Weight {
						eq = "eq-ends"
					}
					r.Nontrivial(fmt.Sprintf("enum/clusters%d/%s", len(specs[k].Clusters), eq))
				}
			}
		}
		ch.res.Close()
	}

	// ---- hash: depends only on the configured inputs (metamorphic) + reference value;
	// every batch of 8 policy lists is one more xDS update on a long-lived channel.
	const famHash = "hash"
	const batch = 8
	n = r.N(30000, 600000)
	var ch *c46Channel
	var chanID uint64
	pushes := 0
	for i := 0; i < n && !aborted; i += batch {
		wantAny := false
		for k := 0; k < batch; k++ {
			wantAny = wantAny || r.Want(famHash, i+k)
		}
		if !wantAny {
			continue
		}
		if ch == nil || pushes%500 == 0 {
			if ch != nil {
				ch.res.Close()
			}
			chanN++
			var err error
			ch, err = c46NewChannel(bc, chanN)
			if abort(famHash, i, "building the xDS resolver", err) {
				break
			}
			chanID = 0
		}
		specs := []c46Route{c46ProbeRoute()}
		rngs := make([]*rand.Rand, batch)
		for k := 0; k < batch; k++ {
			rngs[k] = r.Rand(famHash, i+k)
			nc := 0
			rt := c46GenRoute(rngs[k], &nc)
			for len(rt.Policies) == 0 {
				rt = c46GenRoute(rngs[k], &nc)
			}
			pfx := "/h" + strconv.Itoa(k) + "/"
			specs = append(specs, c46Route{Prefix: &pfx, Action: xdsresource.RouteActionRoute,
				Clusters: []xdsresource.WeightedCluster{{Name: "hc" + strconv.Itoa(k), Weight: 1}}, Policies: rt.Policies})
		}
		cs, err := ch.push(specs, pushes)
		pushes++
		if abort(famHash, i, "pushing an xDS configuration", err) {
			break
		}
		id, err := c46LearnID(cs)
		if err != nil {
			r.Violation("channel-id-probe-failed", famHash, i, c46Descr(specs), "RPC to the probe route (channel_id hash policy) failed: %v", err)
			continue
		}
		if chanID == 0 {
			chanID = id
		} else {
			r.Count("channel_id_compared_across_updates_rds", 1)
			if id != chanID {
				r.Violation("channel-id-hash-changes-across-config-updates", famHash, i, map[string]any{"first": chanID, "now": id, "updates_on_this_channel": pushes},
					"channel_id request hash was %d and is %d after a further xDS update on the SAME resolver", chanID, id)
				chanID = id // report once per change, keep judging the rest against the selector's own id
			}
		}
		for k := 0; k < batch; k++ {
			if !r.Want(famHash, i+k) {
				continue
			}
			rng := rngs[k]
			pols := specs[1+k].Policies
			md := c46GenMD(rng)
			hashOf := func(method string, md map[string][]string) (uint64, bool) {
				cfg, err := cs.SelectConfig(iresolver.RPCInfo{Context: metadata.NewOutgoingContext(context.Background(), metadata.MD(c46Copy(md))), Method: method})
				if err != nil {
					r.Violation("route-not-selected", famHash, i+k, specs[1+k].String(), "SelectConfig(%s) failed: %v", method, err)
					return 0, false
				}
				if cfg.OnCommitted != nil {
					defer cfg.OnCommitted()
				}
				h, ok := iringhash.XDSRequestHash(cfg.Context)
				if !ok {
					r.Violation("request-hash-missing", famHash, i+k, specs[1+k].String(), "SelectConfig(%s) set no request hash", method)
				}
				return h, ok
			}
			got, ok := hashOf("/h"+strconv.Itoa(k)+"/m", md)
			if !ok {
				continue
			}
			r.Eval(1)
			okh, generated, want := c46JudgeHash(r, pols, id, md, got)
			if !generated {
				r.Count("hash_no_policy_applied_random_unjudged", 1)
				r.Nontrivial("hash/none-applied")
				continue
			}
			if !okh {
				r.Violation("request-hash-mismatch", famHash, i+k, map[string]any{"policies": fmt.Sprintf("%+v", pols), "md": md, "channel_id": id, "got": got, "want": want},
					"request hash for policies=%+v, channel id %d, md=%v is %d, reference (rotl1-xor of xxhash64 of the joined/rewritten header values) = %d", pols, id, md, got, want)
			}
			// perturb everything that is NOT a configured input: other headers, method
			used := map[string]bool{}
			for _, p := range pols {
				used[p.Header] = true
			}
			md2 := c46Copy(md)
			for _, hn := range c46HdrNames {
				if !used[hn] {
					md2[hn] = []string{"perturbed-" + strconv.Itoa(rng.Intn(1000))}
				}
			}
			md2["unrelated"] = []string{"zzz"}
			if got2, ok := hashOf("/h"+strconv.Itoa(k)+"/other"+strconv.Itoa(rng.Intn(100)), md2); ok && got2 != got {
				r.Violation("request-hash-depends-on-unconfigured-input", famHash, i+k, map[string]any{"policies": fmt.Sprintf("%+v", pols), "md": md, "md2": md2},
					"hash changed from %d to %d after changing only headers/method that no hash policy names (policies %+v, md %v -> %v)", got, got2, pols, md, md2)
			}
			kinds := ""
			for _, p := range pols {
				switch {
				case p.ChannelID:
					kinds += "C"
				case strings.HasSuffix(p.Header, "-bin"):
					kinds += "b"
				case len(md[p.Header]) == 0:
					kinds += "a" // absent
				default:
					kinds += "h" + strconv.Itoa(p.ReKind)
				}
				if p.Terminal {
					kinds += "!"
				}
			}
			r.Nontrivial("hash/" + kinds)
		}
	}
	if ch != nil {
		ch.res.Close()
	}
	r.Count("resolvers_built", int64(chanN))

	r.Finish(vlib.Spec{
		Level: "exploration",
		Rule: "select: one real xDS resolver (channel) per case, built by the package's builder and fed through Update like the dependency manager does; 2-3 successive xDS updates per channel (new route configuration | same routes with new cluster weights | cluster/endpoint-only update); " +
			"route lists = probe route (channel_id hash policy, used to learn the channel id from behaviour) + 1-5 PRNG routes (prefix/path, 0-2 header matchers, optional fraction, 1-4 weighted clusters, 0-3 hash policies, occasional non-forwarding action); " +
			"after every update: channel_id hash identical to the first selector's, weights handed to the picker, 12 (4) PRNG RPCs with scripted fraction draw (incl. f-1,f,f+1) and scripted weighted-choice draw; first selector: ALL draws of the weighted choice for one RPC (total weight <= 4096) counted per cluster; channel ids of different resolvers must differ; " +
			"hash: PRNG policy lists (header with/without regex rewrite, -bin, channel id, terminal) x PRNG metadata, 8 per xDS update on a long-lived channel (500 updates per channel), request hash through SelectConfig vs reference, then unrelated headers and the method perturbed; " +
			"distinct = (matched route index, #routes, error class) | enumerated (#clusters, weight shape) | channel-id stability per update kind | hash policy-kind string",
		Assumptions: []string{
			"the weighted picker is replaced through the repo's own test seam rinternal.NewWRR by the monitor's textbook picker: this part judges the weights handed over and the use of the pick; internal/wrr itself is judged by the wb/internal_wrr step and by C38",
			"the xDS client is a stub whose watches never fire; aggregated configurations are delivered through the resolver's exported Update method (the dependency manager's delivery path), the resulting config selector is taken from the resolver.State handed to the ClientConn",
			"hash policies and metadata keys do not overlap with the transport's extra metadata (precedence between the two is not pinned by the statement)",
			"xxhash64 (github.com/cespare/xxhash) is trusted; regex rewrites are literals or [0-9]+ with literal substitutions, evaluated in the reference without package regexp",
		},
		Floor: 40,
	})
}

func c46Copy(md map[string][]string) map[string][]string {
	out := map[string][]string{}
	for k, v := range md {
		out[k] = append([]string(nil), v...)
	}
	return out
}

// c46Predict is the reference outcome of one RPC: "error" or the cluster name.
func c46Predict(specs []c46Route, method string, all map[string][]string, fracDraw int64, wrrDraw uint64, strict bool) (route int, outcome string) {
	k := c46RefFirst(specs, method, all, fracDraw, strict)
	if k < 0 || specs[k].Action != xdsresource.RouteActionRoute {
		return k, "error"
	}
	return k, c46ClusterPrefix + c46RefCluster(specs[k].Clusters, wrrDraw)
}

// c46OneRPC runs SelectConfig once and judges route, cluster and hash.
func c46OneRPC(r *vlib.Run, fam string, i int, cs iresolver.ConfigSelector, specs []c46Route, descr []string, channelID uint64,
	method string, md, extra map[string][]string, fracDraw int64, ctl *c46Ctl, counts map[string]int64) {
	ctx := metadata.NewOutgoingContext(context.Background(), metadata.MD(c46Copy(md)))
	all := c46Copy(md)
	if len(extra) > 0 {
		ctx = grpcutil.WithExtraMetadata(ctx, metadata.MD(c46Copy(extra)))
		for k, v := range extra {
			all[k] = v
		}
	}
	ctl.nextCalls = 0
	cfg, err := cs.SelectConfig(iresolver.RPCInfo{Context: ctx, Method: method})
	r.Eval(1)
	want, wantOutcome := c46Predict(specs, method, all, fracDraw, ctl.draw, true)
	got := "error"
	if err == nil {
		got = clustermanager.PickedCluster(cfg.Context)
		defer func() {
			if cfg.OnCommitted != nil {
				cfg.OnCommitted()
			}
		}()
		if counts != nil {
			counts[got]++
		}
	}
	c := c46Case{Routes: descr, Method: method, MD: md, FracDraw: fracDraw, WRRDraw: ctl.draw, Got: got, Want: wantOutcome}
	if err != nil {
		c.Got = "error: " + err.Error()
	}
	if got != wantOutcome {
		key := "wrong-route-selected"
		switch {
		case got == "error":
			key = "route-not-selected"
		case wantOutcome == "error":
			key = "routed-without-matching-route"
		default:
			for _, cl := range specs[want].Clusters {
				if c46ClusterPrefix+cl.Name == got {
					key = "wrong-cluster-within-route"
				}
			}
		}
		// F5 attribution: only when "draw <= f" instead of "draw < f" predicts exactly what was observed
		if _, loose := c46Predict(specs, method, all, fracDraw, ctl.draw, false); loose != wantOutcome && loose == got {
			key = c46KeyF5
		}
		r.Violation(key, fam, i, c, "SelectConfig(%s, %v, fraction draw %d, weighted draw %d) -> %s; reference: first matching route %d -> %s (routes %v)",
			method, md, fracDraw, ctl.draw, c.Got, want, wantOutcome, descr)
		return
	}
	if err != nil {
		if want < 0 {
			r.Nontrivial(fmt.Sprintf("sel/no-route/of%d", len(specs)))
		} else {
			r.Nontrivial(fmt.Sprintf("sel/unsupported-action/%d-of%d", want, len(specs)))
		}
		return
	}
	if ctl.nextCalls != 1 {
		r.Violation("weighted-pick-count", fam, i, c, "SelectConfig consulted the weighted picker %d times for one RPC", ctl.nextCalls)
	}
	gotHash, present := iringhash.XDSRequestHash(cfg.Context)
	if ok, generated, wantHash := c46JudgeHash(r, specs[want].Policies, channelID, all, gotHash); generated {
		if !present || !ok {
			r.Violation("request-hash-mismatch", fam, i, c, "SelectConfig(%s, %v) set request hash %d (present=%v); reference for route %d policies %+v = %d", method, md, gotHash, present, want, specs[want].Policies, wantHash)
		}
		r.Count("select_hash_checked", 1)
	}
	r.Nontrivial(fmt.Sprintf("sel/route%d-of%d/frac%v", want, len(specs), specs[want].Fraction != nil))
	if i < 1 && counts == nil {
		r.Sample(c)
	}
}
