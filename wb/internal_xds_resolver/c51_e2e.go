// C51, workload 2 ("e2e"): the same monitor and the same history executor as
// c51_direct.go, but the resolver is built the way production builds it: real
// xDS client, ADS stream over loopback to the in-process management server of
// internal/testutils/xds/e2e (same construction, see c51Mgmt), protobuf
// resources built by the e2e helpers (validated and parsed by the real client),
// the package's own cluster specifier plugin and HTTP filter config fixtures.
//
// Real time is unavoidable here, so (R1) only safety facts are verdicts:
// O1 (pushed state vs uncommitted RPCs) and O2 (interceptor closed before
// commit).  "The configuration has settled" is established by polling until the
// last pushed state reflects the installed route configuration (its children
// include route U held); if that does not happen before a generous watchdog the
// run is INCONCLUSIVE, never a violation.  Whether clusters that are neither
// routed nor held do disappear is only observed here (short grace period, then
// counted): on a wall clock "never" cannot be told from "not yet", the direct
// workload decides that half of the property at exact quiescence.  Route updates
// are issued one at a time (each is followed by settling); the wild
// interleavings are the direct workload's job.
package resolver_test

import (
	"context"
	"encoding/json"
	"fmt"
	"net"
	"net/url"
	"os"
	"path/filepath"
	"strconv"
	"sync/atomic"
	"testing"
	"time"

	"github.com/envoyproxy/go-control-plane/pkg/cache/types"
	"github.com/google/uuid"
	"google.golang.org/grpc"
	"google.golang.org/grpc/internal"
	"google.golang.org/grpc/internal/testutils"
	"google.golang.org/grpc/internal/testutils/xds/e2e"
	"google.golang.org/grpc/internal/xds/bootstrap"
	"google.golang.org/grpc/internal/xds/httpfilter"
	"google.golang.org/grpc/resolver"
	"google.golang.org/protobuf/types/known/wrapperspb"

	v3corepb "github.com/envoyproxy/go-control-plane/envoy/config/core/v3"
	v3listenerpb "github.com/envoyproxy/go-control-plane/envoy/config/listener/v3"
	v3routepb "github.com/envoyproxy/go-control-plane/envoy/config/route/v3"
	v3httppb "github.com/envoyproxy/go-control-plane/envoy/extensions/filters/network/http_connection_manager/v3"
	v3discoverygrpc "github.com/envoyproxy/go-control-plane/envoy/service/discovery/v3"
	v3cache "github.com/envoyproxy/go-control-plane/pkg/cache/v3"
	v3resource "github.com/envoyproxy/go-control-plane/pkg/resource/v3"
	v3server "github.com/envoyproxy/go-control-plane/pkg/server/v3"

	vlib "google.golang.org/grpc/internal/verifvlib"
)

const (
	c51SettleWatchdog = 45 * time.Second
	c51ParkWatchdog   = 30 * time.Second
	c51ExtraGrace     = 3 * time.Second
)

type c51E2EWorld struct {
	t      *testing.T
	r      *vlib.Run
	ctx    context.Context
	mgmt   *c51Mgmt
	nodeID string
	key    string
	mon    *c51Mon
	inline bool
	fam    string
	idx    int
	failed bool
	gaveUp *atomic.Int32
	polls  int
	hist   c51History
	// extraSeen: a settle point of this history kept children beyond route U
	// held for the whole grace period (observation, see idle).
	extraSeen bool
	extras    int
}

func (w *c51E2EWorld) routeProto(rc c51RouteCfg) *v3routepb.RouteConfiguration {
	out := &v3routepb.RouteConfiguration{Name: c51RDSName}
	vh := &v3routepb.VirtualHost{Domains: []string{c51Service}}
	declared := map[string]bool{}
	for _, rt := range rc.Routes {
		ra := &v3routepb.RouteAction{}
		switch {
		case rt.Plugin != "":
			ra.ClusterSpecifier = &v3routepb.RouteAction_ClusterSpecifierPlugin{ClusterSpecifierPlugin: rt.Plugin}
			if !declared[rt.Plugin] {
				declared[rt.Plugin] = true
				out.ClusterSpecifierPlugins = append(out.ClusterSpecifierPlugins, &v3routepb.ClusterSpecifierPlugin{
					Extension: &v3corepb.TypedExtensionConfig{Name: rt.Plugin, TypedConfig: testutils.MarshalAny(w.t, &wrapperspb.StringValue{Value: rt.Plugin})},
				})
			}
		case len(rt.Clusters) == 1 && rt.Clusters[0].Weight == 1:
			ra.ClusterSpecifier = &v3routepb.RouteAction_Cluster{Cluster: rt.Clusters[0].Name}
		default:
			wc := &v3routepb.WeightedCluster{}
			for _, c := range rt.Clusters {
				wc.Clusters = append(wc.Clusters, &v3routepb.WeightedCluster_ClusterWeight{Name: c.Name, Weight: &wrapperspb.UInt32Value{Value: c.Weight}})
			}
			ra.ClusterSpecifier = &v3routepb.RouteAction_WeightedClusters{WeightedClusters: wc}
		}
		vh.Routes = append(vh.Routes, &v3routepb.Route{
			Match:  &v3routepb.RouteMatch{PathSpecifier: &v3routepb.RouteMatch_Prefix{Prefix: rt.Prefix}},
			Action: &v3routepb.Route_Route{Route: ra},
		})
	}
	out.VirtualHosts = []*v3routepb.VirtualHost{vh}
	return out
}

func (w *c51E2EWorld) resources(rc c51RouteCfg) e2e.UpdateOptions {
	hcm := &v3httppb.HttpConnectionManager{
		HttpFilters: []*v3httppb.HttpFilter{newHTTPFilter(w.t, c51FilterName, c51FilterTypeURL, w.key, ""), e2e.RouterHTTPFilter},
	}
	opts := e2e.UpdateOptions{NodeID: w.nodeID, SkipValidation: true}
	if w.inline {
		hcm.RouteSpecifier = &v3httppb.HttpConnectionManager_RouteConfig{RouteConfig: w.routeProto(rc)}
	} else {
		hcm.RouteSpecifier = &v3httppb.HttpConnectionManager_Rds{Rds: &v3httppb.Rds{
			ConfigSource:    &v3corepb.ConfigSource{ConfigSourceSpecifier: &v3corepb.ConfigSource_Ads{Ads: &v3corepb.AggregatedConfigSource{}}},
			RouteConfigName: c51RDSName,
		}}
		opts.Routes = []*v3routepb.RouteConfiguration{w.routeProto(rc)}
	}
	opts.Listeners = []*v3listenerpb.Listener{{Name: c51Service, ApiListener: &v3listenerpb.ApiListener{ApiListener: testutils.MarshalAny(w.t, hcm)}}}
	for _, c := range c51Clusters {
		opts.Clusters = append(opts.Clusters, e2e.DefaultCluster(c, "eds-"+c, e2e.SecurityLevelNone))
		opts.Endpoints = append(opts.Endpoints, e2e.DefaultEndpoint("eds-"+c, "localhost", []uint32{8080}))
	}
	return opts
}

func (w *c51E2EWorld) install(rc c51RouteCfg) {
	if err := w.mgmt.Update(w.ctx, w.resources(rc)); err != nil {
		w.fail("management server update failed: %v", err)
	}
}

func (w *c51E2EWorld) fail(format string, args ...any) {
	if !w.failed {
		w.failed = true
		w.gaveUp.Add(1)
		// Keep the history and the trace next to the replay files: an
		// inconclusive watchdog must be diagnosable.
		w.mon.mu.Lock()
		trace := append([]string(nil), w.mon.trace...)
		w.mon.mu.Unlock()
		path := filepath.Join(os.Getenv("VERIF_REPLAY_DIR"), fmt.Sprintf("C51-%d-%s-%d-inconclusive-trace.json", w.r.Seed(), w.fam, w.idx))
		if b, err := json.MarshalIndent(map[string]any{"history": w.hist, "trace": trace}, "", " "); err == nil && os.Getenv("VERIF_REPLAY_DIR") != "" {
			_ = os.WriteFile(path, b, 0o644)
		}
		w.r.Inconclusive("e2e %s/%d: %s (trace: %s)", w.fam, w.idx, fmt.Sprintf(format, args...), path)
	}
}

// settled compares the last pushed state with the installed route
// configuration: reflects == it carries the installed routes and its children
// include route U held (what O1 demands anyway); exact == the children are
// precisely route U held.
func (w *c51E2EWorld) settled() (reflects, exact bool, desc string) {
	m := w.mon
	m.mu.Lock()
	defer m.mu.Unlock()
	if len(m.pushes) == 0 {
		return false, false, "no state pushed yet"
	}
	p := m.pushes[len(m.pushes)-1]
	want := map[string]bool{}
	for k := range m.route {
		want[k] = true
	}
	for _, r := range m.rpcs {
		if r.state == c51Held {
			want[r.cluster] = true
		}
	}
	desc = fmt.Sprintf("last push#%d routes=%q children=%v; installed routes=%q, route U held=%v", p.idx, p.routeSig, c51Keys(p.children), m.routeSig, c51Keys(want))
	if p.errCfg || !p.returned || p.routeSig != m.routeSig {
		return false, false, desc
	}
	for k := range want {
		if !p.children[k] {
			return false, false, desc
		}
	}
	return true, len(p.children) == len(want), desc
}

// idle: real time, so this is a convergence wait, not a verdict.  It waits
// (watchdog => INCONCLUSIVE) until the pushed state reflects the installed
// route configuration, then gives the resolver a short grace period to drop
// what is neither routed nor held.  If something extra is still there after the
// grace period this is only counted ("e2e_settle_points_with_extra_children"):
// "never dropped" cannot be told from "not yet dropped" on a wall clock, and
// the direct workload decides that part of the property at exact quiescence.
func (w *c51E2EWorld) idle() bool {
	if w.failed {
		return false
	}
	deadline := time.NewTimer(c51SettleWatchdog)
	defer deadline.Stop()
	var grace <-chan time.Time
	for {
		w.polls++
		reflects, exact, desc := w.settled()
		if exact || (reflects && w.extraSeen) {
			return true
		}
		if reflects && grace == nil {
			grace = time.After(c51ExtraGrace)
		}
		select {
		case <-w.mon.pushCh:
		case <-time.After(20 * time.Millisecond):
		case <-grace:
			if reflects, exact, desc := w.settled(); reflects && !exact {
				w.extraSeen = true // do not wait again in this history
				w.extras++
				w.mon.log("observation: after %v the pushed state still has children beyond route U held: %s", c51ExtraGrace, desc)
				return true
			}
			grace = nil
		case <-deadline.C:
			w.fail("pushed state did not converge within %v (watchdog, not a verdict): %s", c51SettleWatchdog, desc)
			return false
		}
	}
}

func (w *c51E2EWorld) parked(ch <-chan struct{}) bool {
	if w.failed {
		return false
	}
	select {
	case <-ch:
		return true
	case <-time.After(c51ParkWatchdog):
		w.fail("no state was pushed within %v of a route update (watchdog, not a verdict)", c51ParkWatchdog)
		return false
	}
}

func (w *c51E2EWorld) drain()       { time.Sleep(2 * time.Millisecond) } // best effort; nothing is judged on it
func (w *c51E2EWorld) serial() bool { return true }

// c51Mgmt is the in-process xDS management server.  It is built exactly like
// e2e.StartManagementServer builds its server (go-control-plane snapshot cache
// + sotw ADS server on a loopback gRPC server, AllowResourceSubset) and its
// Update mirrors e2e.ManagementServer.Update; the only difference is the logger:
// the fixture logs through (*testing.T).Logf from its stream handlers, which may
// still run when a history (or the test) is over -- a data race / "Log in
// goroutine after test has completed" inside the fixture that the driver would
// have to attribute to grpc.  Resources are still produced by the e2e helpers.
type c51Mgmt struct {
	Address string
	cancel  context.CancelFunc
	gs      *grpc.Server
	cache   v3cache.SnapshotCache
	version int
}

type c51NopLogger struct{}

func (c51NopLogger) Debugf(string, ...any) {}
func (c51NopLogger) Infof(string, ...any)  {}
func (c51NopLogger) Warnf(string, ...any)  {}
func (c51NopLogger) Errorf(string, ...any) {}

func c51StartMgmt() (*c51Mgmt, error) {
	lis, err := net.Listen("tcp", "localhost:0")
	if err != nil {
		return nil, err
	}
	cache := v3cache.NewSnapshotCache(false, v3cache.IDHash{}, c51NopLogger{})
	ctx, cancel := context.WithCancel(context.Background())
	xs := v3server.NewServer(ctx, cache, v3server.CallbackFuncs{})
	gs := grpc.NewServer()
	v3discoverygrpc.RegisterAggregatedDiscoveryServiceServer(gs, xs)
	go gs.Serve(lis)
	return &c51Mgmt{Address: lis.Addr().String(), cancel: cancel, gs: gs, cache: cache}, nil
}

func (s *c51Mgmt) Update(ctx context.Context, opts e2e.UpdateOptions) error {
	s.version++
	rs := func(n int, at func(int) types.Resource) []types.Resource {
		out := make([]types.Resource, n)
		for i := range out {
			out[i] = at(i)
		}
		return out
	}
	resources := map[v3resource.Type][]types.Resource{
		v3resource.ListenerType: rs(len(opts.Listeners), func(i int) types.Resource { return opts.Listeners[i] }),
		v3resource.RouteType:    rs(len(opts.Routes), func(i int) types.Resource { return opts.Routes[i] }),
		v3resource.ClusterType:  rs(len(opts.Clusters), func(i int) types.Resource { return opts.Clusters[i] }),
		v3resource.EndpointType: rs(len(opts.Endpoints), func(i int) types.Resource { return opts.Endpoints[i] }),
	}
	snapshot, err := v3cache.NewSnapshot(strconv.Itoa(s.version), resources)
	if err != nil {
		return fmt.Errorf("failed to create new snapshot: %v", err)
	}
	return s.cache.SetSnapshot(ctx, opts.NodeID, snapshot)
}

func (s *c51Mgmt) Stop() {
	s.cancel()
	s.gs.Stop()
}

func c51E2EBootstrap(nodeID, addr string) ([]byte, error) {
	return bootstrap.NewContentsForTesting(bootstrap.ConfigOptionsForTesting{
		Servers: []byte(fmt.Sprintf(`[{"server_uri": "passthrough:///%s", "channel_creds": [{"type": "insecure"}]}]`, addr)),
		Node:    []byte(fmt.Sprintf(`{"id": "%s"}`, nodeID)),
	})
}

func c51RunE2E(t *testing.T, r *vlib.Run, fam string, i int, h c51History, gaveUp *atomic.Int32) (e *c51Exec) {
	ctx, cancel := context.WithTimeout(context.Background(), 10*time.Minute)
	defer cancel()
	key := fmt.Sprintf("c51/%s/%d/%d", fam, r.Seed(), i)
	mon := c51NewMon(key, true)
	c51Monitors.Store(key, mon)
	defer c51Monitors.Delete(key)

	w := &c51E2EWorld{t: t, r: r, ctx: ctx, key: key, mon: mon, inline: h.Inline, fam: fam, idx: i, gaveUp: gaveUp, hist: h}
	e = &c51Exec{mon: mon, cc: c51NewCC(mon), w: w, h: h, rng: r.Rand(fam+"/exec", i)}
	mgmt, err := c51StartMgmt()
	if err != nil {
		w.fail("cannot start the management server: %v", err)
		return e
	}
	defer mgmt.Stop()
	w.mgmt = mgmt
	w.nodeID = uuid.New().String()
	e.setRoute(h.Palette[0])

	bc, err := c51E2EBootstrap(w.nodeID, w.mgmt.Address)
	if err != nil {
		w.fail("cannot create bootstrap contents: %v", err)
		return e
	}
	builder, err := internal.NewXDSResolverWithConfigForTesting.(func([]byte) (resolver.Builder, error))(bc)
	if err != nil {
		w.fail("cannot create resolver builder: %v", err)
		return e
	}
	res, err := builder.Build(resolver.Target{URL: *testutils.MustParseURL("xds:///" + c51Service)}, e.cc, resolver.BuildOptions{Authority: url.PathEscape(c51Service)})
	if err != nil {
		w.fail("Build failed: %v", err)
		return e
	}
	defer func() {
		e.join()
		res.Close()
	}()
	select {
	case <-e.cc.ready:
	case <-time.After(c51SettleWatchdog):
		w.fail("no config selector pushed within %v of Build (watchdog, not a verdict)", c51SettleWatchdog)
		return e
	}
	e.run()
	return e
}

func TestVerifC51E2E(t *testing.T) {
	r := vlib.Start(t, "C51")
	stop := r.Watchdog(time.Duration(r.N(8, 38)) * time.Minute)
	defer stop()
	httpfilter.Register(c51FilterBuilder{})
	defer httpfilter.UnregisterForTesting(c51FilterTypeURL)

	const fam = "e2e"
	n := r.N(64, 1000)
	workers := 8
	var gaveUp atomic.Int32
	var qchecks, gates, polls, extras atomic.Int64
	t.Run("histories", func(t *testing.T) {
		for w := 0; w < workers; w++ {
			w := w
			t.Run(fmt.Sprintf("w%d", w), func(t *testing.T) {
				t.Parallel()
				for i := w; i < n; i += workers {
					if !r.Want(fam, i) {
						continue
					}
					if gaveUp.Load() >= 2 {
						return // two watchdogs expired: the run is inconclusive anyway
					}
					shape := 4
					if i < 16 {
						shape = i % 4 // the flap shape (3) degenerates to plain updates here: serial world
					}
					h := c51GenHistory(r.Rand(fam, i), shape)
					r.Progress(fam, i, fmt.Sprintf("shape=%d acts=%d", shape, len(h.Acts)))
					e := c51RunE2E(t, r, fam, i, h, &gaveUp)
					qchecks.Add(int64(e.qchks))
					gates.Add(int64(e.gates))
					if ew, ok := e.w.(*c51E2EWorld); ok {
						polls.Add(int64(ew.polls))
						extras.Add(int64(ew.extras))
					}
					c51Report(r, fam, i, e.mon, h, "e2e")
				}
			})
		}
	})
	r.Count("e2e_settled_points", qchecks.Load())
	r.Count("e2e_settle_polls", polls.Load())
	r.Count("e2e_settle_points_with_extra_children", extras.Load())
	r.Count("e2e_pushes_parked_inside_update_state", gates.Load())
	r.Finish(vlib.Spec{
		Level: "exploration",
		Rule:  "the generated histories of the direct workload (same generator, other seeds) executed through the real xDS client and an in-process management server on loopback, one route update at a time (every update is followed by settling); verdicts are the safety oracles only; non-trivial / distinct as in the direct workload",
		Assumptions: []string{
			"real time: settling is established by polling the pushed states (45 s watchdog => INCONCLUSIVE, never a violation); removal of clusters that are neither routed nor held is observed only (3 s grace, counted), never judged here",
			"the management server keeps all CDS/EDS resources; listener and route configuration resources are never removed",
		},
		Floor: 6,
	})
}
