#!/bin/bash
# Offline setup: nothing to download.  Warm the build cache for the harness
# module and the most used white-box packages so that quick checks start fast.
set -u
cd "$(dirname "$0")/.."
. scripts/env.sh
mkdir -p .gen evidence replay
chmod +x check scripts/*.sh scripts/*.py 2>/dev/null
echo "go: $($GO version)"
( cd h && $GO build ./... 2>&1 | tail -5 )
( cd h && $GO test -vet=off -count=1 -run '^$' ./... >/dev/null 2>&1 )
echo "setup done"
exit 0
