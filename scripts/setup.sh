#!/bin/bash
# Offline setup: nothing to download.  Warm the build cache (toolchain std, grpc, harness
# packages; with and without -race) so that quick checks start fast.
set -u
cd "$(dirname "$0")/.."
. scripts/env.sh
mkdir -p .gen evidence replay
chmod +x check scripts/*.sh scripts/*.py 2>/dev/null
echo "go: $($GO version)"
( cd h && $GO build ./... 2>&1 | tail -5 )
( cd h && $GO test -vet=off -count=1 -run '^$' ./... >/dev/null 2>&1 )
( cd h && $GO test -vet=off -race -count=1 -run '^$' ./c01_flow/ ./c13_maxstreams/ ./c31_serializer/ >/dev/null 2>&1 )
( cd /repo && $GO test -vet=off -count=1 -run '^$' ./internal/transport/ ./internal/xds/... ./balancer/... >/dev/null 2>&1 )
( cd /repo && $GO test -vet=off -race -count=1 -run '^$' ./internal/transport/ >/dev/null 2>&1 )
echo "setup done"
exit 0
