#!/bin/bash
# sweep.sh "C01 C02 ..." "1 2 3"  -> one line per (check, seed); non-zero exits listed at the end
cd "$(dirname "$0")/.."
bad=""
for id in $1; do for s in ${2:-1 2 3}; do
  out=$(VERIF_SEED=$s ./check "$id" 2>&1); rc=$?
  echo "$id seed=$s rc=$rc $(echo "$out" | grep -E '^check ' | sed -E 's/.*wall=([0-9.]+)s.*/wall=\1s/') $(echo "$out" | grep -c '^KNOWN-FINDING') known"
  if [ $rc -ne 0 ]; then bad="$bad $id@$s"; echo "$out" | grep -E '^(VIOLATION|INCONCLUSIVE|  detail)' | head -6; fi
done; done
echo "BAD:$bad"
