#!/usr/bin/env python3
"""seed_prompt.py Cnn -> creates worktree /tmp/seed_Cnn and prints the prompt for an independent mutation-seeding agent."""
import json, sys, subprocess, os
pid = sys.argv[1]
p = [json.loads(l) for l in open('/verif/properties.jsonl') if json.loads(l)['id'] == pid][0]
wt = f"/tmp/seed_{pid}"
if not os.path.exists(wt):
    subprocess.run(["git", "-C", "/repo", "worktree", "add", "--detach", wt, "HEAD"], check=True, capture_output=True)
print(f"""You are a senior Go engineer helping to evaluate a verification effort for grpc-go. You work ONLY inside the git worktree {wt} (a checkout of grpc-go); do not read or write anything under /verif or /repo, and do not look for existing verification harnesses — your work must be independent.

Environment for every shell call: `export GO=/root/go/pkg/mod/golang.org/toolchain@v0.0.1-go1.25.0.linux-amd64/bin/go GOFLAGS=-mod=mod GOPROXY=off GOSUMDB=off GOTOOLCHAIN=local` and use `$GO` (no network; nothing can be fetched). The machine is shared and may be heavily loaded, so tests may be slow.

The property (of grpc-go's behaviour) is:

TITLE: {p['title']}
STATEMENT: {p['statement']}
QUANTIFIED OVER: {p['quantifier']['text']}
CODE IT IS ANCHORED IN: {', '.join(p['anchors']['files'])}

Your task: produce TWO different, realistic changes to grpc-go's NON-TEST source (each a small patch, as a careless but plausible refactoring/optimisation/bug-fix-gone-wrong would be) that each BREAK this property while (1) the repository still compiles (`$GO build ./...` and `$GO vet` of the touched packages) and (2) the EXISTING tests of the touched packages and their closest dependants still pass (`$GO test` on those packages; run them and report the commands and results; flaky failures unrelated to your change must be distinguished by re-running on the unchanged tree). Prefer changes that need something specific to manifest — a particular interleaving, a fault at a particular point, a multi-step sequence of operations, an unusual input, or two cooperating sites that each look fine alone — NOT ones that ordinary use would expose at once. The two changes should break different aspects/mechanisms of the property.

For each change deliver, under {wt}/SEED/<n>/ (n = 1, 2):
 - patch.diff : `git diff` of the change relative to HEAD (non-test files only), applying cleanly with `git apply` at the worktree root;
 - a demonstration: a Go test file (say demo_test.go, placed in the appropriate package directory when run; keep a copy in SEED/<n>/ and state the directory it belongs in) or a small program that FAILS with the change applied and PASSES without it, deterministic or with a very high detection rate; state the exact command;
 - meta.json : {{"property": "{pid}", "summary": "...", "needs_to_manifest": "...", "files_touched": [...], "demo_dir": "...", "demo_cmd": "...", "existing_tests_run": "...", "existing_tests_result": "..."}}.
After producing each patch, revert the worktree's tracked files (`git checkout -- .`) so that both patches are relative to a clean HEAD; leave only the SEED/ directory (untracked). Verify each demonstration both ways (with and without the patch) yourself and report honestly; if you cannot make a change meet all the requirements, say so rather than overstating. Your final message: a short summary of the two changes, how they manifest, and the verification you ran.""")
