#!/usr/bin/env python3
"""Regenerates /verif/MANIFEST.json from checks.d/*.json (claimed checks) and
not_applicable.json (reasons for properties not claimed)."""
import json, os, glob, sys
ROOT = os.path.dirname(os.path.dirname(os.path.abspath(__file__)))
props = [json.loads(l)["id"] for l in open(os.path.join(ROOT, "properties.jsonl"))]
na_file = os.path.join(ROOT, "not_applicable.json")
na_reasons = json.load(open(na_file)) if os.path.exists(na_file) else {}
accepted = set(json.load(open(os.path.join(ROOT, "claimed.json"))))  # checks accepted by the maintainer after R7
checks = []
claimed = set()
for p in sorted(glob.glob(os.path.join(ROOT, "checks.d", "C*.json"))):
    s = json.load(open(p))
    if s.get("disabled"):
        continue
    pid = s["id"]
    if pid not in accepted:
        continue
    claimed.add(pid)
    checks.append({
        "property_id": pid,
        "quick_cmd": f"./check {pid}",
        "thorough_cmd": f"./check {pid} --tier thorough",
        "evidence_file": f"/verif/evidence/{pid}.json",
        "replay_cmd_template": f"./check {pid} --replay {{path}}",
        "engine": s.get("engine", ""),
        "level_claimed": {"category": s.get("level", "exploration"), "text": s["level_text"], "design_ref": s.get("design_ref", f"DESIGN.md §4 {pid}")},
        "level_note": s["level_note"],
        "technique": s["technique"],
    })
na = []
for pid in props:
    if pid not in claimed:
        na.append({"property_id": pid, "reason": na_reasons.get(pid, "runtime monitor designed (DESIGN.md §4) but not built/validated yet; not claimed until it is silent on the unchanged tree and fires on scratch mutations")})
engines = json.load(open(os.path.join(ROOT, "engines.json"))) if os.path.exists(os.path.join(ROOT, "engines.json")) else []
for e in engines:
    e["serves_properties"] = sorted(c["property_id"] for c in checks if e["name"].split()[0] in c["engine"].replace(",", " ").split())
hooks_file = os.path.join(ROOT, "hooks.json")
hooks = json.load(open(hooks_file))
m = {
    "version": 1,
    "setup_cmd": "bash scripts/setup.sh",
    "hooks": hooks,
    "engines": engines,
    "checks": checks,
    "notes": "All checks are runtime monitors over executions of the real grpc-go code built from /repo's working tree (see DESIGN.md). ./check <id> exits 0 (held), 1 (VIOLATION line) or 2 (INCONCLUSIVE: watchdog, build failure, too few non-trivial cases). Known genuine defects: known_findings.json.",
    "not_applicable": na,
}
json.dump(m, open(os.path.join(ROOT, "MANIFEST.json"), "w"), indent=1)
print(f"MANIFEST.json: {len(checks)} checks, {len(na)} not claimed")
