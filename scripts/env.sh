# Sourced by every script of /verif.  Offline build environment for grpc-go harnesses.
export VERIF_ROOT="${VERIF_ROOT:-$(cd "$(dirname "${BASH_SOURCE[0]}")/.." && pwd)}"
export VERIF_REPO="${VERIF_REPO:-/repo}"
# go1.26.8 preferred (go1.25.0's synctest runtime has a rare infinite-loop bug, see check).
GO=""
for _tc in "${VERIF_GO:-}" /opt/veriftools/go1.26.8/bin/go /root/go/pkg/mod/golang.org/toolchain@v0.0.1-go1.26.8.linux-amd64/bin/go /root/go/pkg/mod/golang.org/toolchain@v0.0.1-go1.25.0.linux-amd64/bin/go; do
  if [ -n "$_tc" ] && [ -x "$_tc" ]; then GO="$_tc"; break; fi
done
[ -n "$GO" ] || GO="$(command -v go)"
export GO
export GOFLAGS=-mod=mod GOPROXY=off GOSUMDB=off GOTOOLCHAIN=local GONOSUMDB='*' GONOSUMCHECK=1 GOFLAGS=-mod=mod
export CGO_ENABLED=1
