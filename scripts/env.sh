# Sourced by every script of /verif.  Offline build environment for grpc-go harnesses.
export VERIF_ROOT="${VERIF_ROOT:-$(cd "$(dirname "${BASH_SOURCE[0]}")/.." && pwd)}"
export VERIF_REPO="${VERIF_REPO:-/repo}"
_tc="$(ls -d /root/go/pkg/mod/golang.org/toolchain@v0.0.1-go1.25.0.linux-amd64 2>/dev/null | head -1)"
if [ -n "$_tc" ] && [ -x "$_tc/bin/go" ]; then
  export GO="$_tc/bin/go"
else
  export GO="$(command -v go)"
fi
export GOFLAGS=-mod=mod GOPROXY=off GOSUMDB=off GOTOOLCHAIN=local GONOSUMDB='*' GONOSUMCHECK=1 GOFLAGS=-mod=mod
export CGO_ENABLED=1
