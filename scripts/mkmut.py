#!/usr/bin/env python3
"""mkmut.py Cnn name file 'old' 'new' [count] — writes mutations/Cnn/name.diff replacing old->new in /repo/<file> (scratch copy; /repo untouched)."""
import sys, os, subprocess, tempfile, shutil
pid, name, f, old, new = sys.argv[1:6]
src = open(os.path.join("/repo", f)).read()
if src.count(old) < 1:
    sys.exit(f"pattern not found in {f}")
if src.count(old) > 1 and len(sys.argv) < 7:
    sys.exit(f"pattern occurs {src.count(old)} times in {f}")
d = tempfile.mkdtemp(prefix="mk.")
try:
    a = os.path.join(d, "a", f); b = os.path.join(d, "b", f)
    os.makedirs(os.path.dirname(a)); os.makedirs(os.path.dirname(b))
    open(a, "w").write(src); open(b, "w").write(src.replace(old, new, 1))
    p = subprocess.run(["diff", "-u", "--label", "a/" + f, "--label", "b/" + f, a, b], capture_output=True, text=True)
    out = os.path.join(os.path.dirname(os.path.dirname(os.path.abspath(__file__))), "mutations", pid)
    os.makedirs(out, exist_ok=True)
    open(os.path.join(out, name + ".diff"), "w").write(f"diff --git a/{f} b/{f}\n" + p.stdout)
    print("wrote", os.path.join(out, name + ".diff"))
finally:
    shutil.rmtree(d)
