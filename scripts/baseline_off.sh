#!/bin/bash
# Runs the repository's pinned test suite with the guard off.  /verif adds no
# source hooks to /repo, so this is simply the unmodified tree.  The suite runs
# with the toolchain the repository pins (go1.25.0), not the one the checks use.
. "$(dirname "$0")/env.sh"
R=/root/go/pkg/mod/golang.org/toolchain@v0.0.1-go1.25.0.linux-amd64/bin/go
[ -x "$R" ] && GO="$R"
cd /repo
rc=0
for m in . ./cmd/protoc-gen-go-grpc ./gcp/observability ./interop/observability ./interop/xds ./security/advancedtls ./stats/opencensus; do
  ( cd /repo/$m && $GO test -mod=mod -json -vet=off -count=1 -timeout 25m ./... ) || rc=1
done
exit $rc
