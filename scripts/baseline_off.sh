#!/bin/bash
# Runs the repository's pinned test suite with the guard off.  /verif adds no
# source hooks to /repo, so this is simply the unmodified tree.
. "$(dirname "$0")/env.sh"
cd /repo
rc=0
for m in . ./cmd/protoc-gen-go-grpc ./gcp/observability ./interop/observability ./interop/xds ./security/advancedtls ./stats/opencensus; do
  ( cd /repo/$m && $GO test -mod=mod -json -vet=off -count=1 -timeout 25m ./... ) || rc=1
done
exit $rc
