#!/usr/bin/env python3
"""Rewrites 'Appendix B. Checks as built' at the end of DESIGN.md from checks.d/*.json."""
import json, glob, os, re
root = os.path.dirname(os.path.dirname(os.path.abspath(__file__)))
rows = ["## Appendix B. Checks as built (generated from checks.d)", "",
        "| id | engine | level | steps (kind: package) | technique |", "|---|---|---|---|---|"]
for f in sorted(glob.glob(os.path.join(root, "checks.d", "C*.json"))):
    d = json.load(open(f))
    steps = []
    for s in d["steps"]:
        k = s["kind"] + (" -race" if s.get("race") else "")
        if (s.get("env") or {}).get("VERIF_LIGHT"):
            k += " light"
        if s.get("thorough_only"):
            k += " (thorough only)"
        steps.append(f"{k}: {s['pkg'].strip('./') or '(root)'}")
    tech = re.sub(r"\s+", " ", d.get("technique", ""))[:200]
    rows.append(f"| {d['id']} | {d.get('engine','')} | {d.get('level','')} | {'; '.join(steps)} | {tech} |")
p = os.path.join(root, "DESIGN.md")
s = open(p).read()
i = s.index("## Appendix B. Checks as built")
open(p, "w").write(s[:i] + "\n".join(rows) + "\n")
print("appendix B:", len(rows) - 4, "checks")
