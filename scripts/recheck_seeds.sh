#!/bin/bash
# recheck_seeds.sh "C01-1 C01-2 ..."  -> runs the CURRENT check of each seed's property against the seeded
# patch (scratch copy, scripts/mutrun.sh) and records the outcome in seeded/<seed>/recheck.json.
cd "$(dirname "$0")/.."
for s in $1; do
  id=${s%-*}
  [ -f seeded/$s/patch.diff ] || continue
  out=$(scripts/mutrun.sh $id seeded/$s/patch.diff 2>&1); rc=$?
  keys=$(echo "$out" | grep -E '^VIOLATION' | sed -E 's/.*replay=[^ ]*\/([^\/ ]*)\.json.*/\1/' | sort -u | head -4 | tr '\n' ' ')
  note=""
  echo "$out" | grep -q "PATCH DOES NOT APPLY" && note="patch no longer applies to the current /repo"
  python3 - "$s" "$rc" "$keys" "$note" <<'PY'
import json,sys,subprocess
s,rc,keys,note=sys.argv[1:5]
head=subprocess.run(["git","-C","/repo","rev-parse","--short","HEAD"],capture_output=True,text=True).stdout.strip()
json.dump({"seed":s,"exit":int(rc),"replays":keys.split(),"note":note,"repo_head":head},open(f"seeded/{s}/recheck.json","w"),indent=1)
PY
  echo "$s recheck exit=$rc $note"
done
