#!/bin/bash
# R7b: apply a patch to a scratch copy of /repo and run a check against it.  The
# check must exit 1 with a VIOLATION line.  /repo itself is never touched.
# usage: scripts/mutrun.sh Cnn patch.diff [extra ./check args]
cd "$(dirname "$0")/.."
id=$1; patch=$(readlink -f "$2"); shift 2
d=$(mktemp -d /tmp/vmut.XXXXXX)
trap 'rm -rf "$d"' EXIT
cp -r /repo "$d/repo"
if ! git -C "$d/repo" apply "$patch"; then echo "PATCH DOES NOT APPLY"; exit 3; fi
. scripts/env.sh
pkgs=$(grep -E '^\+\+\+ b/.*\.go$' "$patch" | sed -E 's#^\+\+\+ b/##' | xargs -n1 dirname | sed 's#^#./#' | sort -u | tr '\n' ' ')
( cd "$d/repo" && $GO build $pkgs ) || { echo "MUTANT DOES NOT COMPILE"; exit 3; }
VERIF_REPO="$d/repo" ./check "$id" "$@"; rc=$?
echo "mutrun: check $id on $(basename "$patch") -> exit $rc"
exit $rc
