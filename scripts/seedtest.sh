#!/bin/bash
# seedtest.sh Cnn k [check-ids...] : confirm an independently seeded change in its own worktree
# (demo fails with the patch, passes without), then run our check(s) against a scratch copy of
# /repo with the patch applied; stores everything under /verif/seeded/Cnn-k/.
cd "$(dirname "$0")/.."
. scripts/env.sh
id=$1; k=$2; shift 2; checks="${*:-$id}"
wt=/tmp/seed_$id; src=$wt/SEED/$k; out=seeded/$id-$k
mkdir -p $out; cp $src/* $out/ 2>/dev/null
cmd=$(python3 -c "import json,re;print(re.sub(r'\s+\(env:.*$','',json.load(open('$src/meta.json'))['demo_cmd']))")
git -C $wt checkout -q -- . ; git -C $wt clean -fdq -e SEED >/dev/null
ddir=$(python3 -c "import json,re;m=re.match(r'[\\w./-]+',json.load(open('$src/meta.json'))['demo_dir'].strip());print(m.group(0).rstrip('/') if m else '.')")
case "$ddir" in */*) ;; *) [ -d "$wt/$ddir" ] || ddir=. ;; esac
run_demo() {
  if ! echo "$cmd" | grep -q 'cp ' && [ "${ddir#SEED}" = "$ddir" ]; then mkdir -p $wt/$ddir; for f in $src/*_test.go; do cp $f $wt/$ddir/zz_seed_$(basename $f); done; fi
  ( cd $wt && GO=$GO timeout 1500 bash -c "$cmd" ) > $out/demo_$1.log 2>&1; echo $?; }
base=$(run_demo clean)
git -C $wt clean -fdq -e SEED >/dev/null; git -C $wt checkout -q -- .
if ! git -C $wt apply $src/patch.diff; then echo "$id-$k PATCH-DOES-NOT-APPLY"; exit 3; fi
mut=$(run_demo patched)
git -C $wt checkout -q -- . ; git -C $wt clean -fdq -e SEED >/dev/null
echo "$id-$k demo: clean rc=$base patched rc=$mut"
res=""
for c in $checks; do
  o=$(scripts/mutrun.sh $c $src/patch.diff 2>&1); rc=$(echo "$o" | grep -E '^mutrun:' | sed -E 's/.*exit //')
  echo "$o" | grep -E '^(VIOLATION|  detail|INCONCLUSIVE|KNOWN|PATCH|MUTANT)' | head -6 > $out/check_$c.txt
  res="$res $c=exit$rc"
done
echo "$id-$k checks:$res"
python3 - <<PY
import json
m=json.load(open('$out/meta.json'))
m['verification']={'demo_clean_rc':$base,'demo_patched_rc':$mut,'checks':'$res'.strip(),'how':'demo run in the seed worktree with and without patch.diff; checks run with scripts/mutrun.sh (scratch copy of /repo + patch, VERIF_REPO)'}
json.dump(m,open('$out/meta.json','w'),indent=1)
PY
