#!/bin/bash
# R7a: run a check on the unchanged tree at several seeds from fresh processes; all must exit 0.
# usage: scripts/r7.sh Cnn [seeds...]
cd "$(dirname "$0")/.."
id=$1; shift
seeds="${*:-1 2 3 4 5}"
bad=0
for s in $seeds; do
  out=$(VERIF_SEED=$s ./check "$id" 2>&1); rc=$?
  echo "seed=$s rc=$rc $(echo "$out" | grep -E '^EVIDENCE' | head -3 | tr '\n' ' ')"
  if [ $rc -ne 0 ]; then bad=1; echo "$out" | grep -E '^(VIOLATION|INCONCLUSIVE|  detail)' | head -8; fi
done
exit $bad
