#!/usr/bin/env python3
"""Validates MANIFEST.json and evidence/*.json against the schemas in /root/.vp (run with python3-vt)."""
import json, glob, os, sys
import jsonschema
root = os.path.dirname(os.path.dirname(os.path.abspath(__file__)))
bad = 0
def chk(path, schema):
    global bad
    try:
        jsonschema.validate(json.load(open(path)), json.load(open(schema)))
    except Exception as e:
        bad += 1
        print("INVALID", path, str(e).splitlines()[0])
chk(os.path.join(root, "MANIFEST.json"), "/root/.vp/MANIFEST.schema.json")
man = json.load(open(os.path.join(root, "MANIFEST.json")))
ids = [c["property_id"] for c in man.get("checks", [])]
for i in ids:
    p = os.path.join(root, "evidence", f"{i}.json")
    if not os.path.exists(p):
        bad += 1; print("MISSING", p)
for p in sorted(glob.glob(os.path.join(root, "evidence", "*.json"))):
    chk(p, "/root/.vp/EVIDENCE.schema.json")
for l in open(os.path.join(root, "properties.jsonl")):
    pass
print("validated", len(ids), "manifest entries,", len(glob.glob(os.path.join(root, "evidence", "*.json"))), "evidence files; bad =", bad)
sys.exit(1 if bad else 0)
