#!/bin/bash
# sweep_thorough.sh "C01 C02 ..." [seed] -> one line per check in the thorough tier
cd "$(dirname "$0")/.."
bad=""
for id in $1; do
  out=$(./check "$id" --tier thorough --seed ${2:-1} 2>&1); rc=$?
  echo "$id thorough seed=${2:-1} rc=$rc $(echo "$out" | grep -E '^check ' | sed -E 's/.*wall=([0-9.]+)s.*/wall=\1s/') $(echo "$out" | grep -c '^KNOWN-FINDING') known"
  if [ $rc -ne 0 ]; then bad="$bad $id"; echo "$out" | grep -E '^(VIOLATION|INCONCLUSIVE|  detail)' | head -6; fi
done
echo "BAD:$bad"
