#!/usr/bin/env python3
"""mark_fixed.py Cnn key commit ["what"] — moves a finding to the fixed list (flock-protected)."""
import json, sys, fcntl, os
root = os.path.dirname(os.path.dirname(os.path.abspath(__file__)))
p = os.path.join(root, "known_findings.json")
pid, key, commit = sys.argv[1:4]
what = sys.argv[4] if len(sys.argv) > 4 else None
with open(p, "r+") as f:
    fcntl.flock(f, fcntl.LOCK_EX)
    d = json.load(f)
    keep = []
    for e in d["findings"]:
        if e["property"] == pid and e["key"] == key:
            what = what or e["what"]
        else:
            keep.append(e)
    d["findings"] = keep
    d["fixed"] = [e for e in d["fixed"] if not (e["property"] == pid and e["key"] == key)]
    d["fixed"].append({"property": pid, "commit": commit, "key": key, "line": f"fixed: property={pid} {commit} {what}"})
    f.seek(0); f.truncate(); json.dump(d, f, indent=1); f.write("\n")
print("ok")
