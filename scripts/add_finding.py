#!/usr/bin/env python3
"""add_finding.py Cnn key "what fails" — adds one entry to known_findings.json (flock-protected)."""
import json, sys, fcntl, os
root = os.path.dirname(os.path.dirname(os.path.abspath(__file__)))
p = os.path.join(root, "known_findings.json")
pid, key, what = sys.argv[1:4]
with open(p, "r+") as f:
    fcntl.flock(f, fcntl.LOCK_EX)
    d = json.load(f)
    if not any(e["property"] == pid and e["key"] == key for e in d["findings"]):
        d["findings"].append({"property": pid, "key": key, "what": what})
    f.seek(0); f.truncate(); json.dump(d, f, indent=1); f.write("\n")
print("ok")
