// C24: every non-nil error returned by Invoke / NewStream (io.EOF is NOT
// exempt there) and by SendMsg / RecvMsg (other than io.EOF) carries a gRPC
// status; status errors from pickers, config selectors and per-RPC credentials
// whose code is reserved for the data plane by gRFC A54 surface as INTERNAL.
//
// Fault enumeration (engine E2 + E1 peer): one synctest bubble per (source,
// error value, API mode) with a real grpc.ClientConn against a real server or a
// scripted HTTP/2 peer.  The oracle is status.FromError on every returned
// error, plus the A54 table written from the gRFC.
package c24

import (
	"context"
	"errors"
	"fmt"
	"io"
	"net"
	"os"
	"sort"
	"strconv"
	"strings"
	"sync"
	"testing"
	"testing/synctest"
	"time"

	"golang.org/x/net/http2"
	"google.golang.org/grpc"
	"google.golang.org/grpc/codes"
	"google.golang.org/grpc/connectivity"
	"google.golang.org/grpc/credentials"
	"google.golang.org/grpc/encoding"
	iresolver "google.golang.org/grpc/internal/resolver"
	"google.golang.org/grpc/internal/transport"
	"google.golang.org/grpc/metadata"
	"google.golang.org/grpc/resolver"
	"google.golang.org/grpc/status"
	"google.golang.org/grpc/verif/e2e"
	"google.golang.org/grpc/verif/memconn"
	"google.golang.org/grpc/verif/vlib"
	"google.golang.org/grpc/verif/wire"
)

// ---------------------------------------------------------------------------
// injected error values

type nilStatusErr struct{}

func (nilStatusErr) Error() string              { return "error whose GRPCStatus is nil" }
func (nilStatusErr) GRPCStatus() *status.Status { return nil }

type okStatusErr struct{}

func (okStatusErr) Error() string              { return "error whose GRPCStatus has code OK" }
func (okStatusErr) GRPCStatus() *status.Status { return status.New(codes.OK, "ok-coded error") }

var errVariants = []string{"plain", "ctx-canceled", "ctx-deadline", "wrapped-ctx", "eof", "unexpected-eof", "nilstatus", "okstatus", "connerr", "newstreamerr", "errclosed"}

func mkErr(variant string, c codes.Code) error {
	switch variant {
	case "status":
		return status.Error(c, "injected status")
	case "wrapped":
		return fmt.Errorf("injected wrapper: %w", status.Error(c, "injected status"))
	case "joined":
		return errors.Join(errors.New("injected sibling"), status.Error(c, "injected status"))
	case "plain":
		return errors.New("injected plain error")
	case "ctx-canceled":
		return context.Canceled
	case "ctx-deadline":
		return context.DeadlineExceeded
	case "wrapped-ctx":
		return fmt.Errorf("injected wrapper: %w", context.Canceled)
	case "eof":
		return io.EOF
	case "unexpected-eof":
		return io.ErrUnexpectedEOF
	case "nilstatus":
		return nilStatusErr{}
	case "okstatus":
		return okStatusErr{}
	case "connerr":
		return transport.ConnectionError{Desc: "injected connection error"}
	case "newstreamerr":
		return &transport.NewStreamError{Err: errors.New("injected new-stream error")}
	case "errclosed":
		return net.ErrClosed
	}
	panic("unknown variant " + variant)
}

// a54Restricted is the list of gRFC A54, written from the gRFC text.
var a54Restricted = map[codes.Code]bool{
	codes.InvalidArgument: true, codes.NotFound: true, codes.AlreadyExists: true, codes.FailedPrecondition: true,
	codes.Aborted: true, codes.OutOfRange: true, codes.DataLoss: true,
}

// ---------------------------------------------------------------------------
// case description

type fcase struct {
	Source  string     `json:"source"`
	Variant string     `json:"variant"`
	Code    codes.Code `json:"code,omitempty"`
	Phase   int        `json:"phase,omitempty"`
	Mode    string     `json:"mode"` // unary | bidi | sstream | cstream | udesc
	WFR     bool       `json:"wfr,omitempty"`
}

func (c fcase) String() string {
	return fmt.Sprintf("%s/%s/%d/p%d/%s/wfr=%v", c.Source, c.Variant, c.Code, c.Phase, c.Mode, c.WFR)
}

type obs struct {
	API string
	Err error
}

type outcome struct {
	obs      []obs
	injected int64 // how often the injection point was reached
	harness  string
	stuck    bool
}

var controlPlane = map[string]bool{"picker": true, "picker-retry": true, "cfgsel": true, "creds-dial": true, "creds-call": true}

func cases(thorough bool) []fcase {
	var out []fcase
	var statusVariants []fcase
	for _, v := range []string{"status", "wrapped", "joined"} {
		for c := codes.Code(1); c <= 16; c++ {
			statusVariants = append(statusVariants, fcase{Variant: v, Code: c})
		}
		statusVariants = append(statusVariants, fcase{Variant: v, Code: 17}, fcase{Variant: v, Code: 99})
	}
	var plainVariants []fcase
	for _, v := range errVariants {
		plainVariants = append(plainVariants, fcase{Variant: v})
	}
	modes := []string{"unary", "bidi"}
	if thorough {
		modes = []string{"unary", "bidi", "sstream", "cstream", "udesc"}
	}
	for _, src := range []string{"picker", "picker-retry", "cfgsel", "creds-dial", "creds-call", "dialer", "handshake", "codec-marshal", "codec-unmarshal", "server"} {
		vs := append(append([]fcase(nil), statusVariants...), plainVariants...)
		for _, v := range vs {
			for _, m := range modes {
				for _, wfr := range []bool{false, true} {
					if wfr && (src == "codec-marshal" || src == "codec-unmarshal" || src == "server" || src == "cfgsel") {
						continue
					}
					if src == "server" && (v.Variant == "joined" || v.Variant == "newstreamerr" || v.Variant == "connerr") {
						continue
					}
					c := v
					c.Source, c.Mode, c.WFR = src, m, wfr
					out = append(out, c)
				}
			}
		}
		// the less common stream shapes, on a few representative values
		for _, v := range []fcase{{Variant: "status", Code: codes.NotFound}, {Variant: "status", Code: codes.Unavailable}, {Variant: "plain"}, {Variant: "eof"}} {
			for _, m := range []string{"sstream", "cstream", "udesc"} {
				c := v
				c.Source, c.Mode = src, m
				out = append(out, c)
			}
		}
	}
	for _, v := range []string{"badmd-value", "badmd-key", "secure-on-insecure"} {
		for _, src := range []string{"creds-dial", "creds-call"} {
			if v == "secure-on-insecure" && src == "creds-dial" {
				continue // rejected by grpc.NewClient, never reaches an RPC
			}
			for _, m := range modes {
				out = append(out, fcase{Source: src, Variant: v, Mode: m})
			}
		}
	}
	for _, f := range wireFaults() {
		for ph := 0; ph <= 3; ph++ {
			for _, m := range []string{"unary", "bidi", "sstream", "cstream", "udesc"} {
				if ph == 3 && m == "unary" {
					continue
				}
				if !thorough && (m == "sstream" && ph != 1 || m == "cstream" || m == "udesc") {
					continue
				}
				out = append(out, fcase{Source: "wire", Variant: f, Phase: ph, Mode: m})
			}
		}
	}
	for _, v := range []string{"pre-canceled", "pre-expired", "cancel-in-pick", "deadline-in-pick", "cancel-in-resolve", "cancel-wait-header", "deadline-wait-header", "cancel-in-recv", "deadline-in-recv", "cancel-cause"} {
		for _, m := range []string{"unary", "bidi", "sstream", "cstream"} {
			out = append(out, fcase{Source: "context", Variant: v, Mode: m})
		}
	}
	// the retry-backoff sleep as a blocking point: attempt 1 fails Trailers-Only
	// UNAVAILABLE under a retry policy, the context ends while the client sleeps
	// before attempt 2; "-sendpath" delays the first SendMsg so that the retry
	// (and the sleep) happens inside SendMsg instead of RecvMsg
	for _, v := range []string{"cancel-in-backoff", "deadline-in-backoff", "cancel-cause-in-backoff", "deadline-cause-in-backoff"} {
		for _, m := range []string{"unary", "bidi", "sstream", "cstream", "udesc"} {
			out = append(out, fcase{Source: "context", Variant: v, Mode: m})
			if m != "unary" {
				out = append(out, fcase{Source: "context", Variant: v + "-sendpath", Mode: m})
			}
		}
	}
	for _, v := range []string{"closed-before", "closed-in-pick", "closed-wait-header", "closed-in-recv"} {
		for _, m := range modes {
			out = append(out, fcase{Source: "channel", Variant: v, Mode: m})
		}
	}
	for _, v := range []string{"unknown-compressor", "bad-compressor", "bad-metadata-key", "bad-metadata-value", "call-authority", "send-too-large", "recv-too-large", "send-after-closesend", "retries-exhausted", "nil-message", "wrong-message-type", "unknown-method", "header-list-too-large"} {
		for _, m := range modes {
			out = append(out, fcase{Source: "call", Variant: v, Mode: m})
		}
	}
	return out
}

func wireFaults() []string {
	var f []string
	for c := 0; c <= 13; c++ {
		f = append(f, "rst:"+strconv.Itoa(c))
	}
	f = append(f, "rst:119")
	f = append(f, "goaway-nolast:0", "goaway-nolast:11", "goaway-covered:0", "goaway-covered:2", "goaway-even", "close", "reset")
	for c := 0; c <= 16; c++ {
		f = append(f, "trailers:"+strconv.Itoa(c))
	}
	f = append(f, "trailers:17", "trailers:99", "trailers:-1", "trailers:abc", "trailers:", "trailers:4294967296", "trailers:1.5", "trailers:missing",
		"trailers-badmsg", "trailers-no-endstream", "http:404", "http:503", "http:200-noct", "http:abc", "ct-html", "data-endstream",
		"compressed-flag-noenc", "unknown-encoding", "bad-decompress", "len-huge", "len-over-max", "bad-hpack", "wu-zero-stream", "wu-zero-conn",
		"settings-bad", "garbage", "headers-twice", "continuation-orphan", "pushpromise", "data-on-idle", "headers-upper")
	return f
}

// ---------------------------------------------------------------------------
// collaborators

type errCreds struct {
	err    error
	md     map[string]string
	secure bool
	hits   *int64
	mu     *sync.Mutex
}

func (c errCreds) GetRequestMetadata(context.Context, ...string) (map[string]string, error) {
	c.mu.Lock()
	*c.hits++
	c.mu.Unlock()
	return c.md, c.err
}
func (c errCreds) RequireTransportSecurity() bool { return c.secure }

type errSelector struct {
	err  error
	hits *int64
	mu   *sync.Mutex
}

func (s errSelector) SelectConfig(iresolver.RPCInfo) (*iresolver.RPCConfig, error) {
	s.mu.Lock()
	*s.hits++
	s.mu.Unlock()
	return nil, s.err
}

type errHandshake struct {
	err  error
	hits *int64
	mu   *sync.Mutex
}

func (h errHandshake) ClientHandshake(context.Context, string, net.Conn) (net.Conn, credentials.AuthInfo, error) {
	h.mu.Lock()
	*h.hits++
	h.mu.Unlock()
	return nil, nil, h.err
}
func (h errHandshake) ServerHandshake(net.Conn) (net.Conn, credentials.AuthInfo, error) {
	return nil, nil, errors.New("client only")
}
func (h errHandshake) Info() credentials.ProtocolInfo {
	return credentials.ProtocolInfo{SecurityProtocol: "verif"}
}
func (h errHandshake) Clone() credentials.TransportCredentials { return h }
func (h errHandshake) OverrideServerName(string) error         { return nil }

// errCodec fails Marshal and/or Unmarshal with a scripted error.
type errCodec struct {
	marshalErr, unmarshalErr error
	hits                     *int64
	mu                       *sync.Mutex
}

func (c errCodec) Marshal(v any) ([]byte, error) {
	if c.marshalErr != nil {
		c.mu.Lock()
		*c.hits++
		c.mu.Unlock()
		return nil, c.marshalErr
	}
	return wire.RawCodec{}.Marshal(v)
}
func (c errCodec) Unmarshal(d []byte, v any) error {
	if c.unmarshalErr != nil {
		c.mu.Lock()
		*c.hits++
		c.mu.Unlock()
		return c.unmarshalErr
	}
	return wire.RawCodec{}.Unmarshal(d, v)
}
func (errCodec) Name() string { return "proto" }

// badCompressor is registered under "verifbad": compressing and decompressing fail.
type badCompressor struct{}
type badWriter struct{}

func (badWriter) Write([]byte) (int, error) { return 0, errors.New("verifbad: write fails") }
func (badWriter) Close() error              { return errors.New("verifbad: close fails") }
func (badCompressor) Compress(io.Writer) (io.WriteCloser, error) {
	return badWriter{}, nil
}
func (badCompressor) Decompress(io.Reader) (io.Reader, error) {
	return nil, errors.New("verifbad: decompress fails")
}
func (badCompressor) Name() string { return "verifbad" }

func init() { encoding.RegisterCompressor(badCompressor{}) }

// ---------------------------------------------------------------------------
// server behaviours (real backend)

func backendHandler(_ any, ss grpc.ServerStream) error {
	ctx := ss.Context()
	md, _ := metadata.FromIncomingContext(ctx)
	get := func(k string) string {
		if v := md.Get(k); len(v) > 0 {
			return v[0]
		}
		return ""
	}
	prev, _ := strconv.Atoi(get("grpc-previous-rpc-attempts"))
	switch beh := get("x-beh"); {
	case beh == "hang":
		<-ctx.Done()
		return status.FromContextError(ctx.Err()).Err()
	case beh == "hdrhang":
		ss.SendHeader(metadata.Pairs("x-h", "1"))
		<-ctx.Done()
		return status.FromContextError(ctx.Err()).Err()
	case beh == "fail1" && prev < 1, beh == "failall":
		return status.Error(codes.Unavailable, "scripted failure of attempt "+strconv.Itoa(prev))
	case strings.HasPrefix(beh, "err:"):
		parts := strings.SplitN(beh, ":", 3)
		c, _ := strconv.Atoi(parts[2])
		var m []byte
		ss.RecvMsg(&m)
		return mkErr(parts[1], codes.Code(c))
	case beh == "big":
		var m []byte
		ss.RecvMsg(&m)
		return ss.SendMsg(make([]byte, 1000))
	}
	n := 0
	for {
		var m []byte
		err := ss.RecvMsg(&m)
		if err == io.EOF {
			break
		}
		if err != nil {
			return err
		}
		n++
	}
	return ss.SendMsg([]byte("reply " + strconv.Itoa(n)))
}

// ---------------------------------------------------------------------------
// the RPC driver

func descOf(mode string) *grpc.StreamDesc {
	switch mode {
	case "sstream":
		return &grpc.StreamDesc{ServerStreams: true}
	case "cstream":
		return &grpc.StreamDesc{ClientStreams: true}
	case "udesc":
		return &grpc.StreamDesc{}
	}
	return &grpc.StreamDesc{ClientStreams: true, ServerStreams: true}
}

type driver struct {
	mu   sync.Mutex
	obs  []obs
	done chan struct{}
}

func (d *driver) add(api string, err error) {
	d.mu.Lock()
	d.obs = append(d.obs, obs{api, err})
	d.mu.Unlock()
}

func (d *driver) finished() bool {
	select {
	case <-d.done:
		return true
	default:
		return false
	}
}

// drive issues one RPC in the given mode and records every error returned by
// the four API entry points.
func drive(ctx context.Context, cc *grpc.ClientConn, c fcase, payload any, opts []grpc.CallOption, sendAfterClose bool, preSend time.Duration) *driver {
	d := &driver{done: make(chan struct{})}
	go func() {
		defer close(d.done)
		if c.Mode == "unary" {
			var reply []byte
			d.add("Invoke", cc.Invoke(ctx, "/verif.C24/Unary", payload, &reply, opts...))
			return
		}
		st, err := cc.NewStream(ctx, descOf(c.Mode), "/verif.C24/Stream", opts...)
		d.add("NewStream", err)
		if err != nil {
			return
		}
		if preSend > 0 {
			time.Sleep(preSend) // virtual: the peer's answer to the request headers has been processed by now
		}
		nsend := 1
		if c.Mode == "bidi" || c.Mode == "cstream" {
			nsend = 2
		}
		for k := 0; k < nsend; k++ {
			e := st.SendMsg(payload)
			d.add("SendMsg", e)
			if e != nil {
				break
			}
		}
		st.CloseSend()
		if sendAfterClose {
			d.add("SendMsg", st.SendMsg(payload))
		}
		for k := 0; k < 6; k++ {
			var m []byte
			e := st.RecvMsg(&m)
			d.add("RecvMsg", e)
			if e != nil {
				break
			}
		}
	}()
	return d
}

// ---------------------------------------------------------------------------
// one case

const caseDeadline = 30 * time.Second // virtual: every RPC ends by then whatever was injected

func runCase(c fcase) (out outcome) {
	var hmu sync.Mutex
	var hits int64
	clk := e2e.NewClock()
	nw := e2e.NewNet()
	var cleanup []func()
	defer func() {
		for i := len(cleanup) - 1; i >= 0; i-- {
			cleanup[i]()
		}
		hmu.Lock()
		out.injected = hits
		hmu.Unlock()
	}()
	ctx, cancel := context.WithTimeout(context.Background(), caseDeadline)
	cleanup = append(cleanup, cancel)
	var opts []grpc.CallOption
	if c.WFR {
		opts = append(opts, grpc.WaitForReady(true))
		var c2 context.CancelFunc
		ctx, c2 = context.WithTimeout(ctx, time.Second)
		cleanup = append(cleanup, c2)
	}
	var payload any = []byte("request payload")
	cfg := e2e.ClientConfig{Addrs: []string{"b0"}}
	needBackend := true
	beh := "echo"
	var ctl *e2e.Ctl
	var rawCh <-chan *memconn.Conn
	sendAfterClose := false
	var preSend time.Duration
	var sopts []grpc.ServerOption
	injected := mkErrFor(c)

	switch c.Source {
	case "picker", "picker-retry":
		ctl = e2e.NewCtl(clk.Now)
		bad := e2e.PickSpec{Kind: "custom", Err: injected}
		spec := e2e.PickerSpec{Then: bad}
		mc := ""
		if c.Source == "picker-retry" {
			spec.Seq = []e2e.PickSpec{{Kind: "sc", SC: 0, Done: true}}
			beh = "fail1"
			mc = `"retryPolicy":{"maxAttempts":3,"initialBackoff":"0.05s","maxBackoff":"0.1s","backoffMultiplier":1,"retryableStatusCodes":["UNAVAILABLE"]}`
		}
		ctl.Publish(connectivity.Ready, spec)
		cfg.Ctl, cfg.ServiceConfig = ctl, e2e.SC(e2e.PolicyName, mc)
	case "cfgsel":
		sel := errSelector{err: injected, hits: &hits, mu: &hmu}
		cfg.Decorate = func(st resolver.State) resolver.State { return iresolver.SetConfigSelector(st, sel) }
	case "creds-dial", "creds-call":
		cr := errCreds{err: injected, hits: &hits, mu: &hmu}
		switch c.Variant {
		case "badmd-value":
			cr.err, cr.md = nil, map[string]string{"x-bad": "line\nbreak"}
		case "badmd-key":
			cr.err, cr.md = nil, map[string]string{"bad key!": "v"}
		case "secure-on-insecure":
			cr.err, cr.secure = nil, true
		}
		if c.Source == "creds-dial" {
			cfg.DialOpts = append(cfg.DialOpts, grpc.WithPerRPCCredentials(cr))
		} else {
			opts = append(opts, grpc.PerRPCCredentials(cr))
		}
	case "dialer":
		needBackend = false
		nw.DialHook = func(context.Context, string, int) error {
			hmu.Lock()
			hits++
			hmu.Unlock()
			return injected
		}
	case "handshake":
		cfg.DialOpts = append(cfg.DialOpts, grpc.WithTransportCredentials(errHandshake{err: injected, hits: &hits, mu: &hmu}))
	case "codec-marshal":
		opts = append(opts, grpc.ForceCodec(errCodec{marshalErr: injected, hits: &hits, mu: &hmu}))
	case "codec-unmarshal":
		opts = append(opts, grpc.ForceCodec(errCodec{unmarshalErr: injected, hits: &hits, mu: &hmu}))
	case "server":
		beh = fmt.Sprintf("err:%s:%d", c.Variant, c.Code)
	case "wire":
		needBackend = false
		cfg.Addrs = []string{"p0"}
		rawCh = nw.AddRaw("p0")
	case "context":
		switch c.Variant {
		case "pre-canceled":
			cancel()
		case "pre-expired":
			var c2 context.CancelFunc
			ctx, c2 = context.WithDeadline(ctx, time.Now().Add(-time.Second))
			cleanup = append(cleanup, c2)
		case "cancel-in-pick", "deadline-in-pick":
			ctl = e2e.NewCtl(clk.Now)
			ctl.Publish(connectivity.Connecting, e2e.PickerSpec{Then: e2e.PickSpec{Kind: "nosc"}})
			cfg.Ctl, cfg.ServiceConfig = ctl, e2e.SC(e2e.PolicyName, "")
		case "cancel-in-resolve":
			cfg.HoldResolver = true
		case "cancel-wait-header", "deadline-wait-header":
			beh = "hang"
		case "cancel-in-recv", "deadline-in-recv", "cancel-cause":
			beh = "hdrhang"
		}
		backoff := strings.Contains(c.Variant, "-in-backoff")
		if backoff {
			beh = "failall"
			// 8-12 s of backoff (jitter): the cancel (issued at the first
			// quiescent point) and the 500 ms deadline both fall inside it
			cfg.ServiceConfig = e2e.SC("", `"retryPolicy":{"maxAttempts":3,"initialBackoff":"10s","maxBackoff":"10s","backoffMultiplier":1,"retryableStatusCodes":["UNAVAILABLE"]}`)
			if strings.HasSuffix(c.Variant, "-sendpath") {
				preSend = time.Millisecond
			}
		}
		if strings.HasPrefix(c.Variant, "deadline-") {
			var c2 context.CancelFunc
			if strings.HasPrefix(c.Variant, "deadline-cause") {
				ctx, c2 = context.WithTimeoutCause(ctx, 500*time.Millisecond, errors.New("custom deadline cause"))
			} else {
				ctx, c2 = context.WithTimeout(ctx, 500*time.Millisecond)
			}
			cleanup = append(cleanup, c2)
		}
	case "channel":
		switch c.Variant {
		case "closed-in-pick":
			ctl = e2e.NewCtl(clk.Now)
			ctl.Publish(connectivity.Connecting, e2e.PickerSpec{Then: e2e.PickSpec{Kind: "nosc"}})
			cfg.Ctl, cfg.ServiceConfig = ctl, e2e.SC(e2e.PolicyName, "")
		case "closed-wait-header":
			beh = "hang"
		case "closed-in-recv":
			beh = "hdrhang"
		}
	case "call":
		switch c.Variant {
		case "unknown-compressor":
			opts = append(opts, grpc.UseCompressor("verif-not-registered"))
		case "bad-compressor":
			opts = append(opts, grpc.UseCompressor("verifbad"))
		case "bad-metadata-key":
			ctx = metadata.NewOutgoingContext(ctx, metadata.MD{"bad key!": {"v"}})
		case "bad-metadata-value":
			ctx = metadata.AppendToOutgoingContext(ctx, "x-bad", "line\nbreak")
		case "call-authority":
			opts = append(opts, grpc.CallAuthority("other.authority"))
			cfg.DialOpts = append(cfg.DialOpts, grpc.WithTransportCredentials(errHandshake{}.asPlain()))
		case "send-too-large":
			opts = append(opts, grpc.MaxCallSendMsgSize(4))
		case "recv-too-large":
			opts = append(opts, grpc.MaxCallRecvMsgSize(4))
			beh = "big"
		case "send-after-closesend":
			sendAfterClose = true
		case "retries-exhausted":
			beh = "failall"
			cfg.ServiceConfig = e2e.SC("", `"retryPolicy":{"maxAttempts":2,"initialBackoff":"0.05s","maxBackoff":"0.1s","backoffMultiplier":1,"retryableStatusCodes":["UNAVAILABLE"]}`)
		case "nil-message":
			payload = nil
		case "wrong-message-type":
			payload = 42
		case "unknown-method":
			// the backend is created without any handler below
		case "header-list-too-large":
			sopts = append(sopts, grpc.MaxHeaderListSize(64))
			ctx = metadata.AppendToOutgoingContext(ctx, "x-pad", strings.Repeat("p", 300))
		}
	}
	ctx = metadata.AppendToOutgoingContext(ctx, "x-beh", beh)
	if c.Source == "context" && strings.HasPrefix(c.Variant, "cancel-cause-in-backoff") {
		var cc2 context.CancelCauseFunc
		ctx, cc2 = context.WithCancelCause(ctx)
		cleanup = append(cleanup, func() { cc2(nil) })
		cancel = func() { cc2(errors.New("custom cancel cause")) }
	}
	if c.Source == "context" && c.Variant == "cancel-cause" {
		var cc2 context.CancelCauseFunc
		ctx, cc2 = context.WithCancelCause(ctx)
		cleanup = append(cleanup, func() { cc2(nil) })
		cancel = func() { cc2(status.Error(codes.NotFound, "cause is a restricted status")) }
	}

	if needBackend {
		var b *e2e.Backend
		if c.Source == "call" && c.Variant == "unknown-method" {
			b = e2e.NewBackend(nw, "b0", nil)
		} else {
			b = e2e.NewBackend(nw, "b0", backendHandler, sopts...)
		}
		cleanup = append(cleanup, b.S.Stop)
	}
	cl, err := e2e.NewClient(nw, cfg)
	if err != nil {
		out.harness = "client: " + err.Error()
		return
	}
	closed := false
	closeCC := func() {
		if !closed {
			closed = true
			cl.CC.Close()
		}
	}
	cleanup = append(cleanup, closeCC)

	var peer *wire.Peer
	var peers []*wire.Peer
	cleanup = append(cleanup, func() {
		for _, p := range peers {
			p.Close()
			<-p.Done()
		}
		if rawCh != nil {
			for {
				select {
				case cn := <-rawCh:
					cn.Close()
					continue
				default:
				}
				break
			}
		}
	})
	if c.Source == "wire" {
		cl.CC.Connect()
		peer = wire.NewPeer(<-rawCh, true)
		peers = append(peers, peer)
		if err := peer.Start(); err != nil {
			out.harness = "peer start: " + err.Error()
			return
		}
		synctest.Wait()
	} else if !(c.Source == "context" && c.Variant == "cancel-in-resolve") && !(c.Source == "channel" && c.Variant == "closed-before") {
		cl.CC.Connect()
		synctest.Wait()
	}
	if c.Source == "channel" && c.Variant == "closed-before" {
		closeCC()
	}

	d := drive(ctx, cl.CC, c, payload, opts, sendAfterClose, preSend)
	synctest.Wait()

	switch c.Source {
	case "wire":
		hmu.Lock()
		hits += int64(applyWireFault(c, peer, d))
		hmu.Unlock()
	case "context":
		if preSend > 0 {
			time.Sleep(2 * preSend)
			synctest.Wait()
		}
		if strings.HasPrefix(c.Variant, "cancel-") {
			if !d.finished() {
				hmu.Lock()
				hits++
				hmu.Unlock()
			}
			cancel()
		}
	case "channel":
		if c.Variant != "closed-before" {
			if !d.finished() {
				hmu.Lock()
				hits++
				hmu.Unlock()
			}
			closeCC()
		}
	}
	synctest.Wait()
	// Every RPC carries the 30 s case deadline, so this wait ends in virtual
	// time whatever was injected.
	<-d.done
	if ctl != nil {
		hmu.Lock()
		for _, p := range ctl.Picks() {
			if p.Spec.Kind == "custom" {
				hits++
			}
		}
		hmu.Unlock()
	}
	if c.Source == "context" && (c.Variant == "pre-canceled" || c.Variant == "pre-expired" || strings.HasPrefix(c.Variant, "deadline-")) || c.Source == "channel" && c.Variant == "closed-before" || c.Source == "server" || c.Source == "call" {
		hmu.Lock()
		hits++
		hmu.Unlock()
	}
	d.mu.Lock()
	out.obs = append([]obs(nil), d.obs...)
	d.mu.Unlock()
	cancel()
	synctest.Wait()
	return
}

// asPlain returns handshake credentials that succeed without an authority validator.
func (errHandshake) asPlain() credentials.TransportCredentials { return plainCreds{} }

type plainCreds struct{}
type plainAuth struct{ credentials.CommonAuthInfo }

func (plainAuth) AuthType() string { return "verif-plain" }
func (plainCreds) ClientHandshake(_ context.Context, _ string, c net.Conn) (net.Conn, credentials.AuthInfo, error) {
	return c, plainAuth{credentials.CommonAuthInfo{SecurityLevel: credentials.NoSecurity}}, nil
}
func (plainCreds) ServerHandshake(c net.Conn) (net.Conn, credentials.AuthInfo, error) {
	return c, plainAuth{}, nil
}
func (plainCreds) Info() credentials.ProtocolInfo {
	return credentials.ProtocolInfo{SecurityProtocol: "verif-plain"}
}
func (plainCreds) Clone() credentials.TransportCredentials { return plainCreds{} }
func (plainCreds) OverrideServerName(string) error         { return nil }

func mkErrFor(c fcase) error {
	switch c.Source {
	case "picker", "picker-retry", "cfgsel", "creds-dial", "creds-call", "dialer", "handshake", "codec-marshal", "codec-unmarshal":
		switch c.Variant {
		case "badmd-value", "badmd-key", "secure-on-insecure":
			return nil
		}
		return mkErr(c.Variant, c.Code)
	}
	return nil
}

// applyWireFault brings the RPC's stream to the requested phase and injects
// the fault; returns 1 if the fault was written for a live stream.
func applyWireFault(c fcase, peer *wire.Peer, d *driver) int {
	var id uint32
	for _, e := range peer.Log() {
		if e.Dir == wire.In && e.Type == http2.FrameHeaders {
			id = e.Stream
		}
	}
	if id == 0 {
		return 0
	}
	if c.Phase >= 1 {
		peer.WriteHeaders(id, false, 0, wire.ResponseHeaders()...)
	}
	switch c.Phase {
	case 2:
		partial := wire.Msg(make([]byte, 10))[:8]
		peer.WriteData(id, partial, false, -1)
	case 3:
		peer.WriteData(id, wire.Msg([]byte("one full message")), false, -1)
	}
	synctest.Wait()
	f, arg := c.Variant, ""
	if i := strings.IndexByte(f, ':'); i >= 0 {
		f, arg = f[:i], f[i+1:]
	}
	n, _ := strconv.Atoi(arg)
	switch f {
	case "rst":
		peer.WriteRST(id, http2.ErrCode(n))
	case "goaway-nolast":
		peer.WriteGoAway(0, http2.ErrCode(n), "verif")
	case "goaway-covered":
		peer.WriteGoAway(id, http2.ErrCode(n), "verif")
	case "goaway-even":
		peer.WriteGoAway(2, http2.ErrCodeNo, "")
	case "close":
		peer.Close()
	case "reset":
		peer.Conn.(*memconn.Conn).Reset(errors.New("connection reset by verif"))
	case "trailers":
		if arg == "missing" {
			peer.WriteHeaders(id, true, 0, wire.F("x-no-status", "1"))
		} else if c.Phase == 0 {
			peer.WriteHeaders(id, true, 0, append(wire.ResponseHeaders(), wire.F("grpc-status", arg), wire.F("grpc-message", "scripted"))...)
		} else {
			peer.WriteHeaders(id, true, 0, wire.F("grpc-status", arg), wire.F("grpc-message", "scripted"))
		}
	case "trailers-badmsg":
		peer.WriteHeaders(id, true, 0, append(wire.ResponseHeaders(), wire.F("grpc-status", "2"), wire.F("grpc-message", "%zz%e2%28%a1 bad"))...)
	case "trailers-no-endstream":
		peer.WriteHeaders(id, false, 0, append(wire.ResponseHeaders(), wire.F("grpc-status", "0"))...)
	case "http":
		switch arg {
		case "200-noct":
			peer.WriteHeaders(id, false, 0, wire.F(":status", "200"))
		default:
			peer.WriteHeaders(id, arg == "503", 0, wire.F(":status", arg), wire.F("content-type", "text/plain"))
		}
	case "ct-html":
		peer.WriteHeaders(id, false, 0, wire.F(":status", "200"), wire.F("content-type", "text/html"))
		peer.WriteData(id, []byte("<html>not grpc</html>"), true, -1)
	case "data-endstream":
		peer.WriteData(id, wire.Msg([]byte("last")), true, -1)
	case "compressed-flag-noenc":
		m := wire.Msg([]byte("payload"))
		m[0] = 1
		peer.WriteData(id, m, false, -1)
	case "unknown-encoding", "bad-decompress":
		enc := "verif-unknown"
		if f == "bad-decompress" {
			enc = "verifbad"
		}
		if c.Phase == 0 {
			peer.WriteHeaders(id, false, 0, wire.ResponseHeaders(wire.F("grpc-encoding", enc))...)
		}
		m := wire.Msg([]byte("payload"))
		m[0] = 1
		peer.WriteData(id, m, false, -1)
	case "len-huge":
		peer.WriteData(id, []byte{0, 0xff, 0xff, 0xff, 0xff, 1, 2, 3}, false, -1)
	case "len-over-max":
		peer.WriteData(id, []byte{0, 0, 0x50, 0, 0, 1, 2, 3}, false, -1)
	case "bad-hpack":
		peer.WriteRawFrame(http2.FrameHeaders, http2.FlagHeadersEndHeaders, id, []byte{0xff, 0xff, 0xff, 0xff, 0xff, 0x7f})
	case "wu-zero-stream":
		peer.WriteWindowUpdate(id, 0)
	case "wu-zero-conn":
		peer.WriteWindowUpdate(0, 0)
	case "settings-bad":
		peer.WriteSettings(http2.Setting{ID: http2.SettingInitialWindowSize, Val: 1 << 31})
	case "garbage":
		peer.WriteBytes([]byte("\x00\x00\x05\x01this is not http2 at all, just bytes................"))
	case "headers-twice":
		peer.WriteHeaders(id, false, 0, wire.ResponseHeaders()...)
		peer.WriteHeaders(id, false, 0, wire.ResponseHeaders()...)
	case "continuation-orphan":
		peer.WriteRawFrame(http2.FrameContinuation, http2.FlagContinuationEndHeaders, id, []byte{0x88})
	case "pushpromise":
		peer.WriteRawFrame(http2.FramePushPromise, http2.FlagPushPromiseEndHeaders, id, []byte{0, 0, 0, 2, 0x88})
	case "data-on-idle":
		peer.WriteData(id+100, []byte("data for a stream that was never opened"), false, -1)
		peer.WriteRST(id, http2.ErrCodeInternal)
	case "headers-upper":
		peer.WriteHeaders(id, true, 0, append(wire.ResponseHeaders(), wire.F("Grpc-Status", "0"), wire.F("X-Upper", "1"))...)
	}
	synctest.Wait()
	// let a stream that survived the fault end in an orderly way
	if !d.finished() {
		peer.WriteHeaders(id, true, 0, wire.F("grpc-status", "10"), wire.F("grpc-message", "epilogue after the fault"))
	}
	return 1
}

// ---------------------------------------------------------------------------

func finalError(o []obs) (string, error) {
	for _, x := range o {
		if x.Err != nil && x.Err != io.EOF {
			return x.API, x.Err
		}
		if x.Err == io.EOF && (x.API == "Invoke" || x.API == "NewStream") {
			return x.API, x.Err
		}
	}
	return "", nil
}

func TestVerifC24(t *testing.T) {
	r := vlib.Start(t, "C24")
	all := cases(r.Thorough())
	fam := "faults"
	light := os.Getenv("VERIF_LIGHT") != "" && !r.Thorough() // the thorough tier runs the whole list under -race too
	bySource := map[string]int64{}
	for i, c := range all {
		if !r.Want(fam, i) {
			continue
		}
		if light && i%6 != int(r.Seed()%6+6)%6 {
			continue
		}
		r.Progress(fam, i, c.String())
		var out outcome
		synctest.Test(t, func(t *testing.T) { out = runCase(c) })
		r.Eval(1)
		if out.harness != "" {
			r.Violation("harness", fam, i, c, "%s: %s", c, out.harness)
			continue
		}
		r.Count("api_returns_observed", int64(len(out.obs)))
		if out.injected > 0 {
			r.Count("cases_injection_reached", 1)
		} else {
			r.Count("cases_injection_not_reached", 1)
		}
		nonnil := 0
		for _, x := range out.obs {
			if x.Err == nil {
				continue
			}
			exemptEOF := x.Err == io.EOF && (x.API == "SendMsg" || x.API == "RecvMsg")
			if exemptEOF {
				r.Count("io_eof_from_sendmsg_recvmsg", 1)
				continue
			}
			nonnil++
			st, ok := status.FromError(x.Err)
			if !ok {
				key := "non-status-error:" + c.Source
				if x.Err == io.EOF {
					key = "io-eof-returned-raw:" + c.Source
				}
				r.Violation(key, fam, i, c, "%s: %s returned %T %q, which carries no gRPC status (status.FromError ok=false)", c, x.API, x.Err, x.Err.Error())
				continue
			}
			r.Count("status_errors_checked", 1)
			code := st.Code()
			if code == codes.OK {
				r.Count("nonnil_error_with_code_ok", 1)
			}
			if code > 16 {
				r.Count("nonnil_error_with_unassigned_code", 1)
			}
			sig := fmt.Sprintf("%s/%s/%s/%s->%v", c.Source, variantClass(c), c.Mode, x.API, code)
			r.Nontrivial(sig)
			if os.Getenv("VERIF_DEBUG") != "" {
				fmt.Printf("SIG %s | %s | %v\n", c, sig, x.Err)
			}
		}
		if nonnil > 0 {
			bySource[c.Source]++
		}
		// gRFC A54 for control-plane sources
		if controlPlane[c.Source] && (c.Variant == "status" || c.Variant == "wrapped" || c.Variant == "joined") && out.injected > 0 {
			api, ferr := finalError(out.obs)
			got := status.Code(ferr)
			switch {
			case ferr == nil:
				r.Count("control_plane_status_but_rpc_succeeded", 1)
			case a54Restricted[c.Code]:
				r.Count("a54_restricted_checks", 1)
				if got != codes.Internal {
					r.Violation("a54-restricted-code-surfaced:"+c.Source, fam, i, c, "%s: the %s returned a status with the data-plane-only code %v; %s surfaced it as %v (%q), gRFC A54 requires INTERNAL", c, c.Source, c.Code, api, got, ferr.Error())
				}
			case c.Code >= 1 && c.Code <= 16:
				r.Count("a54_passthrough_checks", 1)
				if got != c.Code {
					r.Violation("control-plane-code-altered:"+c.Source, fam, i, c, "%s: the %s returned a status with the allowed code %v; %s surfaced %v (%q)", c, c.Source, c.Code, api, got, ferr.Error())
				}
			}
		}
		// context errors surface as CANCELLED / DEADLINE_EXCEEDED
		if c.Source == "context" && out.injected > 0 {
			want := codes.Canceled
			if strings.HasPrefix(c.Variant, "deadline-") || c.Variant == "pre-expired" {
				want = codes.DeadlineExceeded
			}
			if api, ferr := finalError(out.obs); ferr != nil {
				r.Count("context_code_checks", 1)
				if st, ok := status.FromError(ferr); ok && st.Code() != want {
					r.Violation("context-error-wrong-code", fam, i, c, "%s: the context ended (%s) and %s returned %v (%q), want %v", c, c.Variant, api, st.Code(), ferr.Error(), want)
				}
			} else {
				r.Count("context_ended_but_rpc_succeeded", 1)
			}
		}
		if i%97 == 0 {
			var o []string
			for _, x := range out.obs {
				o = append(o, fmt.Sprintf("%s=%v", x.API, x.Err))
			}
			r.Sample(map[string]any{"case": c, "returns": o, "injected": out.injected})
		}
	}
	srcs := make([]string, 0, len(bySource))
	for s := range bySource {
		srcs = append(srcs, s)
	}
	sort.Strings(srcs)
	for _, s := range srcs {
		r.Count("cases_with_error_from_"+s, bySource[s])
	}
	floor := 150
	if light {
		floor = 40
	}
	r.Finish(vlib.Spec{
		Level: "fault_enumeration",
		Rule:  "enumerated faults: {picker, picker on a retry attempt, config selector, dial-level and call-level per-RPC credentials, dialer, transport handshake, codec Marshal / Unmarshal, server handler} x error values {status / %w-wrapped / errors.Join-ed status with each code 1..16, 17, 99; plain, context.Canceled, DeadlineExceeded, wrapped context error, io.EOF, io.ErrUnexpectedEOF, GRPCStatus()==nil, GRPCStatus() code OK, transport.ConnectionError, *transport.NewStreamError, net.ErrClosed} x {Invoke, bidi stream} x {fail-fast, wait-for-ready} (+ server/client-streaming and unary-desc streams on representative values); 75 wire faults of a scripted HTTP/2 peer (RST codes, GOAWAYs, close, reset, every grpc-status value incl. malformed/missing, non-200 / non-grpc responses, END_STREAM without trailers, compression and length-prefix lies, malformed frames) x 4 stream phases; context and channel-close at each blocking point; call-option / size-limit / compressor / metadata / retry-exhaustion faults. Oracle: every non-nil error from Invoke/NewStream and every non-nil non-io.EOF error from SendMsg/RecvMsg has status.FromError ok; control-plane status errors with an A54-restricted code end the RPC INTERNAL, the other codes 1..16 unchanged. non-trivial = a non-nil error was returned; distinct = (source, error class, mode, API that returned it, observed code)",
		Assumptions: []string{"the A54 table is written from the gRFC text, not from internal/status",
			"errors with GRPCStatus() returning an OK-coded status and codes above 16 are counted (nonnil_error_with_code_ok / _unassigned_code), not judged",
			"interceptor-produced errors are application code and not enumerated"},
		Floor: floor,
	})
}

func variantClass(c fcase) string {
	switch c.Variant {
	case "status", "wrapped", "joined":
		if a54Restricted[c.Code] {
			return c.Variant + "-restricted"
		}
		return c.Variant + "-allowed"
	}
	if c.Source == "wire" {
		v := c.Variant
		if i := strings.IndexByte(v, ':'); i >= 0 {
			v = v[:i]
		}
		return v + "@p" + strconv.Itoa(c.Phase)
	}
	return c.Variant
}
