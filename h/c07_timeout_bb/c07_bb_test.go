// C07 black-box confirmation: grpc-timeout through the real transports, under
// virtual time (engine E1, synctest bubbles).
//
// Server part: a scripted HTTP/2 client sends `grpc-timeout: v` for generated
// values to a real grpc.Server.  Virtual time does not advance between the
// write of the HEADERS frame and the handler's measurement, so the handler's
// ctx.Deadline()-now *is* the value the server decoded.  It must equal the
// reference decoding (value*unit, saturated at MaxInt64, math/big); a value
// outside ^[0-9]{1,8}[HMSmun]$ must be rejected without reaching the handler.
//
// Client part: a real grpc.ClientConn issues RPCs with generated deadlines
// against a scripted server; the grpc-timeout value read off the wire at
// virtual instant H for an RPC whose deadline is the virtual instant E must
// match the grammar and decode (reference) to d' with E-H <= d' < E-H + unit.
package c07bb

import (
	"context"
	"fmt"
	"math"
	"math/big"
	"math/rand"
	"regexp"
	"sort"
	"strconv"
	"strings"
	"sync"
	"testing"
	"testing/synctest"
	"time"

	"golang.org/x/net/http2"
	"google.golang.org/grpc"
	"google.golang.org/grpc/metadata"
	"google.golang.org/grpc/verif/vlib"
	"google.golang.org/grpc/verif/wire"
)

// ---------------------------------------------------------------- reference

var grammar = regexp.MustCompile(`^[0-9]{1,8}[HMSmun]$`)

var unitNs = map[byte]int64{'H': int64(time.Hour), 'M': int64(time.Minute), 'S': int64(time.Second),
	'm': int64(time.Millisecond), 'u': int64(time.Microsecond), 'n': 1}

// refDecode: the statement's reading of a header value.
func refDecode(s string) (d int64, ok bool) {
	if !grammar.MatchString(s) {
		return 0, false
	}
	v, _ := new(big.Int).SetString(s[:len(s)-1], 10)
	v.Mul(v, big.NewInt(unitNs[s[len(s)-1]]))
	if v.Cmp(big.NewInt(math.MaxInt64)) > 0 {
		return math.MaxInt64, true
	}
	return v.Int64(), true
}

// ---------------------------------------------------------------- server part

type srvValue struct {
	V     string `json:"v"`
	Class string `json:"class"`
}

func digits(rng *rand.Rand, n int) string {
	b := make([]byte, n)
	for i := range b {
		b[i] = byte('0' + rng.Intn(10))
	}
	return string(b)
}

func genSrvValue(rng *rand.Rand) srvValue {
	u := string("HMSmun"[rng.Intn(6)])
	switch rng.Intn(24) {
	case 0, 1, 2, 3:
		return srvValue{digits(rng, 1+rng.Intn(8)) + u, "valid-random"}
	case 4:
		return srvValue{strings.Repeat("9", 1+rng.Intn(8)) + u, "valid-nines"}
	case 5:
		return srvValue{strings.Repeat("0", 1+rng.Intn(8)) + u, "valid-zero"}
	case 6:
		return srvValue{strings.Repeat("0", rng.Intn(7)) + strconv.Itoa(1+rng.Intn(9)) + u, "valid-leading-zeros"}
	case 7: // the hour clamp: MaxInt64/hour = 2562047
		return srvValue{strconv.Itoa(2562047+rng.Intn(5)-2) + "H", "valid-hour-clamp"}
	case 8:
		n := vlib.Pick(rng, 1, 10, 100, 1000, 100000, 10000000, 99999999) + rng.Intn(3) - 1
		if n > 99999999 {
			return srvValue{strconv.Itoa(n) + u, "bad-too-long"}
		}
		return srvValue{strconv.Itoa(n) + u, "valid-pow10"}
	case 9:
		return srvValue{digits(rng, 8) + "H", "valid-8digit-hours"}
	case 10:
		return srvValue{digits(rng, 9+rng.Intn(3)) + u, "bad-too-long"}
	case 11:
		return srvValue{vlib.Pick(rng, "", u, digits(rng, 1+rng.Intn(8))), "bad-short-or-no-unit"}
	case 12:
		return srvValue{digits(rng, 1+rng.Intn(7)) + vlib.Pick(rng, "s", "h", "N", "U", "d", "ms", "us", "ns", "Z", "0"+"", " "), "bad-unit"}
	case 13:
		return srvValue{vlib.Pick(rng, "+", "-") + digits(rng, 1+rng.Intn(7)) + u, "bad-sign"}
	case 14:
		return srvValue{vlib.Pick(rng, " 5"+u, "5 "+u, "5"+u+" ", "\t5"+u, "5"+u+"\t"), "bad-space"}
	case 15:
		return srvValue{vlib.Pick(rng, "1.5", "1e3", "0x1f", "1_0", "1,0", "١٢", "５") + u, "bad-number-syntax"}
	case 16:
		return srvValue{digits(rng, 1+rng.Intn(6)) + u + u, "bad-two-units"}
	case 17:
		return srvValue{vlib.Pick(rng, "1\x00", "1\n", "1\r", "\x7f1", "1\x80") + u, "bad-control-byte"}
	case 18:
		return srvValue{u + digits(rng, 1+rng.Intn(7)), "bad-unit-first"}
	case 19:
		return srvValue{digits(rng, 20+rng.Intn(20)) + u, "bad-very-long"}
	case 20:
		return srvValue{"18446744073709551616" + u, "bad-uint64-overflow"}
	default:
		return srvValue{digits(rng, 1+rng.Intn(8)) + u, "valid-random"}
	}
}

type hrec struct {
	count     int
	hasDL     bool
	remaining time.Duration
	at        time.Duration
}

type bbResult struct {
	viol     [][2]string
	inconcl  string
	counters map[string]int64
	sigs     []string
}

func runServer(vals []srvValue) *bbResult {
	res := &bbResult{counters: map[string]int64{}}
	v := func(key, f string, a ...any) { res.viol = append(res.viol, [2]string{key, fmt.Sprintf(f, a...)}) }
	t0 := time.Now()
	now := func() time.Duration { return time.Since(t0) }
	var mu sync.Mutex
	recs := map[string]*hrec{}
	handler := func(_ any, ss grpc.ServerStream) error {
		at := now()
		md, _ := metadata.FromIncomingContext(ss.Context())
		id := "?"
		if x := md.Get("x-case"); len(x) > 0 {
			id = x[0]
		}
		dl, ok := ss.Context().Deadline()
		rem := time.Duration(0)
		if ok {
			rem = time.Until(dl)
		}
		mu.Lock()
		r := recs[id]
		if r == nil {
			r = &hrec{}
			recs[id] = r
		}
		r.count++
		r.hasDL, r.remaining, r.at = ok, rem, at
		mu.Unlock()
		return nil
	}
	fx := wire.NewServerFixture(handler)
	fx.Serve()
	peer, err := fx.Connect()
	if err != nil {
		res.inconcl = "connect: " + err.Error()
		return res
	}
	if err := peer.Start(); err != nil {
		res.inconcl = "start: " + err.Error()
		return res
	}
	synctest.Wait()
	// a little virtual time passes first so that "now" is not the bubble's epoch
	time.Sleep(1234567 * time.Microsecond)
	sent := make([]time.Duration, len(vals))
	ids := make([]uint32, len(vals))
	for i, sv := range vals {
		ids[i] = uint32(1 + 2*i)
		sent[i] = now()
		peer.WriteHeaders(ids[i], true, 0, wire.RequestHeaders("/verif.Timeout/Check", wire.F("x-case", strconv.Itoa(i)), wire.F("grpc-timeout", sv.V))...)
	}
	// one control stream without grpc-timeout: the handler must see no deadline
	ctl := uint32(1 + 2*len(vals))
	peer.WriteHeaders(ctl, true, 0, wire.RequestHeaders("/verif.Timeout/Check", wire.F("x-case", "ctl"))...)
	synctest.Wait()
	judgedAt := now()

	type wresp struct {
		status  string
		http    string
		msg     string
		rst     bool
		rstCode http2.ErrCode
		ended   bool
	}
	resp := map[uint32]*wresp{}
	connEnded := false
	for _, e := range peer.Log() {
		if e.Dir != wire.In {
			continue
		}
		w := resp[e.Stream]
		if w == nil {
			w = &wresp{}
			resp[e.Stream] = w
		}
		switch e.Type {
		case http2.FrameHeaders:
			if s, ok := e.Field("grpc-status"); ok {
				w.status = s
			}
			if s, ok := e.Field(":status"); ok {
				w.http = s
			}
			if s, ok := e.Field("grpc-message"); ok {
				w.msg = s
			}
			if e.EndStream() {
				w.ended = true
			}
		case http2.FrameRSTStream:
			w.rst, w.rstCode = true, e.Code
		case http2.FrameGoAway, wire.TypeConnEnd:
			connEnded = true
		}
	}
	if connEnded {
		res.counters["server_connections_ended_early"]++
	}
	mu.Lock()
	if c := recs["ctl"]; c == nil || c.count != 1 || c.hasDL {
		if !connEnded {
			v("bb-control-stream", "a request without grpc-timeout must reach the handler once without a deadline, got %+v", c)
		}
	}
	for i, sv := range vals {
		id := strconv.Itoa(i)
		r := recs[id]
		w := resp[ids[i]]
		if w == nil {
			w = &wresp{}
		}
		want, valid := refDecode(sv.V)
		switch {
		case !valid:
			res.counters["malformed_values_sent"]++
			if r != nil {
				v("bb-malformed-timeout-reached-handler:"+sv.Class, "grpc-timeout %q is not 1-8 digits + unit, yet the handler ran (deadline set=%v, remaining=%v)", sv.V, r.hasDL, r.remaining)
				break
			}
			rejected := w.rst || (w.ended && w.status != "" && w.status != "0") || connEnded
			if !rejected {
				v("bb-malformed-timeout-not-rejected:"+sv.Class, "grpc-timeout %q is malformed; the stream was neither answered with a non-OK status nor reset (grpc-status=%q http=%q rst=%v)", sv.V, w.status, w.http, w.rst)
				break
			}
			if w.rst {
				res.counters["malformed_rejected_by_rst"]++
			} else {
				res.counters["malformed_rejected_by_status_"+w.status]++
			}
			res.sigs = append(res.sigs, "srv:"+sv.Class)
		case want == 0:
			res.counters["valid_zero_values_sent"]++
			// an accepted zero timeout is an already expired deadline
			if r != nil {
				if !r.hasDL || r.remaining > 0 {
					v("bb-zero-timeout-wrong-deadline", "grpc-timeout %q decodes to 0 but the handler saw deadline set=%v remaining=%v", sv.V, r.hasDL, r.remaining)
				}
			} else if w.status != "4" && !connEnded {
				v("bb-zero-timeout-not-deadline-exceeded", "grpc-timeout %q is well-formed and decodes to 0: expected the handler with an expired deadline or DEADLINE_EXCEEDED, got grpc-status=%q msg=%q rst=%v", sv.V, w.status, w.msg, w.rst)
			}
			res.sigs = append(res.sigs, "srv:"+sv.Class+"/"+sv.V[len(sv.V)-1:])
		default:
			res.counters["valid_positive_values_sent"]++
			if r == nil {
				if connEnded {
					break
				}
				v("bb-valid-timeout-not-delivered:"+sv.Class, "grpc-timeout %q is well-formed (reference %d ns) but the handler never ran; grpc-status=%q msg=%q rst=%v", sv.V, want, w.status, w.msg, w.rst)
				break
			}
			if r.count != 1 {
				v("bb-handler-ran-twice", "handler ran %d times for case %d", r.count, i)
			}
			if !r.hasDL {
				v("bb-deadline-missing", "grpc-timeout %q: the handler's context has no deadline", sv.V)
				break
			}
			if r.at != sent[i] || judgedAt != sent[i] {
				res.counters["virtual_time_advanced_cases"]++ // cannot equate; never expected
				break
			}
			got := int64(r.remaining)
			exact := got == want
			if want == math.MaxInt64 && got >= math.MaxInt64-int64(time.Second) {
				exact = true // saturated: time.Time arithmetic may clip the last fraction
				res.counters["saturated_deadlines"]++
			}
			if !exact {
				key := "bb-decoded-timeout-differs"
				if got < 0 {
					key = "bb-decoded-timeout-negative"
				}
				v(key+":"+sv.Class, "grpc-timeout %q: handler deadline - now = %d ns, reference decoding = %d ns (virtual time did not advance)", sv.V, got, want)
				break
			}
			res.counters["deadlines_equal_reference"]++
			res.sigs = append(res.sigs, "srv:"+sv.Class+"/"+sv.V[len(sv.V)-1:])
		}
	}
	mu.Unlock()
	peer.Close()
	fx.S.Stop()
	<-peer.Done()
	return res
}

// ---------------------------------------------------------------- client part

type cliRPC struct {
	D     time.Duration `json:"d"`     // timeout given to context.WithTimeout
	Wave  int           `json:"wave"`  // 0: started before the connection exists, 1: on the READY connection
	Pause time.Duration `json:"pause"` // wave 1: virtual pause before this RPC starts
	Class string        `json:"class"`
}

type cliScenario struct {
	ConnDelay time.Duration `json:"conn_delay"` // virtual time before the server sends its preface
	RPCs      []cliRPC      `json:"rpcs"`
}

func genDeadline(rng *rand.Rand) (time.Duration, string) {
	// unit switch points of the encoder: 1e8 of the finer unit
	bounds := []int64{100000000, 100000000 * 1000, 100000000 * 1000000, 100000000 * int64(time.Second), 100000000 * int64(time.Minute)}
	switch rng.Intn(8) {
	case 0:
		return time.Duration(1 + rng.Int63n(1000)), "tiny"
	case 1, 2:
		b := bounds[rng.Intn(len(bounds))]
		return time.Duration(b + rng.Int63n(2001) - 1000), "unit-boundary"
	case 3:
		return time.Duration(int64(math.MaxInt64) - (1 << 41) - rng.Int63n(1<<50)), "near-max"
	case 4:
		// not a multiple of the unit that will be chosen: forces rounding
		e := 8 + rng.Intn(10)
		return time.Duration(int64(math.Pow10(e)) + 1 + rng.Int63n(int64(math.Pow10(e-7)))), "just-above-pow10"
	case 5:
		return time.Duration(rng.Int63n(int64(time.Hour))), "sub-hour"
	default:
		return time.Duration(1 + rng.Int63n(1<<uint(10+rng.Intn(52)))), "log-uniform"
	}
}

func genCli(rng *rand.Rand) cliScenario {
	sc := cliScenario{ConnDelay: time.Duration(rng.Int63n(int64(3 * time.Second)))}
	n := 20 + rng.Intn(20)
	for i := 0; i < n; i++ {
		d, c := genDeadline(rng)
		r := cliRPC{D: d, Class: c, Wave: rng.Intn(2)}
		if r.Wave == 1 {
			r.Pause = time.Duration(rng.Int63n(int64(50 * time.Millisecond)))
		}
		sc.RPCs = append(sc.RPCs, r)
	}
	return sc
}

func runClient(sc cliScenario) *bbResult {
	res := &bbResult{counters: map[string]int64{}}
	v := func(key, f string, a ...any) { res.viol = append(res.viol, [2]string{key, fmt.Sprintf(f, a...)}) }
	t0 := time.Now()
	now := func() time.Duration { return time.Since(t0) }
	fx, err := wire.NewClientFixture()
	if err != nil {
		res.inconcl = "fixture: " + err.Error()
		return res
	}
	var mu sync.Mutex
	type seen struct {
		at    time.Duration
		val   string
		has   bool
		count int
	}
	wireSeen := map[string]*seen{}
	expire := make([]time.Duration, len(sc.RPCs)) // E: absolute virtual deadline
	started := make([]bool, len(sc.RPCs))
	var cancels []context.CancelFunc
	var wg sync.WaitGroup
	start := func(i int) {
		ctx := metadata.AppendToOutgoingContext(context.Background(), "x-case", strconv.Itoa(i))
		mu.Lock()
		expire[i] = now() + sc.RPCs[i].D
		started[i] = true
		mu.Unlock()
		ctx, cancel := context.WithTimeout(ctx, sc.RPCs[i].D)
		cancels = append(cancels, cancel)
		wg.Add(1)
		go func() {
			defer wg.Done()
			var reply []byte
			fx.CC.Invoke(ctx, "/verif.Timeout/Call", []byte("x"), &reply, grpc.WaitForReady(true))
		}()
	}
	for i, r := range sc.RPCs {
		if r.Wave == 0 {
			start(i)
		}
	}
	fx.CC.Connect()
	peer := fx.Accept()
	peer.OnFrame = func(e wire.Entry) {
		if e.Dir != wire.In || e.Type != http2.FrameHeaders {
			return
		}
		id, _ := e.Field("x-case")
		val, has := e.Field("grpc-timeout")
		mu.Lock()
		s := wireSeen[id]
		if s == nil {
			s = &seen{}
			wireSeen[id] = s
		}
		s.count++
		s.at, s.val, s.has = now(), val, has
		mu.Unlock()
	}
	time.Sleep(sc.ConnDelay)
	if err := peer.Start(); err != nil {
		res.inconcl = "start: " + err.Error()
		fx.CC.Close()
		peer.Close()
		for _, c := range cancels {
			c()
		}
		wg.Wait()
		return res
	}
	synctest.Wait()
	for i, r := range sc.RPCs {
		if r.Wave == 1 {
			time.Sleep(r.Pause)
			start(i)
			synctest.Wait()
		}
	}
	synctest.Wait()
	mu.Lock()
	for i, r := range sc.RPCs {
		s := wireSeen[strconv.Itoa(i)]
		if s == nil {
			// expired before the connection was there: nothing on the wire is fine
			res.counters["rpcs_not_on_wire"]++
			if r.Wave == 1 || r.D > sc.ConnDelay {
				v("bb-rpc-with-live-deadline-not-sent", "rpc %d (timeout %v, wave %d) never appeared on the wire although its deadline was ahead when the connection became ready (%v)", i, r.D, r.Wave, sc.ConnDelay)
			}
			continue
		}
		res.counters["client_headers_judged"]++
		if s.count != 1 {
			v("bb-client-headers-twice", "rpc %d appeared %d times on the wire", i, s.count)
		}
		if !s.has {
			v("bb-client-timeout-missing", "rpc %d has a deadline (%v) but its HEADERS carry no grpc-timeout", i, r.D)
			continue
		}
		if !grammar.MatchString(s.val) {
			v("bb-client-timeout-bad-format", "rpc %d: grpc-timeout %q on the wire is not 1-8 digits + unit", i, s.val)
			continue
		}
		dec, _ := refDecode(s.val)
		rem := int64(expire[i] - s.at) // time left when the HEADERS were read off the wire
		unit := unitNs[s.val[len(s.val)-1]]
		if rem <= 0 {
			v("bb-client-sent-expired-rpc", "rpc %d: HEADERS written at %v, after its deadline %v", i, s.at, expire[i])
			continue
		}
		if dec < rem {
			v("bb-client-timeout-shortens-deadline", "rpc %d: %d ns were left at the moment the HEADERS were written, grpc-timeout %q decodes to %d ns (shorter)", i, rem, s.val, dec)
			continue
		}
		// dec < rem + unit, without overflowing int64
		if dec-rem >= unit {
			v("bb-client-timeout-too-coarse", "rpc %d: %d ns left, grpc-timeout %q decodes to %d ns: not below remaining + one unit (%d ns)", i, rem, s.val, dec, unit)
			continue
		}
		if dec != rem {
			res.counters["client_values_rounded_up"]++
		}
		res.sigs = append(res.sigs, fmt.Sprintf("cli:%s/%s/w%d/r%v", s.val[len(s.val)-1:], r.Class, r.Wave, dec != rem))
	}
	mu.Unlock()
	for _, c := range cancels {
		c()
	}
	fx.CC.Close()
	peer.Close()
	wg.Wait()
	<-peer.Done()
	return res
}

// ---------------------------------------------------------------- driver

func merge(r *vlib.Run, fam string, i int, detail any, res *bbResult) {
	if res.inconcl != "" {
		r.Inconclusive("%s case %d: %s", fam, i, res.inconcl)
		return
	}
	for _, x := range res.viol {
		r.Violation(x[0], fam, i, detail, "%s", x[1])
	}
	keys := make([]string, 0, len(res.counters))
	for k := range res.counters {
		keys = append(keys, k)
	}
	sort.Strings(keys)
	for _, k := range keys {
		r.Count(k, res.counters[k])
	}
	for _, s := range res.sigs {
		r.Nontrivial(s)
	}
}

func TestVerifC07BB(t *testing.T) {
	r := vlib.Start(t, "C07")
	ns := r.N(80, 1600)
	for i := 0; i < ns; i++ {
		const fam = "bb-server"
		if !r.Want(fam, i) {
			continue
		}
		rng := r.Rand(fam, i)
		var vals []srvValue
		for k := 0; k < 60; k++ {
			vals = append(vals, genSrvValue(rng))
		}
		if i == 0 { // must-hit prefix
			vals = append(vals, srvValue{"1n", "valid-random"}, srvValue{"99999999H", "valid-8digit-hours"}, srvValue{"2562047H", "valid-hour-clamp"},
				srvValue{"2562048H", "valid-hour-clamp"}, srvValue{"0S", "valid-zero"}, srvValue{"100000000n", "bad-too-long"}, srvValue{"", "bad-short-or-no-unit"}, srvValue{"-1S", "bad-sign"})
		}
		r.Progress(fam, i, fmt.Sprintf("values=%d", len(vals)))
		var res *bbResult
		synctest.Test(t, func(t *testing.T) { res = runServer(vals) })
		r.Eval(len(vals))
		merge(r, fam, i, vals, res)
		if i == 0 {
			r.Sample(map[string]any{"part": "server", "values": vals[:12], "counters": res.counters})
		}
	}
	nc := r.N(80, 1600)
	for i := 0; i < nc; i++ {
		const fam = "bb-client"
		if !r.Want(fam, i) {
			continue
		}
		sc := genCli(r.Rand(fam, i))
		r.Progress(fam, i, fmt.Sprintf("rpcs=%d", len(sc.RPCs)))
		var res *bbResult
		synctest.Test(t, func(t *testing.T) { res = runClient(sc) })
		r.Eval(len(sc.RPCs))
		merge(r, fam, i, sc, res)
		if i == 0 {
			r.Sample(map[string]any{"part": "client", "conn_delay": sc.ConnDelay, "rpcs": sc.RPCs[:8], "counters": res.counters})
		}
	}
	r.Finish(vlib.Spec{
		Level: "exploration",
		Rule: "bb: (server) 60 generated grpc-timeout values per bubble (valid: random/9s/0s/leading zeros/hour clamp/powers of ten; malformed: 9+ digits, no unit, bad unit, sign, spaces, decimal/hex/unicode digits, two units, control bytes, 20-40 digits) sent by a scripted HTTP/2 client to a real grpc.Server: handler deadline - now == reference decoding, malformed never reaches the handler and is answered non-OK or reset; " +
			"(client) 20-40 RPCs per bubble with generated deadlines (1ns..~292y, encoder unit switch points +-1000ns) started before the connection exists (so time passes before the HEADERS are built) or on the READY connection: wire value matches the grammar and remaining <= decoded < remaining + unit; non-trivial = a case whose verdict was evaluated; distinct = (part, value class, unit, wave, rounded?)",
		Assumptions: []string{
			"bb: inside a synctest bubble no virtual time passes between the scripted write of HEADERS and the handler's time.Until(deadline); cases where the stamps differ are counted and not judged",
			"bb: the client's remaining time is measured at the instant the HEADERS frame is read off the wire, which is the virtual instant at which the transport computed it (no stream-quota waiting in this workload)",
			"bb: reference decoding = value*unit saturated at MaxInt64 (math/big)",
		},
		Floor: 30,
	})
}
