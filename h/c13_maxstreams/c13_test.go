// C13 (and the NewStream-waiter clause of C17): a real grpc client against a
// scripted HTTP/2 server that raises/lowers SETTINGS_MAX_CONCURRENT_STREAMS
// and completes streams at script-chosen points, inside a synctest bubble.
package c13

import (
	"context"
	"fmt"
	"io"
	"math"
	"math/rand"
	"os"
	"sort"
	"strconv"
	"sync"
	"testing"
	"testing/synctest"
	"time"

	"golang.org/x/net/http2"
	"google.golang.org/grpc"
	"google.golang.org/grpc/codes"
	"google.golang.org/grpc/metadata"
	"google.golang.org/grpc/status"
	"google.golang.org/grpc/verif/vlib"
	"google.golang.org/grpc/verif/wire"
)

type step struct {
	K string        `json:"k"` // start | complete | rst | limit | cancel | sleep | wait
	N int           `json:"n,omitempty"`
	D time.Duration `json:"d,omitempty"`
}

type scenario struct {
	Limit0    int             `json:"limit0"`    // -1 = not advertised
	Deadlines []time.Duration `json:"deadlines"` // per RPC, 0 = none
	Steps     []step          `json:"steps"`
}

func gen(rng *rand.Rand, fam string) scenario {
	sc := scenario{Limit0: vlib.Pick(rng, 1, 1, 2, 3, 5, -1)}
	nrpc := 5 + rng.Intn(56)
	if fam == "waiters" {
		sc.Limit0 = vlib.Pick(rng, 0, 1, 1, 2)
		nrpc = 20 + rng.Intn(40)
	}
	for i := 0; i < nrpc; i++ {
		d := time.Duration(0)
		if rng.Intn(4) == 0 {
			d = time.Duration(1+rng.Intn(200)) * 100 * time.Millisecond
		}
		sc.Deadlines = append(sc.Deadlines, d)
	}
	sc.Steps = append(sc.Steps, step{K: "start", N: 1 + rng.Intn(nrpc)})
	ns := 15 + rng.Intn(50)
	for k := 0; k < ns; k++ {
		switch r := rng.Intn(100); {
		case r < 25:
			sc.Steps = append(sc.Steps, step{K: "complete", N: 1 + rng.Intn(3)})
		case r < 33:
			sc.Steps = append(sc.Steps, step{K: "rst", N: 1})
		case r < 55:
			sc.Steps = append(sc.Steps, step{K: "limit", N: vlib.Pick(rng, 0, 0, 1, 1, 2, 3, 4, 7, 50)})
		case r < 70:
			sc.Steps = append(sc.Steps, step{K: "start", N: 1 + rng.Intn(8)})
		case r < 80:
			sc.Steps = append(sc.Steps, step{K: "cancel", N: rng.Intn(nrpc)})
		case r < 90:
			sc.Steps = append(sc.Steps, step{K: "sleep", D: time.Duration(1+rng.Intn(50)) * 100 * time.Millisecond})
		default:
			sc.Steps = append(sc.Steps, step{K: "wait"})
		}
	}
	return sc
}

type rpcRec struct {
	started    bool
	startAt    time.Duration
	deadlineAt time.Duration // 0 none
	finished   bool
	finishAt   time.Duration
	code       codes.Code
	cancelled  bool
	cancelAt   time.Duration
	cancel     context.CancelFunc
	streamID   uint32 // as seen by the server, 0 = never reached the wire
}

type result struct {
	viol     [][2]string
	counters map[string]int64
	sigs     []string
}

func run(sc scenario) *result {
	res := &result{counters: map[string]int64{}}
	v := func(key, f string, a ...any) { res.viol = append(res.viol, [2]string{key, fmt.Sprintf(f, a...)}) }
	t0 := time.Now()
	now := func() time.Duration { return time.Since(t0) }
	fx, err := wire.NewClientFixture()
	if err != nil {
		v("harness", "fixture: %v", err)
		return res
	}
	fx.CC.Connect()
	peer := fx.Accept()
	var init []http2.Setting
	if sc.Limit0 >= 0 {
		init = append(init, http2.Setting{ID: http2.SettingMaxConcurrentStreams, Val: uint32(sc.Limit0)})
	}
	if err := peer.Start(init...); err != nil {
		v("harness", "start: %v", err)
		return res
	}
	synctest.Wait()

	var mu sync.Mutex
	rpcs := make([]*rpcRec, len(sc.Deadlines))
	for i := range rpcs {
		rpcs[i] = &rpcRec{}
	}
	var wg sync.WaitGroup
	next := 0
	startRPC := func(i int) {
		r := rpcs[i]
		ctx := metadata.AppendToOutgoingContext(context.Background(), "x-rid", strconv.Itoa(i))
		var cancel context.CancelFunc
		mu.Lock()
		r.started, r.startAt = true, now()
		if d := sc.Deadlines[i]; d > 0 {
			ctx, cancel = context.WithTimeout(ctx, d)
			r.deadlineAt = r.startAt + d
		} else {
			ctx, cancel = context.WithCancel(ctx)
		}
		r.cancel = cancel
		mu.Unlock()
		wg.Add(1)
		go func() {
			defer wg.Done()
			var err error
			st, err := fx.CC.NewStream(ctx, &grpc.StreamDesc{ClientStreams: true, ServerStreams: true}, "/verif.MCS/Call")
			if err == nil {
				if err = st.SendMsg([]byte("req")); err == nil {
					st.CloseSend()
					for err == nil {
						var m []byte
						err = st.RecvMsg(&m)
					}
				}
			}
			mu.Lock()
			r.finished, r.finishAt, r.code = true, now(), status.Code(err)
			if err == io.EOF {
				r.code = codes.OK
			}
			mu.Unlock()
		}()
	}

	// ---- wire audit state ----
	type wstream struct {
		id     uint32
		rid    int
		closed bool
	}
	streams := map[uint32]*wstream{}
	var order []*wstream
	open := 0
	acks := 0
	var limits []int64 // limits[j] = effective limit after j of our SETTINGS were applied
	limits = append(limits, math.MaxInt64)
	pendingLimits := []int64{}
	curLimit := func() int64 { return limits[len(limits)-1] }
	if sc.Limit0 >= 0 {
		pendingLimits = append(pendingLimits, int64(sc.Limit0))
	} else {
		pendingLimits = append(pendingLimits, -1)
	}
	fed := 0
	lastID := uint32(0)
	maxOpenSeen := 0
	atLimit := int64(0)
	feed := func() {
		log := peer.LogFrom(fed)
		for i := range log {
			e := &log[i]
			switch {
			case e.Dir == wire.In && e.Type == http2.FrameSettings && e.Ack():
				acks++
				if len(pendingLimits) == 0 {
					v("unexpected-ack", "SETTINGS ACK without outstanding SETTINGS: %s", e)
					break
				}
				l := pendingLimits[0]
				pendingLimits = pendingLimits[1:]
				if l < 0 {
					l = curLimit()
				}
				limits = append(limits, l)
			case e.Dir == wire.In && e.Type == http2.FrameHeaders:
				if e.Stream%2 != 1 || e.Stream <= lastID {
					v("stream-id-order", "client opened stream %d after %d (ids must be odd and strictly increasing): %s", e.Stream, lastID, e)
				}
				lastID = e.Stream
				rid := -1
				if s, ok := e.Field("x-rid"); ok {
					rid, _ = strconv.Atoi(s)
				}
				w := &wstream{id: e.Stream, rid: rid}
				streams[e.Stream] = w
				order = append(order, w)
				open++
				if rid >= 0 && rid < len(rpcs) {
					mu.Lock()
					rpcs[rid].streamID = e.Stream
					mu.Unlock()
				}
				if int64(open) > curLimit() {
					v("limit-exceeded", "HEADERS for stream %d makes %d streams open but the limit in force (after %d SETTINGS ACKs) is %d: %s", e.Stream, open, acks, curLimit(), e)
				}
				if int64(open) == curLimit() {
					atLimit++
				}
				if open > maxOpenSeen {
					maxOpenSeen = open
				}
			case e.Dir == wire.In && e.Type == http2.FrameRSTStream:
				if w := streams[e.Stream]; w != nil && !w.closed {
					w.closed = true
					open--
				}
			case e.Dir == wire.Out && (e.Type == http2.FrameRSTStream || e.Type == http2.FrameHeaders && e.EndStream()):
				if w := streams[e.Stream]; w != nil && !w.closed {
					w.closed = true
					open--
				}
			}
		}
		fed += len(log)
	}
	connAlive := true
	quiesce := func(label string) {
		synctest.Wait()
		feed()
		res.counters["quiescent_checks"]++
		if ended, _ := peer.ReadEnded(); ended {
			connAlive = false
		}
		mu.Lock()
		defer mu.Unlock()
		waiting := 0
		for i, r := range rpcs {
			if !r.started {
				continue
			}
			if r.finished {
				// deadline semantics for RPCs that never got a stream
				if r.streamID == 0 && r.deadlineAt > 0 && !r.cancelled && r.code == codes.DeadlineExceeded && r.finishAt != r.deadlineAt {
					v("deadline-not-exact", "rpc %d waited for a stream and failed DEADLINE_EXCEEDED at %v, its deadline was %v", i, r.finishAt, r.deadlineAt)
				}
				continue
			}
			if r.deadlineAt > 0 && now() > r.deadlineAt {
				v("deadline-overrun", "after %q at %v: rpc %d still running past its deadline %v", label, now(), i, r.deadlineAt)
			}
			if r.cancelled {
				v("cancel-not-propagated", "after %q: rpc %d was cancelled at %v but has not returned at quiescence", label, i, r.cancelAt)
			}
			if r.streamID == 0 {
				waiting++
			}
		}
		if waiting > 0 {
			res.counters["quiescent_checks_with_waiters"]++
			state := "blocked-at-limit"
			if connAlive && len(pendingLimits) == 0 && int64(open) < curLimit() {
				state = "LOST-WAKEUP"
				v("waiter-not-admitted", "after %q: %d RPC(s) wait for a stream while only %d streams are open and the limit is %d on a live connection", label, waiting, open, curLimit())
			}
			res.sigs = append(res.sigs, state+"/"+label)
		}
	}
	quiesce("init")
	firstOpen := func(skip int) *wstream {
		for _, w := range order {
			if !w.closed {
				if skip == 0 {
					return w
				}
				skip--
			}
		}
		return nil
	}
	for si, st := range sc.Steps {
		label := st.K
		switch st.K {
		case "start":
			for k := 0; k < st.N && next < len(rpcs); k++ {
				startRPC(next)
				next++
			}
		case "complete":
			for k := 0; k < st.N; k++ {
				if w := firstOpen((si + k) % 3); w != nil {
					peer.WriteHeaders(w.id, true, 0, wire.TrailersOnly(0, "")...)
					w.closed = true
					open--
				} else if w := firstOpen(0); w != nil {
					peer.WriteHeaders(w.id, true, 0, wire.TrailersOnly(0, "")...)
					w.closed = true
					open--
				}
			}
		case "rst":
			if w := firstOpen(si % 2); w != nil {
				peer.WriteRST(w.id, http2.ErrCodeRefusedStream)
				w.closed = true
				open--
			}
		case "limit":
			if int64(st.N) < curLimit() {
				label = "limit-lower"
			} else {
				label = "limit-raise"
			}
			pendingLimits = append(pendingLimits, int64(st.N))
			peer.WriteSettings(http2.Setting{ID: http2.SettingMaxConcurrentStreams, Val: uint32(st.N)})
		case "cancel":
			mu.Lock()
			r := rpcs[st.N]
			if r.started && !r.finished && !r.cancelled {
				r.cancelled, r.cancelAt = true, now()
				r.cancel()
			}
			mu.Unlock()
		case "sleep":
			time.Sleep(st.D)
		}
		quiesce(label)
	}
	// drain: start the rest, lift the limit, answer everything
	for next < len(rpcs) {
		startRPC(next)
		next++
	}
	pendingLimits = append(pendingLimits, 1000)
	peer.WriteSettings(http2.Setting{ID: http2.SettingMaxConcurrentStreams, Val: 1000})
	quiesce("drain-raise")
	for round := 0; round < 4; round++ {
		for _, w := range order {
			if !w.closed {
				peer.WriteHeaders(w.id, true, 0, wire.TrailersOnly(0, "")...)
				w.closed = true
				open--
			}
		}
		quiesce("drain-complete")
	}
	mu.Lock()
	for i, r := range rpcs {
		if !r.finished {
			v("rpc-never-finished", "rpc %d (stream %d) has not finished after the limit was lifted and every stream answered", i, r.streamID)
		} else if r.streamID != 0 && !r.cancelled && r.deadlineAt == 0 && r.code != codes.OK && r.code != codes.Unavailable {
			// RST(REFUSED_STREAM) surfaces as UNAVAILABLE (or a transparent retry succeeded)
			v("unexpected-status", "rpc %d on stream %d answered OK finished with %v", i, r.streamID, r.code)
		}
		if r.cancel != nil {
			r.cancel()
		}
	}
	mu.Unlock()
	fx.CC.Close()
	peer.Close()
	wg.Wait()
	<-peer.Done()
	res.counters["streams_opened"] = int64(len(order))
	res.counters["settings_acks"] = int64(acks)
	res.counters["headers_at_exact_limit"] = atLimit
	res.counters["max_open_seen"] = int64(maxOpenSeen)
	sort.Strings(res.sigs)
	return res
}

func light() int {
	if os.Getenv("VERIF_LIGHT") != "" {
		return 6
	}
	return 1
}

func runFam(t *testing.T, r *vlib.Run, fam string, n int) {
	for i := 0; i < n; i++ {
		if !r.Want(fam, i) {
			continue
		}
		sc := gen(r.Rand(fam, i), fam)
		r.Progress(fam, i, fmt.Sprintf("rpcs=%d steps=%d", len(sc.Deadlines), len(sc.Steps)))
		var res *result
		synctest.Test(t, func(t *testing.T) { res = run(sc) })
		r.Eval(1)
		for _, x := range res.viol {
			r.Violation(x[0], fam, i, sc, "%s", x[1])
		}
		for k, c := range res.counters {
			if k == "max_open_seen" {
				r.Max(k, c)
			} else {
				r.Count(k, c)
			}
		}
		if res.counters["quiescent_checks_with_waiters"] > 0 && res.counters["headers_at_exact_limit"] > 0 {
			uniq := map[string]bool{}
			for _, s := range res.sigs {
				uniq[s] = true
			}
			var us []string
			for s := range uniq {
				us = append(us, s)
			}
			sort.Strings(us)
			r.Nontrivial(fmt.Sprintf("%s:%v", fam, us))
		}
		if i < 2 {
			r.Sample(map[string]any{"scenario": sc, "counters": res.counters})
		}
	}
}

func TestVerifC13(t *testing.T) {
	r := vlib.Start(t, "C13")
	runFam(t, r, "mixed", r.N(400, 8000)/light())
	r.Finish(vlib.Spec{
		Level: "exploration",
		Rule:  "5-60 RPCs (a quarter with deadlines) against a scripted server; 15-65 steps: complete/RST streams, SETTINGS_MAX_CONCURRENT_STREAMS in {0,1,2,3,4,7,50}, start batches, cancel, virtual sleeps; for every HEADERS read after j SETTINGS ACKs: open streams <= limit j, ids odd increasing; at every quiescent point: no RPC waits for a stream while open < limit on a live connection, none runs past its deadline, cancelled ones have returned; non-trivial = RPCs were waiting at a quiescent point and some HEADERS hit the limit exactly; distinct = set of (blocked|lost, last event)",
		Assumptions: []string{"a stream counts as closed for the limit from the moment the scripted server starts writing END_STREAM/RST or has read the client's RST",
			"the k-th SETTINGS ACK read marks the point from which limit k binds new HEADERS"},
		Floor: 20,
	})
}

func TestVerifC17BB(t *testing.T) {
	r := vlib.Start(t, "C17")
	runFam(t, r, "waiters", r.N(300, 6000)/light())
	r.Finish(vlib.Spec{
		Level:       "exploration",
		Rule:        "C13's scenario generator biased to 20-60 RPCs contending for a limit of 0-2 with raises/lowers and waiter cancellations: at every quiescent point no NewStream waiter is blocked while stream quota is free; distinct = set of (blocked|lost, last event)",
		Assumptions: []string{"same as C13"},
		Floor:       20,
	})
}
