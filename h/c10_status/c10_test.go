// C10: a handler's status reaches the client unchanged.
//
// Families (each case is one synctest bubble with several RPCs):
//
//	e2e            real ClientConn <-> real Server over memconn: plan-driven unary and
//	               streaming handlers return statuses with generated code / message /
//	               details on the trailers-only path, after SendHeader, or after 1-3
//	               messages; the client's error is compared with the plan.
//	huge-code      the same with codes >= 2^31 (DESIGN §5 F6, labelled separately).
//	server-encode  scripted raw HTTP/2 client -> real server: what the server writes is
//	               read from the wire: grpc-status is the decimal code, grpc-message is
//	               printable ASCII percent-encoding that decodes (independent reference
//	               decoder) to the handler's message, grpc-status-details-bin is base64
//	               of a google.rpc.Status with the same code and details.
//	client-decode  real client -> scripted server with hand-built trailers (trailers-only
//	               and headers+data+trailers; grpc-message encoded by an independent
//	               reference encoder in three styles; details-bin padded / unpadded).
//
// Oracle (from the statement): same code; same message where invalid UTF-8 is
// replaced by U+FFFD; same details (proto.Equal); handler nil => client nil;
// handler non-OK => client error non-nil.
//
// R2 note: a status whose message is not valid UTF-8 cannot be marshalled into
// grpc-status-details-bin (google.rpc.Status.message is a proto3 string); grpc-go
// documents and pins "the details are dropped" for that combination
// (test/end2end_test.go TestStatusInvalidUTF8Details), so for invalid-UTF-8
// messages "no details at all" is accepted next to "the same details"; code and
// message are still judged.
//
// R2 note: "invalid UTF-8 replaced by U+FFFD" does not say whether a run of
// invalid bytes becomes one or several U+FFFD; both the per-byte (Go `range`)
// and the per-run (strings.ToValidUTF8) replacement are accepted.
package c10

import (
	"context"
	"encoding/base64"
	"fmt"
	"io"
	"math/rand"
	"net"
	"os"
	"sort"
	"strconv"
	"strings"
	"sync"
	"testing"
	"testing/synctest"
	"unicode/utf8"

	"golang.org/x/net/http2"
	"golang.org/x/net/http2/hpack"
	spb "google.golang.org/genproto/googleapis/rpc/status"
	"google.golang.org/grpc"
	"google.golang.org/grpc/codes"
	"google.golang.org/grpc/credentials/insecure"
	"google.golang.org/grpc/grpclog"
	"google.golang.org/grpc/metadata"
	"google.golang.org/grpc/status"
	"google.golang.org/grpc/verif/vlib"
	"google.golang.org/grpc/verif/wire"
	"google.golang.org/protobuf/proto"
	"google.golang.org/protobuf/types/known/anypb"
)

func init() {
	// the transport logs every status it cannot marshal at ERROR level; keep the check's output readable
	grpclog.SetLoggerV2(grpclog.NewLoggerV2(io.Discard, io.Discard, io.Discard))
}

// ---------- plans ----------

type detail struct {
	TypeURL string `json:"type_url"`
	Value   []byte `json:"value"`
}

type plan struct {
	Kind     string   `json:"kind"` // unary | stream
	Code     uint32   `json:"code"`
	Msg      []byte   `json:"msg"`
	MsgClass string   `json:"msg_class"`
	Details  []detail `json:"details"`
	Path     string   `json:"path"` // trailers-only | header-first | msgs
	NMsgs    int      `json:"nmsgs"`
	// client-decode only
	Style  string `json:"style,omitempty"`  // minimal | all | lower
	Padded bool   `json:"padded,omitempty"` // details-bin padded base64
}

func genCode(rng *rand.Rand, i int) uint32 {
	switch (i + rng.Intn(2)) % 6 {
	case 0:
		return uint32(rng.Intn(17))
	case 1:
		return vlib.Pick(rng, uint32(0), 0, 16, uint32(rng.Intn(17)))
	case 2:
		return uint32(17 + rng.Intn(84))
	case 3:
		return vlib.Pick(rng, uint32(1<<31-1), 1<<31-2, 1<<16, 255, 256, 1<<24+5, 999, 1000000007)
	case 4:
		return uint32(101 + rng.Intn(1<<31-102))
	}
	return uint32(1 + rng.Intn(16))
}

func genHugeCode(rng *rand.Rand) uint32 {
	return vlib.Pick(rng, uint32(1<<31), 1<<31+1, 1<<32-1, 1<<32-2, 3000000000, uint32(1<<31)+uint32(rng.Intn(1<<31)))
}

var runePool = []rune{'a', 'Z', '0', ' ', '~', '%', '\n', '\r', '\t', 0, 0x1f, 0x7f, 0x80, 'é', 'ß', '€', '世', '界', 0x1F600, 0xFFFD, '"', '\\', '/', ':', 'A', 'F', '4', '1'}

func validText(rng *rand.Rand, n int) string {
	var sb strings.Builder
	for sb.Len() < n {
		switch rng.Intn(10) {
		case 0:
			sb.WriteString(vlib.Pick(rng, "%41", "%", "%%", "%zz", "%2", "%e2%82%ac", "%0A", "100%", "%FFFD"))
		case 1:
			sb.WriteString(vlib.Pick(rng, "\r\n", "\n", "\r", "\x00", "\t"))
		default:
			sb.WriteRune(runePool[rng.Intn(len(runePool))])
		}
	}
	return sb.String()
}

func genMsg(rng *rand.Rand, i int, allowInvalid bool) ([]byte, string) {
	k := (i + rng.Intn(3)) % 9
	if !allowInvalid && (k == 4 || k == 5) {
		k = 3
	}
	switch k {
	case 0:
		return nil, "empty"
	case 1:
		b := make([]byte, 1+rng.Intn(60))
		for j := range b {
			b[j] = byte(0x20 + rng.Intn(0x5f))
			if b[j] == '%' {
				b[j] = 'p'
			}
		}
		return b, "ascii"
	case 2:
		s := vlib.Pick(rng, "%", "100%", "%41", "a%4", "%%", "%zz%41", "x%e2%82%ac", "%25", "50%25 done%") + vlib.Pick(rng, "", "", "tail", "%")
		return []byte(s), "percent"
	case 3:
		return []byte(validText(rng, 1+rng.Intn(200))), "utf8-mixed"
	case 4:
		b := make([]byte, 1+rng.Intn(120))
		rng.Read(b)
		return b, "random-bytes"
	case 5:
		s := validText(rng, rng.Intn(40)) + vlib.Pick(rng, "\xff", "\xc3", "\xe2\x82", "\x80\x80", "\xf0\x9f\x98", "\xc0\xaf", "\xed\xa0\x80") + vlib.Pick(rng, "", "", "end", "%41")
		return []byte(s), "invalid-utf8"
	case 6:
		return []byte(vlib.Pick(rng, "line1\r\nline2", "\n", "a\rb", "grpc-status: 0\r\n", "\x00", "tab\there")), "crlf"
	case 7:
		n := vlib.Pick(rng, 1000, 4096, 8192, 8191, 6000)
		if !allowInvalid || rng.Intn(2) == 0 {
			s := validText(rng, n)
			for len(s) > 8192 {
				_, w := utf8.DecodeLastRuneInString(s)
				s = s[:len(s)-w]
			}
			return []byte(s), "large-utf8"
		}
		b := make([]byte, n)
		rng.Read(b)
		return b, "large-random"
	}
	return []byte(vlib.Pick(rng, "not found", "permission denied: user=\"x\"", "déjà vu", "世界", "ok", "deadline exceeded")), "typical"
}

var typeURLPool = []string{"type.googleapis.com/google.rpc.ErrorInfo", "type.googleapis.com/verif.Detail", "", "x", "type.googleapis.com/é", "a/b/c", "type.googleapis.com/google.protobuf.Duration"}

func genDetails(rng *rand.Rand, i int) []detail {
	n := 0
	switch (i + rng.Intn(2)) % 3 {
	case 0:
		n = 0
	default:
		n = 1 + rng.Intn(4)
	}
	var ds []detail
	for j := 0; j < n; j++ {
		v := make([]byte, vlib.Pick(rng, 0, 1, 7, 50, 300, 2000))
		rng.Read(v)
		ds = append(ds, detail{TypeURL: typeURLPool[rng.Intn(len(typeURLPool))], Value: v})
	}
	return ds
}

func genPlan(rng *rand.Rand, i int, fam string) plan {
	p := plan{Kind: vlib.Pick(rng, "unary", "stream")}
	if fam == "huge-code" || fam != "e2e" && rng.Intn(25) == 0 {
		// outside huge-code: a few codes >= 2^31 on the wire-level families, to see which side fails (F6)
		p.Code = genHugeCode(rng)
	} else {
		p.Code = genCode(rng, i)
	}
	p.Msg, p.MsgClass = genMsg(rng, i/2, fam != "client-decode")
	p.Details = genDetails(rng, i/3)
	p.Path = vlib.Pick(rng, "trailers-only", "trailers-only", "header-first", "msgs")
	if p.Kind == "unary" {
		p.Path = "trailers-only" // a unary handler either returns a reply (OK) or a status
	}
	if p.Path == "msgs" {
		p.NMsgs = 1 + rng.Intn(3)
	}
	if fam == "client-decode" {
		p.Style = vlib.Pick(rng, "minimal", "all", "lower")
		p.Padded = rng.Intn(2) == 0
		if p.Kind == "unary" && p.Code == 0 {
			p.Path = "msgs" // a unary RPC that ends OK needs its response message
			p.NMsgs = 1
		}
	}
	return p
}

func (p plan) anys() []*anypb.Any {
	var out []*anypb.Any
	for _, d := range p.Details {
		out = append(out, &anypb.Any{TypeUrl: d.TypeURL, Value: d.Value})
	}
	return out
}

// handlerStatus is what the (real) handler returns for the plan.
func (p plan) handlerStatus() *status.Status {
	if len(p.Details) == 0 {
		return status.New(codes.Code(p.Code), string(p.Msg))
	}
	return status.FromProto(&spb.Status{Code: int32(p.Code), Message: string(p.Msg), Details: p.anys()})
}

// ---------- references ----------

func perByteFFFD(s string) string {
	var sb strings.Builder
	for i := 0; i < len(s); {
		r, w := utf8.DecodeRuneInString(s[i:])
		if r == utf8.RuneError && w == 1 {
			sb.WriteString("�")
		} else {
			sb.WriteString(s[i : i+w])
		}
		i += w
	}
	return sb.String()
}

func msgMatches(got string, sent []byte) bool {
	s := string(sent)
	return got == perByteFFFD(s) || got == strings.ToValidUTF8(s, "�")
}

// refEncode percent-encodes msg per the gRPC HTTP/2 spec (independent of grpc-go).
func refEncode(msg string, style string, rng *rand.Rand) string {
	const up, lo = "0123456789ABCDEF", "0123456789abcdef"
	var sb strings.Builder
	for i := 0; i < len(msg); i++ {
		c := msg[i]
		plain := c >= 0x20 && c <= 0x7e && c != '%'
		if plain && style == "all" && rng.Intn(3) == 0 {
			plain = false // a decoder must accept any %XX
		}
		if plain {
			sb.WriteByte(c)
			continue
		}
		hex := up
		if style == "lower" {
			hex = lo
		}
		sb.WriteByte('%')
		sb.WriteByte(hex[c>>4])
		sb.WriteByte(hex[c&15])
	}
	return sb.String()
}

func unhex(c byte) int {
	switch {
	case c >= '0' && c <= '9':
		return int(c - '0')
	case c >= 'a' && c <= 'f':
		return int(c-'a') + 10
	case c >= 'A' && c <= 'F':
		return int(c-'A') + 10
	}
	return -1
}

// refDecode decodes a wire grpc-message; ok=false if it is not a well-formed
// percent-encoding over printable ASCII.
func refDecode(w string) (string, bool) {
	var out []byte
	for i := 0; i < len(w); i++ {
		c := w[i]
		if c < 0x20 || c > 0x7e {
			return "", false
		}
		if c != '%' {
			out = append(out, c)
			continue
		}
		if i+2 >= len(w) {
			return "", false
		}
		h, l := unhex(w[i+1]), unhex(w[i+2])
		if h < 0 || l < 0 {
			return "", false
		}
		out = append(out, byte(h<<4|l))
		i += 2
	}
	return string(out), true
}

func b64any(s string) ([]byte, error) {
	if b, err := base64.StdEncoding.DecodeString(s); err == nil {
		return b, nil
	}
	return base64.RawStdEncoding.DecodeString(s)
}

// ---------- shared execution pieces ----------

type result struct {
	viol     [][2]string
	counters map[string]int64
	sigs     []string
}

func (r *result) v(key, f string, a ...any) { r.viol = append(r.viol, [2]string{key, fmt.Sprintf(f, a...)}) }

const maxHdr = 16 << 20

// newServer builds the plan-driven real server.
func newServer(plans []plan, res *result, mu *sync.Mutex) *wire.ServerFixture {
	lookup := func(ctx context.Context) (plan, bool) {
		md, _ := metadata.FromIncomingContext(ctx)
		if v := md.Get("x-rid"); len(v) == 1 {
			if n, err := strconv.Atoi(v[0]); err == nil && n >= 0 && n < len(plans) {
				return plans[n], true
			}
		}
		return plan{}, false
	}
	fx := wire.NewServerFixture(nil, grpc.MaxHeaderListSize(maxHdr))
	sd := &grpc.ServiceDesc{ServiceName: "verif.Status", HandlerType: (*any)(nil)}
	sd.Methods = append(sd.Methods, grpc.MethodDesc{MethodName: "Unary", Handler: func(_ any, ctx context.Context, dec func(any) error, _ grpc.UnaryServerInterceptor) (any, error) {
		p, ok := lookup(ctx)
		if !ok {
			return nil, status.Error(codes.FailedPrecondition, "verif: no plan")
		}
		var in []byte
		if err := dec(&in); err != nil {
			return nil, err
		}
		mu.Lock()
		res.counters["handler_runs"]++
		mu.Unlock()
		if err := p.handlerStatus().Err(); err != nil {
			return nil, err
		}
		return []byte("reply"), nil
	}})
	sd.Streams = append(sd.Streams, grpc.StreamDesc{StreamName: "Stream", ClientStreams: true, ServerStreams: true, Handler: func(_ any, ss grpc.ServerStream) error {
		p, ok := lookup(ss.Context())
		if !ok {
			return status.Error(codes.FailedPrecondition, "verif: no plan")
		}
		mu.Lock()
		res.counters["handler_runs"]++
		mu.Unlock()
		switch p.Path {
		case "header-first":
			if err := ss.SendHeader(metadata.Pairs("x-h", "1")); err != nil {
				return err
			}
		case "msgs":
			for k := 0; k < p.NMsgs; k++ {
				if err := ss.SendMsg([]byte("m")); err != nil {
					return err
				}
			}
		}
		return p.handlerStatus().Err()
	}})
	fx.S.RegisterService(sd, nil)
	fx.Serve()
	return fx
}

func detailsEqual(got []*anypb.Any, want []detail) bool {
	if len(got) != len(want) {
		return false
	}
	for i := range got {
		if !proto.Equal(got[i], &anypb.Any{TypeUrl: want[i].TypeURL, Value: want[i].Value}) {
			return false
		}
	}
	return true
}

func codeClass(c uint32) string {
	switch {
	case c == 0:
		return "ok"
	case c <= 16:
		return "std"
	case c <= 100:
		return "17-100"
	case c < 1<<31:
		return "large"
	}
	return ">=2^31"
}

func (p plan) describe() string {
	m := p.Msg
	if len(m) > 48 {
		m = m[:48]
	}
	return fmt.Sprintf("%s/%s code=%d msg(%s,%dB)=%q details=%d", p.Kind, p.Path, p.Code, p.MsgClass, len(p.Msg), m, len(p.Details))
}

// judgeClient compares the client's error with the plan.
func judgeClient(res *result, where string, i int, p plan, err error) {
	pre := fmt.Sprintf("%s rpc %d [%s]", where, i, p.describe())
	huge := p.Code >= 1<<31
	invalidMsg := !utf8.Valid(p.Msg)
	if p.Code == 0 {
		if err != nil {
			res.v("ok-became-error", "%s: the handler returned nil / OK but the client got %v", pre, err)
		} else {
			res.counters["ok_statuses_nil_at_client"]++
		}
		return
	}
	if err == nil {
		res.v("error-became-nil", "%s: the handler returned a non-OK status but the client got a nil error", pre)
		return
	}
	st, ok := status.FromError(err)
	if !ok {
		res.v("client-error-not-a-status", "%s: client error %v is not a status", pre, err)
		return
	}
	bad := false
	if uint32(st.Code()) != p.Code {
		bad = true
		key := "code-changed"
		if huge {
			key = "code-ge-2^31-not-preserved"
		}
		res.v(key, "%s: client observed code %d (%v), message %q", pre, uint32(st.Code()), st.Code(), clip(st.Message()))
		return // message/details of a replaced status say nothing more
	}
	if !msgMatches(st.Message(), p.Msg) {
		bad = true
		res.v("message-changed", "%s: client observed message %q, want %q (invalid bytes -> U+FFFD)", pre, clip(st.Message()), clip(perByteFFFD(string(p.Msg))))
	}
	if invalidMsg && len(p.Details) > 0 && len(st.Proto().GetDetails()) == 0 {
		// R2: google.rpc.Status.message is a proto3 string, so a status whose message is not valid
		// UTF-8 cannot be marshalled into grpc-status-details-bin; grpc-go ships "details are dropped"
		// for that combination and pins it in test/end2end_test.go TestStatusInvalidUTF8Details.
		res.counters["r2_details_dropped_because_message_invalid_utf8"]++
	} else if !detailsEqual(st.Proto().GetDetails(), p.Details) {
		bad = true
		res.v("details-changed", "%s: client observed %d details, want %d (equal element-wise)", pre, len(st.Proto().GetDetails()), len(p.Details))
	}
	if !bad {
		res.counters["non_ok_statuses_identical_at_client"]++
		if len(p.Details) > 0 {
			res.counters["statuses_with_details_identical"]++
		}
		if invalidMsg {
			res.counters["invalid_utf8_messages_replaced_correctly"]++
		}
	}
}

func clip(s string) string {
	if len(s) > 120 {
		return s[:120] + "…"
	}
	return s
}

func sig(fam string, p plan) string {
	d := "nodetails"
	if len(p.Details) > 0 {
		d = "details"
	}
	s := fmt.Sprintf("%s/%s/%s/%s/%s/%s", fam, p.Kind, p.Path, codeClass(p.Code), p.MsgClass, d)
	if fam == "client-decode" {
		s += fmt.Sprintf("/%s/pad=%v", p.Style, p.Padded)
	}
	return s
}

func callReal(cc *grpc.ClientConn, i int, p plan) error {
	ctx, cancel := context.WithCancel(metadata.AppendToOutgoingContext(context.Background(), "x-rid", strconv.Itoa(i)))
	defer cancel()
	if p.Kind == "unary" {
		var reply []byte
		return cc.Invoke(ctx, "/verif.Status/Unary", []byte("req"), &reply)
	}
	st, err := cc.NewStream(ctx, &grpc.StreamDesc{ClientStreams: true, ServerStreams: true}, "/verif.Status/Stream")
	if err != nil {
		return err
	}
	if err := st.SendMsg([]byte("req")); err == nil {
		st.CloseSend()
	}
	for {
		var m []byte
		if err := st.RecvMsg(&m); err != nil {
			if err == io.EOF {
				return nil
			}
			return err
		}
	}
}

// ---------- family e2e / huge-code ----------

func runE2E(fam string, plans []plan) *result {
	res := &result{counters: map[string]int64{}}
	var mu sync.Mutex
	fx := newServer(plans, res, &mu)
	cc, err := grpc.NewClient("passthrough:///c10",
		grpc.WithTransportCredentials(insecure.NewCredentials()),
		grpc.WithContextDialer(func(context.Context, string) (net.Conn, error) { return fx.L.Dial() }),
		grpc.WithDefaultCallOptions(grpc.ForceCodec(wire.RawCodec{})),
		grpc.WithMaxHeaderListSize(maxHdr))
	if err != nil {
		res.v("harness", "NewClient: %v", err)
		return res
	}
	for i, p := range plans {
		err := callReal(cc, i, p)
		mu.Lock()
		judgeClient(res, fam, i, p, err)
		res.sigs = append(res.sigs, sig(fam, p))
		mu.Unlock()
	}
	cc.Close()
	fx.S.Stop()
	return res
}

// ---------- family server-encode ----------

func runServerEncode(plans []plan) *result {
	const fam = "server-encode"
	res := &result{counters: map[string]int64{}}
	var mu sync.Mutex
	fx := newServer(plans, res, &mu)
	peer, err := fx.Connect()
	if err != nil {
		res.v("harness", "connect: %v", err)
		return res
	}
	if err := peer.Start(); err != nil {
		res.v("harness", "start: %v", err)
		return res
	}
	synctest.Wait()
	for i, p := range plans {
		id := uint32(1 + 2*i)
		path := "/verif.Status/Stream"
		if p.Kind == "unary" {
			path = "/verif.Status/Unary"
		}
		peer.WriteHeaders(id, false, 0, wire.RequestHeaders(path, wire.F("x-rid", strconv.Itoa(i)))...)
		peer.WriteData(id, wire.Msg([]byte("req")), true, -1)
	}
	synctest.Wait()
	mu.Lock()
	defer mu.Unlock()
	trailers := map[uint32]*wire.Entry{}
	log := peer.Log()
	for k := range log {
		e := &log[k]
		if e.Dir == wire.In && e.Type == http2.FrameHeaders && e.EndStream() {
			trailers[e.Stream] = e
		}
		if e.Dir == wire.In && (e.Type == http2.FrameGoAway || e.Type == wire.TypeConnEnd) {
			res.v("connection-killed", "%s: the server ended the connection: %s", fam, e)
		}
	}
	for i, p := range plans {
		pre := fmt.Sprintf("%s rpc %d [%s]", fam, i, p.describe())
		if p.Code == 0 {
			// status.Err() of an OK status is nil: the handler returns nil and the wire carries a bare OK
			p.Msg, p.Details = nil, nil
		}
		tr := trailers[uint32(1+2*i)]
		if tr == nil {
			res.v("no-trailers-on-wire", "%s: the server wrote no END_STREAM HEADERS for the stream", pre)
			continue
		}
		res.counters["trailer_blocks_read_from_wire"]++
		nStatus, nMsg, nDet := 0, 0, 0
		var wStatus, wMsg, wDet string
		for _, f := range tr.Fields {
			switch f.Name {
			case "grpc-status":
				nStatus++
				wStatus = f.Value
			case "grpc-message":
				nMsg++
				wMsg = f.Value
			case "grpc-status-details-bin":
				nDet++
				wDet = f.Value
			}
		}
		bad := false
		if nStatus != 1 || wStatus != strconv.FormatUint(uint64(p.Code), 10) {
			bad = true
			res.v("wire-grpc-status-wrong", "%s: %d grpc-status fields, value %q, want decimal %d", pre, nStatus, wStatus, p.Code)
		}
		if nMsg > 1 {
			bad = true
			res.v("wire-grpc-message-repeated", "%s: %d grpc-message fields", pre, nMsg)
		}
		dec, ok := refDecode(wMsg)
		if !ok {
			bad = true
			res.v("wire-grpc-message-not-percent-encoded", "%s: grpc-message on the wire is not a printable-ASCII percent-encoding: %q", pre, clip(wMsg))
		} else if !msgMatches(dec, p.Msg) {
			bad = true
			res.v("wire-grpc-message-wrong", "%s: grpc-message on the wire decodes to %q, want %q", pre, clip(dec), clip(perByteFFFD(string(p.Msg))))
		}
		if p.Code != 0 && len(p.Details) > 0 || nDet > 0 {
			var sp spb.Status
			raw, err := b64any(wDet)
			switch {
			case nDet == 0 && !utf8.Valid(p.Msg):
				res.counters["r2_details_dropped_because_message_invalid_utf8"]++ // see judgeClient
			case nDet != 1:
				bad = true
				res.v("wire-details-missing", "%s: %d grpc-status-details-bin fields on the wire, want 1 (status has %d details)", pre, nDet, len(p.Details))
			case err != nil:
				bad = true
				res.v("wire-details-not-base64", "%s: grpc-status-details-bin %q: %v", pre, clip(wDet), err)
			case proto.Unmarshal(raw, &sp) != nil:
				bad = true
				res.v("wire-details-not-a-status-proto", "%s: grpc-status-details-bin does not unmarshal as google.rpc.Status", pre)
			case uint32(sp.Code) != p.Code || !msgMatches(sp.Message, p.Msg) || !detailsEqual(sp.Details, p.Details):
				bad = true
				res.v("wire-details-wrong", "%s: grpc-status-details-bin holds code=%d message=%q %d details", pre, uint32(sp.Code), clip(sp.Message), len(sp.Details))
			default:
				res.counters["wire_details_bin_verified"]++
			}
		}
		if !bad {
			res.counters["wire_trailers_verified"]++
		}
		res.sigs = append(res.sigs, sig(fam, p))
	}
	peer.Close()
	fx.S.Stop()
	<-peer.Done()
	return res
}

// ---------- family client-decode ----------

func runClientDecode(plans []plan, rng *rand.Rand) *result {
	const fam = "client-decode"
	res := &result{counters: map[string]int64{}}
	fx, err := wire.NewClientFixture(grpc.WithMaxHeaderListSize(maxHdr))
	if err != nil {
		res.v("harness", "fixture: %v", err)
		return res
	}
	fx.CC.Connect()
	peer := fx.Accept()
	if err := peer.Start(); err != nil {
		res.v("harness", "start: %v", err)
		return res
	}
	synctest.Wait()
	fed := 0
	for i, p := range plans {
		var cerr error
		done := make(chan struct{})
		go func() {
			defer close(done)
			cerr = callReal(fx.CC, i, p)
		}()
		synctest.Wait()
		var id uint32
		for _, e := range peer.LogFrom(fed) {
			if e.Dir == wire.In && e.Type == http2.FrameHeaders {
				if v, _ := e.Field("x-rid"); v == strconv.Itoa(i) {
					id = e.Stream
				}
			}
		}
		fed = peer.Len()
		if id == 0 {
			res.v("harness", "%s rpc %d: request HEADERS never arrived", fam, i)
			break
		}
		tr := []hpack.HeaderField{wire.F("grpc-status", strconv.FormatUint(uint64(p.Code), 10))}
		if len(p.Msg) > 0 || rng.Intn(2) == 0 {
			tr = append(tr, wire.F("grpc-message", refEncode(string(p.Msg), p.Style, rng)))
		}
		if len(p.Details) > 0 {
			b, err := proto.Marshal(&spb.Status{Code: int32(p.Code), Message: string(p.Msg), Details: p.anys()})
			if err != nil {
				res.v("harness", "marshal: %v", err)
				break
			}
			enc := base64.RawStdEncoding
			if p.Padded {
				enc = base64.StdEncoding
			}
			tr = append(tr, wire.F("grpc-status-details-bin", enc.EncodeToString(b)))
			if p.Padded && len(b)%3 != 0 {
				res.counters["details_bin_sent_with_padding_chars"]++
			}
		}
		switch p.Path {
		case "trailers-only":
			peer.WriteHeaders(id, true, 0, append(wire.ResponseHeaders(), tr...)...)
		case "header-first":
			peer.WriteHeaders(id, false, 0, wire.ResponseHeaders()...)
			peer.WriteHeaders(id, true, 0, tr...)
		default:
			peer.WriteHeaders(id, false, 0, wire.ResponseHeaders()...)
			for k := 0; k < p.NMsgs; k++ {
				peer.WriteData(id, wire.Msg([]byte("m")), false, -1)
			}
			peer.WriteHeaders(id, true, 0, tr...)
		}
		<-done
		judgeClient(res, fam, i, p, cerr)
		res.sigs = append(res.sigs, sig(fam, p))
	}
	fx.CC.Close()
	peer.Close()
	<-peer.Done()
	return res
}

// ---------- driver ----------

func light() int {
	if os.Getenv("VERIF_LIGHT") != "" {
		return 5
	}
	return 1
}

func runFam(t *testing.T, r *vlib.Run, fam string, n, perCase int) {
	for i := 0; i < n; i++ {
		if !r.Want(fam, i) {
			continue
		}
		rng := r.Rand(fam, i)
		var plans []plan
		for k := 0; k < perCase; k++ {
			plans = append(plans, genPlan(rng, i*perCase+k, fam))
		}
		r.Progress(fam, i, fmt.Sprintf("rpcs=%d", len(plans)))
		var res *result
		synctest.Test(t, func(t *testing.T) {
			switch fam {
			case "server-encode":
				res = runServerEncode(plans)
			case "client-decode":
				res = runClientDecode(plans, rng)
			default:
				res = runE2E(fam, plans)
			}
		})
		r.Eval(len(plans))
		for _, x := range res.viol {
			r.Violation(x[0], fam, i, plans, "%s", x[1])
		}
		keys := make([]string, 0, len(res.counters))
		for k := range res.counters {
			keys = append(keys, k)
		}
		sort.Strings(keys)
		for _, k := range keys {
			r.Count(k, res.counters[k])
		}
		for _, s := range res.sigs {
			r.Nontrivial(s)
		}
		if i == 0 {
			var ds []string
			for _, p := range plans[:min(3, len(plans))] {
				ds = append(ds, p.describe())
			}
			r.Sample(map[string]any{"family": fam, "plans": ds, "counters": res.counters})
		}
	}
}

func TestVerifC10(t *testing.T) {
	r := vlib.Start(t, "C10")
	runFam(t, r, "e2e", r.N(300, 6000)/light(), 8)
	runFam(t, r, "huge-code", r.N(12, 200)/light(), 4)
	runFam(t, r, "server-encode", r.N(120, 2500)/light(), 8)
	runFam(t, r, "client-decode", r.N(150, 3000)/light(), 6)
	r.Finish(vlib.Spec{
		Level: "exploration",
		Rule: "statuses = code (0..16, 17..100, {255,256,2^16,2^31-2,2^31-1,...}, random < 2^31; >= 2^31 in the labelled family huge-code) x message (empty, ASCII, '%' forms, mixed UTF-8 with CR/LF/NUL/'%XX', random bytes, truncated/overlong/surrogate UTF-8, 1-8 KB valid and random) x details (0 or 1-4 anypb.Any, payload 0-2000 B, odd type URLs) x path (unary; streaming trailers-only / after SendHeader / after 1-3 messages); e2e: real client error == plan (code, message with invalid bytes -> U+FFFD per byte or per run, details proto.Equal, nil <=> OK); server-encode: trailers read from the wire by a scripted client (decimal grpc-status, printable percent-encoded grpc-message decoding to the message, details-bin = base64 google.rpc.Status with the same code/details); client-decode: hand-built trailers from a scripted server (three percent-encoding styles, padded/unpadded details-bin, trailers-only or after headers/data); every RPC is judged; distinct = (family, kind, path, code class, message class, details?, encoding style)",
		Assumptions: []string{
			"'invalid UTF-8 replaced by U+FFFD' accepts one U+FFFD per invalid byte or per run of invalid bytes",
			"detail type URLs are valid UTF-8 (a google.protobuf.Any with an invalid UTF-8 type_url is not a marshalable proto); payload bytes are arbitrary",
			"max header list size is set to 16 MB on both sides so that 8 KB messages (up to 72 KB percent-encoded) fit whatever the environment default is",
		},
		Floor: 60,
	})
}
