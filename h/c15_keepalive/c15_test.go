// C15: keepalive detects dead peers within the bound and never kills healthy
// ones; the server's ping-strike enforcement follows the statement's model.
//
// Engine E1 inside synctest bubbles: every timestamp compared by an oracle is a
// VIRTUAL one (wire.Entry.At / time.Since inside the bubble).  Three families:
//
//	client  – real grpc client with WithKeepaliveParams against a scripted server
//	srvkp   – real grpc server with KeepaliveParams against a scripted client
//	strikes – real grpc server with an EnforcementPolicy against a scripted
//	          client that sends PINGs at chosen spacings
package c15

import (
	"context"
	"fmt"
	"math/rand"
	"os"
	"sort"
	"strconv"
	"strings"
	"sync"
	"testing"
	"testing/synctest"
	"time"

	"golang.org/x/net/http2"
	"google.golang.org/grpc"
	"google.golang.org/grpc/keepalive"
	"google.golang.org/grpc/metadata"
	"google.golang.org/grpc/status"
	"google.golang.org/grpc/verif/vlib"
	"google.golang.org/grpc/verif/wire"
)

const ns = time.Nanosecond

func light() int {
	if os.Getenv("VERIF_LIGHT") != "" {
		return 6
	}
	return 1
}

// ---------------------------------------------------------------------------
// dead-peer detection / healthy-peer survival (families client, srvkp)
// ---------------------------------------------------------------------------

type step struct {
	K   string        `json:"k"`             // sleep | byte | open | cancel | complete | ack | pulse | silence
	Rel string        `json:"rel,omitempty"` // sleep anchor: now | rx+T | rx+T+TO
	D   time.Duration `json:"d,omitempty"`   // sleep offset / ack delay / pulse gap offset
	N   int           `json:"n,omitempty"`   // byte kind / rpc index / pulse count
	M   string        `json:"m,omitempty"`   // ack mode: now | none | delay
}

type scenario struct {
	Side    string        `json:"side"` // client | server (the endpoint under test)
	TimeArg time.Duration `json:"time_arg"`
	Time    time.Duration `json:"time"` // effective after the documented clamp
	Timeout time.Duration `json:"timeout"`
	Permit  bool          `json:"permit"`
	Ack0    string        `json:"ack0"`
	Steps   []step        `json:"steps"`
}

func genKP(rng *rand.Rand, side string) scenario {
	sc := scenario{Side: side}
	if side == "client" {
		sc.TimeArg = vlib.Pick(rng, time.Second, 10*time.Second, 10*time.Second, 11*time.Second, 37*time.Second, 5*time.Minute, 2*time.Hour)
		sc.Time = max(sc.TimeArg, 10*time.Second) // dial option clamps below 10 s
		sc.Permit = rng.Intn(2) == 0
	} else {
		sc.TimeArg = vlib.Pick(rng, 10*time.Millisecond, time.Second, time.Second, 3*time.Second, time.Minute, 2*time.Hour)
		sc.Time = max(sc.TimeArg, time.Second) // server option clamps below 1 s
		sc.Permit = true                       // the server pings regardless of streams
	}
	sc.Timeout = vlib.Pick(rng, time.Millisecond, time.Second, sc.Time/2, sc.Time-ns, sc.Time, sc.Time+ns, 2*sc.Time, 20*time.Second)
	sc.Ack0 = vlib.Pick(rng, "now", "now", "none")
	nrpc := 0
	n := 4 + rng.Intn(14)
	for k := 0; k < n; k++ {
		switch r := rng.Intn(100); {
		case r < 22:
			sc.Steps = append(sc.Steps, step{K: "sleep", Rel: vlib.Pick(rng, "rx+T", "rx+T", "rx+T+TO", "now"),
				D: vlib.Pick(rng, -ns, 0, 0, ns, -sc.Time/3, sc.Time/3)})
		case r < 34:
			sc.Steps = append(sc.Steps, step{K: "sleep", Rel: "now", D: vlib.Pick(rng, ns, sc.Time/3, sc.Time-ns, sc.Time, sc.Time+ns, sc.Timeout, sc.Time+sc.Timeout)})
		case r < 48:
			sc.Steps = append(sc.Steps, step{K: "byte", N: rng.Intn(3)})
		case r < 62:
			sc.Steps = append(sc.Steps, step{K: "open", N: nrpc})
			nrpc++
		case r < 70 && nrpc > 0:
			sc.Steps = append(sc.Steps, step{K: "cancel", N: rng.Intn(nrpc)})
		case r < 76 && nrpc > 0:
			sc.Steps = append(sc.Steps, step{K: "complete", N: rng.Intn(nrpc)})
		case r < 88:
			m := vlib.Pick(rng, "now", "none", "delay")
			d := time.Duration(0)
			if m == "delay" {
				d = vlib.Pick(rng, ns, sc.Timeout/2, sc.Timeout-ns, sc.Timeout, sc.Timeout+ns)
				if d <= 0 {
					d = ns
				}
			}
			sc.Steps = append(sc.Steps, step{K: "ack", M: m, D: d})
		default:
			// a peer that never acks but sends some byte every Time+D (D <= 0: healthy by the statement)
			sc.Steps = append(sc.Steps, step{K: "pulse", N: 2 + rng.Intn(5), D: vlib.Pick(rng, 0, 0, -ns, -sc.Time/2)})
		}
	}
	// final phase: the peer dies (no bytes, no acks)
	if side == "client" && !sc.Permit && rng.Intn(4) != 0 {
		sc.Steps = append(sc.Steps, step{K: "open", N: nrpc})
		nrpc++
	}
	sc.Steps = append(sc.Steps, step{K: "silence"})
	return sc
}

type result struct {
	viol     [][2]string
	counters map[string]int64
	sig      string
}

type rpcState struct {
	cancel context.CancelFunc
	done   bool
	err    error
}

// view is everything the oracle knows, rebuilt from the frame log.
type view struct {
	rx        []time.Duration // instants at which the scripted peer wrote bytes
	kaPings   []time.Duration // non-ack PINGs read from the endpoint
	closedAt  time.Duration   // -1: open
	srvGoAway string
	// stream applicability (client side): open-count transitions in log order
	evAt    []time.Duration
	evDelta []int
}

func buildView(log []wire.Entry, clientSide bool) *view {
	v := &view{closedAt: -1}
	open := map[uint32]bool{}
	for i := range log {
		e := &log[i]
		if e.Dir == wire.Out {
			v.rx = append(v.rx, e.At)
		}
		switch {
		case e.Dir == wire.In && e.Type == http2.FramePing && !e.Ack():
			v.kaPings = append(v.kaPings, e.At)
		case e.Dir == wire.In && (e.Type == wire.TypeConnEnd || e.Type == http2.FrameGoAway):
			if v.closedAt < 0 {
				v.closedAt = e.At
			}
			if e.Type == http2.FrameGoAway && !clientSide {
				v.srvGoAway = e.String() // a server closing for keepalive sends no GOAWAY
			}
		}
		if !clientSide {
			continue
		}
		switch {
		case e.Dir == wire.In && e.Type == http2.FrameHeaders:
			if !open[e.Stream] {
				open[e.Stream] = true
				v.evAt, v.evDelta = append(v.evAt, e.At), append(v.evDelta, +1)
			}
		case e.Type == http2.FrameRSTStream, e.Dir == wire.Out && e.Type == http2.FrameHeaders && e.EndStream():
			if open[e.Stream] {
				open[e.Stream] = false
				v.evAt, v.evDelta = append(v.evAt, e.At), append(v.evDelta, -1)
			}
		}
	}
	return v
}

// lastRx returns the latest instant <= t (strict: < t) at which bytes were written to the endpoint.
func (v *view) lastRx(t time.Duration, strict bool) time.Duration {
	r := time.Duration(0)
	for _, x := range v.rx {
		if x < t || !strict && x == t {
			r = x
		}
	}
	return r
}

// applicableSince returns (true, a) when at instant t at least one stream is
// open, a being the instant of the latest 0 -> >=1 transition (lenient: an
// instant in which the count touched 0 restarts the interval).
func (v *view) applicableSince(t time.Duration) (bool, time.Duration) {
	n, a := 0, time.Duration(0)
	for i, at := range v.evAt {
		if at > t {
			break
		}
		if n == 0 && v.evDelta[i] > 0 {
			a = at
		}
		n += v.evDelta[i]
	}
	return n > 0, a
}

// streamOpenWithin reports whether some stream was open at an instant of the
// closed interval [lo, hi].
func (v *view) streamOpenWithin(lo, hi time.Duration) bool {
	n := 0
	for i, at := range v.evAt {
		if at > hi {
			break
		}
		before := n
		n += v.evDelta[i]
		if at >= lo && (before > 0 || n > 0) {
			return true
		}
	}
	// the count holding just before lo
	n = 0
	for i, at := range v.evAt {
		if at >= lo {
			break
		}
		n += v.evDelta[i]
	}
	if n > 0 {
		return true
	}
	// open at hi?
	n = 0
	for i, at := range v.evAt {
		if at > hi {
			break
		}
		n += v.evDelta[i]
	}
	return n > 0
}

// zeroStreamsAt reports whether the open count was 0 at some point of instant t.
func (v *view) zeroStreamsAt(t time.Duration) bool {
	n := 0
	for i, at := range v.evAt {
		if at > t {
			break
		}
		if at == t && n == 0 {
			return true
		}
		n += v.evDelta[i]
	}
	return n == 0
}

func runKP(sc scenario) *result {
	res := &result{counters: map[string]int64{}}
	viol := func(key, f string, a ...any) { res.viol = append(res.viol, [2]string{key, fmt.Sprintf(f, a...)}) }
	t0 := time.Now()
	now := func() time.Duration { return time.Since(t0) }
	clientSide := sc.Side == "client"

	var (
		peer    *wire.Peer
		cleanup func()
		wg      sync.WaitGroup
		mu      sync.Mutex
		ackMode = sc.Ack0
		ackD    time.Duration
		rpcs    = map[int]*rpcState{}
		ids     = map[int]uint32{} // rpc index -> stream id
	)
	installAck := func() {
		peer.AutoPingAck = false
		peer.OnFrame = func(e wire.Entry) {
			if e.Type != http2.FramePing || e.Ack() {
				return
			}
			mu.Lock()
			m, d := ackMode, ackD
			mu.Unlock()
			switch m {
			case "now":
				peer.WritePing(true, e.Ping)
			case "delay":
				wg.Add(1)
				go func() {
					defer wg.Done()
					time.Sleep(d)
					peer.WritePing(true, e.Ping)
				}()
			}
		}
	}
	var fx *wire.ClientFixture
	gates := map[int]chan struct{}{}
	if clientSide {
		var err error
		fx, err = wire.NewClientFixture(
			grpc.WithKeepaliveParams(keepalive.ClientParameters{Time: sc.TimeArg, Timeout: sc.Timeout, PermitWithoutStream: sc.Permit}),
			grpc.WithIdleTimeout(0),                // no channel idleness: the only reason to close is keepalive
			grpc.WithStaticStreamWindowSize(1<<16), // static windows: no BDP pings, every PING is a keepalive ping
			grpc.WithStaticConnWindowSize(1<<16),
		)
		if err != nil {
			viol("harness", "fixture: %v", err)
			return res
		}
		fx.CC.Connect()
		peer = fx.Accept()
		installAck()
		if err := peer.Start(); err != nil {
			viol("harness", "start: %v", err)
			return res
		}
		cleanup = func() {
			mu.Lock()
			for _, r := range rpcs {
				r.cancel()
			}
			mu.Unlock()
			fx.CC.Close()
			peer.Close()
			for {
				select {
				case c := <-fx.AcceptCh():
					c.Close()
					continue
				default:
				}
				break
			}
		}
	} else {
		handler := func(_ any, ss grpc.ServerStream) error {
			md, _ := metadata.FromIncomingContext(ss.Context())
			i, _ := strconv.Atoi(md.Get("x-rid")[0])
			mu.Lock()
			g := gates[i]
			mu.Unlock()
			select {
			case <-g:
			case <-ss.Context().Done():
			}
			return nil
		}
		sfx := wire.NewServerFixture(handler,
			grpc.KeepaliveParams(keepalive.ServerParameters{Time: sc.TimeArg, Timeout: sc.Timeout}),
			grpc.KeepaliveEnforcementPolicy(keepalive.EnforcementPolicy{MinTime: ns, PermitWithoutStream: true}),
			grpc.StaticStreamWindowSize(1<<16), grpc.StaticConnWindowSize(1<<16))
		sfx.Serve()
		p, err := sfx.Connect()
		if err != nil {
			viol("harness", "connect: %v", err)
			return res
		}
		peer = p
		installAck()
		if err := peer.Start(); err != nil {
			viol("harness", "start: %v", err)
			return res
		}
		cleanup = func() {
			peer.Close()
			sfx.S.Stop()
		}
	}

	closed := false
	deadlineChecks, healthyChecks := int64(0), int64(0)
	var closeKind string
	// judge evaluates the oracles at a quiescent point.
	judge := func(label string) {
		synctest.Wait()
		res.counters["quiescent_checks"]++
		T := now()
		v := buildView(peer.Log(), clientSide)
		if v.closedAt >= 0 {
			if closed {
				return
			}
			closed = true
			if v.srvGoAway != "" {
				viol("unexpected-goaway", "after %q: the server sent %s although the script gave it no reason to", label, v.srvGoAway)
				return
			}
			c := v.closedAt
			r := v.lastRx(c, true)
			res.counters["closes_judged"]++
			switch gap := c - r; {
			case gap <= sc.Time:
				viol("healthy-peer-killed", "after %q: the %s closed the connection at %v although it had received bytes at %v, only %v (<= Time %v) earlier", label, sc.Side, c, r, gap, sc.Time)
			case gap < sc.Time+sc.Timeout:
				viol("closed-before-timeout", "after %q: the %s closed the connection at %v, %v after the last received byte (%v); a ping cannot be due before %v and must be given Timeout %v", label, sc.Side, c, gap, r, r+sc.Time, sc.Timeout)
			case gap == sc.Time+sc.Timeout:
				closeKind = "exact"
				res.counters["closes_exactly_at_bound"]++
			default:
				closeKind = "late-allowed"
			}
			if clientSide && !sc.Permit && !v.streamOpenWithin(r+sc.Time, c-sc.Timeout) {
				viol("closed-without-active-stream", "after %q: client closed at %v for keepalive although no stream was open at any instant in [%v,%v] and PermitWithoutStream is false", label, c, r+sc.Time, c-sc.Timeout)
			}
			return
		}
		// still open: dead-peer bound
		r := v.lastRx(T, false)
		appl, a := true, time.Duration(0)
		if clientSide && !sc.Permit {
			appl, a = v.applicableSince(T)
		}
		if !appl {
			res.counters["checks_not_applicable"]++
			return
		}
		D := max(r+sc.Time, a) + sc.Timeout
		if T <= D {
			if T-r <= sc.Time {
				healthyChecks++
			}
			return
		}
		deadlineChecks++
		// Class of the known defect: the last byte arrived while the client had no
		// stream (keepalive dormant); the stale read cancels the wake-up ping once.
		D2 := a + min(sc.Time, sc.Timeout) + sc.Timeout
		if clientSide && !sc.Permit && r <= a && v.zeroStreamsAt(r) && T <= D2 {
			viol("stale-read-while-dormant-delays-detection", "after %q at %v: connection still open; last byte received at %v (no stream open then), stream open since %v, nothing received since: bound max(r+Time,applicable)+Timeout = %v passed (Time %v Timeout %v)", label, T, r, a, D, sc.Time, sc.Timeout)
			return
		}
		viol("dead-peer-not-detected", "after %q at %v: the %s still has the connection open although nothing was received since %v and keepalive is applicable since %v: bound %v (Time %v Timeout %v, keepalive pings seen at %v)", label, T, sc.Side, r, a, D, sc.Time, sc.Timeout, v.kaPings)
	}
	judge("init")

	sleepTo := func(target time.Duration) {
		if d := target - now(); d > 0 {
			time.Sleep(d)
		}
	}
	writeByte := func(kind int) {
		if !clientSide && kind == 0 {
			kind = 1 // PINGs sent to a server fall under its enforcement policy (family strikes), keep them out here
		}
		switch kind {
		case 0:
			peer.WritePing(false, [8]byte{9, 9, 9})
		case 1:
			peer.WriteWindowUpdate(0, 1)
		default:
			peer.WriteSettings()
		}
	}
	lastRxNow := func() time.Duration { return buildView(peer.Log(), clientSide).lastRx(now(), false) }
	nextID := uint32(1)
	pulses := int64(0)
	for _, st := range sc.Steps {
		if closed {
			break
		}
		switch st.K {
		case "sleep":
			switch st.Rel {
			case "now":
				sleepTo(now() + st.D)
			case "rx+T":
				sleepTo(lastRxNow() + sc.Time + st.D)
			case "rx+T+TO":
				sleepTo(lastRxNow() + sc.Time + sc.Timeout + st.D)
			}
		case "byte":
			writeByte(st.N)
		case "open":
			if clientSide {
				ctx, cancel := context.WithCancel(metadata.AppendToOutgoingContext(context.Background(), "x-rid", strconv.Itoa(st.N)))
				rs := &rpcState{cancel: cancel}
				mu.Lock()
				rpcs[st.N] = rs
				mu.Unlock()
				wg.Add(1)
				go func() {
					defer wg.Done()
					s, err := fx.CC.NewStream(ctx, &grpc.StreamDesc{ClientStreams: true, ServerStreams: true}, "/verif.KA/Call")
					for err == nil {
						var m []byte
						err = s.RecvMsg(&m)
					}
					mu.Lock()
					rs.done, rs.err = true, err
					mu.Unlock()
				}()
			} else {
				mu.Lock()
				gates[st.N] = make(chan struct{})
				mu.Unlock()
				ids[st.N] = nextID
				peer.WriteHeaders(nextID, false, 0, wire.RequestHeaders("/verif.KA/Call", wire.F("x-rid", strconv.Itoa(st.N)))...)
				nextID += 2
			}
		case "cancel":
			if clientSide {
				mu.Lock()
				if r := rpcs[st.N]; r != nil {
					r.cancel()
				}
				mu.Unlock()
			} else if id := ids[st.N]; id != 0 {
				peer.WriteRST(id, http2.ErrCodeCancel)
				delete(ids, st.N)
			}
		case "complete":
			if clientSide {
				// find the stream of rpc N on the wire
				for _, e := range peer.Log() {
					if e.Dir == wire.In && e.Type == http2.FrameHeaders {
						if s, _ := e.Field("x-rid"); s == strconv.Itoa(st.N) {
							peer.WriteHeaders(e.Stream, true, 0, wire.TrailersOnly(0, "")...)
						}
					}
				}
			} else {
				mu.Lock()
				if g := gates[st.N]; g != nil {
					select {
					case <-g:
					default:
						close(g)
					}
				}
				mu.Unlock()
			}
		case "ack":
			mu.Lock()
			ackMode, ackD = st.M, st.D
			mu.Unlock()
		case "pulse":
			mu.Lock()
			ackMode = "none"
			mu.Unlock()
			for k := 0; k < st.N && !closed; k++ {
				writeByte(k % 3)
				pulses++
				sleepTo(lastRxNow() + sc.Time + st.D)
				judge("pulse")
			}
			if !closed {
				writeByte(0)
			}
		case "silence":
			mu.Lock()
			ackMode = "none"
			mu.Unlock()
			synctest.Wait()
			v := buildView(peer.Log(), clientSide)
			T := now()
			r := v.lastRx(T, false)
			appl, a := true, time.Duration(0)
			if clientSide && !sc.Permit {
				appl, a = v.applicableSince(T)
			}
			if appl {
				// delayed acks still in flight are bytes too: wait them out first
				sleepTo(max(r+sc.Time, a) + sc.Timeout + ns)
				judge("silence-bound")
				for k := 0; k < 4 && !closed; k++ { // late acks moved the bound: follow it
					v = buildView(peer.Log(), clientSide)
					r = v.lastRx(now(), false)
					sleepTo(max(max(r+sc.Time, a)+sc.Timeout, a+min(sc.Time, sc.Timeout)+sc.Timeout) + ns)
					judge("silence-bound")
				}
			} else {
				// no stream and no permission: keepalive must stay dormant
				sleepTo(T + 3*(sc.Time+sc.Timeout))
				judge("silence-dormant")
				if !closed {
					res.counters["dormant_survivals"]++
					closeKind = "dormant"
				}
			}
			continue
		}
		judge(st.K)
	}
	if os.Getenv("VERIF_DEBUG") != "" {
		for _, e := range peer.Log() {
			fmt.Printf("DBG %s\n", e.String())
		}
	}
	v := buildView(peer.Log(), clientSide)
	res.counters["keepalive_pings_seen"] = int64(len(v.kaPings))
	res.counters["peer_byte_instants"] = int64(len(v.rx))
	res.counters["deadline_checks"] = deadlineChecks
	res.counters["healthy_window_checks"] = healthyChecks
	res.counters["pulses"] = pulses
	if closed && clientSide {
		// in-flight RPCs must have failed with the keepalive reason
		synctest.Wait()
		mu.Lock()
		for _, r := range rpcs {
			if r.done && r.err != nil && strings.Contains(status.Convert(r.err).Message(), "keepalive") {
				res.counters["rpcs_failed_with_keepalive_reason"]++
			}
		}
		mu.Unlock()
	}
	cleanup()
	mu.Lock()
	for _, g := range gates {
		select {
		case <-g:
		default:
			close(g)
		}
	}
	mu.Unlock()
	wg.Wait()
	<-peer.Done()
	if closeKind == "" && !closed {
		closeKind = "open"
	}
	rel := "to<time"
	if sc.Timeout > sc.Time {
		rel = "to>time"
	} else if sc.Timeout == sc.Time {
		rel = "to=time"
	}
	if len(v.kaPings) > 0 || closeKind == "dormant" {
		res.sig = fmt.Sprintf("%s/permit=%v/%s/%s/pulses=%v/hc=%v", sc.Side, sc.Permit, rel, closeKind, pulses > 0, healthyChecks > 0)
	}
	return res
}

// ---------------------------------------------------------------------------
// ping-strike enforcement (family strikes)
// ---------------------------------------------------------------------------

type sstep struct {
	K    string        `json:"k"`              // ping | open | msg | end | rst
	Base string        `json:"base,omitempty"` // spacing base for ping: min | 2h | abs
	D    time.Duration `json:"d,omitempty"`    // offset added to the base
	N    int           `json:"n,omitempty"`
}

type sscenario struct {
	MinArg time.Duration `json:"min_arg"`
	Min    time.Duration `json:"min"`
	Permit bool          `json:"permit"`
	Steps  []sstep       `json:"steps"`
}

const twoHours = 2 * time.Hour

func genStrikes(rng *rand.Rand) sscenario {
	sc := sscenario{MinArg: vlib.Pick(rng, 0, time.Second, 10*time.Second, time.Hour, 3*time.Hour), Permit: rng.Intn(2) == 0}
	sc.Min = sc.MinArg
	if sc.Min == 0 {
		sc.Min = 5 * time.Minute // documented default
	}
	n := 6 + rng.Intn(26)
	nstream := 0
	early := vlib.Pick(rng, 0, 0, 1, 2) // bias: 0 conforming-ish, 1 mixed, 2 aggressive
	for k := 0; k < n; k++ {
		switch r := rng.Intn(100); {
		case r < 55:
			var st sstep
			switch e := rng.Intn(10); {
			case e < 2+3*early:
				st = sstep{K: "ping", Base: "abs", D: vlib.Pick(rng, ns, time.Millisecond, sc.Min/2)}
			case e < 4+3*early:
				st = sstep{K: "ping", Base: vlib.Pick(rng, "min", "min", "2h"), D: -ns}
			default:
				st = sstep{K: "ping", Base: vlib.Pick(rng, "min", "min", "2h"), D: vlib.Pick(rng, 0, 0, ns, time.Second)}
			}
			sc.Steps = append(sc.Steps, st)
		case r < 68:
			sc.Steps = append(sc.Steps, sstep{K: "open", N: nstream})
			nstream++
		case r < 80 && nstream > 0:
			sc.Steps = append(sc.Steps, sstep{K: "msg", N: rng.Intn(nstream)})
		case r < 90 && nstream > 0:
			sc.Steps = append(sc.Steps, sstep{K: "end", N: rng.Intn(nstream)})
		case r < 95 && nstream > 0:
			sc.Steps = append(sc.Steps, sstep{K: "rst", N: rng.Intn(nstream)})
		default:
			sc.Steps = append(sc.Steps, sstep{K: "ping", Base: "abs", D: ns})
		}
	}
	return sc
}

func runStrikes(sc sscenario) *result {
	res := &result{counters: map[string]int64{}}
	viol := func(key, f string, a ...any) { res.viol = append(res.viol, [2]string{key, fmt.Sprintf(f, a...)}) }
	t0 := time.Now()
	now := func() time.Duration { return time.Since(t0) }
	var mu sync.Mutex
	cmds := map[int]chan string{}
	handler := func(_ any, ss grpc.ServerStream) error {
		md, _ := metadata.FromIncomingContext(ss.Context())
		i, _ := strconv.Atoi(md.Get("x-rid")[0])
		mu.Lock()
		ch := cmds[i]
		mu.Unlock()
		for {
			select {
			case c := <-ch:
				if c == "end" {
					return nil
				}
				if err := ss.SendMsg([]byte("m")); err != nil {
					return err
				}
			case <-ss.Context().Done():
				return nil
			}
		}
	}
	sfx := wire.NewServerFixture(handler,
		grpc.KeepaliveEnforcementPolicy(keepalive.EnforcementPolicy{MinTime: sc.MinArg, PermitWithoutStream: sc.Permit}),
		grpc.StaticStreamWindowSize(1<<16), grpc.StaticConnWindowSize(1<<16))
	sfx.Serve()
	peer, err := sfx.Connect()
	if err != nil {
		viol("harness", "connect: %v", err)
		return res
	}
	if err := peer.Start(); err != nil {
		viol("harness", "start: %v", err)
		return res
	}
	synctest.Wait()

	// reference model (from the statement)
	strikes, maxStrikes := 0, 0
	havePing := false
	var lastPing time.Duration
	fed := 0
	sentSince := false // server-sent HEADERS/DATA since the previous ping
	open := map[uint32]bool{}
	goAway, connEnd := false, false
	var goAwayE wire.Entry
	feed := func() {
		log := peer.LogFrom(fed)
		for i := range log {
			e := &log[i]
			switch {
			case e.Dir == wire.Out && e.Type == http2.FrameHeaders:
				open[e.Stream] = true
			case e.Dir == wire.Out && e.Type == http2.FrameRSTStream:
				delete(open, e.Stream)
			case e.Dir == wire.In && (e.Type == http2.FrameHeaders || e.Type == http2.FrameData):
				sentSince = true
				res.counters["server_sent_headers_or_data"]++
				if e.EndStream() {
					delete(open, e.Stream)
				}
			case e.Dir == wire.In && e.Type == http2.FrameRSTStream:
				delete(open, e.Stream)
			case e.Dir == wire.In && e.Type == http2.FrameGoAway:
				goAway, goAwayE = true, *e
			case e.Dir == wire.In && e.Type == wire.TypeConnEnd:
				connEnd = true
			}
		}
		fed += len(log)
	}
	ids := map[int]uint32{}
	nextID := uint32(1)
	resets, boundary := int64(0), int64(0)
	kinds := map[string]bool{}
	for _, st := range sc.Steps {
		if goAway || connEnd {
			break
		}
		switch st.K {
		case "open":
			mu.Lock()
			cmds[st.N] = make(chan string, 64)
			mu.Unlock()
			ids[st.N] = nextID
			peer.WriteHeaders(nextID, false, 0, wire.RequestHeaders("/verif.KA/Strike", wire.F("x-rid", strconv.Itoa(st.N)))...)
			nextID += 2
		case "msg", "end":
			if id := ids[st.N]; id != 0 && open[id] {
				mu.Lock()
				ch := cmds[st.N]
				mu.Unlock()
				select {
				case ch <- st.K:
				default:
				}
			}
		case "rst":
			if id := ids[st.N]; id != 0 && open[id] {
				peer.WriteRST(id, http2.ErrCodeCancel)
			}
		case "ping":
			var target time.Duration
			switch st.Base {
			case "abs":
				target = now() + st.D
			case "min":
				target = lastPing + sc.Min + st.D
			case "2h":
				target = lastPing + twoHours + st.D
			}
			if d := target - now(); d > 0 {
				time.Sleep(d)
			}
			synctest.Wait()
			feed()
			if goAway || connEnd {
				break
			}
			// ---- model step, evaluated on the quiescent state just before the ping ----
			p := now()
			nopen := len(open)
			thr := sc.Min
			if nopen < 1 && !sc.Permit {
				thr = twoHours
			}
			kind := "first"
			if sentSince {
				if strikes > 0 {
					resets++
				}
				strikes = 0
				kind = "exempt"
			} else if havePing {
				gap := p - lastPing
				if gap < thr {
					strikes++
					kind = "strike"
				} else {
					kind = "ok"
				}
				if gap == thr || gap == thr-ns {
					boundary++
				}
			}
			kinds[kind] = true
			maxStrikes = max(maxStrikes, strikes)
			prevGap := p - lastPing
			havePing, lastPing, sentSince = true, p, false
			res.counters["pings_sent"]++
			peer.WritePing(false, [8]byte{7, byte(res.counters["pings_sent"])})
			synctest.Wait()
			feed()
			want := strikes > 2
			calm := goAway && goAwayE.Code == http2.ErrCodeEnhanceYourCalm
			switch {
			case goAway && !calm:
				viol("unexpected-goaway", "server sent %s after ping at %v", goAwayE, p)
			case calm && !want && maxStrikes == 0:
				viol("calm-goaway-to-conforming-client", "ping at %v (open streams %d, threshold %v, permit %v): every ping so far respected the policy, yet the server sent %s", p, nopen, thr, sc.Permit, goAwayE)
			case calm && !want:
				viol("goaway-before-third-strike", "ping at %v: the model counts %d consecutive too-early ping(s) not separated by server-sent headers/data (third one required), yet the server sent %s", p, strikes, goAwayE)
			case !calm && want:
				viol("missing-goaway-at-third-strike", "ping at %v is the third too-early ping (previous at %v apart < %v, open streams %d, permit %v) without server-sent headers/data in between, but no GOAWAY(ENHANCE_YOUR_CALM) was sent (conn ended: %v)", p, prevGap, thr, nopen, sc.Permit, connEnd)
			case calm && want:
				res.counters["calm_goaways"]++
				if goAwayE.Debug != "too_many_pings" {
					viol("goaway-debug-data", "GOAWAY(ENHANCE_YOUR_CALM) carries debug data %q, want too_many_pings", goAwayE.Debug)
				}
				// the statement asks for the GOAWAY only; whether and when the connection is
				// closed afterwards is recorded as evidence
				time.Sleep(time.Minute)
				synctest.Wait()
				feed()
				if connEnd {
					res.counters["conn_closed_within_1m_of_calm_goaway"]++
				}
			case connEnd:
				viol("conn-closed-without-goaway", "connection closed after ping at %v without GOAWAY (model strikes %d)", p, strikes)
			}
			res.counters["ping_verdicts"]++
			continue
		}
		synctest.Wait()
		feed()
		if connEnd && !goAway {
			viol("conn-closed-without-goaway", "connection closed after step %q without any ping-policy reason", st.K)
		}
	}
	res.counters["strike_resets_by_server_data"] = resets
	res.counters["pings_at_exact_threshold"] = boundary
	peer.Close()
	sfx.S.Stop()
	<-peer.Done()
	if res.counters["pings_sent"] >= 2 {
		var ks []string
		for k := range kinds {
			ks = append(ks, k)
		}
		sort.Strings(ks)
		res.sig = fmt.Sprintf("strikes/permit=%v/min=%v/max=%d/goaway=%v/resets=%v/%s", sc.Permit, sc.Min, maxStrikes, goAway, resets > 0, strings.Join(ks, "+"))
	}
	return res
}

// ---------------------------------------------------------------------------

func report(r *vlib.Run, fam string, i int, sc any, res *result) {
	r.Eval(1)
	for _, x := range res.viol {
		r.Violation(x[0], fam, i, sc, "%s", x[1])
	}
	keys := make([]string, 0, len(res.counters))
	for k := range res.counters {
		keys = append(keys, k)
	}
	sort.Strings(keys)
	for _, k := range keys {
		r.Count(fam+"_"+k, res.counters[k])
	}
	if res.sig != "" {
		r.Nontrivial(res.sig)
	}
	if i < 1 {
		r.Sample(map[string]any{"family": fam, "scenario": sc, "counters": res.counters, "signature": res.sig})
	}
}

func TestVerifC15(t *testing.T) {
	r := vlib.Start(t, "C15")
	for _, fam := range []string{"client", "srvkp"} {
		side := "client"
		if fam == "srvkp" {
			side = "server"
		}
		n := r.N(1500, 20000) / light()
		for i := 0; i < n; i++ {
			if !r.Want(fam, i) {
				continue
			}
			sc := genKP(r.Rand(fam, i), side)
			r.Progress(fam, i, fmt.Sprintf("time=%v timeout=%v permit=%v steps=%d", sc.Time, sc.Timeout, sc.Permit, len(sc.Steps)))
			var res *result
			synctest.Test(t, func(t *testing.T) { res = runKP(sc) })
			report(r, fam, i, sc, res)
		}
	}
	n := r.N(2000, 30000) / light()
	for i := 0; i < n; i++ {
		if !r.Want("strikes", i) {
			continue
		}
		sc := genStrikes(r.Rand("strikes", i))
		r.Progress("strikes", i, fmt.Sprintf("min=%v permit=%v steps=%d", sc.Min, sc.Permit, len(sc.Steps)))
		var res *result
		synctest.Test(t, func(t *testing.T) { res = runStrikes(sc) })
		report(r, "strikes", i, sc, res)
	}
	r.Finish(vlib.Spec{
		Level: "exploration",
		Rule:  "client: real client, keepalive Time {1s(clamped to 10s),10s,11s,37s,5m,2h} x Timeout {1ms..2*Time} x PermitWithoutStream against a scripted server that sends bytes / completes streams / acks pings now, never or after a delay at instants such as lastByte+Time(+-1ns), then dies; srvkp: the same against a real server's KeepaliveParams; oracles on virtual time: a close at c with last byte r<c needs c-r>Time (statement) and c-r>=Time+Timeout (keepalive.go), an applicable endpoint receiving nothing since r is closed by max(r+Time,applicable)+Timeout, no close while dormant; strikes: EnforcementPolicy MinTime {1s,10s,5m default,1h,3h} x PermitWithoutStream, scripted client pings at spacings threshold(+-1ns)/tiny/2h(+-1ns) interleaved with streams whose gated handlers send headers/data/trailers; reference model: strike iff gap < MinTime (2h without streams and permission), server-sent HEADERS/DATA since the previous ping clears the strikes and exempts the ping, GOAWAY(ENHANCE_YOUR_CALM,too_many_pings)+close exactly at the third strike; non-trivial = a keepalive ping was observed or dormancy was judged (kp families) / >=2 pings judged (strikes); distinct = (side, permit, Timeout vs Time, outcome, pulses, healthy-window check) resp. (permit, MinTime, max strikes, goaway, resets, ping kinds)",
		Assumptions: []string{
			"bytes written by the scripted peer are read by the endpoint at the same virtual instant (in-memory pipe, quiescence before time advances)",
			"bytes written at the very instant of a close race with it and are not counted as received before it",
			"the script gives the endpoint no reason other than keepalive to close (no GOAWAY, channel idleness disabled, no max-age)",
			"'closed no earlier than last byte+Time+Timeout' is taken from the documented semantics in keepalive/keepalive.go, the statement itself only forbids closes within Time of a byte",
		},
		Floor: 25,
	})
}
