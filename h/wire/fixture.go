package wire

import (
	"context"
	"errors"
	"net"
	"sync"

	"google.golang.org/grpc"
	"google.golang.org/grpc/credentials/insecure"
	"google.golang.org/grpc/encoding"
	"google.golang.org/grpc/verif/memconn"
)

// RawCodec passes message bytes through untouched.  Messages are *[]byte (or
// []byte when sending).  Its name is "proto" so that the default content
// subtype is used.
type RawCodec struct{}

func (RawCodec) Marshal(v any) ([]byte, error) {
	switch b := v.(type) {
	case []byte:
		return b, nil
	case *[]byte:
		return *b, nil
	}
	return nil, errors.New("rawcodec: want []byte or *[]byte")
}

func (RawCodec) Unmarshal(data []byte, v any) error {
	p, ok := v.(*[]byte)
	if !ok {
		return errors.New("rawcodec: want *[]byte")
	}
	*p = append([]byte(nil), data...)
	return nil
}

func (RawCodec) Name() string { return "proto" }

var _ encoding.Codec = RawCodec{}

// ClientFixture is a real grpc.ClientConn whose every dial lands on a fresh
// in-memory connection handed to the script through Accept.
type ClientFixture struct {
	CC *grpc.ClientConn

	mu    sync.Mutex
	conns chan *memconn.Conn
	dials int
	// DialHook, if set, is consulted for dial number n (0-based); a non-nil
	// error fails that dial.
	DialHook func(n int) error
}

// NewClientFixture creates the channel (target passthrough:///verif) with
// insecure credentials, the raw codec as default call codec and opts appended.
// Call inside the bubble.  The channel is created lazily connected; RPCs or
// CC.Connect() trigger the dial.
func NewClientFixture(opts ...grpc.DialOption) (*ClientFixture, error) {
	f := &ClientFixture{conns: make(chan *memconn.Conn, 64)}
	base := []grpc.DialOption{
		grpc.WithTransportCredentials(insecure.NewCredentials()),
		grpc.WithContextDialer(func(ctx context.Context, _ string) (net.Conn, error) {
			f.mu.Lock()
			n := f.dials
			f.dials++
			hook := f.DialHook
			f.mu.Unlock()
			if hook != nil {
				if err := hook(n); err != nil {
					return nil, err
				}
			}
			c, s := memconn.Pipe(0)
			select {
			case f.conns <- s:
			case <-ctx.Done():
				return nil, ctx.Err()
			}
			return c, nil
		}),
		grpc.WithDefaultCallOptions(grpc.ForceCodec(RawCodec{})),
	}
	cc, err := grpc.NewClient("passthrough:///verif", append(base, opts...)...)
	if err != nil {
		return nil, err
	}
	f.CC = cc
	return f, nil
}

// Accept waits for the next connection dialed by the channel and returns a
// server-role Peer on it (not started).
func (f *ClientFixture) Accept() *Peer {
	s := <-f.conns
	return NewPeer(s, true)
}

// AcceptCh exposes the raw connection queue (for select with other events).
func (f *ClientFixture) AcceptCh() <-chan *memconn.Conn { return f.conns }

// Dials returns how many dials were attempted.
func (f *ClientFixture) Dials() int {
	f.mu.Lock()
	defer f.mu.Unlock()
	return f.dials
}

// ServerFixture is a real grpc.Server served on an in-memory listener; every
// method reaches Handler (registered as UnknownServiceHandler) unless services
// are registered by the caller before Serve.
type ServerFixture struct {
	S *grpc.Server
	L *memconn.Listener
}

// NewServerFixture builds the server with the raw codec forced and handler (may
// be nil) as the unknown-service stream handler.  Call Serve to start.
func NewServerFixture(handler grpc.StreamHandler, opts ...grpc.ServerOption) *ServerFixture {
	base := []grpc.ServerOption{grpc.ForceServerCodec(RawCodec{})}
	if handler != nil {
		base = append(base, grpc.UnknownServiceHandler(handler))
	}
	s := grpc.NewServer(append(base, opts...)...)
	return &ServerFixture{S: s, L: memconn.NewListener()}
}

// Serve starts serving in a goroutine.
func (f *ServerFixture) Serve() {
	go f.S.Serve(f.L)
}

// Connect dials the server and returns a client-role Peer (not started).
func (f *ServerFixture) Connect() (*Peer, error) {
	c, err := f.L.Dial()
	if err != nil {
		return nil, err
	}
	return NewPeer(c, false), nil
}
