// Package wire is engine E1: a scripted raw HTTP/2 endpoint (client or server
// role) built on golang.org/x/net/http2.Framer that talks to a real
// grpc.ClientConn or grpc.Server, keeps a totally ordered log of every frame in
// both directions, and offers window ledgers computed from that log only.
//
// Soundness conventions (DESIGN.md §3 R3/R4): an outbound frame is logged
// BEFORE its bytes are handed to the connection; an inbound frame is logged
// when it has been read.  All of it is independent of grpc's own framer.
package wire

import (
	"bytes"
	"encoding/binary"
	"fmt"
	"io"
	"net"
	"strings"
	"sync"
	"time"

	"golang.org/x/net/http2"
	"golang.org/x/net/http2/hpack"
)

// Dir is the direction of a logged frame relative to the scripted peer.
type Dir int

const (
	In  Dir = iota // read from the endpoint under test
	Out            // written by the scripted peer
)

func (d Dir) String() string {
	if d == In {
		return "in"
	}
	return "out"
}

// Entry is one logged frame.
type Entry struct {
	Seq      int                 `json:"seq"`
	Dir      Dir                 `json:"dir"`
	At       time.Duration       `json:"at"` // since peer creation (virtual inside a bubble)
	Type     http2.FrameType     `json:"type"`
	Stream   uint32              `json:"stream"`
	Flags    http2.Flags         `json:"flags"`
	Len      int                 `json:"len"`               // frame payload length (flow-controlled length for DATA)
	Data     []byte              `json:"-"`                 // DATA payload without padding (copy)
	Fields   []hpack.HeaderField `json:"fields,omitempty"`  // decoded header block (HEADERS incl. CONTINUATIONs)
	NFrag    int                 `json:"nfrag,omitempty"`   // number of HEADERS/CONTINUATION fragments
	MaxFrag  int                 `json:"maxfrag,omitempty"` // largest fragment payload
	Settings []http2.Setting     `json:"settings,omitempty"`
	Incr     uint32              `json:"incr,omitempty"`
	Code     http2.ErrCode       `json:"code,omitempty"`
	LastID   uint32              `json:"last_id,omitempty"`
	Debug    string              `json:"debug,omitempty"`
	Ping     [8]byte             `json:"-"`
	Err      string              `json:"err,omitempty"` // read error / EOF marker entries (Type=0xff)
}

// EndStream reports the END_STREAM flag of DATA/HEADERS.
func (e *Entry) EndStream() bool {
	return (e.Type == http2.FrameData || e.Type == http2.FrameHeaders) && e.Flags&http2.FlagDataEndStream != 0
}

// Ack reports the ACK flag of SETTINGS/PING.
func (e *Entry) Ack() bool {
	return (e.Type == http2.FrameSettings || e.Type == http2.FramePing) && e.Flags&http2.FlagSettingsAck != 0
}

// Field returns the first header field with that name.
func (e *Entry) Field(name string) (string, bool) {
	for _, f := range e.Fields {
		if f.Name == name {
			return f.Value, true
		}
	}
	return "", false
}

func (e Entry) String() string {
	s := fmt.Sprintf("#%d %s @%v %v stream=%d flags=%#x len=%d", e.Seq, e.Dir, e.At, e.Type, e.Stream, uint8(e.Flags), e.Len)
	switch e.Type {
	case http2.FrameWindowUpdate:
		s += fmt.Sprintf(" incr=%d", e.Incr)
	case http2.FrameRSTStream:
		s += fmt.Sprintf(" code=%v", e.Code)
	case http2.FrameGoAway:
		s += fmt.Sprintf(" last=%d code=%v debug=%q", e.LastID, e.Code, e.Debug)
	case http2.FrameSettings:
		s += fmt.Sprintf(" %v", e.Settings)
	case http2.FrameHeaders:
		var fs []string
		for _, f := range e.Fields {
			v := f.Value
			if len(v) > 40 {
				v = v[:40] + "…"
			}
			fs = append(fs, f.Name+"="+v)
		}
		s += " {" + strings.Join(fs, ", ") + "}"
	case 0xff:
		s += " CONN-END " + e.Err
	}
	return s
}

// TypeConnEnd marks the pseudo entry logged when the read side ends.
const TypeConnEnd http2.FrameType = 0xff

// Peer is the scripted endpoint.
type Peer struct {
	Conn     net.Conn
	IsServer bool

	// Behaviour switches (set before Start).
	AutoSettingsAck bool // ack the endpoint's SETTINGS (default true)
	AutoPingAck     bool // ack the endpoint's PINGs (default true)
	// OnFrame, if set, is called (from the reader goroutine, without locks
	// held) for every inbound frame after it was logged.
	OnFrame func(e Entry)

	start time.Time
	wmu   sync.Mutex // serialises writes and their log entries
	fr    *http2.Framer
	henc  *hpack.Encoder
	hbuf  bytes.Buffer
	hdec  *hpack.Decoder

	mu      sync.Mutex
	log     []Entry
	changed chan struct{} // closed and replaced on every new entry (broadcast)
	readEnd bool
	readErr error
	paused  chan struct{} // non-nil while reads are paused; closed by ResumeReads
	done    chan struct{} // closed when the reader goroutine exits
}

// NewPeer wraps conn.  For the server role the client preface is consumed by
// Start; for the client role Start writes it.
func NewPeer(conn net.Conn, isServer bool) *Peer {
	p := &Peer{Conn: conn, IsServer: isServer, AutoSettingsAck: true, AutoPingAck: true,
		start: time.Now(), changed: make(chan struct{}), done: make(chan struct{})}
	p.fr = http2.NewFramer(conn, conn)
	p.fr.SetMaxReadFrameSize(1 << 24)
	p.fr.AllowIllegalWrites = true
	p.fr.AllowIllegalReads = true
	p.henc = hpack.NewEncoder(&p.hbuf)
	p.hdec = hpack.NewDecoder(4096, nil)
	return p
}

// Start performs the preface exchange, sends the peer's initial SETTINGS and
// launches the reader goroutine.
func (p *Peer) Start(initial ...http2.Setting) error {
	if p.IsServer {
		buf := make([]byte, len(http2.ClientPreface))
		if _, err := io.ReadFull(p.Conn, buf); err != nil {
			return fmt.Errorf("wire: reading client preface: %w", err)
		}
		if string(buf) != http2.ClientPreface {
			return fmt.Errorf("wire: bad client preface %q", buf)
		}
	} else {
		if _, err := p.Conn.Write([]byte(http2.ClientPreface)); err != nil {
			return err
		}
	}
	if err := p.WriteSettings(initial...); err != nil {
		return err
	}
	go p.readLoop()
	return nil
}

// StartNoSettings is Start without the initial SETTINGS frame (hostile peers).
func (p *Peer) StartNoSettings() error {
	if p.IsServer {
		buf := make([]byte, len(http2.ClientPreface))
		if _, err := io.ReadFull(p.Conn, buf); err != nil {
			return err
		}
	} else {
		if _, err := p.Conn.Write([]byte(http2.ClientPreface)); err != nil {
			return err
		}
	}
	go p.readLoop()
	return nil
}

func (p *Peer) since() time.Duration { return time.Since(p.start) }

func (p *Peer) appendLocked(e Entry) Entry {
	e.Seq = len(p.log)
	e.At = p.since()
	p.log = append(p.log, e)
	close(p.changed)
	p.changed = make(chan struct{})
	return e
}

func (p *Peer) add(e Entry) Entry {
	p.mu.Lock()
	defer p.mu.Unlock()
	return p.appendLocked(e)
}

// PauseReads makes the reader goroutine stop before its next frame (a peer that
// does not read: bytes pile up in the connection).  ResumeReads undoes it.
func (p *Peer) PauseReads() {
	p.mu.Lock()
	if p.paused == nil {
		p.paused = make(chan struct{})
	}
	p.mu.Unlock()
}

// ResumeReads lets the reader goroutine continue.
func (p *Peer) ResumeReads() {
	p.mu.Lock()
	if p.paused != nil {
		close(p.paused)
		p.paused = nil
	}
	p.mu.Unlock()
}

func (p *Peer) readLoop() {
	defer close(p.done)
	for {
		p.mu.Lock()
		gate := p.paused
		p.mu.Unlock()
		if gate != nil {
			<-gate
		}
		f, err := p.fr.ReadFrame()
		if err != nil {
			p.mu.Lock()
			p.readEnd, p.readErr = true, err
			p.appendLocked(Entry{Dir: In, Type: TypeConnEnd, Err: err.Error()})
			p.mu.Unlock()
			return
		}
		h := f.Header()
		e := Entry{Dir: In, Type: h.Type, Stream: h.StreamID, Flags: h.Flags, Len: int(h.Length)}
		switch f := f.(type) {
		case *http2.DataFrame:
			e.Data = append([]byte(nil), f.Data()...)
		case *http2.HeadersFrame:
			frag := append([]byte(nil), f.HeaderBlockFragment()...)
			e.NFrag, e.MaxFrag = 1, int(h.Length)
			ended := f.HeadersEnded()
			for !ended {
				nf, err := p.fr.ReadFrame()
				if err != nil {
					p.mu.Lock()
					p.readEnd, p.readErr = true, err
					p.appendLocked(Entry{Dir: In, Type: TypeConnEnd, Err: "inside header block: " + err.Error()})
					p.mu.Unlock()
					return
				}
				cf, ok := nf.(*http2.ContinuationFrame)
				if !ok || cf.Header().StreamID != h.StreamID {
					p.add(Entry{Dir: In, Type: nf.Header().Type, Stream: nf.Header().StreamID, Flags: nf.Header().Flags, Len: int(nf.Header().Length), Err: "frame interleaved inside a header block"})
					continue
				}
				frag = append(frag, cf.HeaderBlockFragment()...)
				e.NFrag++
				if int(cf.Header().Length) > e.MaxFrag {
					e.MaxFrag = int(cf.Header().Length)
				}
				e.Len += int(cf.Header().Length)
				ended = cf.HeadersEnded()
			}
			fields, derr := p.hdec.DecodeFull(frag)
			e.Fields = fields
			if derr != nil {
				e.Err = "hpack: " + derr.Error()
			}
		case *http2.SettingsFrame:
			if !f.IsAck() {
				f.ForeachSetting(func(s http2.Setting) error { e.Settings = append(e.Settings, s); return nil })
			}
		case *http2.WindowUpdateFrame:
			e.Incr = f.Increment
		case *http2.RSTStreamFrame:
			e.Code = f.ErrCode
		case *http2.GoAwayFrame:
			e.LastID, e.Code, e.Debug = f.LastStreamID, f.ErrCode, string(f.DebugData())
		case *http2.PingFrame:
			e.Ping = f.Data
		}
		e = p.add(e)
		switch {
		case e.Type == http2.FrameSettings && !e.Ack() && p.AutoSettingsAck:
			p.WriteSettingsAck()
		case e.Type == http2.FramePing && !e.Ack() && p.AutoPingAck:
			p.WritePing(true, e.Ping)
		}
		if p.OnFrame != nil {
			p.OnFrame(e)
		}
	}
}

// Done is closed when the read side has ended (EOF / error / Close).
func (p *Peer) Done() <-chan struct{} { return p.done }

// Close closes the connection.
func (p *Peer) Close() {
	p.ResumeReads()
	p.Conn.Close()
}

// Log returns a snapshot of the frame log.
func (p *Peer) Log() []Entry {
	p.mu.Lock()
	defer p.mu.Unlock()
	return append([]Entry(nil), p.log...)
}

// LogFrom returns the entries with Seq >= from.
func (p *Peer) LogFrom(from int) []Entry {
	p.mu.Lock()
	defer p.mu.Unlock()
	if from >= len(p.log) {
		return nil
	}
	return append([]Entry(nil), p.log[from:]...)
}

// Len returns the number of log entries.
func (p *Peer) Len() int {
	p.mu.Lock()
	defer p.mu.Unlock()
	return len(p.log)
}

// ReadEnded reports whether the inbound side ended, and why.
func (p *Peer) ReadEnded() (bool, error) {
	p.mu.Lock()
	defer p.mu.Unlock()
	return p.readEnd, p.readErr
}

// WaitFor blocks until pred holds for some entry with Seq >= from and returns
// it, or ok=false when the connection ended first.  Inside a bubble a wait
// that can never be satisfied surfaces as a synctest deadlock, outside callers
// should combine it with a watchdog.
func (p *Peer) WaitFor(from int, pred func(e *Entry) bool) (Entry, bool) {
	i := from
	for {
		p.mu.Lock()
		for ; i < len(p.log); i++ {
			if pred(&p.log[i]) {
				e := p.log[i]
				p.mu.Unlock()
				return e, true
			}
		}
		ended := p.readEnd
		ch := p.changed
		p.mu.Unlock()
		if ended {
			return Entry{}, false
		}
		<-ch
	}
}

// ---- writers (each logs the frame before writing it) ----

func (p *Peer) WriteSettings(ss ...http2.Setting) error {
	p.wmu.Lock()
	defer p.wmu.Unlock()
	p.add(Entry{Dir: Out, Type: http2.FrameSettings, Settings: ss, Len: 6 * len(ss)})
	return p.fr.WriteSettings(ss...)
}

func (p *Peer) WriteSettingsAck() error {
	p.wmu.Lock()
	defer p.wmu.Unlock()
	p.add(Entry{Dir: Out, Type: http2.FrameSettings, Flags: http2.FlagSettingsAck})
	return p.fr.WriteSettingsAck()
}

func (p *Peer) WritePing(ack bool, data [8]byte) error {
	p.wmu.Lock()
	defer p.wmu.Unlock()
	var fl http2.Flags
	if ack {
		fl = http2.FlagPingAck
	}
	p.add(Entry{Dir: Out, Type: http2.FramePing, Flags: fl, Ping: data, Len: 8})
	return p.fr.WritePing(ack, data)
}

func (p *Peer) WriteWindowUpdate(stream, incr uint32) error {
	p.wmu.Lock()
	defer p.wmu.Unlock()
	p.add(Entry{Dir: Out, Type: http2.FrameWindowUpdate, Stream: stream, Incr: incr, Len: 4})
	return p.fr.WriteWindowUpdate(stream, incr)
}

func (p *Peer) WriteRST(stream uint32, code http2.ErrCode) error {
	p.wmu.Lock()
	defer p.wmu.Unlock()
	p.add(Entry{Dir: Out, Type: http2.FrameRSTStream, Stream: stream, Code: code, Len: 4})
	return p.fr.WriteRSTStream(stream, code)
}

func (p *Peer) WriteGoAway(last uint32, code http2.ErrCode, debug string) error {
	p.wmu.Lock()
	defer p.wmu.Unlock()
	p.add(Entry{Dir: Out, Type: http2.FrameGoAway, LastID: last, Code: code, Debug: debug, Len: 8 + len(debug)})
	return p.fr.WriteGoAway(last, code, []byte(debug))
}

// WriteData writes one DATA frame; pad < 0 means unpadded, otherwise the frame
// is padded with pad bytes (flow-controlled length = len(data)+pad+1).
func (p *Peer) WriteData(stream uint32, data []byte, endStream bool, pad int) error {
	p.wmu.Lock()
	defer p.wmu.Unlock()
	var fl http2.Flags
	if endStream {
		fl |= http2.FlagDataEndStream
	}
	l := len(data)
	if pad >= 0 {
		fl |= http2.FlagDataPadded
		l += pad + 1
	}
	p.add(Entry{Dir: Out, Type: http2.FrameData, Stream: stream, Flags: fl, Len: l, Data: append([]byte(nil), data...)})
	if pad >= 0 {
		return p.fr.WriteDataPadded(stream, endStream, data, make([]byte, pad))
	}
	return p.fr.WriteData(stream, endStream, data)
}

// F is shorthand for a header field.
func F(name, value string) hpack.HeaderField { return hpack.HeaderField{Name: name, Value: value} }

// WriteHeaders encodes fields with the peer's HPACK encoder and writes a
// HEADERS frame (plus CONTINUATION frames when the block exceeds maxFrag;
// maxFrag <= 0 means 16384).
func (p *Peer) WriteHeaders(stream uint32, endStream bool, maxFrag int, fields ...hpack.HeaderField) error {
	p.wmu.Lock()
	defer p.wmu.Unlock()
	p.hbuf.Reset()
	for _, f := range fields {
		if err := p.henc.WriteField(f); err != nil {
			return err
		}
	}
	block := append([]byte(nil), p.hbuf.Bytes()...)
	if maxFrag <= 0 {
		maxFrag = 16384
	}
	var fl http2.Flags
	if endStream {
		fl |= http2.FlagHeadersEndStream
	}
	p.add(Entry{Dir: Out, Type: http2.FrameHeaders, Stream: stream, Flags: fl | http2.FlagHeadersEndHeaders, Len: len(block), Fields: fields})
	first := true
	for first || len(block) > 0 {
		n := len(block)
		if n > maxFrag {
			n = maxFrag
		}
		frag := block[:n]
		block = block[n:]
		var err error
		if first {
			err = p.fr.WriteHeaders(http2.HeadersFrameParam{StreamID: stream, BlockFragment: frag, EndStream: endStream, EndHeaders: len(block) == 0})
			first = false
		} else {
			err = p.fr.WriteContinuation(stream, len(block) == 0, frag)
		}
		if err != nil {
			return err
		}
	}
	return nil
}

// WriteRawFrame writes an arbitrary frame (type, flags, stream id, payload),
// bypassing every validity check.  Logged with Err="raw".
func (p *Peer) WriteRawFrame(t http2.FrameType, flags http2.Flags, stream uint32, payload []byte) error {
	p.wmu.Lock()
	defer p.wmu.Unlock()
	p.add(Entry{Dir: Out, Type: t, Flags: flags, Stream: stream, Len: len(payload), Err: "raw"})
	return p.fr.WriteRawFrame(t, flags, stream, payload)
}

// WriteBytes writes arbitrary bytes to the connection (byte-level mutation).
func (p *Peer) WriteBytes(b []byte) error {
	p.wmu.Lock()
	defer p.wmu.Unlock()
	p.add(Entry{Dir: Out, Type: 0xfe, Len: len(b), Err: "bytes"})
	_, err := p.Conn.Write(b)
	return err
}

// EncodeHeaderBlock encodes fields with the connection's HPACK encoder state
// (for hand-built HEADERS/CONTINUATION sequences).
func (p *Peer) EncodeHeaderBlock(fields ...hpack.HeaderField) []byte {
	p.wmu.Lock()
	defer p.wmu.Unlock()
	p.hbuf.Reset()
	for _, f := range fields {
		p.henc.WriteField(f)
	}
	return append([]byte(nil), p.hbuf.Bytes()...)
}

// ---- gRPC helpers ----

// Msg frames payload as one uncompressed gRPC message (5-byte prefix).
func Msg(payload []byte) []byte {
	b := make([]byte, 5+len(payload))
	binary.BigEndian.PutUint32(b[1:5], uint32(len(payload)))
	copy(b[5:], payload)
	return b
}

// SplitMsgs parses a byte stream into gRPC messages; rest is the incomplete
// tail.  flagged[i] is the compressed-flag byte of message i.
func SplitMsgs(b []byte) (msgs [][]byte, flags []byte, rest []byte) {
	for len(b) >= 5 {
		n := int(binary.BigEndian.Uint32(b[1:5]))
		if len(b) < 5+n {
			break
		}
		msgs = append(msgs, b[5:5+n])
		flags = append(flags, b[0])
		b = b[5+n:]
	}
	return msgs, flags, b
}

// RequestHeaders are the standard gRPC request pseudo + required headers.
func RequestHeaders(method string, extra ...hpack.HeaderField) []hpack.HeaderField {
	h := []hpack.HeaderField{
		F(":method", "POST"), F(":scheme", "http"), F(":path", method), F(":authority", "verif.test"),
		F("content-type", "application/grpc"), F("te", "trailers"), F("user-agent", "verif-wire/1"),
	}
	return append(h, extra...)
}

// ResponseHeaders are the standard gRPC response headers.
func ResponseHeaders(extra ...hpack.HeaderField) []hpack.HeaderField {
	return append([]hpack.HeaderField{F(":status", "200"), F("content-type", "application/grpc")}, extra...)
}

// Trailers builds a gRPC trailer block.
func Trailers(code int, msg string, extra ...hpack.HeaderField) []hpack.HeaderField {
	h := []hpack.HeaderField{F("grpc-status", fmt.Sprint(code))}
	if msg != "" {
		h = append(h, F("grpc-message", msg))
	}
	return append(h, extra...)
}

// TrailersOnly builds a Trailers-Only response block.
func TrailersOnly(code int, msg string, extra ...hpack.HeaderField) []hpack.HeaderField {
	return append(ResponseHeaders(), Trailers(code, msg, extra...)...)
}
