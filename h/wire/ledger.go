package wire

import (
	"fmt"

	"golang.org/x/net/http2"
)

// SendLedger audits the endpoint under test as a SENDER of DATA, from the
// frame log only.  Credit: connection 65535 + WINDOW_UPDATE(0) the scripted
// peer has started to write; per stream IWS_effective + WINDOW_UPDATE(stream);
// IWS number k (and MAX_FRAME_SIZE) of the peer's SETTINGS takes effect at the
// k-th SETTINGS ACK read from the endpoint.  Debit: flow-controlled length of
// every DATA frame read.  Feed entries in log order.
type SendLedger struct {
	Conn     int64
	IWS      int64
	MaxFrame int64
	pending  [][]http2.Setting
	streams  map[uint32]*sendStream
	// statistics for evidence
	DataFrames, DataBytes     int64
	ConnZero, StreamZero      int64 // times a credit reached exactly 0 after a DATA frame
	Shrinks, NegativeEpisodes int64
	AcksSeen                  int64
}

type sendStream struct {
	wu, sent int64
}

// NewSendLedger returns a ledger in the HTTP/2 initial state.
func NewSendLedger() *SendLedger {
	return &SendLedger{Conn: 65535, IWS: 65535, MaxFrame: 16384, streams: map[uint32]*sendStream{}}
}

func (l *SendLedger) st(id uint32) *sendStream {
	s := l.streams[id]
	if s == nil {
		s = &sendStream{}
		l.streams[id] = s
	}
	return s
}

// StreamCredit is what the endpoint may still send on stream id.
func (l *SendLedger) StreamCredit(id uint32) int64 {
	s := l.st(id)
	return l.IWS + s.wu - s.sent
}

// Sent returns the flow-controlled bytes read so far on stream id.
func (l *SendLedger) Sent(id uint32) int64 { return l.st(id).sent }

// Feed processes one log entry and returns a non-empty explanation when the
// entry violates the windows / frame-size limits.
func (l *SendLedger) Feed(e *Entry) string {
	switch {
	case e.Dir == Out && e.Type == http2.FrameSettings && !e.Ack():
		l.pending = append(l.pending, e.Settings)
	case e.Dir == In && e.Type == http2.FrameSettings && e.Ack():
		l.AcksSeen++
		if len(l.pending) == 0 {
			return "SETTINGS ACK without an outstanding SETTINGS"
		}
		ss := l.pending[0]
		l.pending = l.pending[1:]
		for _, s := range ss {
			switch s.ID {
			case http2.SettingInitialWindowSize:
				if int64(s.Val) < l.IWS {
					l.Shrinks++
					for _, st := range l.streams {
						if int64(s.Val)+st.wu-st.sent < 0 {
							l.NegativeEpisodes++
						}
					}
				}
				l.IWS = int64(s.Val)
			case http2.SettingMaxFrameSize:
				l.MaxFrame = int64(s.Val)
			}
		}
	case e.Dir == Out && e.Type == http2.FrameWindowUpdate && e.Err == "":
		if e.Stream == 0 {
			l.Conn += int64(e.Incr)
		} else {
			l.st(e.Stream).wu += int64(e.Incr)
		}
	case e.Dir == In && e.Type == http2.FrameData:
		n := int64(e.Len)
		l.DataFrames++
		l.DataBytes += n
		if n > l.MaxFrame {
			return fmt.Sprintf("DATA frame of %d bytes exceeds max frame size %d (stream %d)", n, l.MaxFrame, e.Stream)
		}
		if n == 0 {
			return ""
		}
		s := l.st(e.Stream)
		sc := l.IWS + s.wu - s.sent
		var why string
		if n > l.Conn {
			why = fmt.Sprintf("DATA of %d bytes on stream %d exceeds connection credit %d", n, e.Stream, l.Conn)
		} else if n > sc {
			why = fmt.Sprintf("DATA of %d bytes on stream %d exceeds stream credit %d (iws=%d wu=%d sent=%d)", n, e.Stream, sc, l.IWS, s.wu, s.sent)
		}
		l.Conn -= n
		s.sent += n
		if l.Conn == 0 {
			l.ConnZero++
		}
		if sc-n == 0 {
			l.StreamZero++
		}
		return why
	case e.Dir == In && e.Type == http2.FrameHeaders:
		if int64(e.MaxFrag) > l.MaxFrame {
			return fmt.Sprintf("HEADERS/CONTINUATION fragment of %d bytes exceeds max frame size %d (stream %d)", e.MaxFrag, l.MaxFrame, e.Stream)
		}
	}
	return ""
}

// RecvLedger tracks what the endpoint under test has ADVERTISED as a receiver
// (its SETTINGS_INITIAL_WINDOW_SIZE and WINDOW_UPDATEs, as read by the peer)
// minus what the scripted peer has sent.  Feed entries in log order.
type RecvLedger struct {
	Conn               int64
	IWS                int64
	streams            map[uint32]*sendStream
	MaxConn, MaxStream int64 // largest advertised windows seen (must stay <= 2^31-1)
}

// NewRecvLedger returns a ledger in the HTTP/2 initial state.
func NewRecvLedger() *RecvLedger {
	return &RecvLedger{Conn: 65535, IWS: 65535, streams: map[uint32]*sendStream{}}
}

func (l *RecvLedger) st(id uint32) *sendStream {
	s := l.streams[id]
	if s == nil {
		s = &sendStream{}
		l.streams[id] = s
	}
	return s
}

// StreamAvail is how many flow-controlled bytes the peer may still send on id.
func (l *RecvLedger) StreamAvail(id uint32) int64 {
	s := l.st(id)
	return l.IWS + s.wu - s.sent
}

// Feed processes one log entry.
func (l *RecvLedger) Feed(e *Entry) {
	switch {
	case e.Dir == In && e.Type == http2.FrameSettings && !e.Ack():
		for _, s := range e.Settings {
			if s.ID == http2.SettingInitialWindowSize {
				l.IWS = int64(s.Val)
			}
		}
	case e.Dir == In && e.Type == http2.FrameWindowUpdate:
		if e.Stream == 0 {
			l.Conn += int64(e.Incr)
			if l.Conn > l.MaxConn {
				l.MaxConn = l.Conn
			}
		} else {
			s := l.st(e.Stream)
			s.wu += int64(e.Incr)
			if a := l.IWS + s.wu - s.sent; a > l.MaxStream {
				l.MaxStream = a
			}
		}
	case e.Dir == Out && e.Type == http2.FrameData && e.Err == "":
		l.Conn -= int64(e.Len)
		l.st(e.Stream).sent += int64(e.Len)
	}
}
