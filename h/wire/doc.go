// Engine E1 — how to use it (read h/c01_flow/*.go for a complete consumer).
//
// Everything runs inside a testing/synctest bubble:
//
//	synctest.Test(t, func(t *testing.T) {
//	    fx, _ := wire.NewClientFixture(extraDialOptions...) // real grpc.ClientConn, passthrough target, insecure, RawCodec
//	    fx.CC.Connect()                                      // or start an RPC
//	    peer := fx.Accept()                                  // server-role Peer on the conn the channel dialed
//	    peer.Start(http2.Setting{ID: http2.SettingInitialWindowSize, Val: 5}) // preface + our SETTINGS + reader goroutine
//	    synctest.Wait()                                      // exact quiescence: the client has nothing left to do
//	    ... start RPC goroutines (fx.CC.NewStream / Invoke with []byte / *[]byte messages) ...
//	    ... script: peer.WriteWindowUpdate / WriteSettings / WriteHeaders / WriteData / WriteRST / WriteGoAway /
//	        WritePing / WriteRawFrame / WriteBytes, each followed by synctest.Wait() and oracle evaluation over
//	        peer.LogFrom(n) ...
//	    fx.CC.Close(); peer.Close(); <-peer.Done(); wait for your goroutines   // the bubble must end with no goroutine left
//	})
//
// Server under test:
//
//	fx := wire.NewServerFixture(handler /* grpc.StreamHandler reached for every method */, serverOptions...)
//	fx.Serve(); peer, _ := fx.Connect(); peer.Start(); ...
//	peer.WriteHeaders(1, false, 0, wire.RequestHeaders("/svc/Method", wire.F("grpc-timeout", "1S"))...)
//	peer.WriteData(1, wire.Msg(payload), true, -1)
//	... fx.S.Stop(); peer.Close(); <-peer.Done()
//
// Facts established by probes and by c01_flow (rely on them):
//   - The real client/server transports, channel, balancers and timers run
//     unmodified inside a bubble over memconn; time is virtual (time.Sleep(1h)
//     returns at once when everything else is blocked); synctest.Wait() returns
//     when every goroutine in the bubble is durably blocked.
//   - Create the fixture, peers, channels and goroutines INSIDE the bubble.
//     Everything must have exited when the bubble function returns, otherwise
//     synctest panics ("deadlock: main bubble goroutine has exited but blocked
//     goroutines remain") — which doubles as a goroutine-leak detector.
//   - A bubble in which all goroutines are blocked forever and no timer is
//     pending panics with a deadlock; keepalive/idle timers count as pending
//     timers, so a wait that depends on a lost wake-up may instead jump virtual
//     time forward to the next timer (30 min channel idle timeout by default).
//     Prefer judging at synctest.Wait() over blocking waits.
//   - Peer auto-acks the endpoint's SETTINGS and PINGs unless switched off
//     (AutoSettingsAck / AutoPingAck) before Start.
//   - The log (peer.Log / LogFrom / WaitFor) is the only source of truth for
//     oracles: Entry{Seq, Dir(In|Out), At(virtual), Type, Stream, Flags, Len,
//     Data, Fields (decoded header block incl. CONTINUATIONs), Settings, Incr,
//     Code, LastID, Debug}.  Outbound entries are logged before the bytes are
//     written; a TypeConnEnd entry marks the end of the inbound side.
//   - SendLedger / RecvLedger compute window credit from the log (see
//     ledger.go); DESIGN.md §2.4 / §3 R4 explain why they are sound.
//   - -race makes bulk byte copies ~40x slower; keep -race steps small
//     (VERIF_LIGHT pattern in c01_flow/flow_test.go) and put the large case
//     lists in a non-race step.
//   - One bubble per case: `synctest.Test(t, func(t *testing.T){ out = runCase(sc) })`
//     costs ~10-40 ms without -race.
package wire
