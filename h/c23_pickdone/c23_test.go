// C23: every pick result with a Done callback that the channel obtains from a
// picker gets Done invoked exactly once, whatever happens to the attempt; a
// pick blocked for a picker is woken by every picker update and by context
// cancellation.
//
// Engine E2: a real grpc.ClientConn with the registered test LB policy
// "verif_scripted" (h/e2e) against two real grpc.Servers over memconn inside a
// synctest bubble.  Pickers return scripted results; every Done is tagged with
// the unique id of the Pick call that produced it.  The oracle reads only the
// pick/Done log and the harness' own record of which RPC calls have returned.
package c23

import (
	"context"
	"errors"
	"fmt"
	"io"
	"math/rand"
	"os"
	"sort"
	"strconv"
	"sync"
	"testing"
	"testing/synctest"
	"time"

	"google.golang.org/grpc"
	"google.golang.org/grpc/codes"
	"google.golang.org/grpc/connectivity"
	"google.golang.org/grpc/metadata"
	"google.golang.org/grpc/status"
	"google.golang.org/grpc/verif/e2e"
	"google.golang.org/grpc/verif/vlib"
)

type rpcPlan struct {
	Unary     bool          `json:"unary"`
	WFR       bool          `json:"wfr"`
	Beh       string        `json:"beh"` // server behaviour: echo | fail<K> | hang | hdrhang | partial | code<N>
	Deadline  time.Duration `json:"deadline,omitempty"`
	CredsFail bool          `json:"creds_fail,omitempty"`
	Msgs      int           `json:"msgs"`
	MsgSize   int           `json:"msg_size"`
}

type step struct {
	K     string             `json:"k"` // start | pub | cancel | sleep | stop | gstop | restart | closecc | wait
	N     int                `json:"n,omitempty"`
	D     time.Duration      `json:"d,omitempty"`
	P     *e2e.PickerSpec    `json:"p,omitempty"`
	State connectivity.State `json:"state,omitempty"`
}

type scenario struct {
	MCS0  uint32         `json:"mcs0"` // MAX_CONCURRENT_STREAMS of backend 0 (0 = unlimited)
	Retry bool           `json:"retry"`
	First e2e.PickerSpec `json:"first"`
	RPCs  []rpcPlan      `json:"rpcs"`
	Steps []step         `json:"steps"`
}

func genPick(rng *rand.Rand) e2e.PickSpec {
	switch r := rng.Intn(100); {
	case r < 62:
		return e2e.PickSpec{Kind: "sc", SC: rng.Intn(2), Done: rng.Intn(10) != 0}
	case r < 76:
		return e2e.PickSpec{Kind: "nosc"}
	case r < 86:
		return e2e.PickSpec{Kind: "plain"}
	case r < 94:
		return e2e.PickSpec{Kind: "status", Code: codes.Code(1 + rng.Intn(16))}
	default:
		return e2e.PickSpec{Kind: "wrapped", Code: codes.Code(1 + rng.Intn(16))}
	}
}

func genPicker(rng *rand.Rand) e2e.PickerSpec {
	var p e2e.PickerSpec
	switch r := rng.Intn(100); {
	case r < 50:
		p.Then = e2e.PickSpec{Kind: "sc", SC: rng.Intn(2), Done: rng.Intn(10) != 0}
	case r < 60:
		p.Then = e2e.PickSpec{Kind: "nosc"}
	case r < 67:
		p.Then = e2e.PickSpec{Kind: "plain"}
	default:
		for k := rng.Intn(5); k >= 0; k-- {
			p.Seq = append(p.Seq, genPick(rng))
		}
		p.Then = genPick(rng)
	}
	return p
}

func stateOf(p e2e.PickerSpec) connectivity.State {
	switch p.Then.Kind {
	case "sc":
		return connectivity.Ready
	case "nosc":
		return connectivity.Connecting
	}
	return connectivity.TransientFailure
}

func gen(rng *rand.Rand) scenario {
	sc := scenario{MCS0: vlib.Pick(rng, uint32(0), 1, 1, 2), Retry: rng.Intn(3) != 0, First: genPicker(rng)}
	n := 4 + rng.Intn(13)
	for i := 0; i < n; i++ {
		p := rpcPlan{Unary: rng.Intn(2) == 0, WFR: rng.Intn(2) == 0, Msgs: 1, MsgSize: 1 + rng.Intn(200)}
		p.Beh = vlib.Pick(rng, "echo", "echo", "echo", "fail1", "fail2", "fail9", "hang", "hang", "hdrhang", "partial", "code3", "code14")
		if !p.Unary {
			p.Msgs = 1 + rng.Intn(5)
			if rng.Intn(3) == 0 { // big enough to exhaust the stream window of a handler that does not read
				p.MsgSize = 30000 + rng.Intn(20000)
				p.Msgs = 4 + rng.Intn(3)
				if rng.Intn(2) == 0 {
					p.Beh = "hang"
				}
			}
		}
		if rng.Intn(5) < 2 {
			p.Deadline = time.Duration(50+rng.Intn(5000)) * time.Millisecond
		}
		p.CredsFail = rng.Intn(12) == 0
		sc.RPCs = append(sc.RPCs, p)
	}
	sc.Steps = append(sc.Steps, step{K: "start", N: 1 + rng.Intn(n)})
	ns := 10 + rng.Intn(25)
	for k := 0; k < ns; k++ {
		switch r := rng.Intn(100); {
		case r < 28:
			p := genPicker(rng)
			sc.Steps = append(sc.Steps, step{K: "pub", P: &p, State: stateOf(p)})
		case r < 43:
			sc.Steps = append(sc.Steps, step{K: "start", N: 1 + rng.Intn(4)})
		case r < 58:
			sc.Steps = append(sc.Steps, step{K: "cancel", N: rng.Intn(n)})
		case r < 72:
			sc.Steps = append(sc.Steps, step{K: "sleep", D: time.Duration(1+rng.Intn(30)) * 100 * time.Millisecond})
		case r < 78:
			sc.Steps = append(sc.Steps, step{K: "stop", N: rng.Intn(2)})
		case r < 84:
			sc.Steps = append(sc.Steps, step{K: "gstop", N: rng.Intn(2)})
		case r < 92:
			sc.Steps = append(sc.Steps, step{K: "restart", N: rng.Intn(2)})
		case r < 95:
			sc.Steps = append(sc.Steps, step{K: "closecc"})
		default:
			sc.Steps = append(sc.Steps, step{K: "wait"})
		}
	}
	return sc
}

type failCreds struct{}

func (failCreds) GetRequestMetadata(context.Context, ...string) (map[string]string, error) {
	return nil, errors.New("scripted per-RPC credentials failure")
}
func (failCreds) RequireTransportSecurity() bool { return false }

type rpcRec struct {
	started, finished, cancelled bool
	phase                        string // newstream | send | recv | done
	parked                       string // where it was seen blocked at the last quiescent point
	code                         codes.Code
	cancel                       context.CancelFunc
}

type result struct {
	counters map[string]int64
	sigs     map[string]bool
}

func handler(_ any, ss grpc.ServerStream) error {
	ctx := ss.Context()
	md, _ := metadata.FromIncomingContext(ctx)
	beh := "echo"
	if v := md.Get("x-beh"); len(v) > 0 {
		beh = v[0]
	}
	prev := 0
	if v := md.Get("grpc-previous-rpc-attempts"); len(v) > 0 {
		prev, _ = strconv.Atoi(v[0])
	}
	hang := func() error {
		<-ctx.Done()
		return status.FromContextError(ctx.Err()).Err()
	}
	echo := func() error {
		n := 0
		for {
			var m []byte
			err := ss.RecvMsg(&m)
			if err == io.EOF {
				break
			}
			if err != nil {
				return err
			}
			n++
		}
		return ss.SendMsg([]byte("reply " + strconv.Itoa(n)))
	}
	switch {
	case beh == "echo":
		return echo()
	case len(beh) == 5 && beh[:4] == "fail":
		if prev < int(beh[4]-'0') {
			return status.Error(codes.Unavailable, "scripted failure of attempt "+strconv.Itoa(prev))
		}
		return echo()
	case len(beh) > 4 && beh[:4] == "code":
		c, _ := strconv.Atoi(beh[4:])
		var m []byte
		ss.RecvMsg(&m)
		return status.Error(codes.Code(c), "scripted status")
	case beh == "hdrhang":
		ss.SendHeader(metadata.Pairs("x-h", "1"))
		return hang()
	case beh == "partial":
		if err := ss.SendMsg([]byte("first")); err != nil {
			return err
		}
		return hang()
	}
	return hang()
}

const retryMC = `"retryPolicy":{"maxAttempts":4,"initialBackoff":"0.1s","maxBackoff":"1s","backoffMultiplier":2,"retryableStatusCodes":["UNAVAILABLE"]}`

// run executes one scenario inside a bubble.  viol is called (inside the
// bubble, so that the verdict is out before a possible bubble-exit panic) for
// every violated oracle.
func run(sc scenario, viol func(key, id, msg string)) *result {
	res := &result{counters: map[string]int64{}, sigs: map[string]bool{}}
	clk := e2e.NewClock()
	net := e2e.NewNet()
	sopts := func(i int) []grpc.ServerOption {
		o := []grpc.ServerOption{grpc.InitialWindowSize(65536), grpc.InitialConnWindowSize(1 << 20)}
		if i == 0 && sc.MCS0 > 0 {
			o = append(o, grpc.MaxConcurrentStreams(sc.MCS0))
		}
		return o
	}
	var bwg sync.WaitGroup
	backends := []*e2e.Backend{e2e.NewBackend(net, "b0", handler, sopts(0)...), e2e.NewBackend(net, "b1", handler, sopts(1)...)}
	allBackends := append([]*e2e.Backend(nil), backends...)
	ctl := e2e.NewCtl(clk.Now)
	ctl.Publish(stateOf(sc.First), sc.First)
	mc := ""
	if sc.Retry {
		mc = retryMC
	}
	cl, err := e2e.NewClient(net, e2e.ClientConfig{Addrs: []string{"b0", "b1"}, ServiceConfig: e2e.SC(e2e.PolicyName, mc), Ctl: ctl})
	if err != nil {
		viol("harness", "client", "client: "+err.Error())
		return res
	}
	cl.CC.Connect()
	synctest.Wait()

	var mu sync.Mutex
	rpcs := make([]*rpcRec, len(sc.RPCs))
	for i := range rpcs {
		rpcs[i] = &rpcRec{}
	}
	var wg sync.WaitGroup
	setPhase := func(r *rpcRec, p string) {
		mu.Lock()
		r.phase = p
		mu.Unlock()
	}
	startRPC := func(i int) {
		p, r := sc.RPCs[i], rpcs[i]
		rid := "r" + strconv.Itoa(i)
		ctx := e2e.WithRID(metadata.AppendToOutgoingContext(context.Background(), "x-beh", p.Beh), rid)
		var cancel context.CancelFunc
		if p.Deadline > 0 {
			ctx, cancel = context.WithTimeout(ctx, p.Deadline)
		} else {
			ctx, cancel = context.WithCancel(ctx)
		}
		mu.Lock()
		r.started, r.cancel, r.phase = true, cancel, "newstream"
		if p.Unary {
			r.phase = "invoke"
		}
		mu.Unlock()
		var opts []grpc.CallOption
		if p.WFR {
			opts = append(opts, grpc.WaitForReady(true))
		}
		if p.CredsFail {
			opts = append(opts, grpc.PerRPCCredentials(failCreds{}))
		}
		if p.MsgSize >= 30000 {
			// A retry attempt replays the buffered messages while it holds the
			// clientStream mutex; if that replay blocks on flow control (more
			// than the 64 KB write quota buffered, handler not reading) the
			// stream's context watcher can never finish it (C22 finding
			// "replay-blocked-on-flow-control") and, inside a bubble, the watcher
			// parked on the mutex keeps synctest.Wait from ever returning.  Large
			// messages therefore commit the attempt after the first one.
			opts = append(opts, grpc.MaxRetryRPCBufferSize(32*1024))
		}
		wg.Add(1)
		go func() {
			defer wg.Done()
			var err error
			if p.Unary {
				var reply []byte
				err = cl.CC.Invoke(ctx, "/verif.C23/Unary", make([]byte, p.MsgSize), &reply, opts...)
			} else {
				var st grpc.ClientStream
				st, err = cl.CC.NewStream(ctx, &grpc.StreamDesc{ClientStreams: true, ServerStreams: true}, "/verif.C23/Stream", opts...)
				if err == nil {
					setPhase(r, "send")
					for k := 0; k < p.Msgs && err == nil; k++ {
						if e := st.SendMsg(make([]byte, p.MsgSize)); e == io.EOF {
							break
						} else if e != nil {
							err = e // a client-generated error is the RPC's status
						}
					}
					if err == nil {
						st.CloseSend()
					}
					setPhase(r, "recv")
					for err == nil {
						var m []byte
						err = st.RecvMsg(&m)
					}
				}
			}
			mu.Lock()
			r.finished, r.phase = true, "done"
			r.code = status.Code(err)
			if err == io.EOF {
				r.code = codes.OK
			}
			mu.Unlock()
		}()
	}

	ccClosed := false
	audit := func(label string, final bool) {
		synctest.Wait()
		res.counters["quiescent_audits"]++
		picks := ctl.Picks()
		curGen := ctl.Gen()
		_, polClosed := ctl.Built()
		byRID := map[string][]*e2e.PickRec{}
		for i := range picks {
			p := &picks[i]
			byRID[p.RID] = append(byRID[p.RID], p)
			if len(p.Dones) > 1 {
				viol("done-called-twice", strconv.Itoa(p.ID), fmt.Sprintf("after %q: Done of pick %d (rpc %s, gen %d, %+v) ran %d times: %+v", label, p.ID, p.RID, p.Gen, p.Spec, len(p.Dones), p.Dones))
			}
		}
		mu.Lock()
		defer mu.Unlock()
		for i, r := range rpcs {
			if !r.started {
				continue
			}
			rid := "r" + strconv.Itoa(i)
			ps := byRID[rid]
			// every pick but the RPC's latest belongs to an attempt the channel has moved on from
			for k, p := range ps {
				if !p.HasDone {
					continue
				}
				superseded := k < len(ps)-1
				if (superseded || r.finished || final) && len(p.Dones) == 0 {
					why := "the RPC has returned"
					if !r.finished && superseded {
						why = fmt.Sprintf("the RPC has moved on to pick %d", ps[len(ps)-1].ID)
					} else if !r.finished {
						why = "all contexts are cancelled and the channel is closed"
					}
					viol("done-never-called", strconv.Itoa(p.ID), fmt.Sprintf("after %q: Done of pick %d (rpc %s, gen %d, %+v, subconn state at pick %v) never ran although %s", label, p.ID, rid, p.Gen, p.Spec, p.SCState, why))
				}
			}
			if r.finished {
				continue
			}
			if final {
				viol("rpc-not-returned", rid, fmt.Sprintf("rpc %s (%+v) has not returned after its context was cancelled and the channel closed (phase %s)", rid, sc.RPCs[i], r.phase))
				continue
			}
			if r.cancelled {
				viol("cancelled-rpc-not-returned", rid, fmt.Sprintf("after %q: rpc %s was cancelled but has not returned at quiescence (phase %s, picks %d)", label, rid, r.phase, len(ps)))
				continue
			}
			// where is it parked?
			r.parked = r.phase
			if ccClosed || polClosed {
				continue
			}
			if len(ps) == 0 {
				viol("rpc-never-picked", rid, fmt.Sprintf("after %q: rpc %s is running, picker generation %d is published, but the RPC never called Pick", label, rid, curGen))
				continue
			}
			last := ps[len(ps)-1]
			blocking := false
			switch last.Spec.Kind {
			case "nosc":
				blocking = true
			case "plain":
				blocking = sc.RPCs[i].WFR
			case "sc":
				// the not-READY path: Done ran with the zero DoneInfo and the RPC waits for a new picker
				blocking = last.HasDone && len(last.Dones) == 1 && last.Dones[0].NilErr && !last.Dones[0].BytesSent
				if blocking {
					res.counters["notready_picks_parked"]++
				}
			}
			if blocking {
				r.parked = "pick"
				res.counters["parked_in_pick_checks"]++
				if last.Gen < curGen {
					viol("blocked-pick-not-woken", rid+"/"+strconv.Itoa(curGen), fmt.Sprintf("after %q: rpc %s is blocked for a new picker since pick %d of generation %d (%+v) although generation %d has been published", label, rid, last.ID, last.Gen, last.Spec, curGen))
				}
			} else if r.phase == "newstream" {
				r.parked = "quota"
			}
		}
	}
	audit("init", false)
	// clientStream holds its mutex while it sleeps a retry backoff.  Closing
	// the channel fails the in-flight streams with UNAVAILABLE, which a retry
	// policy turns into such a backoff, while the stream's watcher goroutine
	// (woken by the same close) parks on that mutex.  A mutex wait is not a
	// durable block for synctest, so virtual time could never advance again (a
	// limitation of the bubble, not a grpc defect: in real time the backoff
	// simply elapses).  With a retry policy the RPC contexts are therefore
	// cancelled before the channel is closed; without one (transparent retries
	// only, no timers) the channel is closed under the running RPCs.
	quietClose := func() {
		if sc.Retry {
			mu.Lock()
			for _, r := range rpcs {
				if r.started && !r.finished && !r.cancelled {
					r.cancelled = true
					r.cancel()
				}
			}
			mu.Unlock()
			synctest.Wait()
		} else {
			res.counters["channel_closed_under_running_rpcs"]++
		}
		cl.CC.Close()
	}
	next := 0
	for _, st := range sc.Steps {
		switch st.K {
		case "start":
			for k := 0; k < st.N && next < len(rpcs); k++ {
				startRPC(next)
				next++
			}
		case "pub":
			ctl.Publish(st.State, *st.P)
			res.counters["picker_updates"]++
		case "cancel":
			mu.Lock()
			if r := rpcs[st.N]; r.started && !r.finished && !r.cancelled {
				r.cancelled = true
				r.cancel()
				res.counters["cancels_in_flight"]++
			}
			mu.Unlock()
		case "sleep":
			time.Sleep(st.D)
		case "stop":
			backends[st.N].S.Stop()
		case "gstop":
			b := backends[st.N]
			bwg.Add(1)
			go func() { defer bwg.Done(); b.S.GracefulStop() }()
		case "restart":
			backends[st.N].S.Stop()
			backends[st.N] = e2e.NewBackend(net, backends[st.N].Addr, handler, sopts(st.N)...)
			allBackends = append(allBackends, backends[st.N])
		case "closecc":
			if !ccClosed {
				ccClosed = true
				quietClose()
			}
		}
		audit(st.K, false)
	}
	// drain: let the remaining RPCs start, then close the channel and cancel everything
	for next < len(rpcs) {
		startRPC(next)
		next++
	}
	audit("start-rest", false)
	if !ccClosed {
		ccClosed = true
		quietClose()
	}
	audit("closecc-final", false)
	mu.Lock()
	for _, r := range rpcs {
		if r.cancel != nil {
			r.cancel()
		}
	}
	mu.Unlock()
	audit("final", true)
	for _, b := range allBackends {
		b.S.Stop()
	}
	bwg.Wait()
	stuck := false
	mu.Lock()
	for _, r := range rpcs {
		if r.started && !r.finished {
			stuck = true
		}
	}
	mu.Unlock()
	if !stuck {
		wg.Wait()
	}

	// evidence
	picks := ctl.Picks()
	perRID := map[string]int{}
	nr := map[string]bool{}
	for _, p := range picks {
		perRID[p.RID]++
		res.counters["picks"]++
		if p.HasDone {
			res.counters["picks_with_done"]++
		}
		for _, d := range p.Dones {
			res.counters["done_calls"]++
			switch {
			case d.NilErr && !d.BytesSent:
				res.counters["done_notready_subconn"]++
				nr[p.RID] = true
			case d.NilErr:
				res.counters["done_success"]++
			case !d.BytesSent:
				res.counters["done_newstream_failure"]++
			default:
				res.counters["done_rpc_error"]++
			}
		}
	}
	for i, r := range rpcs {
		if !r.started {
			continue
		}
		rid := "r" + strconv.Itoa(i)
		kind := "stream"
		if sc.RPCs[i].Unary {
			kind = "unary"
		}
		np := perRID[rid]
		if np > 3 {
			np = 3
		}
		if np > 1 {
			res.counters["rpcs_with_repick"]++
		}
		parked := r.parked
		if parked == "" {
			parked = "-"
		}
		c := ""
		if r.cancelled {
			c = "cancelled@"
			res.counters["cancelled_while_parked_in_"+parked]++
		}
		res.sigs[fmt.Sprintf("%s/%s%s/%v/picks%d/notready=%v", kind, c, parked, r.code, np, nr[rid])] = true
	}
	return res
}

func TestVerifC23(t *testing.T) {
	r := vlib.Start(t, "C23")
	n := r.N(1000, 15000)
	if os.Getenv("VERIF_LIGHT") != "" {
		n /= 10
	}
	fam := "scripted"
	for i := 0; i < n; i++ {
		if !r.Want(fam, i) {
			continue
		}
		sc := gen(r.Rand(fam, i))
		r.Progress(fam, i, fmt.Sprintf("rpcs=%d steps=%d", len(sc.RPCs), len(sc.Steps)))
		var res *result
		seen := map[string]bool{}
		synctest.Test(t, func(t *testing.T) {
			res = run(sc, func(key, id, msg string) {
				if seen[key+"/"+id] {
					return
				}
				seen[key+"/"+id] = true
				r.Violation(key, fam, i, sc, "%s", msg)
			})
		})
		r.Eval(1)
		keys := make([]string, 0, len(res.counters))
		for k := range res.counters {
			keys = append(keys, k)
		}
		sort.Strings(keys)
		for _, k := range keys {
			r.Count(k, res.counters[k])
		}
		if res.counters["picks_with_done"] > 0 {
			for s := range res.sigs {
				r.Nontrivial(s)
			}
		}
		if i < 2 {
			r.Sample(map[string]any{"scenario": sc, "counters": res.counters})
		}
		if r.Violations() > 0 {
			break // the verdict is in; further cases on a broken tree may wedge a bubble
		}
	}
	r.Finish(vlib.Spec{
		Level: "exploration",
		Rule:  "4-16 RPCs (unary/streaming, fail-fast/wait-for-ready, deadlines, failing per-RPC credentials, server behaviours echo / fail first K attempts / hang / header-then-hang / one-message-then-hang / status N, large unread messages) through the registered verif_scripted policy over two real servers (one with MAX_CONCURRENT_STREAMS 1-2), optional retry policy; 10-35 steps: publish a scripted picker (SubConn with Done, ErrNoSubConnAvailable, plain / status / wrapped errors, possibly pointing at a stopped backend), start, cancel, virtual sleep, Stop / GracefulStop / restart a backend, close the channel; after every step at exact quiescence: no Done ran twice, every Done-carrying pick of a returned RPC or of a superseded attempt ran once, RPCs blocked for a picker have re-picked on the latest generation, cancelled RPCs have returned; non-trivial = the case produced a pick with a Done callback; distinct = RPC outcome classes (kind, where it was parked / cancelled, final code, number of picks, not-ready path taken)",
		Assumptions: []string{"a pick whose Done ran with a nil error and BytesSent=false while the RPC is still running is read as the SubConn-not-READY path (no other path produces that DoneInfo)",
			"the harness drives every stream to a non-nil RecvMsg error or cancels its context, as the NewStream contract requires"},
		Floor: 25,
	})
}
