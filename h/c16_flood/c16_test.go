// C16 black-box companion: a raw HTTP/2 client floods a real grpc server with
// PING and SETTINGS frames while not reading, over a connection with a small
// byte capacity, so that the server's writer blocks, its control buffer
// reaches the throttling limit and its reader stops.  When the client starts
// reading again everything must drain, every frame must be answered and a new
// RPC must be served; closing the connection while throttled must release
// every goroutine (the synctest bubble would otherwise refuse to end).
package c16flood

import (
	"fmt"
	"math/rand"
	"os"
	"testing"
	"testing/synctest"

	"golang.org/x/net/http2"
	"google.golang.org/grpc"
	"google.golang.org/grpc/verif/vlib"
	"google.golang.org/grpc/verif/wire"
)

type scenario struct {
	Cap      int   `json:"conn_capacity_bytes"`
	Bursts   []int `json:"bursts"` // frames per burst; >0 PINGs, <0 SETTINGS
	CloseMid bool  `json:"close_while_throttled"`
	Pings    bool  `json:"pings"`     // positive bursts are PINGs (only with at most 2 pings in total: more are legitimately answered with GOAWAY too_many_pings), else SETTINGS
	RSTStorm int   `json:"rst_storm"` // streams opened and reset in the flood (cleanupStream items are throttled too)
}

func gen(rng *rand.Rand) scenario {
	sc := scenario{Cap: vlib.Pick(rng, 64, 512, 4096, 20000), CloseMid: rng.Intn(4) == 0}
	nb := 1 + rng.Intn(4)
	for i := 0; i < nb; i++ {
		n := vlib.Pick(rng, 10, 49, 50, 51, 120, 600, 3000)
		if rng.Intn(3) == 0 {
			n = -vlib.Pick(rng, 10, 49, 50, 51, 200)
		}
		sc.Bursts = append(sc.Bursts, n)
	}
	if rng.Intn(3) == 0 {
		sc.RSTStorm = vlib.Pick(rng, 20, 60, 200)
	}
	if rng.Intn(5) == 0 { // a PING-only variant within the server's ping-strike allowance
		sc.Pings = true
		sc.Bursts = []int{2, -vlib.Pick(rng, 50, 51, 300)}
	}
	return sc
}

type result struct {
	viol     [][2]string
	throttle bool // the server was observed stalled with unanswered frames
	counters map[string]int64
}

func run(sc scenario) *result {
	res := &result{counters: map[string]int64{}}
	v := func(k, f string, a ...any) { res.viol = append(res.viol, [2]string{k, fmt.Sprintf(f, a...)}) }
	handler := func(_ any, ss grpc.ServerStream) error {
		var m []byte
		if err := ss.RecvMsg(&m); err != nil {
			return err
		}
		return ss.SendMsg(append([]byte("echo:"), m...))
	}
	fx := wire.NewServerFixture(handler, grpc.MaxConcurrentStreams(1000))
	fx.L.Cap = sc.Cap
	fx.Serve()
	peer, err := fx.Connect()
	if err != nil {
		v("harness", "connect: %v", err)
		return res
	}
	if err := peer.Start(); err != nil {
		v("harness", "start: %v", err)
		return res
	}
	synctest.Wait()
	peer.PauseReads()
	pings, settings, rsts := 0, 0, 0
	floodDone := make(chan struct{})
	go func() {
		defer close(floodDone)
		nextID := uint32(1)
		for _, b := range sc.Bursts {
			if b > 0 && sc.Pings {
				for i := 0; i < b; i++ {
					var d [8]byte
					d[0], d[1], d[2] = byte(pings), byte(pings>>8), byte(pings>>16)
					if peer.WritePing(false, d) != nil {
						return
					}
					pings++
				}
			} else {
				if b < 0 {
					b = -b
				}
				for i := 0; i < b; i++ {
					if peer.WriteSettings(http2.Setting{ID: http2.SettingInitialWindowSize, Val: uint32(65535 + i)}) != nil {
						return
					}
					settings++
				}
			}
		}
		for i := 0; i < sc.RSTStorm; i++ {
			if peer.WriteHeaders(nextID, false, 0, wire.RequestHeaders("/verif.Flood/Echo")...) != nil {
				return
			}
			if peer.WriteRST(nextID, http2.ErrCodeCancel) != nil {
				return
			}
			nextID += 2
			rsts++
		}
	}()
	synctest.Wait() // flood written or the writer is blocked on the full pipe; server drained what it could
	count := func() (pa, sa int) {
		for _, e := range peer.Log() {
			if e.Dir == wire.In && e.Type == http2.FramePing && e.Ack() {
				pa++
			}
			if e.Dir == wire.In && e.Type == http2.FrameSettings && e.Ack() {
				sa++
			}
		}
		return
	}
	select {
	case <-floodDone:
	default:
		res.throttle = true // our writer is blocked: the server stopped reading (throttled) with its writer blocked
		res.counters["flood_writer_blocked_by_backpressure"]++
	}
	if sc.CloseMid {
		// closing the connection while the server is (possibly) throttled must release everything
		peer.Close()
		<-floodDone
		fx.S.Stop()
		<-peer.Done()
		res.counters["closed_while_stalled"]++
		return res
	}
	peer.ResumeReads()
	<-floodDone
	synctest.Wait()
	pa, sa := count()
	if os.Getenv("VERIF_DEBUG") != "" {
		for _, e := range peer.Log() {
			fmt.Println(e.String())
		}
	}
	// the initial SETTINGS of the peer is acked too
	if ended, err := peer.ReadEnded(); ended {
		v("server-closed-connection-under-flood", "the server closed the connection during a PING/SETTINGS flood from a peer that later resumed reading: %v (pings %d acked %d)", err, pings, pa)
	} else {
		if pa != pings {
			v("pings-unanswered-after-resume", "after the client resumed reading and the connection went quiescent only %d of %d PINGs are acknowledged", pa, pings)
		}
		if sa != settings+1 {
			v("settings-unanswered-after-resume", "after the client resumed reading only %d of %d SETTINGS are acknowledged", sa, settings+1)
		}
		// a fresh RPC must be served
		id := uint32(1 + 2*rsts)
		from := peer.Len()
		peer.WriteHeaders(id, false, 0, wire.RequestHeaders("/verif.Flood/Echo")...)
		peer.WriteData(id, wire.Msg([]byte("hello")), true, -1)
		synctest.Wait()
		var body []byte
		status := ""
		for _, e := range peer.LogFrom(from) {
			if e.Dir == wire.In && e.Stream == id {
				if e.Type == http2.FrameData {
					body = append(body, e.Data...)
				}
				if e.Type == http2.FrameHeaders && e.EndStream() {
					status, _ = e.Field("grpc-status")
				}
			}
		}
		msgs, _, _ := wire.SplitMsgs(body)
		if status != "0" || len(msgs) != 1 || string(msgs[0]) != "echo:hello" {
			v("rpc-not-served-after-flood", "an RPC issued after the flood drained got status %q and %d messages at quiescence", status, len(msgs))
		}
	}
	res.counters["pings_sent"] = int64(pings)
	res.counters["settings_sent"] = int64(settings)
	res.counters["streams_reset"] = int64(rsts)
	peer.Close()
	fx.S.Stop()
	<-peer.Done()
	return res
}

func TestVerifC16BB(t *testing.T) {
	r := vlib.Start(t, "C16")
	const fam = "flood"
	n := r.N(150, 3000)
	floor := 10
	if os.Getenv("VERIF_LIGHT") != "" {
		n /= 5
		floor = 3
	}
	for i := 0; i < n; i++ {
		if !r.Want(fam, i) {
			continue
		}
		sc := gen(r.Rand(fam, i))
		r.Progress(fam, i, fmt.Sprint(sc))
		var res *result
		synctest.Test(t, func(t *testing.T) { res = run(sc) })
		r.Eval(1)
		for _, x := range res.viol {
			r.Violation(x[0], fam, i, sc, "%s", x[1])
		}
		for k, c := range res.counters {
			r.Count(k, c)
		}
		if res.throttle {
			r.Nontrivial(fmt.Sprintf("stalled cap=%d close=%v bursts=%d rst=%v", sc.Cap, sc.CloseMid, len(sc.Bursts), sc.RSTStorm > 0))
		}
		if i < 2 {
			r.Sample(map[string]any{"scenario": sc, "counters": res.counters, "server_stalled": res.throttle})
		}
	}
	r.Finish(vlib.Spec{
		Level:       "exploration",
		Rule:        "raw client floods a real server with bursts of PING / SETTINGS (10..3000 frames, around the 50-item throttle limit) and RST storms while not reading, over an in-memory connection of 64..20000 bytes capacity, then resumes reading (or closes); at quiescence every PING/SETTINGS must be acknowledged, a fresh RPC served, and on close every goroutine released (bubble exit); non-trivial = the flood writer was stalled by back-pressure (server writer blocked and reader throttled); distinct = (capacity, close, bursts, rst)",
		Assumptions: []string{"back-pressure on the flood writer is taken as evidence that the server stopped reading; the white-box step judges the throttle limit itself"},
		Floor:       floor,
	})
}
