// C34: balancer/pickfirst — connects in order, picks only READY, keeps sticky TF.
//
// The REAL pick_first policy (balancer.Get("pick_first")) runs over lbfake
// (engine E3) inside a testing/synctest bubble, so the 250 ms happy-eyeballs
// connection-attempt timer is driven by virtual time and synctest.Wait() is an
// exact quiescent point after every scripted event.
//
// Oracle = a reference model written from the property statement and gRFCs
// A61 (happy eyeballs, address pre-processing, subchannel reuse on a new list)
// and A62 (sticky TRANSIENT_FAILURE, IDLE after the READY subchannel is lost):
//
//	list   = interleave-by-family(dedup(flatten(endpoints)))        (RFC 8305 §4)
//	pass   : walk the list; at an address whose subchannel is IDLE/new request
//	         a connection, CONNECTING (reused) wait, TRANSIENT_FAILURE (reused,
//	         in backoff) skip; move on when the address being attempted fails
//	         or 250 ms after arriving at it; a READY subchannel ends everything
//	         and all others are shut down; when every address failed report
//	         TRANSIENT_FAILURE, reconnect IDLE subchannels, and stay in
//	         TRANSIENT_FAILURE until a subchannel is READY.
//
// Judged after every event at quiescence: the exact sequence (address, virtual
// time) of Connect calls, the exact set of Shutdown calls, the state reported
// to the channel, the sticky-TF rule over every UpdateState, and "a picker
// returns a subchannel only if it is the READY, not shut down one".
//
// R2 notes: an EMPTY resolver update resets the policy (new lifetime: sticky TF
// ends, next list starts in CONNECTING) as DESIGN.md §4 C34 says; the
// CONNECTING→IDLE subchannel transition of grpc-go issue #7862 is treated, as
// the code documents, like "became READY and immediately lost the connection";
// with shuffleAddressList the model accepts any endpoint (resp. address)
// permutation and checks everything else against the order actually observed.
package c34

import (
	"encoding/json"
	"errors"
	"fmt"
	"math/rand"
	"net"
	"sort"
	"testing"
	"testing/synctest"
	"time"

	"google.golang.org/grpc/balancer"
	"google.golang.org/grpc/balancer/pickfirst"
	"google.golang.org/grpc/connectivity"
	"google.golang.org/grpc/resolver"
	"google.golang.org/grpc/serviceconfig"
	"google.golang.org/grpc/verif/lbfake"
	"google.golang.org/grpc/verif/vlib"
)

const attemptDelay = 250 * time.Millisecond // A61 "Connection Attempt Delay"

// ---------------------------------------------------------------- reference pre-processing

type afam int

const (
	famUnknown afam = iota
	famV4
	famV6
)

// family is written from RFC 8305 / A61: an address is IPv4 or IPv6 if its
// host part is an IP literal of that kind, anything else is a third family.
func family(addr string) afam {
	host, _, err := net.SplitHostPort(addr)
	if err != nil {
		return famUnknown
	}
	ip := net.ParseIP(host)
	switch {
	case ip == nil:
		return famUnknown
	case ip.To4() != nil:
		return famV4
	default:
		return famV6
	}
}

func dedup(in []string) []string {
	seen := map[string]bool{}
	var out []string
	for _, a := range in {
		if !seen[a] {
			seen[a] = true
			out = append(out, a)
		}
	}
	return out
}

// interleave: families in order of first appearance, one address of each in
// turn, exhausted families are skipped (RFC 8305 §4 with First Address Family
// Count = 1).
func interleave(in []string) []string {
	var order []afam
	by := map[afam][]string{}
	for _, a := range in {
		f := family(a)
		if _, ok := by[f]; !ok {
			order = append(order, f)
		}
		by[f] = append(by[f], a)
	}
	var out []string
	for len(out) < len(in) {
		for _, f := range order {
			if q := by[f]; len(q) > 0 {
				out = append(out, q[0])
				by[f] = q[1:]
			}
		}
	}
	return out
}

func preprocess(flat []string) []string { return interleave(dedup(flat)) }

func flatten(eps [][]string) []string {
	var out []string
	for _, e := range eps {
		out = append(out, e...)
	}
	return out
}

func equalStrings(a, b []string) bool {
	if len(a) != len(b) {
		return false
	}
	for i := range a {
		if a[i] != b[i] {
			return false
		}
	}
	return true
}

// ---------------------------------------------------------------- model

type msc struct {
	sc        *lbfake.SubConn // nil until the Connect that creates it was observed
	addr      string
	state     connectivity.State
	healthReg bool
}

type macro int

const (
	mInit macro = iota
	mConnecting
	mStickyTF
	mReady
	mIdle
)

func (m macro) String() string {
	return [...]string{"INIT", "CONNECTING", "STICKY_TF", "READY", "IDLE"}[m]
}

type expConn struct {
	addr string
	at   time.Time
}

type model struct {
	list        []string
	idx         int
	firstPass   bool
	failed      map[string]bool
	live        map[string]*msc
	selected    *msc
	mac         macro
	initTouched bool
	health      bool
	healthState *connectivity.State
	timerArmed  bool
	timerAt     time.Time

	// expectations of the current op
	expOrdered  []expConn
	expSet      []expConn
	expShutdown map[*lbfake.SubConn]bool
	expRegister *msc
	endsSticky  bool
	wasSticky   bool
	// subchannels the model created AND dropped within the current op, before the
	// real subchannel was seen (bound by judgeModel)
	droppedNew     []*msc
	selectedThisOp bool
	closed         bool

	// evidence
	passes, timerFires, reusedTF, reusedConnecting, passEnds, readies, lost, maxAttempted int
	attemptedThisPass                                                                     int
}

func newModel() *model {
	return &model{failed: map[string]bool{}, live: map[string]*msc{}, expShutdown: map[*lbfake.SubConn]bool{}}
}

func (m *model) beginOp() {
	m.expOrdered, m.expSet = nil, nil
	m.expShutdown = map[*lbfake.SubConn]bool{}
	m.expRegister = nil
	m.endsSticky = false
	m.wasSticky = m.mac == mStickyTF
	m.droppedNew = nil
	m.selectedThisOp = false
}

// clone deep-copies the model (for judging both legal orders of a race).
func (m *model) clone() *model {
	c := *m
	c.failed = map[string]bool{}
	for k, v := range m.failed {
		c.failed[k] = v
	}
	c.live = map[string]*msc{}
	remap := map[*msc]*msc{}
	for k, v := range m.live {
		nv := *v
		c.live[k] = &nv
		remap[v] = &nv
	}
	if m.selected != nil {
		c.selected = remap[m.selected]
	}
	c.expRegister = nil
	c.expShutdown = map[*lbfake.SubConn]bool{}
	c.expOrdered, c.expSet, c.droppedNew = nil, nil, nil
	if m.healthState != nil {
		hs := *m.healthState
		c.healthState = &hs
	}
	c.list = append([]string(nil), m.list...)
	return &c
}

func contains(l []string, a string) bool {
	for _, x := range l {
		if x == a {
			return true
		}
	}
	return false
}

func (m *model) armTimer(now time.Time) {
	m.timerArmed = m.idx+1 < len(m.list)
	m.timerAt = now.Add(attemptDelay)
}

func (m *model) arrive(now time.Time) {
	for m.idx < len(m.list) {
		a := m.list[m.idx]
		s := m.live[a]
		st := connectivity.Idle
		if s != nil {
			st = s.state
		}
		switch st {
		case connectivity.Idle:
			if s == nil {
				m.live[a] = &msc{addr: a, state: connectivity.Idle}
			}
			m.expOrdered = append(m.expOrdered, expConn{a, now})
			m.attemptedThisPass++
			if m.attemptedThisPass > m.maxAttempted {
				m.maxAttempted = m.attemptedThisPass
			}
			m.armTimer(now)
			return
		case connectivity.Connecting:
			m.reusedConnecting++
			m.armTimer(now)
			return
		case connectivity.TransientFailure:
			m.failed[a] = true
			m.reusedTF++
			m.idx++
		default:
			panic(fmt.Sprintf("c34 model: arrived at %s whose subchannel is %v", a, st))
		}
	}
	m.endPassIfPossible(now)
}

func (m *model) endPassIfPossible(now time.Time) {
	if m.idx < len(m.list) {
		return
	}
	for a := range m.live {
		if !m.failed[a] {
			return
		}
	}
	m.firstPass = false
	m.mac = mStickyTF
	m.passEnds++
	for _, s := range m.live {
		if s.state == connectivity.Idle {
			m.expSet = append(m.expSet, expConn{s.addr, now})
		}
	}
}

func (m *model) startPass(now time.Time) {
	m.firstPass = true
	m.failed = map[string]bool{}
	m.idx = 0
	m.passes++
	m.attemptedThisPass = 0
	m.arrive(now)
}

func (m *model) shutdownOthers(keep *msc) {
	for a, s := range m.live {
		if s != keep {
			if s.sc != nil {
				m.expShutdown[s.sc] = true
			} else {
				m.droppedNew = append(m.droppedNew, s)
			}
			delete(m.live, a)
		}
	}
	m.timerArmed = false
}

func (m *model) update(list []string, health bool, now time.Time) {
	m.timerArmed = false
	if len(list) == 0 {
		m.shutdownOthers(nil)
		m.selected, m.list, m.idx = nil, nil, 0
		m.mac, m.initTouched, m.endsSticky = mInit, true, true
		return
	}
	m.health = health
	if m.selected != nil && contains(list, m.selected.addr) {
		m.list = list
		return
	}
	wasReady := m.selected != nil
	for a, s := range m.live {
		if !contains(list, a) {
			if s.sc != nil {
				m.expShutdown[s.sc] = true
			} else {
				m.droppedNew = append(m.droppedNew, s)
			}
			delete(m.live, a)
		}
	}
	m.selected = nil
	m.list, m.idx = list, 0
	switch {
	case wasReady || m.mac == mConnecting || m.mac == mInit:
		m.mac = mConnecting
		m.startPass(now)
	case m.mac == mStickyTF:
		m.startPass(now)
	}
}

func (m *model) liveBySC(sc *lbfake.SubConn) *msc {
	for _, s := range m.live {
		if s.sc == sc {
			return s
		}
	}
	return nil
}

func (m *model) deliver(sc *lbfake.SubConn, st connectivity.State, now time.Time) (stale bool) {
	s := m.liveBySC(sc)
	if s == nil {
		return true
	}
	prev := s.state
	s.state = st
	if st == connectivity.TransientFailure {
		m.failed[s.addr] = true
	}
	if st == connectivity.Ready {
		m.shutdownOthers(s)
		m.selected, m.mac, m.endsSticky, m.healthState = s, mReady, true, nil
		m.selectedThisOp = true
		s.healthReg = m.health
		if m.health {
			m.expRegister = s
		}
		m.readies++
		return
	}
	if prev == connectivity.Ready || (prev == connectivity.Connecting && st == connectivity.Idle) {
		m.shutdownOthers(s)
		m.selected, m.mac, m.idx, m.endsSticky = nil, mIdle, 0, true
		m.lost++
		return
	}
	if m.mac != mConnecting && m.mac != mStickyTF {
		return
	}
	if m.firstPass {
		if st == connectivity.TransientFailure {
			if m.idx < len(m.list) && m.list[m.idx] == s.addr {
				m.timerArmed = false
				if m.idx+1 < len(m.list) {
					m.idx++
					m.arrive(now)
					return
				}
				m.idx = len(m.list)
			}
			m.endPassIfPossible(now)
		}
		return
	}
	if st == connectivity.Idle {
		m.expSet = append(m.expSet, expConn{s.addr, now})
	}
	return
}

func (m *model) exitIdle(now time.Time) {
	if m.mac == mIdle {
		m.mac = mConnecting
		m.startPass(now)
	}
}

func (m *model) advance(until time.Time) {
	for m.timerArmed && !m.timerAt.After(until) {
		t := m.timerAt
		m.timerArmed = false
		m.timerFires++
		m.idx++
		m.arrive(t)
	}
}

// expected returns the state the channel must see at quiescence (ok=false: nothing reported yet).
func (m *model) expected() (connectivity.State, bool) {
	switch m.mac {
	case mInit:
		return connectivity.TransientFailure, m.initTouched
	case mConnecting:
		return connectivity.Connecting, true
	case mStickyTF:
		return connectivity.TransientFailure, true
	case mIdle:
		return connectivity.Idle, true
	default:
		if !m.selected.healthReg {
			return connectivity.Ready, true
		}
		if m.healthState == nil {
			return connectivity.Connecting, true
		}
		return *m.healthState, true
	}
}

// ---------------------------------------------------------------- harness

type harness struct {
	r     *vlib.Run
	fam   string
	idx   int
	rng   *rand.Rand
	cc    *lbfake.ClientConn
	b     balancer.Balancer
	m     *model
	ops   []string
	mark  int
	bad   bool
	pool  []string
	start time.Time

	everFailed                            map[*lbfake.SubConn]bool
	stickyFindingHits                     int
	races, raceTimerFirst, raceEventFirst int

	staleDeliveries, healthDeliveries, updates, emptyUpdates, resolverErrors, picks, dupInputs, qchecks int
	famsSeen                                                                                            map[afam]bool
}

type detail struct {
	Ops    []string `json:"ops"`
	Events []string `json:"last_events"`
	Model  string   `json:"model"`
}

func (h *harness) opf(format string, args ...any) {
	h.ops = append(h.ops, fmt.Sprintf("t=%v ", time.Since(h.start))+fmt.Sprintf(format, args...))
}

func (h *harness) violate(key, format string, args ...any) {
	h.bad = true
	ev := h.cc.Events()
	if len(ev) > 70 {
		ev = ev[len(ev)-70:]
	}
	d := detail{Ops: h.ops, Model: h.modelString()}
	for _, e := range ev {
		d.Events = append(d.Events, fmt.Sprintf("t=%v %s", e.At.Sub(h.start), e))
	}
	h.r.Violation(key, h.fam, h.idx, d, format, args...)
}

// flag reports a violation class that may be a recorded known finding without
// abandoning the case (the caller re-synchronises the model).
func (h *harness) flag(key, format string, args ...any) {
	ev := h.cc.Events()
	if len(ev) > 70 {
		ev = ev[len(ev)-70:]
	}
	d := detail{Ops: h.ops, Model: h.modelString()}
	for _, e := range ev {
		d.Events = append(d.Events, fmt.Sprintf("t=%v %s", e.At.Sub(h.start), e))
	}
	if h.r.Violation(key, h.fam, h.idx, d, format, args...) {
		h.bad = true // not a known finding: a real failure of this run
	}
}

// freshConnecting returns the subchannel of this op's delivery if that
// delivery was CONNECTING on a live subchannel that has never reported
// TRANSIENT_FAILURE.
func (h *harness) freshConnecting(evs []lbfake.Event) *lbfake.SubConn {
	for _, e := range evs {
		if e.Kind == lbfake.Deliver && e.SCState.ConnectivityState == connectivity.Connecting && !e.SC.IsShutdown() && !h.everFailed[e.SC] {
			return e.SC
		}
	}
	return nil
}

func (h *harness) modelString() string {
	m := h.m
	var live []string
	for a, s := range m.live {
		live = append(live, fmt.Sprintf("%s:%v", a, s.state))
	}
	sort.Strings(live)
	return fmt.Sprintf("macro=%v list=%v idx=%d firstPass=%v live=%v timerArmed=%v", m.mac, m.list, m.idx, m.firstPass, live, m.timerArmed)
}

func pfConfig(shuffle bool) serviceconfig.LoadBalancingConfig {
	js, _ := json.Marshal(map[string]any{"shuffleAddressList": shuffle})
	cfg, err := balancer.Get(pickfirst.Name).(balancer.ConfigParser).ParseConfig(js)
	if err != nil {
		panic(err)
	}
	return cfg
}

func toAddrs(l []string) []resolver.Address {
	out := make([]resolver.Address, len(l))
	for i, a := range l {
		out[i] = resolver.Address{Addr: a}
	}
	return out
}

func toEndpoints(eps [][]string) []resolver.Endpoint {
	out := make([]resolver.Endpoint, len(eps))
	for i, e := range eps {
		out[i] = resolver.Endpoint{Addresses: toAddrs(e)}
	}
	return out
}

type updateIn struct {
	eps     [][]string // endpoints form (nil: addresses form)
	flat    []string
	both    bool
	health  bool
	shuffle bool
	withCfg bool
}

func (u updateIn) state() balancer.ClientConnState {
	rs := resolver.State{}
	if u.eps != nil {
		rs.Endpoints = toEndpoints(u.eps)
		if u.both {
			rs.Addresses = toAddrs(flatten(u.eps))
		}
	} else {
		rs.Addresses = toAddrs(u.flat)
	}
	if u.health {
		rs = pickfirst.EnableHealthListener(rs)
	}
	ccs := balancer.ClientConnState{ResolverState: rs}
	if u.withCfg || u.shuffle {
		ccs.BalancerConfig = pfConfig(u.shuffle)
	}
	return ccs
}

func (u updateIn) input() []string {
	if u.eps != nil {
		return flatten(u.eps)
	}
	return u.flat
}

// genUpdate draws an address list from the case's pool (so lists overlap and subchannels are reused).
func (h *harness) genUpdate(maxAddrs int) updateIn {
	rng := h.rng
	u := updateIn{health: rng.Intn(2) == 0, withCfg: rng.Intn(2) == 0}
	n := 1 + rng.Intn(maxAddrs)
	pick := func() string {
		if rng.Intn(3) == 0 && len(h.pool) > 3 {
			return h.pool[rng.Intn(3)] // skew: frequent duplicates / reuse
		}
		return h.pool[rng.Intn(len(h.pool))]
	}
	if rng.Intn(2) == 0 {
		for i := 0; i < n; i++ {
			u.flat = append(u.flat, pick())
		}
	} else {
		left := n
		for left > 0 {
			k := 1 + rng.Intn(3)
			if k > left {
				k = left
			}
			var e []string
			for j := 0; j < k; j++ {
				e = append(e, pick())
			}
			u.eps = append(u.eps, e)
			left -= k
		}
		u.both = rng.Intn(2) == 0
	}
	return u
}

func makePool(rng *rand.Rand) []string {
	var p []string
	n4, n6, nu := 1+rng.Intn(4), rng.Intn(4), rng.Intn(3)
	for i := 0; i < n4; i++ {
		p = append(p, fmt.Sprintf("10.0.0.%d:443", i+1))
	}
	for i := 0; i < n6; i++ {
		p = append(p, fmt.Sprintf("[2001:db8::%x]:443", i+1))
	}
	for i := 0; i < nu; i++ {
		if i%2 == 0 {
			p = append(p, fmt.Sprintf("backend-%d.example.test:443", i))
		} else {
			p = append(p, fmt.Sprintf("/run/c34/sock%d", i))
		}
	}
	rng.Shuffle(len(p), func(i, j int) { p[i], p[j] = p[j], p[i] })
	return p
}

// ---- one scripted event = begin, act on the real policy, settle, judge

func (h *harness) begin() time.Time {
	h.m.beginOp()
	h.mark = h.cc.Len()
	return time.Now()
}

func (h *harness) settleAndJudge() {
	synctest.Wait()
	h.judge()
}

func (h *harness) opUpdate(u updateIn) {
	now := h.begin()
	in := u.input()
	list := preprocess(in)
	if len(dedup(in)) != len(in) {
		h.dupInputs++
	}
	for _, a := range list {
		h.famsSeen[family(a)] = true
	}
	h.opf("resolver update endpoints=%v addrs=%v both=%v health=%v cfg=%v -> reference list %v", u.eps, u.flat, u.both, u.health, u.withCfg, list)
	h.m.update(list, u.health, now)
	h.updates++
	if len(list) == 0 {
		h.emptyUpdates++
	}
	err := h.b.UpdateClientConnState(u.state())
	if len(list) == 0 && err == nil {
		h.violate("empty-update-accepted", "an empty resolver update returned no error")
	}
	if len(list) > 0 && err != nil {
		h.violate("update-rejected", "resolver update %v was rejected: %v", in, err)
	}
	h.settleAndJudge()
}

func (h *harness) opResolverError() {
	h.begin()
	h.opf("resolver error")
	if h.m.mac == mInit {
		h.m.initTouched = true
	}
	h.resolverErrors++
	h.b.ResolverError(errors.New("c34 resolver error"))
	h.settleAndJudge()
}

func (h *harness) opDeliver(sc *lbfake.SubConn, st connectivity.State) {
	now := h.begin()
	stale := h.m.deliver(sc, st, now)
	if stale {
		h.staleDeliveries++
	}
	h.opf("deliver %v to %v (stale=%v)", st, sc, stale)
	if st == connectivity.TransientFailure {
		h.everFailed[sc] = true
	}
	ss := balancer.SubConnState{ConnectivityState: st}
	if st == connectivity.TransientFailure {
		ss.ConnectionError = fmt.Errorf("connect to %s failed", sc.Addr().Addr)
	}
	sc.Deliver(ss)
	h.settleAndJudge()
}

func (h *harness) opHealth(st connectivity.State) {
	s := h.m.selected
	if s == nil || s.sc == nil || !s.sc.HealthRegistered() {
		return
	}
	h.begin()
	h.opf("health %v on %v", st, s.sc)
	h.m.healthState = &st
	h.healthDeliveries++
	ss := balancer.SubConnState{ConnectivityState: st}
	if st == connectivity.TransientFailure {
		ss.ConnectionError = errors.New("unhealthy")
	}
	s.sc.DeliverHealth(ss)
	h.settleAndJudge()
}

func (h *harness) opAdvance(d time.Duration) {
	now := h.begin()
	h.opf("advance %v", d)
	h.m.advance(now.Add(d))
	time.Sleep(d)
	h.settleAndJudge()
}

func (h *harness) opExitIdle(viaPick bool) {
	now := h.begin()
	h.opf("ExitIdle viaPick=%v (macro %v)", viaPick, h.m.mac)
	st, n := h.cc.LastState()
	if viaPick {
		if n == 0 || st.Picker == nil {
			return
		}
		h.picks++
		h.m.exitIdle(now)
		res, err := st.Picker.Pick(balancer.PickInfo{})
		if err == nil && res.SubConn != nil && h.m.mac != mReady {
			h.violate("picker-returned-non-ready-subconn", "picker published with %v returned %v while no subchannel is READY", st.ConnectivityState, res.SubConn)
		}
	} else {
		h.m.exitIdle(now)
		h.b.ExitIdle()
	}
	h.settleAndJudge()
}

// judge compares what the policy did since h.mark with the model's expectations.
func (h *harness) judge() {
	if h.bad {
		return
	}
	h.qchecks++
	h.applyVerdict(h.judgeModel(h.m))
}

// verdict is the outcome of judging the events since h.mark against one model.
type verdict struct {
	key, msg string // key == "": the model explains what was observed
	flags    []flagRec
}

type flagRec struct{ key, msg string }

func (h *harness) applyVerdict(v verdict) {
	for _, f := range v.flags {
		h.flag(f.key, "%s", f.msg)
		h.stickyFindingHits++
	}
	if v.key != "" {
		h.violate(v.key, "%s", v.msg)
	}
}

// judgeModel has no side effects on the harness; it binds newly created
// subchannels into m (which may be a clone).
func (h *harness) judgeModel(m *model) (v verdict) {
	fail := func(key, format string, args ...any) verdict {
		v.key, v.msg = key, fmt.Sprintf(format, args...)
		return v
	}
	evs := h.cc.Since(h.mark)
	readyDone := false // the policy visibly processed the READY of this event
	ord, set := m.expOrdered, append([]expConn(nil), m.expSet...)
	seenShut := map[*lbfake.SubConn]bool{}
	regSeen := false
	for _, e := range evs {
		switch e.Kind {
		case lbfake.NewSubConn:
			if readyDone {
				return fail("attempt-after-ready", "NewSubConn(%v) at t=%v was logged AFTER pick_first had processed the READY of %v: a cancelled attempt timer still acted", e.Addrs, e.At.Sub(h.start), m.selected.sc)
			}
			if len(e.Addrs) != 1 {
				return fail("subconn-with-many-addresses", "NewSubConn with %d addresses", len(e.Addrs))
			}
		case lbfake.Connect:
			a := e.SC.Addr().Addr
			if readyDone {
				return fail("attempt-after-ready", "Connect on %s at t=%v was logged AFTER pick_first had processed the READY of %v (shut the others down / reported): a cancelled attempt timer still acted", a, e.At.Sub(h.start), m.selected.sc)
			}
			var want expConn
			inSet := -1
			for i, x := range set {
				if x.addr == a {
					inSet = i
				}
			}
			switch {
			case len(ord) > 0 && ord[0].addr != a && inSet >= 0:
				// an unordered expectation (re-connect of an IDLE subchannel when a pass
				// ended) may precede the ordered attempts of a pass that a later event
				// of the same instant started
				want = set[inSet]
				set = append(set[:inSet], set[inSet+1:]...)
			case len(ord) > 0:
				want, ord = ord[0], ord[1:]
				if want.addr != a {
					return fail("connect-out-of-order", "Connect on %s, but the next attempt of this pass must go to %s (reference order %v)", a, want.addr, m.list)
				}
			default:
				j := -1
				for i, x := range set {
					if x.addr == a {
						j = i
					}
				}
				if j < 0 {
					key := "unexpected-connect"
					if h.connectsThisOp(evs, a) > 1 {
						key = "second-attempt-on-address"
					}
					return fail(key, "Connect on %s at t=%v which the reference model does not allow now", a, e.At.Sub(h.start))
				}
				want = set[j]
				set = append(set[:j], set[j+1:]...)
			}
			if !e.At.Equal(want.at) {
				return fail("connect-at-wrong-time", "Connect on %s happened at t=%v, the reference expects t=%v", a, e.At.Sub(h.start), want.at.Sub(h.start))
			}
			s := m.live[a]
			if s == nil {
				// attempted and dropped within this very event (timer-driven attempt
				// immediately followed by READY / Close / a new list at the same instant)
				for _, d := range m.droppedNew {
					if d.addr == a && d.sc == nil {
						d.sc = e.SC
						m.expShutdown[e.SC] = true
						s = d
						break
					}
				}
				if s != nil || m.expShutdown[e.SC] {
					// (or a known subchannel that was attempted and then dropped at this instant)
					continue
				}
			}
			if s == nil {
				return fail("connect-on-dropped-subconn", "Connect on %s which is not a subchannel pick_first should hold", a)
			}
			if s.sc == nil {
				if e.SC.IsShutdown() {
					return fail("connect-on-shutdown-subconn", "Connect on the already shut down %v", e.SC)
				}
				s.sc = e.SC
			} else if s.sc != e.SC {
				return fail("connect-on-wrong-subconn", "Connect on %v, but the live subchannel of %s is %v", e.SC, a, s.sc)
			}
		case lbfake.Shutdown:
			if !m.expShutdown[e.SC] {
				key := "unexpected-shutdown"
				if m.selected != nil && m.selected.sc == e.SC {
					key = "ready-subconn-shutdown"
				}
				return fail(key, "%v was shut down although the reference keeps it", e.SC)
			}
			seenShut[e.SC] = true
			if m.selectedThisOp {
				readyDone = true
			}
		case lbfake.RegisterHealthListener:
			if m.expRegister == nil || m.expRegister.sc != e.SC {
				return fail("unexpected-health-listener", "health listener registered on %v", e.SC)
			}
			regSeen = true
		case lbfake.UpdateState:
			if m.selectedThisOp {
				readyDone = true
			}
			// sticky TRANSIENT_FAILURE: nothing but TF while sticky, unless this very event ends it
			if m.wasSticky && !m.endsSticky && e.State.ConnectivityState != connectivity.TransientFailure {
				if fresh := h.freshConnecting(evs); fresh != nil && e.State.ConnectivityState == connectivity.Connecting {
					// finding F-C34-1 (see RESULTS.md / final report): CONNECTING of a subchannel that
					// never failed (created by a resolver update that arrived in sticky TF)
					// is reported to the channel.  Flag it, then follow the implementation so
					// that the rest of the history is still judged.
					v.flags = append(v.flags, flagRec{"sticky-tf-broken-by-new-subconn-connecting", fmt.Sprintf("reported CONNECTING while in sticky TRANSIENT_FAILURE: subchannel %v, created after the policy entered TRANSIENT_FAILURE, reported CONNECTING and no subchannel became READY", fresh)})
					m.mac = mConnecting
					m.wasSticky = false
					continue
				}
				return fail("sticky-tf-broken", "reported %v while in sticky TRANSIENT_FAILURE (no subchannel became READY since every address failed)", e.State.ConnectivityState)
			}
		}
	}
	if len(ord) > 0 || len(set) > 0 {
		return fail("connect-missing", "expected connection attempts did not happen: ordered %v, unordered %v", names(ord, h.start), names(set, h.start))
	}
	for sc := range m.expShutdown {
		if !seenShut[sc] {
			key := "subconn-not-shutdown"
			if m.selected != nil {
				key = "others-not-shutdown-after-ready"
			}
			return fail(key, "%v must be shut down now (macro %v) but Shutdown was not called", sc, m.mac)
		}
	}
	if m.expRegister != nil && !regSeen {
		return fail("health-listener-missing", "READY subchannel %v: no health listener registered although the resolver enabled it", m.expRegister.sc)
	}
	if m.closed {
		for _, sc := range h.cc.SubConns() {
			if !sc.IsShutdown() {
				return fail("subconn-not-shutdown", "%v survived Close of the policy", sc)
			}
		}
		return v
	}
	// quiescent-point facts
	st, n := h.cc.LastState()
	if want, ok := m.expected(); ok {
		if n == 0 || st.ConnectivityState != want {
			got := "nothing"
			if n > 0 {
				got = st.ConnectivityState.String()
			}
			key := "reported-state-mismatch"
			switch {
			case m.mac == mStickyTF && m.passEnds > 0 && !m.wasSticky:
				key = "no-tf-after-all-failed"
			case m.mac == mStickyTF:
				key = "sticky-tf-broken"
			case n > 0 && st.ConnectivityState == connectivity.Ready:
				key = "ready-reported-without-ready-subconn"
			}
			return fail(key, "channel sees %s, reference says %v (macro %v)", got, want, m.mac)
		}
	} else if n != 0 {
		return fail("reported-state-mismatch", "a state (%v) was reported before any resolver data arrived", st.ConnectivityState)
	}
	if n > 0 && st.ConnectivityState != connectivity.Idle && st.Picker != nil {
		res, err := st.Picker.Pick(balancer.PickInfo{})
		gotSC, _ := res.SubConn.(*lbfake.SubConn)
		if err == nil && res.SubConn != nil {
			last, _ := gotSC.Last()
			if gotSC == nil || m.selected == nil || m.selected.sc != gotSC || gotSC.IsShutdown() || last.ConnectivityState != connectivity.Ready {
				return fail("picker-returned-non-ready-subconn", "picker (state %v) returned %v: shutdown=%v last delivered=%v", st.ConnectivityState, res.SubConn, gotSC != nil && gotSC.IsShutdown(), last.ConnectivityState)
			}
		} else if st.ConnectivityState == connectivity.Ready {
			return fail("ready-picker-returns-nothing", "state READY but the picker returned (%v, %v)", res.SubConn, err)
		}
	}
	if m.selected != nil {
		for _, sc := range h.cc.SubConns() {
			if sc != m.selected.sc && !sc.IsShutdown() {
				return fail("others-not-shutdown-after-ready", "%v is READY but %v is still alive", m.selected.sc, sc)
			}
		}
	}
	return v
}

func (h *harness) connectsThisOp(evs []lbfake.Event, addr string) int {
	n := 0
	for _, e := range evs {
		if e.Kind == lbfake.Connect && e.SC.Addr().Addr == addr {
			n++
		}
	}
	return n
}

func names(l []expConn, start time.Time) []string {
	var out []string
	for _, x := range l {
		out = append(out, fmt.Sprintf("%s@%v", x.addr, x.at.Sub(start)))
	}
	return out
}

// ---------------------------------------------------------------- events racing with the attempt timer

// raceEvent is a scripted event that is delivered at EXACTLY the virtual
// instant at which the happy-eyeballs attempt timer expires: the script
// goroutine time.Sleep()s until that instant, so it becomes runnable together
// with the timer's AfterFunc goroutine and genuinely races with it for the
// policy's mutex.  Both orders are legal on correct code, so the observation at
// the following quiescent point is judged against two reference runs
// (timer-then-event, event-then-timer-if-still-armed) and must match one.  A
// timer the event cancelled must not act afterwards.
type raceEvent struct {
	kind  string
	desc  string
	model func(m *model, now time.Time)
	real  func()
}

func (h *harness) evDeliver(sc *lbfake.SubConn, st connectivity.State) raceEvent {
	return raceEvent{
		kind: "deliver-" + st.String(),
		desc: fmt.Sprintf("deliver %v to %v", st, sc),
		model: func(m *model, now time.Time) {
			m.deliver(sc, st, now)
		},
		real: func() {
			if st == connectivity.TransientFailure {
				h.everFailed[sc] = true
			}
			ss := balancer.SubConnState{ConnectivityState: st}
			if st == connectivity.TransientFailure {
				ss.ConnectionError = fmt.Errorf("connect to %s failed", sc.Addr().Addr)
			}
			sc.Deliver(ss)
		},
	}
}

func (h *harness) evUpdate(u updateIn) raceEvent {
	list := preprocess(u.input())
	return raceEvent{
		kind:  "resolver-update",
		desc:  fmt.Sprintf("resolver update -> reference list %v (health=%v)", list, u.health),
		model: func(m *model, now time.Time) { m.update(list, u.health, now) },
		real: func() {
			h.updates++
			err := h.b.UpdateClientConnState(u.state())
			if (len(list) == 0) != (err != nil) {
				h.violate("update-result-wrong", "resolver update %v returned %v", u.input(), err)
			}
		},
	}
}

func (h *harness) evResolverError() raceEvent {
	return raceEvent{
		kind: "resolver-error", desc: "resolver error",
		model: func(m *model, _ time.Time) {
			if m.mac == mInit {
				m.initTouched = true
			}
		},
		real: func() { h.resolverErrors++; h.b.ResolverError(errors.New("c34 resolver error")) },
	}
}

func (h *harness) evExitIdle() raceEvent {
	return raceEvent{
		kind: "exit-idle", desc: "ExitIdle",
		model: func(m *model, now time.Time) { m.exitIdle(now) },
		real:  func() { h.b.ExitIdle() },
	}
}

func (h *harness) evClose() raceEvent {
	return raceEvent{
		kind: "close", desc: "Close",
		model: func(m *model, _ time.Time) {
			m.shutdownOthers(nil)
			m.selected, m.closed = nil, true
		},
		real: func() { h.b.Close() },
	}
}

// opRace delivers ev at the instant the armed attempt timer expires.  It
// returns false (and does nothing) if no timer is armed.
func (h *harness) opRace(ev raceEvent) bool {
	if h.bad || !h.m.timerArmed {
		return false
	}
	now := h.begin()
	T := h.m.timerAt
	if !T.After(now) {
		return false
	}
	a := h.m.clone() // the timer's callback takes the policy's mutex first
	a.beginOp()
	a.advance(T)
	ev.model(a, T)
	a.advance(T)
	b := h.m.clone() // the event takes it first (and usually cancels the timer)
	b.beginOp()
	ev.model(b, T)
	b.advance(T)
	h.opf("RACE at the timer instant (+%v): %s", T.Sub(now), ev.desc)
	time.Sleep(T.Sub(now)) // wakes at the same virtual instant as the timer's AfterFunc
	ev.real()
	synctest.Wait()
	if h.bad {
		return true
	}
	h.qchecks++
	h.races++
	h.r.Count("race_events_at_timer_instant", 1)
	h.r.Count("race_kind_"+ev.kind, 1)
	va, vb := h.judgeModel(a), h.judgeModel(b)
	switch {
	case va.key == "" && vb.key == "":
		h.r.Count("race_order_indistinguishable", 1)
		h.m = a
		h.applyVerdict(va)
	case va.key == "":
		h.r.Count("race_order_timer_first", 1)
		h.r.Count("race_order_timer_first_"+ev.kind, 1)
		h.raceTimerFirst++
		h.m = a
		h.applyVerdict(va)
	case vb.key == "":
		h.r.Count("race_order_event_first", 1)
		h.r.Count("race_order_event_first_"+ev.kind, 1)
		h.raceEventFirst++
		h.m = b
		h.applyVerdict(vb)
	default:
		key := vb.key
		if va.key == "attempt-after-ready" {
			key = va.key
		}
		h.violate(key, "event %q delivered at the attempt timer's instant: the outcome matches neither legal order. If the timer ran first: [%s] %s. If the event ran first (timer cancelled): [%s] %s", ev.desc, va.key, va.msg, vb.key, vb.msg)
	}
	return true
}

// randomRace picks an event to race with the armed timer.
func (h *harness) randomRace() bool {
	if !h.m.timerArmed {
		return false
	}
	rng := h.rng
	x := rng.Intn(100)
	switch {
	case x < 70:
		// a legal transition of a live subchannel; READY of an in-flight one preferred
		type cand struct {
			sc *lbfake.SubConn
			st connectivity.State
		}
		var ready, other []cand
		for _, sc := range h.cc.SubConns() {
			if sc.IsShutdown() {
				continue
			}
			for _, st := range sc.NextStates() {
				if st == connectivity.Ready {
					ready = append(ready, cand{sc, st})
				} else {
					other = append(other, cand{sc, st})
				}
			}
		}
		var c cand
		switch {
		case len(ready) > 0 && (len(other) == 0 || rng.Intn(3) != 0):
			c = ready[rng.Intn(len(ready))]
		case len(other) > 0:
			c = other[rng.Intn(len(other))]
		default:
			return false
		}
		return h.opRace(h.evDeliver(c.sc, c.st))
	case x < 85:
		u := h.genUpdate(6)
		if rng.Intn(8) == 0 {
			u = updateIn{}
		}
		return h.opRace(h.evUpdate(u))
	case x < 92:
		return h.opRace(h.evResolverError())
	default:
		return h.opRace(h.evExitIdle())
	}
}

// ---------------------------------------------------------------- family "race": READY (mostly) exactly at the timer instant

func runRaceCase(t *testing.T, r *vlib.Run, i int) {
	const fam = "race"
	rng := r.Rand(fam, i)
	r.Progress(fam, i, "")
	synctest.Test(t, func(t *testing.T) {
		h := newHarness(r, fam, i, rng)
		// 3..6 distinct addresses of mixed families
		h.pool = nil
		for k := 0; k < 3; k++ {
			h.pool = append(h.pool, fmt.Sprintf("10.2.0.%d:80", k+1), fmt.Sprintf("[fd02::%x]:80", k+1))
		}
		rng.Shuffle(len(h.pool), func(a, b int) { h.pool[a], h.pool[b] = h.pool[b], h.pool[a] })
		n := 3 + rng.Intn(4)
		u := updateIn{flat: append([]string(nil), h.pool[:n]...), health: rng.Intn(4) == 0}
		h.opUpdate(u)
		inflight := func() []*lbfake.SubConn {
			var out []*lbfake.SubConn
			for _, sc := range h.cc.SubConns() {
				if l, ok := sc.Last(); ok && !sc.IsShutdown() && l.ConnectivityState == connectivity.Connecting {
					out = append(out, sc)
				}
			}
			return out
		}
		connectAll := func() {
			for _, sc := range h.cc.SubConns() {
				if !sc.IsShutdown() && !h.bad {
					if ns := sc.NextStates(); len(ns) == 1 && ns[0] == connectivity.Connecting {
						h.opDeliver(sc, connectivity.Connecting)
					}
				}
			}
		}
		connectAll()
		// let 0..2 timer periods pass un-raced so that a later address is the one being attempted
		for k := rng.Intn(3); k > 0 && h.m.timerArmed && h.m.idx+2 < len(h.m.list) && !h.bad; k-- {
			h.opAdvance(attemptDelay)
			connectAll()
		}
		// the raced event: mostly READY of an in-flight subchannel with addresses remaining
		rounds := 1 + rng.Intn(3)
		for k := 0; k < rounds && !h.bad && h.m.timerArmed; k++ {
			fl := inflight()
			if len(fl) == 0 {
				break
			}
			sc := fl[rng.Intn(len(fl))]
			switch x := rng.Intn(10); {
			case x < 7 || k == rounds-1:
				h.opRace(h.evDeliver(sc, connectivity.Ready))
			case x < 9:
				h.opRace(h.evDeliver(sc, connectivity.TransientFailure))
			default:
				h.opRace(h.evUpdate(updateIn{flat: append([]string(nil), h.pool[:2+rng.Intn(4)]...)}))
			}
			connectAll()
		}
		// whatever happened, a cancelled timer must stay silent later on
		if !h.bad {
			h.opAdvance(time.Second)
		}
		if h.m.selected != nil && !h.bad && rng.Intn(2) == 0 {
			h.opDeliver(h.m.selected.sc, connectivity.Idle)
			h.opExitIdle(true)
			connectAll()
			if fl := inflight(); len(fl) > 0 && h.m.timerArmed {
				h.opRace(h.evDeliver(fl[0], connectivity.Ready))
			}
		}
		h.finish()
		h.account(fam)
	})
}

// ---------------------------------------------------------------- family "hist": random histories

func (h *harness) randomStep() {
	rng := h.rng
	if h.m.timerArmed && rng.Intn(6) == 0 && h.randomRace() {
		return
	}
	x := rng.Intn(100)
	switch {
	case x < 11:
		u := h.genUpdate(8)
		if rng.Intn(12) == 0 {
			u = updateIn{flat: nil}
			if rng.Intn(2) == 0 {
				u.eps = [][]string{}
			}
		}
		h.opUpdate(u)
	case x < 14:
		h.opResolverError()
	case x < 64:
		h.stepDeliver()
	case x < 80:
		h.opAdvance(vlib.Pick(rng, 50*time.Millisecond, 100*time.Millisecond, 250*time.Millisecond, 250*time.Millisecond, 300*time.Millisecond, time.Second, 3*time.Second))
	case x < 83:
		h.opExitIdle(false)
	case x < 88:
		h.opExitIdle(true)
	default:
		h.opHealth(vlib.Pick(rng, connectivity.Ready, connectivity.Ready, connectivity.Connecting, connectivity.TransientFailure))
	}
}

// stepDeliver delivers one legal next state on some subchannel (sometimes a
// stale one that the policy already shut down, sometimes the final SHUTDOWN).
func (h *harness) stepDeliver() {
	rng := h.rng
	type cand struct {
		sc *lbfake.SubConn
		st connectivity.State
	}
	var liveC, staleC []cand
	for _, sc := range h.cc.SubConns() {
		if sc.IsShutdown() {
			for _, st := range sc.NextStatesStale() {
				staleC = append(staleC, cand{sc, st})
			}
			for _, st := range sc.NextStates() {
				staleC = append(staleC, cand{sc, st})
			}
			continue
		}
		for _, st := range sc.NextStates() {
			liveC = append(liveC, cand{sc, st})
			if st == connectivity.TransientFailure {
				liveC = append(liveC, cand{sc, st}) // failures twice as likely as successes
			}
		}
		if last, ok := sc.Last(); ok && last.ConnectivityState == connectivity.Connecting && rng.Intn(25) == 0 {
			liveC = append(liveC, cand{sc, connectivity.Idle}) // grpc-go issue #7862
		}
	}
	var c cand
	switch {
	case len(liveC) > 0 && (len(staleC) == 0 || rng.Intn(6) != 0):
		c = liveC[rng.Intn(len(liveC))]
	case len(staleC) > 0:
		c = staleC[rng.Intn(len(staleC))]
	default:
		h.opAdvance(attemptDelay)
		return
	}
	h.opDeliver(c.sc, c.st)
}

func newHarness(r *vlib.Run, fam string, i int, rng *rand.Rand) *harness {
	h := &harness{r: r, fam: fam, idx: i, rng: rng, m: newModel(), famsSeen: map[afam]bool{}, everFailed: map[*lbfake.SubConn]bool{}}
	h.start = time.Now()
	h.cc = lbfake.New("c34:///svc")
	h.b = balancer.Get(pickfirst.Name).Build(h.cc, h.cc.BuildOptions())
	h.pool = makePool(rng)
	return h
}

func (h *harness) finish() {
	if h.m.timerArmed && !h.bad && h.rng.Intn(2) == 0 {
		h.opRace(h.evClose()) // Close exactly when the attempt timer expires
	}
	if !h.m.closed {
		h.begin()
		h.opf("Close")
		h.m.shutdownOthers(nil)
		h.m.selected = nil
		h.b.Close()
		synctest.Wait()
	}
	if !h.bad {
		for _, sc := range h.cc.SubConns() {
			if !sc.IsShutdown() {
				h.violate("subconn-not-shutdown", "%v survived Close of the policy", sc)
				break
			}
		}
	}
	// nothing may happen after Close, not even when timers would have fired
	mark := h.cc.Len()
	time.Sleep(2 * time.Second)
	synctest.Wait()
	if !h.bad {
		for _, e := range h.cc.Since(mark) {
			h.violate("activity-after-close", "after Close the policy still did %s", e)
			break
		}
	}
	h.cc.Release()
}

func b3(n int) int {
	switch {
	case n == 0:
		return 0
	case n < 3:
		return 1
	default:
		return 2
	}
}

func (h *harness) account(prefix string) {
	r, m := h.r, h.m
	r.Eval(1)
	r.Count("events_scripted", int64(len(h.ops)))
	r.Count("quiescent_checks", int64(h.qchecks))
	r.Count("passes_started", int64(m.passes))
	r.Count("passes_ended_all_failed", int64(m.passEnds))
	r.Count("happy_eyeballs_timer_fires", int64(m.timerFires))
	r.Count("reused_subconn_in_tf_skipped", int64(m.reusedTF))
	r.Count("reused_subconn_connecting_waited", int64(m.reusedConnecting))
	r.Count("subconn_ready", int64(m.readies))
	r.Count("ready_or_connecting_subconn_lost", int64(m.lost))
	r.Count("stale_deliveries", int64(h.staleDeliveries))
	r.Count("health_deliveries", int64(h.healthDeliveries))
	r.Count("resolver_updates", int64(h.updates))
	r.Count("resolver_updates_empty", int64(h.emptyUpdates))
	r.Count("resolver_updates_with_duplicates", int64(h.dupInputs))
	r.Count("resolver_errors", int64(h.resolverErrors))
	r.Count("picks_on_idle_picker", int64(h.picks))
	r.Count("subconns_created", int64(len(h.cc.SubConns())))
	r.Count("finding_sticky_tf_new_subconn_hits", int64(h.stickyFindingHits))
	r.Max("max_attempts_in_one_pass", int64(m.maxAttempted))
	if m.maxAttempted >= 2 && (m.timerFires > 0 || m.passEnds > 0 || m.readies > 0) {
		r.Nontrivial(fmt.Sprintf("%s/p%d/t%d/e%d/r%d/l%d/rt%d/rc%d/st%d/h%d/f%d/rtf%d/ref%d", prefix, b3(m.passes), b3(m.timerFires), b3(m.passEnds), b3(m.readies),
			b3(m.lost), b3(m.reusedTF), b3(m.reusedConnecting), b3(h.staleDeliveries), b3(h.healthDeliveries), len(h.famsSeen), b3(h.raceTimerFirst), b3(h.raceEventFirst)))
	}
}

func runHistCase(t *testing.T, r *vlib.Run, i int) {
	const fam = "hist"
	rng := r.Rand(fam, i)
	r.Progress(fam, i, "")
	synctest.Test(t, func(t *testing.T) {
		h := newHarness(r, fam, i, rng)
		n := 10 + rng.Intn(70)
		if rng.Intn(5) != 0 {
			h.opUpdate(h.genUpdate(8))
		}
		for s := 0; s < n && !h.bad; s++ {
			h.randomStep()
		}
		h.finish()
		h.account(fam)
		if i < 2 {
			r.Sample(map[string]any{"family": fam, "case": i, "ops": h.ops})
		}
	})
}

// ---------------------------------------------------------------- family "order": the whole pre-processed order is made visible

// permOK reports whether observed can be produced from the input by SOME
// permutation of the endpoints (resp. of the addresses), followed by
// flatten, de-duplication and interleaving.
func permOK(u updateIn, observed []string) bool {
	if u.eps == nil {
		// any permutation of the addresses, then dedup (first occurrence) = any
		// permutation of the distinct addresses; interleaving is idempotent
		a, b := dedup(u.flat), append([]string(nil), observed...)
		sort.Strings(a)
		sort.Strings(b)
		return equalStrings(a, b) && equalStrings(interleave(observed), observed)
	}
	n := len(u.eps)
	perm := make([]int, n)
	for i := range perm {
		perm[i] = i
	}
	var rec func(k int) bool
	rec = func(k int) bool {
		if k == n {
			e := make([][]string, n)
			for i, p := range perm {
				e[i] = u.eps[p]
			}
			return equalStrings(preprocess(flatten(e)), observed)
		}
		for i := k; i < n; i++ {
			perm[k], perm[i] = perm[i], perm[k]
			if rec(k + 1) {
				return true
			}
			perm[k], perm[i] = perm[i], perm[k]
		}
		return false
	}
	return rec(0)
}

func runOrderCase(t *testing.T, r *vlib.Run, i int) {
	const fam = "order"
	rng := r.Rand(fam, i)
	r.Progress(fam, i, "")
	synctest.Test(t, func(t *testing.T) {
		h := newHarness(r, fam, i, rng)
		h.pool = nil
		for k := 0; k < 4; k++ {
			h.pool = append(h.pool, fmt.Sprintf("10.1.0.%d:80", k+1), fmt.Sprintf("[fd00::%x]:80", k+1))
		}
		h.pool = append(h.pool, "svc-a.example.test:80", "svc-b.example.test:80", "/run/c34/x.sock")
		rng.Shuffle(len(h.pool), func(a, b int) { h.pool[a], h.pool[b] = h.pool[b], h.pool[a] })
		u := h.genUpdate(8)
		u.health = false
		u.shuffle = i%2 == 1
		if u.shuffle && u.eps != nil && len(u.eps) > 6 {
			u.eps = u.eps[:6]
		}
		in := u.input()
		distinct := dedup(in)
		h.opf("order case: endpoints=%v addrs=%v shuffle=%v", u.eps, u.flat, u.shuffle)
		// drive the real policy: every attempt fails at once, so the Connect sequence IS the pre-processed list
		if err := h.b.UpdateClientConnState(u.state()); err != nil {
			h.violate("update-rejected", "resolver update %v was rejected: %v", in, err)
		}
		synctest.Wait()
		var observed []string
		seen := map[*lbfake.SubConn]bool{}
		for step := 0; step <= len(in)+1 && !h.bad; step++ {
			var next *lbfake.SubConn
			for _, e := range h.cc.Events() {
				if e.Kind == lbfake.Connect && !seen[e.SC] {
					next = e.SC
					break
				}
			}
			if next == nil {
				break
			}
			seen[next] = true
			observed = append(observed, next.Addr().Addr)
			next.Deliver(balancer.SubConnState{ConnectivityState: connectivity.Connecting})
			synctest.Wait()
			if len(observed) == len(distinct) {
				break // leave the last one CONNECTING: nothing else may be attempted
			}
			next.Deliver(balancer.SubConnState{ConnectivityState: connectivity.TransientFailure, ConnectionError: errors.New("refused")})
			synctest.Wait()
		}
		// all Connects so far, in log order, must be exactly `observed` (one attempt per address)
		var all []string
		for _, e := range h.cc.Events() {
			if e.Kind == lbfake.Connect {
				all = append(all, e.SC.Addr().Addr)
			}
		}
		ref := preprocess(in)
		switch {
		case h.bad:
		case !equalStrings(all, observed):
			h.violate("second-attempt-on-address", "Connect calls %v differ from one attempt per address %v", all, observed)
		case len(dedup(observed)) != len(observed):
			h.violate("second-attempt-on-address", "an address was attempted twice in one pass: %v", observed)
		case !u.shuffle && !equalStrings(observed, ref):
			key := "preprocessing-order-wrong"
			a, b := append([]string(nil), observed...), append([]string(nil), ref...)
			sort.Strings(a)
			sort.Strings(b)
			if !equalStrings(a, b) {
				key = "preprocessing-not-a-permutation"
			}
			h.violate(key, "connection attempts went to %v, reference interleave(dedup(input)) is %v (input %v)", observed, ref, in)
		case u.shuffle && !permOK(u, observed):
			h.violate("preprocessing-order-wrong", "with shuffling on, attempts went to %v, which no permutation of the input %v (endpoints %v) explains", observed, in, u.eps)
		}
		if !h.bad {
			// now fail the last one: every address failed => TRANSIENT_FAILURE, and it sticks
			last := h.cc.SubConns()[len(h.cc.SubConns())-1]
			for _, sc := range h.cc.SubConns() {
				if l, ok := sc.Last(); ok && l.ConnectivityState == connectivity.Connecting {
					last = sc
				}
			}
			last.Deliver(balancer.SubConnState{ConnectivityState: connectivity.TransientFailure, ConnectionError: errors.New("refused")})
			synctest.Wait()
			if st, n := h.cc.LastState(); n == 0 || st.ConnectivityState != connectivity.TransientFailure {
				h.violate("no-tf-after-all-failed", "every one of %v failed but the channel sees %v", observed, st.ConnectivityState)
			}
		}
		if !h.bad {
			// backoff ends on the first subchannel: it must be reconnected, and CONNECTING must not be reported
			mark := h.cc.Len()
			first := h.cc.SubConns()[0]
			first.Deliver(balancer.SubConnState{ConnectivityState: connectivity.Idle})
			synctest.Wait()
			if ns := first.NextStates(); len(ns) == 1 && ns[0] == connectivity.Connecting {
				first.Deliver(balancer.SubConnState{ConnectivityState: connectivity.Connecting})
				synctest.Wait()
			} else {
				h.violate("connect-missing", "after the first pass %v went IDLE and was not asked to reconnect", first)
			}
			for _, e := range h.cc.Since(mark) {
				if e.Kind == lbfake.UpdateState && e.State.ConnectivityState != connectivity.TransientFailure {
					h.violate("sticky-tf-broken", "reported %v while in sticky TRANSIENT_FAILURE", e.State.ConnectivityState)
					break
				}
			}
		}
		h.b.Close()
		synctest.Wait()
		h.cc.Release()
		r.Eval(1)
		r.Count("order_cases", 1)
		r.Count("order_addresses_attempted", int64(len(observed)))
		if len(dedup(in)) != len(in) {
			r.Count("order_inputs_with_duplicates", 1)
		}
		fs := map[afam]bool{}
		for _, a := range observed {
			fs[family(a)] = true
		}
		if u.shuffle {
			r.Count("order_cases_shuffled", 1)
			if !equalStrings(observed, ref) {
				r.Count("order_shuffled_differs_from_unshuffled", 1)
			}
		}
		if len(observed) >= 2 {
			r.Nontrivial(fmt.Sprintf("order/n%d/f%d/dup%v/ep%v/sh%v", len(observed), len(fs), len(dedup(in)) != len(in), u.eps != nil, u.shuffle))
		}
		if i < 2 {
			r.Sample(map[string]any{"family": fam, "case": i, "input": in, "endpoints": u.eps, "shuffle": u.shuffle, "observed_attempt_order": observed, "reference": ref})
		}
	})
}

// ---------------------------------------------------------------- family "scen": deterministic must-hit scenarios

// runScenario executes fixed scripts through the same judged operations, so
// every seed sees: a timer-driven second attempt, an all-failed pass with
// reconnects, sticky TF across a new list (old and NEW addresses), READY with
// the others shut down, loss of the READY subchannel, and reuse of CONNECTING
// and TRANSIENT_FAILURE subchannels by a new list.
func runScenario(t *testing.T, r *vlib.Run, i int) {
	const fam = "scen"
	r.Progress(fam, i, "")
	synctest.Test(t, func(t *testing.T) {
		h := newHarness(r, fam, i, r.Rand(fam, i))
		A, B, C, D := "10.0.0.1:443", "[2001:db8::1]:443", "10.0.0.2:443", "svc.example.test:443"
		last := func(addr string) *lbfake.SubConn {
			var out *lbfake.SubConn
			for _, sc := range h.cc.SubConns() {
				if sc.Addr().Addr == addr && !sc.IsShutdown() {
					out = sc
				}
			}
			return out
		}
		dl := func(addr string, sts ...connectivity.State) {
			for _, st := range sts {
				if sc := last(addr); sc != nil && !h.bad {
					h.opDeliver(sc, st)
				}
			}
		}
		cn, tf, rd, id := connectivity.Connecting, connectivity.TransientFailure, connectivity.Ready, connectivity.Idle
		switch i {
		case 0: // sticky TF must survive a new list with a NEW address
			h.opUpdate(updateIn{flat: []string{A}})
			dl(A, cn, tf)
			h.opUpdate(updateIn{flat: []string{A, B}})
			dl(B, cn, tf)
		case 1: // sticky TF with reconnecting old subchannels only
			h.opUpdate(updateIn{flat: []string{A, C}})
			dl(A, cn, tf)
			dl(C, cn, tf)
			dl(A, id, cn, tf, id, cn)
			h.opUpdate(updateIn{flat: []string{C, A}})
			dl(C, id, cn)
		case 2: // happy eyeballs timer, out-of-order failures, READY shuts the others down
			h.opUpdate(updateIn{eps: [][]string{{A, C}, {B}, {D}}, both: true})
			dl(A, cn)
			h.opAdvance(100 * time.Millisecond)
			h.opAdvance(150 * time.Millisecond)
			dl(B, cn)
			h.opAdvance(time.Second)
			dl(C, cn, tf)
			dl(A, tf)
			dl(D, cn, rd)
			dl(D, id)
			h.opExitIdle(true)
			dl(D, cn, tf)
		case 3: // health listener, READY kept by a new list, READY removed by a new list
			h.opUpdate(updateIn{flat: []string{A, B}, health: true})
			dl(A, cn, rd)
			h.opHealth(cn)
			h.opHealth(rd)
			h.opHealth(tf)
			h.opUpdate(updateIn{flat: []string{B, A, C}, health: true})
			h.opUpdate(updateIn{flat: []string{B, C}})
			dl(B, cn, rd)
		case 4: // reuse of CONNECTING and TRANSIENT_FAILURE subchannels, empty list, resolver errors
			h.opResolverError()
			h.opUpdate(updateIn{flat: []string{A, B, C}})
			dl(A, cn, tf)
			dl(B, cn)
			h.opUpdate(updateIn{flat: []string{A, B, C, A}})
			h.opAdvance(attemptDelay)
			dl(C, cn, tf)
			dl(B, tf)
			h.opResolverError()
			h.opUpdate(updateIn{flat: []string{}})
			h.opUpdate(updateIn{flat: []string{C}})
			dl(C, cn, id) // grpc-go #7862
			h.opExitIdle(false)
		}
		h.finish()
		h.account(fam)
	})
}

const nScenarios = 5

func TestVerifC34(t *testing.T) {
	r := vlib.Start(t, "C34")
	for i := 0; i < nScenarios; i++ {
		if r.Want("scen", i) {
			runScenario(t, r, i)
		}
	}
	nr := r.N(3000, 40000)
	for i := 0; i < nr; i++ {
		if r.Want("race", i) {
			runRaceCase(t, r, i)
		}
	}
	n := r.N(4000, 80000)
	for i := 0; i < n; i++ {
		if r.Want("hist", i) {
			runHistCase(t, r, i)
		}
	}
	n = r.N(1500, 30000)
	for i := 0; i < n; i++ {
		if r.Want("order", i) {
			runOrderCase(t, r, i)
		}
	}
	r.Finish(vlib.Spec{
		Level: "exploration",
		Rule:  "family scen: 5 fixed must-hit scripts judged by the same oracle. family race: 3-6 addresses, attempts in flight, then an event (70% READY of an in-flight subchannel with addresses remaining, else TF / a new list) is delivered at EXACTLY the virtual instant the 250ms attempt timer expires (the script goroutine sleeps until that instant and races with the timer's AfterFunc goroutine for the policy's mutex); the quiescent observation must match one of two reference runs (timer first / event first with the timer cancelled) and nothing may be attempted after the policy processed READY; 1/6 of the hist steps and half of the Close calls with an armed timer are raced the same way. family hist: PRNG histories (10-79 events) over the real pick_first inside a synctest bubble: resolver updates drawn from a per-case pool of v4/v6/non-IP addresses (1-8 addresses as Addresses or Endpoints, duplicates, overlapping lists so subchannels are reused, 1/12 empty, health listener on/off), resolver errors, legal subchannel transitions (incl. stale ones on shut-down subchannels, final SHUTDOWN, rare CONNECTING->IDLE), virtual-time advances of 50ms..3s that fire the 250ms attempt timer, ExitIdle, Pick on the idle picker, health updates; after each event synctest.Wait() and the Connect sequence (address, virtual time), Shutdown set, reported state, sticky-TF rule and picker are compared with the A61/A62 reference. family order: one update (odd cases: shuffleAddressList) whose attempts are failed one by one so the complete pre-processed order is observed and compared with interleave(dedup(input)) (shuffle: some endpoint/address permutation must explain it), then TF and stickiness. Non-trivial = a pass with >=2 attempted addresses and (a timer-driven attempt or an all-failed pass end or a READY); distinct = bucketed (passes, timer fires, pass ends, readies, losses, reuse kinds, stale deliveries, health, families) resp. (list length, families, duplicates, endpoints, shuffle)",
		Assumptions: []string{
			"reference model written from gRFC A61/A62 and RFC 8305 §4; an empty resolver update starts a new lifetime (R2 note in DESIGN.md)",
			"CONNECTING->IDLE of a subchannel (grpc-go #7862) counts as connected-then-lost, as the code documents",
			"subchannel events are delivered serially (the real channel's serializer); the attempt timer runs on virtual time",
			"shuffling itself (the distribution) is not judged, only that the result is a legal permutation",
			"events raced with the attempt timer: both serialisations (timer callback before / after the event) are accepted; which one happened is only counted (race_order_* counters)",
		},
		Floor: 40,
	})
}
