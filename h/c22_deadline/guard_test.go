package c22

import (
	"context"
	"errors"
	"fmt"
	"math/rand"
	"regexp"
	"runtime"
	"strconv"
	"strings"
	"sync"
	"sync/atomic"
	"testing"
	"testing/synctest"
	"time"

	"google.golang.org/grpc/verif/vlib"
)

// ---------------------------------------------------------------------------
// RPC contexts: the property quantifies over ALL contexts, so a share of them
// carries a custom cancellation cause (context.WithCancelCause /
// WithTimeoutCause / WithDeadlineCause), possibly on an ancestor.

var errCustomCause = errors.New("custom cause set by the application")

type ctxPlan struct {
	CancelCause bool   `json:"cancel_cause,omitempty"` // cancel through WithCancelCause(custom)
	DLKind      string `json:"dl_kind,omitempty"`      // "" WithTimeout | timeout-cause | deadline-cause
	Child       bool   `json:"child,omitempty"`        // the RPC context is a plain descendant of the above
}

func genCtxPlan(rng *rand.Rand) ctxPlan {
	if rng.Intn(2) == 0 {
		return ctxPlan{}
	}
	return ctxPlan{CancelCause: rng.Intn(3) != 0, DLKind: vlib.Pick(rng, "", "timeout-cause", "deadline-cause", "timeout-cause"), Child: rng.Intn(3) == 0}
}

type ctxKey struct{}

// buildCtx returns the RPC context and the function that cancels it the way
// the plan says (cancelling the root, so everything derived ends with it).
func buildCtx(base context.Context, p ctxPlan, deadline time.Duration) (context.Context, func()) {
	var cancel func()
	ctx := base
	if p.CancelCause {
		c, cc := context.WithCancelCause(ctx)
		ctx, cancel = c, func() { cc(errCustomCause) }
	} else {
		c, cf := context.WithCancel(ctx)
		ctx, cancel = c, cf
	}
	if deadline >= 0 {
		switch p.DLKind {
		case "timeout-cause":
			ctx, _ = context.WithTimeoutCause(ctx, deadline, errCustomCause)
		case "deadline-cause":
			ctx, _ = context.WithDeadlineCause(ctx, time.Now().Add(deadline), errCustomCause)
		default:
			ctx, _ = context.WithTimeout(ctx, deadline)
		}
	}
	if p.Child {
		ctx = context.WithValue(ctx, ctxKey{}, "child")
		ctx, _ = context.WithCancel(ctx)
	}
	return ctx, cancel
}

// ---------------------------------------------------------------------------
// Bubble guard.  A goroutine that spins (or parks on a sync.Mutex) keeps a
// bubble from ever quiescing: synctest.Wait and every virtual sleep of the
// case then block forever.  Each bubble therefore runs in its own goroutine,
// watched from OUTSIDE the bubble.  Real time only decides when to LOOK (the
// heartbeat has not moved for a while); the verdict comes from facts read from
// goroutine stacks over a series of snapshots:
//   - "spin": one and the same goroutine of the bubble is running/runnable
//     inside grpc code in every snapshot;
//   - "mutex": no goroutine of the bubble is running or runnable in any
//     snapshot and at least one is parked on a sync.Mutex in all of them — the
//     bubble is quiescent in fact, synctest just cannot see it.
// The case's own oracle is then evaluated at the frozen virtual instant.  If
// neither fact shows up the case is INCONCLUSIVE.  A wedged bubble cannot be
// recovered; it is abandoned (its goroutines leak until the process ends) and
// the run goes on with the next case.  A leaked spinner keeps allocating (the
// garbage collector then slows every later bubble by two orders of magnitude),
// so after an abandoned bubble the remaining families are skipped — the
// verdict is in by then.

type hb struct {
	beats   atomic.Int64
	bubble  atomic.Int64
	virtNow atomic.Int64
	mu      sync.Mutex
	onWedge func(kind, fn string) bool
}

var bubbleRE = regexp.MustCompile(`synctest bubble (\d+)`)
var headRE = regexp.MustCompile(`^goroutine (\d+) \[([^\]]*)\]:`)

func (h *hb) enter() {
	buf := make([]byte, 4096)
	n := runtime.Stack(buf, false)
	if m := bubbleRE.FindSubmatch(buf[:n]); m != nil {
		id, _ := strconv.ParseInt(string(m[1]), 10, 64)
		h.bubble.Store(id)
	}
}

func (h *hb) beat(now time.Duration) {
	h.virtNow.Store(int64(now))
	h.beats.Add(1)
}

func (h *hb) setWedge(f func(kind, fn string) bool) {
	h.mu.Lock()
	h.onWedge = f
	h.mu.Unlock()
}

type gsnap struct {
	state string
	fn    string // innermost grpc (non-harness) function
}

func snapshot(bubble int64) map[string]gsnap {
	buf := make([]byte, 1<<20)
	for {
		n := runtime.Stack(buf, true)
		if n < len(buf) {
			buf = buf[:n]
			break
		}
		buf = make([]byte, 2*len(buf))
	}
	tag := fmt.Sprintf("synctest bubble %d", bubble)
	out := map[string]gsnap{}
	for _, g := range strings.Split(string(buf), "\n\n") {
		m := headRE.FindStringSubmatch(g)
		if m == nil {
			continue
		}
		hd := m[2]
		if !strings.HasSuffix(hd, tag) && !strings.Contains(hd, tag+",") {
			continue
		}
		st := hd
		if i := strings.IndexByte(st, ','); i >= 0 {
			st = st[:i]
		}
		s := gsnap{state: st}
		for _, ln := range strings.Split(g, "\n")[1:] {
			if strings.HasPrefix(ln, "google.golang.org/grpc") && !strings.HasPrefix(ln, "google.golang.org/grpc/verif/") {
				fn := ln
				if i := strings.LastIndexByte(fn, '('); i > 0 {
					fn = fn[:i]
				}
				s.fn = strings.TrimPrefix(fn, "google.golang.org/grpc")
				break
			}
		}
		out[m[1]] = s
	}
	return out
}

// classify takes k snapshots and returns ("spin"|"mutex"|"progress"|"none", function).
func classify(bubble int64, k int, gap time.Duration, moved func() bool) (string, string) {
	var spin map[string]string // goroutine id -> fn, busy in every snapshot so far
	anyBusy := false
	var onMutex map[string]string
	for i := 0; i < k; i++ {
		if moved() {
			return "progress", ""
		}
		snap := snapshot(bubble)
		busy, mtx := map[string]string{}, map[string]string{}
		for id, s := range snap {
			switch {
			case s.state == "running" || s.state == "runnable":
				anyBusy = true
				if s.fn != "" {
					busy[id] = s.fn
				}
			case strings.HasPrefix(s.state, "sync.Mutex.Lock") || strings.HasPrefix(s.state, "sync.RWMutex"):
				mtx[id] = s.fn
			}
		}
		if i == 0 {
			spin, onMutex = busy, mtx
		} else {
			for id := range spin {
				if _, ok := busy[id]; !ok {
					delete(spin, id)
				} else {
					spin[id] = busy[id]
				}
			}
			for id := range onMutex {
				if _, ok := mtx[id]; !ok {
					delete(onMutex, id)
				}
			}
		}
		time.Sleep(gap)
	}
	for _, fn := range spin {
		return "spin", fn
	}
	if !anyBusy {
		for _, fn := range onMutex {
			return "mutex", fn
		}
	}
	return "none", ""
}

const (
	stallAfter   = 10 * time.Second  // heartbeat silent this long: start looking
	giveUpAfter  = 150 * time.Second // nothing recognisable: inconclusive
	snapCount    = 12
	snapInterval = 200 * time.Millisecond
)

var abandoned atomic.Int64

// runBubbled runs body inside a fresh bubble under the guard; it returns false
// when the bubble had to be abandoned.
func runBubbled(t *testing.T, r *vlib.Run, fam string, i int, detail any, body func(h *hb)) bool {
	h := &hb{}
	done := make(chan struct{})
	go func() {
		defer close(done)
		synctest.Test(t, func(t *testing.T) {
			h.enter()
			body(h)
		})
	}()
	last, lastChange := int64(-1), time.Now()
	tick := time.NewTicker(250 * time.Millisecond)
	defer tick.Stop()
	isDone := func() bool {
		select {
		case <-done:
			return true
		default:
			return false
		}
	}
	for {
		select {
		case <-done:
			return true
		case <-tick.C:
		}
		if b := h.beats.Load(); b != last {
			last, lastChange = b, time.Now()
			continue
		}
		if time.Since(lastChange) < stallAfter {
			continue
		}
		kind, fn := classify(h.bubble.Load(), snapCount, snapInterval, func() bool { return isDone() || h.beats.Load() != last })
		switch kind {
		case "progress":
			lastChange = time.Now()
			continue
		case "spin", "mutex":
			h.mu.Lock()
			f := h.onWedge
			h.mu.Unlock()
			reported := f != nil && f(kind, fn)
			if !reported && kind == "spin" {
				r.Violation("busy-loop:"+fn, fam, i, detail, "a goroutine of the case spins inside %s (running/runnable in %d consecutive stack snapshots %v apart) and keeps the bubble from ever quiescing", fn, snapCount, snapInterval)
				reported = true
			}
			if !reported {
				r.Inconclusive("family %s case %d: the bubble is wedged on a sync.Mutex in %s and the case's oracle has nothing to say at that instant", fam, i, fn)
			}
			abandoned.Add(1)
			return false
		}
		if time.Since(lastChange) > giveUpAfter {
			r.Inconclusive("family %s case %d: no progress for %v and no recognisable stack fact", fam, i, giveUpAfter)
			abandoned.Add(1)
			return false
		}
	}
}
