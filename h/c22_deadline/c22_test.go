// C22: deadlines and cancellation propagate to both ends.
//
// Client half (family "client"): a real grpc.ClientConn parks RPCs at one
// blocking point per case — waiting for the resolver, picking (connecting,
// transient failure + wait-for-ready, picker without SubConn, SubConn not
// READY), stream quota (MAX_CONCURRENT_STREAMS 0 / 1 taken), write quota /
// flow control (peer grants nothing), header wait, receive (peer silent, also
// mid-message), retry backoff — against a scripted HTTP/2 peer inside a
// synctest bubble; a deadline or a cancel must end each RPC with
// DEADLINE_EXCEEDED at exactly the deadline / CANCELLED at the instant of the
// cancel, in VIRTUAL time, and a stream that reached the wire must be reset.
//
// Server half (families "server", "server-wire"): a real client (or a
// scripted one) against a real grpc.Server whose handler records its context:
// deadline within [client deadline, + one grpc-timeout encoding unit), done
// at the client's cancel / RST / connection loss, at the client's deadline,
// and at its own deadline.
package c22

import (
	"context"
	"fmt"
	"io"
	"math/rand"
	"os"
	"sort"
	"strconv"
	"sync"
	"testing"
	"testing/synctest"
	"time"

	"golang.org/x/net/http2"
	"golang.org/x/net/http2/hpack"
	"google.golang.org/grpc"
	"google.golang.org/grpc/codes"
	"google.golang.org/grpc/connectivity"
	"google.golang.org/grpc/metadata"
	"google.golang.org/grpc/status"
	"google.golang.org/grpc/verif/e2e"
	"google.golang.org/grpc/verif/vlib"
	"google.golang.org/grpc/verif/wire"
)

var blockingPoints = []string{"resolve", "pick-connecting", "pick-tf", "pick-nosc", "pick-notready", "quota0", "quota1", "write", "header", "header-call", "recv", "recv-partial", "backoff"}

type rpcPlan struct {
	Unary    bool          `json:"unary"`
	WFR      bool          `json:"wfr"`
	Start    time.Duration `json:"start"`
	Deadline time.Duration `json:"deadline"` // relative to Start; <0 = none; 0 = already expired
	Cancel   time.Duration `json:"cancel"`   // relative to Start; <=0 = none
	Ctx      ctxPlan       `json:"ctx"`
}

type scenario struct {
	BP   string    `json:"bp"`
	RPCs []rpcPlan `json:"rpcs"`
}

func genDur(rng *rand.Rand, max time.Duration) time.Duration {
	var d time.Duration
	switch rng.Intn(6) {
	case 0:
		d = time.Duration(1 + rng.Intn(2000)) // nanoseconds
	case 1:
		d = time.Duration(1+rng.Intn(5000)) * time.Microsecond
	case 2:
		d = time.Duration(1+rng.Intn(5000))*time.Millisecond + time.Duration(rng.Intn(1000))
	case 3:
		d = time.Duration(1+rng.Intn(30)) * time.Second
	case 4:
		d = time.Duration(1+rng.Intn(180))*time.Minute + time.Duration(rng.Intn(1e9))
	default:
		d = time.Duration(1 + rng.Int63n(int64(3*time.Hour)))
	}
	if d > max {
		d = 1 + time.Duration(rng.Int63n(int64(max)))
	}
	return d
}

func genClient(rng *rand.Rand, i int) scenario {
	sc := scenario{BP: blockingPoints[i%len(blockingPoints)]}
	n := 1 + rng.Intn(5)
	for k := 0; k < n; k++ {
		p := rpcPlan{Unary: rng.Intn(2) == 0, WFR: rng.Intn(2) == 0, Deadline: -1, Ctx: genCtxPlan(rng)}
		if rng.Intn(3) == 0 {
			p.Start = genDur(rng, time.Minute)
		}
		max := 4 * time.Hour
		switch sc.BP {
		case "write", "header-call":
			p.Unary = false
		case "pick-tf", "pick-connecting":
			// a fail-fast RPC legitimately fails UNAVAILABLE in TRANSIENT_FAILURE
			// (reached from CONNECTING when the 20 s connect timeout strikes);
			// fail-fast RPCs are parked in pick by the pick-nosc / pick-notready points
			p.WFR = true
		case "backoff":
			max = 30 * time.Second // inside the first retry backoff (40-60 s)
			if (i/len(blockingPoints))%2 == 0 {
				// Half of the backoff cases are unary only: a streaming RPC whose
				// backoff ignored the context would park its watcher goroutine on
				// the stream mutex, which keeps a bubble from ever quiescing — the
				// unary cases report such a break before a streaming one can wedge.
				p.Unary = true
			}
		}
		switch rng.Intn(5) {
		case 0, 1:
			p.Deadline = genDur(rng, max)
		case 2:
			p.Cancel = genDur(rng, max)
		case 3:
			p.Deadline, p.Cancel = genDur(rng, max), genDur(rng, max)
			if p.Cancel == p.Deadline {
				p.Cancel++
			}
		default:
			if rng.Intn(4) == 0 {
				p.Deadline = 0
			} else {
				p.Cancel = genDur(rng, max)
			}
		}
		sc.RPCs = append(sc.RPCs, p)
	}
	return sc
}

type rpcRec struct {
	started, finished, cancelled bool
	startAt, finishAt, cancelAt  time.Duration
	deadlineAt                   time.Duration // -1 none
	code                         codes.Code
	errText                      string
	cancel                       context.CancelFunc
	streamID                     uint32
	judged                       bool
	phase                        string // call | header | send | recv (which API call the RPC goroutine is in)
}

type result struct {
	counters map[string]int64
	sigs     map[string]bool
}

func bucket(d time.Duration) string {
	switch {
	case d < 0:
		return "none"
	case d == 0:
		return "0"
	case d < time.Microsecond:
		return "ns"
	case d < time.Millisecond:
		return "us"
	case d < time.Second:
		return "ms"
	case d < time.Minute:
		return "s"
	case d < time.Hour:
		return "min"
	}
	return "h"
}

type event struct {
	at   time.Duration
	kind int // 0 start, 1 cancel, 2 look
	rpc  int
}

const retryMC = `"retryPolicy":{"maxAttempts":4,"initialBackoff":"50s","maxBackoff":"50s","backoffMultiplier":1,"retryableStatusCodes":["UNAVAILABLE"]}`

func runClient(sc scenario, h *hb, viol0 func(key, id, msg string)) *result {
	res := &result{counters: map[string]int64{}, sigs: map[string]bool{}}
	nviol := 0
	viol := func(key, id, msg string) { nviol++; viol0(key, id, msg) }
	clk := e2e.NewClock()
	nw := e2e.NewNet()
	rawCh := nw.AddRaw("p0")
	cfg := e2e.ClientConfig{Addrs: []string{"p0"}}
	var ctl *e2e.Ctl
	wirePeer := false
	var settings []http2.Setting
	switch sc.BP {
	case "resolve":
		cfg.HoldResolver = true
	case "pick-connecting":
		nw.DialHook = func(ctx context.Context, _ string, _ int) error { <-ctx.Done(); return ctx.Err() }
	case "pick-tf":
		nw.DialHook = func(context.Context, string, int) error { return fmt.Errorf("scripted dial failure") }
	case "pick-nosc":
		ctl = e2e.NewCtl(clk.Now)
		ctl.Publish(connectivity.Connecting, e2e.PickerSpec{Then: e2e.PickSpec{Kind: "nosc"}})
		nw.DialHook = func(ctx context.Context, _ string, _ int) error { <-ctx.Done(); return ctx.Err() }
	case "pick-notready":
		ctl = e2e.NewCtl(clk.Now)
		ctl.Publish(connectivity.Ready, e2e.PickerSpec{Then: e2e.PickSpec{Kind: "sc", SC: 0, Done: true}})
		nw.DialHook = func(context.Context, string, int) error { return fmt.Errorf("scripted dial failure") }
	case "quota0":
		wirePeer, settings = true, []http2.Setting{{ID: http2.SettingMaxConcurrentStreams, Val: 0}}
	case "quota1":
		wirePeer, settings = true, []http2.Setting{{ID: http2.SettingMaxConcurrentStreams, Val: 1}}
	case "write":
		wirePeer, settings = true, []http2.Setting{{ID: http2.SettingInitialWindowSize, Val: 0}}
	case "backoff":
		wirePeer = true
		cfg.ServiceConfig = e2e.SC("", retryMC)
	default:
		wirePeer = true
	}
	if ctl != nil {
		cfg.Ctl, cfg.ServiceConfig = ctl, e2e.SC(e2e.PolicyName, "")
	}
	cl, err := e2e.NewClient(nw, cfg)
	if err != nil {
		viol("harness", "client", "client: "+err.Error())
		return res
	}
	var peer *wire.Peer
	if wirePeer {
		cl.CC.Connect()
		peer = wire.NewPeer(<-rawCh, true)
		bp := sc.BP
		peer.OnFrame = func(e wire.Entry) {
			if e.Type != http2.FrameHeaders {
				return
			}
			if v, _ := e.Field("x-rid"); v == "holder" {
				return
			}
			switch bp {
			case "recv":
				peer.WriteHeaders(e.Stream, false, 0, wire.ResponseHeaders()...)
			case "recv-partial":
				peer.WriteHeaders(e.Stream, false, 0, wire.ResponseHeaders()...)
				peer.WriteData(e.Stream, wire.Msg(make([]byte, 100))[:40], false, -1)
			case "backoff":
				peer.WriteHeaders(e.Stream, true, 0, wire.TrailersOnly(int(codes.Unavailable), "scripted")...)
			}
		}
		if err := peer.Start(settings...); err != nil {
			viol("harness", "peer", "peer start: "+err.Error())
			return res
		}
	} else if sc.BP != "resolve" {
		cl.CC.Connect()
	}
	synctest.Wait()

	var mu sync.Mutex
	rpcs := make([]*rpcRec, len(sc.RPCs))
	for i := range rpcs {
		rpcs[i] = &rpcRec{deadlineAt: -1}
	}
	var wg sync.WaitGroup
	launch := func(rid string, p rpcPlan, r *rpcRec) {
		mu.Lock()
		r.started, r.startAt = true, clk.Now()
		ctx, cancel := buildCtx(metadata.AppendToOutgoingContext(context.Background(), "x-rid", rid), p.Ctx, p.Deadline)
		if p.Deadline >= 0 {
			r.deadlineAt = r.startAt + p.Deadline
		}
		r.cancel = cancel
		mu.Unlock()
		var opts []grpc.CallOption
		if p.WFR {
			opts = append(opts, grpc.WaitForReady(true))
		}
		wg.Add(1)
		setPhase := func(ph string) {
			mu.Lock()
			r.phase = ph
			mu.Unlock()
		}
		setPhase("call")
		go func() {
			defer wg.Done()
			var err error
			if p.Unary {
				var reply []byte
				err = cl.CC.Invoke(ctx, "/verif.C22/Unary", []byte("request"), &reply, opts...)
			} else {
				var st grpc.ClientStream
				st, err = cl.CC.NewStream(ctx, &grpc.StreamDesc{ClientStreams: true, ServerStreams: true}, "/verif.C22/Stream", opts...)
				if err == nil {
					if sc.BP == "header-call" {
						setPhase("header")
						st.Header()
					}
					setPhase("send")
					nmsg, size := 1, 20
					if sc.BP == "write" {
						nmsg, size = 8, 40000
					}
					// A non-nil, non-EOF error from SendMsg is the RPC's status
					// (ClientStream contract); io.EOF means "ask RecvMsg".
					for k := 0; k < nmsg && err == nil; k++ {
						if e := st.SendMsg(make([]byte, size)); e == io.EOF {
							break
						} else if e != nil {
							err = e
						}
					}
					if sc.BP != "write" && err == nil {
						st.CloseSend()
					}
					setPhase("recv")
					for err == nil {
						var m []byte
						err = st.RecvMsg(&m)
					}
				}
			}
			mu.Lock()
			r.finished, r.finishAt, r.code = true, clk.Now(), status.Code(err)
			if err == io.EOF || err == nil {
				r.code = codes.OK
			} else {
				r.errText = err.Error()
			}
			mu.Unlock()
		}()
	}
	holder := &rpcRec{deadlineAt: -1}
	if sc.BP == "quota1" {
		launch("holder", rpcPlan{Unary: true, Deadline: -1}, holder)
		synctest.Wait()
	}

	fed := 0
	rstSeen := map[uint32]bool{}
	feed := func() {
		if peer == nil {
			return
		}
		log := peer.LogFrom(fed)
		for i := range log {
			e := &log[i]
			if e.Dir != wire.In {
				continue
			}
			switch e.Type {
			case http2.FrameHeaders:
				if v, ok := e.Field("x-rid"); ok && v != "holder" {
					k, _ := strconv.Atoi(v)
					mu.Lock()
					if k >= 0 && k < len(rpcs) {
						rpcs[k].streamID = e.Stream // the latest attempt's stream
					}
					mu.Unlock()
				}
			case http2.FrameRSTStream:
				rstSeen[e.Stream] = true
			case wire.TypeConnEnd:
				// the channel went idle (30 virtual minutes without an RPC); an RPC
				// hit by a lost connection would show up as ended-without-cause
				res.counters["connection_ended_by_channel_idleness"]++
			}
		}
		fed += len(log)
	}
	// judge evaluates the oracle at a quiescent instant.  It normally runs in
	// the bubble after synctest.Wait; when the guard finds the bubble wedged
	// (wedge != "") it runs from outside at the frozen virtual instant.
	var jmu sync.Mutex
	judge := func(label string, now time.Duration, wedge string) {
		feed()
		res.counters["quiescent_audits"]++
		mu.Lock()
		defer mu.Unlock()
		for i, r := range rpcs {
			if !r.started {
				continue
			}
			rid := strconv.Itoa(i)
			// which event must end it?
			byDeadline := r.deadlineAt >= 0 && (!r.cancelled || r.deadlineAt <= r.cancelAt)
			if !r.finished && wedge != "" {
				if r.deadlineAt >= 0 && now >= r.deadlineAt || r.cancelled {
					viol("ctx-not-propagated:"+wedge+":"+sc.BP, rid, fmt.Sprintf("%s at %v: rpc %d (%+v) parked at %q has not returned although its context ended (deadline %v, cancelled=%v at %v); nothing in the bubble can make it return at this instant", label, now, i, sc.RPCs[i], sc.BP, r.deadlineAt, r.cancelled, r.cancelAt))
				}
				continue
			}
			if !r.finished {
				if r.deadlineAt >= 0 && now >= r.deadlineAt {
					viol("deadline-overrun:"+sc.BP, rid, fmt.Sprintf("after %q at %v: rpc %d (%+v) parked at %q is still running although its deadline %v has passed", label, now, i, sc.RPCs[i], sc.BP, r.deadlineAt))
				} else if r.cancelled {
					viol("cancel-not-propagated:"+sc.BP, rid, fmt.Sprintf("after %q at %v: rpc %d (%+v) parked at %q was cancelled at %v and has not returned at quiescence", label, now, i, sc.RPCs[i], sc.BP, r.cancelAt))
				} else {
					res.counters["parked_rpc_checks"]++
					res.counters["parked_in_"+r.phase]++
					want := map[string]string{"write": "send", "header-call": "header"}[sc.BP]
					if !sc.RPCs[i].Unary && want != "" && r.phase != want {
						viol("harness-not-parked", rid, fmt.Sprintf("rpc %d is in %q, the blocking point %q wants it in %q", i, r.phase, sc.BP, want))
					}
					switch sc.BP {
					case "quota0", "quota1", "resolve", "pick-connecting", "pick-tf", "pick-nosc", "pick-notready":
						if r.streamID != 0 {
							viol("harness-not-parked", rid, fmt.Sprintf("rpc %d reached the wire (stream %d) although it should be parked at %q", i, r.streamID, sc.BP))
						}
					default:
						if r.streamID == 0 {
							viol("harness-not-parked", rid, fmt.Sprintf("rpc %d never reached the wire although it should be parked at %q", i, sc.BP))
						}
					}
				}
				continue
			}
			if r.judged {
				continue
			}
			r.judged = true
			res.counters["rpc_endings_judged"]++
			end := "cancel"
			switch {
			case byDeadline:
				end = "deadline"
				if r.code != codes.DeadlineExceeded {
					viol("wrong-code-at-deadline:"+sc.BP, rid, fmt.Sprintf("rpc %d (%+v) parked at %q ended with %v %q at %v; its deadline %v must end it with DEADLINE_EXCEEDED", i, sc.RPCs[i], sc.BP, r.code, r.errText, r.finishAt, r.deadlineAt))
				} else if r.finishAt != r.deadlineAt {
					viol("deadline-not-exact:"+sc.BP, rid, fmt.Sprintf("rpc %d (%+v) parked at %q ended DEADLINE_EXCEEDED at %v, its deadline was %v", i, sc.RPCs[i], sc.BP, r.finishAt, r.deadlineAt))
				}
			case r.cancelled:
				if r.code != codes.Canceled {
					viol("wrong-code-at-cancel:"+sc.BP, rid, fmt.Sprintf("rpc %d (%+v) parked at %q ended with %v %q at %v; it was cancelled at %v and must end CANCELLED", i, sc.RPCs[i], sc.BP, r.code, r.errText, r.finishAt, r.cancelAt))
				} else if r.finishAt != r.cancelAt {
					viol("cancel-not-immediate:"+sc.BP, rid, fmt.Sprintf("rpc %d (%+v) parked at %q ended CANCELLED at %v, it was cancelled at %v", i, sc.RPCs[i], sc.BP, r.finishAt, r.cancelAt))
				}
			default:
				viol("ended-without-cause:"+sc.BP, rid, fmt.Sprintf("rpc %d (%+v) parked at %q ended with %v %q at %v although neither its deadline (%v) nor a cancel had occurred", i, sc.RPCs[i], sc.BP, r.code, r.errText, r.finishAt, r.deadlineAt))
			}
			// a stream that reached the wire and was not ended by the peer must be reset
			if r.streamID != 0 && sc.BP != "backoff" {
				res.counters["wire_reset_checks"]++
				if !rstSeen[r.streamID] {
					viol("no-rst-on-wire:"+sc.BP, rid, fmt.Sprintf("rpc %d ended (%s) while its stream %d was open on the wire, but no RST_STREAM was sent to the server", i, end, r.streamID))
				}
			}
			kind := "stream"
			if sc.RPCs[i].Unary {
				kind = "unary"
			}
			d := sc.RPCs[i].Deadline
			if end == "cancel" {
				d = sc.RPCs[i].Cancel
			}
			cc := "plain"
			if sc.RPCs[i].Ctx != (ctxPlan{}) {
				cc = "cause"
				res.counters["endings_with_custom_cause_context"]++
			}
			res.sigs[fmt.Sprintf("%s/%s/%s/%s/%s", sc.BP, kind, end, bucket(d), cc)] = true
		}
	}
	audit := func(label string) {
		h.beat(clk.Now())
		synctest.Wait()
		jmu.Lock()
		judge(label, clk.Now(), "")
		jmu.Unlock()
		h.beat(clk.Now())
	}
	h.setWedge(func(kind, fn string) bool {
		jmu.Lock()
		defer jmu.Unlock()
		before := nviol
		w := "busy-loop"
		if kind == "mutex" {
			w = "stuck-behind-mutex"
		}
		judge("bubble wedged ("+kind+" in "+fn+")", time.Duration(h.virtNow.Load()), w)
		return nviol > before
	})
	// timeline
	var evs []event
	for i, p := range sc.RPCs {
		evs = append(evs, event{p.Start, 0, i})
		if p.Cancel > 0 {
			evs = append(evs, event{p.Start + p.Cancel, 1, i})
		}
		if p.Deadline >= 0 {
			evs = append(evs, event{p.Start + p.Deadline, 2, i})
		}
	}
	sort.SliceStable(evs, func(a, b int) bool { return evs[a].at < evs[b].at })
	audit("init")
	for _, ev := range evs {
		if d := ev.at - clk.Now(); d > 0 {
			time.Sleep(d)
		}
		label := "look"
		switch ev.kind {
		case 0:
			label = "start"
			launch(strconv.Itoa(ev.rpc), sc.RPCs[ev.rpc], rpcs[ev.rpc])
		case 1:
			label = "cancel"
			mu.Lock()
			if r := rpcs[ev.rpc]; r.started && !r.finished && !r.cancelled {
				r.cancelled, r.cancelAt = true, clk.Now()
				r.cancel()
				res.counters["cancels_of_parked_rpcs"]++
			}
			mu.Unlock()
		}
		audit(label)
	}
	// whatever is still parked (no deadline, no cancel planned) is cancelled now
	time.Sleep(time.Second)
	mu.Lock()
	for _, r := range rpcs {
		if r.started && !r.finished && !r.cancelled {
			r.cancelled, r.cancelAt = true, clk.Now()
			r.cancel()
			res.counters["cancels_of_parked_rpcs"]++
		}
	}
	mu.Unlock()
	audit("final-cancel")
	if holder.cancel != nil {
		holder.cancel()
	}
	mu.Lock()
	for _, r := range rpcs {
		if r.cancel != nil {
			r.cancel()
		}
	}
	mu.Unlock()
	synctest.Wait()
	cl.CC.Close()
	if peer != nil {
		peer.Close()
		<-peer.Done()
	}
drain:
	for {
		select {
		case c := <-rawCh:
			c.Close()
		default:
			break drain
		}
	}
	stuck := false
	mu.Lock()
	for _, r := range rpcs {
		if r.started && !r.finished {
			stuck = true
		}
	}
	mu.Unlock()
	if !stuck {
		wg.Wait()
	}
	return res
}

// ---------------------------------------------------------------------------
// server half, real client <-> real server

type srvPlan struct {
	Unary    bool          `json:"unary"`
	Start    time.Duration `json:"start"`
	Deadline time.Duration `json:"deadline"` // <0 none
	Cancel   time.Duration `json:"cancel"`   // <=0 none
	Ctx      ctxPlan       `json:"ctx"`
}

type srvScenario struct {
	RPCs []srvPlan `json:"rpcs"`
}

// unitOf is the finest grpc-timeout unit in which rem fits the 8 digits the
// wire format allows (PROTOCOL-HTTP2: TimeoutValue is at most 8 digits).
func unitOf(rem time.Duration) time.Duration {
	for _, u := range []time.Duration{time.Nanosecond, time.Microsecond, time.Millisecond, time.Second, time.Minute, time.Hour} {
		q := rem / u
		if rem%u != 0 {
			q++
		}
		if q <= 99999999 {
			return u
		}
	}
	return time.Hour
}

func genSrvDeadline(rng *rand.Rand) time.Duration {
	lim := func(u time.Duration) time.Duration { return 99999999 * u }
	switch rng.Intn(10) {
	case 0:
		return vlib.Pick(rng, lim(time.Nanosecond)-1, lim(time.Nanosecond), lim(time.Nanosecond)+1, lim(time.Nanosecond)+999, lim(time.Nanosecond)+1000)
	case 1:
		return vlib.Pick(rng, lim(time.Microsecond)-1, lim(time.Microsecond), lim(time.Microsecond)+1, lim(time.Microsecond)+999999)
	case 2:
		return vlib.Pick(rng, lim(time.Millisecond)-1, lim(time.Millisecond), lim(time.Millisecond)+1, lim(time.Millisecond)+time.Second-1)
	case 3:
		return time.Duration(1 + rng.Intn(1000))
	case 4:
		return time.Duration(1+rng.Intn(1000))*time.Microsecond + time.Duration(rng.Intn(1000))
	case 5:
		return time.Duration(100+rng.Intn(100000))*time.Millisecond + time.Duration(rng.Intn(1e6))
	case 6:
		return time.Duration(100+rng.Intn(5000))*time.Second + time.Duration(rng.Intn(1e9))
	case 7:
		return time.Duration(28+rng.Intn(300))*time.Hour + time.Duration(rng.Int63n(int64(time.Hour)))
	default:
		return time.Duration(1 + rng.Int63n(int64(48*time.Hour)))
	}
}

func genServer(rng *rand.Rand) srvScenario {
	var sc srvScenario
	n := 1 + rng.Intn(5)
	for k := 0; k < n; k++ {
		p := srvPlan{Unary: rng.Intn(2) == 0, Deadline: -1, Ctx: genCtxPlan(rng)}
		if rng.Intn(2) == 0 {
			p.Start = time.Duration(rng.Int63n(int64(10 * time.Second)))
		}
		if rng.Intn(6) != 0 {
			p.Deadline = genSrvDeadline(rng)
		}
		if p.Deadline < 0 || rng.Intn(3) == 0 {
			lim := int64(time.Hour)
			if p.Deadline > 0 && rng.Intn(2) == 0 {
				lim = int64(p.Deadline)
			}
			p.Cancel = 1 + time.Duration(rng.Int63n(lim))
			if p.Cancel == p.Deadline {
				p.Cancel--
			}
			if p.Cancel <= 0 {
				p.Cancel = 0
			}
		}
		sc.RPCs = append(sc.RPCs, p)
	}
	return sc
}

type hrec struct {
	reached  bool
	recvAt   time.Duration
	hasDL    bool
	dl       time.Duration
	done     bool
	doneAt   time.Duration
	ctxErr   error
	attempts int
}

func runServer(sc srvScenario, guard *hb, viol func(key, id, msg string)) *result {
	res := &result{counters: map[string]int64{}, sigs: map[string]bool{}}
	t0 := time.Now()
	now := func() time.Duration { return time.Since(t0) }
	var mu sync.Mutex
	h := make([]*hrec, len(sc.RPCs))
	for i := range h {
		h[i] = &hrec{}
	}
	var hwg sync.WaitGroup
	nw := e2e.NewNet()
	handler := func(_ any, ss grpc.ServerStream) error {
		hwg.Add(1)
		defer hwg.Done()
		ctx := ss.Context()
		md, _ := metadata.FromIncomingContext(ctx)
		k, _ := strconv.Atoi(md.Get("x-rid")[0])
		mu.Lock()
		r := h[k]
		r.attempts++
		r.reached, r.recvAt = true, now()
		if dl, ok := ctx.Deadline(); ok {
			r.hasDL, r.dl = true, dl.Sub(t0)
		}
		mu.Unlock()
		<-ctx.Done()
		mu.Lock()
		r.done, r.doneAt, r.ctxErr = true, now(), ctx.Err()
		mu.Unlock()
		return status.FromContextError(ctx.Err()).Err()
	}
	b := e2e.NewBackend(nw, "b0", handler)
	cl, err := e2e.NewClient(nw, e2e.ClientConfig{Addrs: []string{"b0"}})
	if err != nil {
		viol("harness", "client", err.Error())
		return res
	}
	cl.CC.Connect()
	synctest.Wait()
	rpcs := make([]*rpcRec, len(sc.RPCs))
	for i := range rpcs {
		rpcs[i] = &rpcRec{deadlineAt: -1}
	}
	var wg sync.WaitGroup
	launch := func(i int) {
		p, r := sc.RPCs[i], rpcs[i]
		mu.Lock()
		r.started, r.startAt = true, now()
		ctx, cancel := buildCtx(metadata.AppendToOutgoingContext(context.Background(), "x-rid", strconv.Itoa(i)), p.Ctx, p.Deadline)
		if p.Deadline >= 0 {
			r.deadlineAt = r.startAt + p.Deadline
		}
		r.cancel = cancel
		mu.Unlock()
		wg.Add(1)
		go func() {
			defer wg.Done()
			var err error
			if p.Unary {
				var reply []byte
				err = cl.CC.Invoke(ctx, "/verif.C22/Unary", []byte("request"), &reply)
			} else {
				var st grpc.ClientStream
				st, err = cl.CC.NewStream(ctx, &grpc.StreamDesc{ClientStreams: true, ServerStreams: true}, "/verif.C22/Stream")
				if err == nil {
					if e := st.SendMsg([]byte("request")); e != nil && e != io.EOF {
						err = e
					}
					for err == nil {
						var m []byte
						err = st.RecvMsg(&m)
					}
				}
			}
			mu.Lock()
			r.finished, r.finishAt, r.code = true, now(), status.Code(err)
			if err != nil {
				r.errText = err.Error()
			}
			mu.Unlock()
		}()
	}
	judgedDL := make([]bool, len(sc.RPCs))
	audit := func(label string) {
		guard.beat(now())
		synctest.Wait()
		guard.beat(now())
		T := now()
		res.counters["quiescent_audits"]++
		mu.Lock()
		defer mu.Unlock()
		for i, r := range rpcs {
			if !r.started {
				continue
			}
			rid := strconv.Itoa(i)
			hr := h[i]
			p := sc.RPCs[i]
			if !hr.reached {
				if !r.finished {
					viol("harness-handler-not-reached", rid, fmt.Sprintf("after %q: rpc %d is running but its handler was never entered", label, i))
				}
				continue
			}
			if !judgedDL[i] {
				judgedDL[i] = true
				res.counters["handler_deadline_checks"]++
				if hr.recvAt == r.startAt {
					res.counters["handler_entered_at_send_instant"]++
				}
				switch {
				case p.Deadline < 0 && hr.hasDL:
					viol("server-deadline-unexpected", rid, fmt.Sprintf("rpc %d has no deadline but the handler context has one (%v)", i, hr.dl))
				case p.Deadline >= 0 && !hr.hasDL:
					viol("server-deadline-missing", rid, fmt.Sprintf("rpc %d has deadline %v (timeout %v) but the handler context carries none", i, r.deadlineAt, p.Deadline))
				case p.Deadline >= 0:
					u := unitOf(r.deadlineAt - r.startAt)
					if hr.dl < r.deadlineAt {
						viol("server-deadline-early", rid, fmt.Sprintf("rpc %d sent at %v with deadline %v (timeout %v): the handler context's deadline %v is EARLIER than the client's by %v", i, r.startAt, r.deadlineAt, p.Deadline, hr.dl, r.deadlineAt-hr.dl))
					} else if hr.dl >= r.deadlineAt+u {
						viol("server-deadline-late", rid, fmt.Sprintf("rpc %d sent at %v with deadline %v (timeout %v): the handler context's deadline %v is later than the client's by %v, one encoding unit (%v) or more", i, r.startAt, r.deadlineAt, p.Deadline, hr.dl, hr.dl-r.deadlineAt, u))
					} else if hr.dl > r.deadlineAt {
						res.counters["handler_deadline_rounded_up"]++
					} else {
						res.counters["handler_deadline_exact"]++
					}
					res.sigs[fmt.Sprintf("server/unit=%v/rounded=%v", u, hr.dl > r.deadlineAt)] = true
				}
			}
			// when must the handler context be done?
			clientEnd := time.Duration(-1)
			cause := ""
			if r.cancelled {
				clientEnd, cause = r.cancelAt, "the client's cancel"
			}
			if r.deadlineAt >= 0 && (clientEnd < 0 || r.deadlineAt < clientEnd) {
				clientEnd, cause = r.deadlineAt, "the client's deadline"
			}
			if hr.hasDL && (clientEnd < 0 || hr.dl < clientEnd) {
				clientEnd, cause = hr.dl, "its own deadline"
			}
			switch {
			case clientEnd >= 0 && T >= clientEnd:
				res.counters["handler_ctx_done_checks"]++
				if !hr.done {
					viol("server-ctx-not-done:"+cause, rid, fmt.Sprintf("after %q at %v: the handler context of rpc %d (%+v) is not done although %s passed at %v", label, T, i, p, cause, clientEnd))
				} else if hr.doneAt != clientEnd {
					key := "server-ctx-done-late:"
					if hr.doneAt < clientEnd {
						key = "server-ctx-done-early:"
					}
					viol(key+cause, rid, fmt.Sprintf("the handler context of rpc %d (%+v) became done (%v) at %v; %s was at %v", i, p, hr.ctxErr, hr.doneAt, cause, clientEnd))
				} else {
					res.sigs[fmt.Sprintf("server/done-by=%s/%v", cause, hr.ctxErr)] = true
				}
			case hr.done:
				viol("server-ctx-done-early:nothing", rid, fmt.Sprintf("after %q at %v: the handler context of rpc %d (%+v) is done (%v at %v) although the client has neither cancelled nor reached its deadline", label, T, i, p, hr.ctxErr, hr.doneAt))
			}
			// client side of the same RPC
			if r.finished && !r.judged {
				r.judged = true
				switch {
				case r.deadlineAt >= 0 && (!r.cancelled || r.deadlineAt <= r.cancelAt):
					if r.code != codes.DeadlineExceeded || r.finishAt != r.deadlineAt {
						viol("client-end-at-deadline", rid, fmt.Sprintf("rpc %d (%+v) ended %v %q at %v; deadline %v", i, p, r.code, r.errText, r.finishAt, r.deadlineAt))
					}
				case r.cancelled:
					if r.code != codes.Canceled || r.finishAt != r.cancelAt {
						viol("client-end-at-cancel", rid, fmt.Sprintf("rpc %d (%+v) ended %v %q at %v; cancelled at %v", i, p, r.code, r.errText, r.finishAt, r.cancelAt))
					}
				default:
					viol("client-ended-without-cause", rid, fmt.Sprintf("rpc %d (%+v) ended %v %q at %v", i, p, r.code, r.errText, r.finishAt))
				}
			} else if !r.finished && (r.cancelled || r.deadlineAt >= 0 && T >= r.deadlineAt) {
				viol("client-not-ended", rid, fmt.Sprintf("after %q at %v: rpc %d (%+v) still running (cancelled=%v at %v, deadline %v)", label, T, i, p, r.cancelled, r.cancelAt, r.deadlineAt))
			}
		}
	}
	type sev struct {
		at   time.Duration
		kind int
		rpc  int
	}
	var evs []sev
	for i, p := range sc.RPCs {
		evs = append(evs, sev{p.Start, 0, i})
		if p.Cancel > 0 {
			evs = append(evs, sev{p.Start + p.Cancel, 1, i})
		}
		if p.Deadline >= 0 {
			evs = append(evs, sev{p.Start + p.Deadline, 2, i})
			// the handler's own deadline is at most one unit later: look again there
			evs = append(evs, sev{p.Start + p.Deadline + unitOf(p.Deadline), 2, i})
		}
	}
	sort.SliceStable(evs, func(a, b int) bool { return evs[a].at < evs[b].at })
	audit("init")
	for _, ev := range evs {
		if d := ev.at - now(); d > 0 {
			time.Sleep(d)
		}
		label := "look"
		switch ev.kind {
		case 0:
			label = "start"
			launch(ev.rpc)
		case 1:
			label = "cancel"
			mu.Lock()
			if r := rpcs[ev.rpc]; r.started && !r.finished && !r.cancelled {
				r.cancelled, r.cancelAt = true, now()
				r.cancel()
				res.counters["client_cancels"]++
			}
			mu.Unlock()
		}
		audit(label)
	}
	mu.Lock()
	for _, r := range rpcs {
		if r.started && !r.finished && !r.cancelled {
			r.cancelled, r.cancelAt = true, now()
			r.cancel()
		}
	}
	mu.Unlock()
	audit("final-cancel")
	cl.CC.Close()
	b.S.Stop()
	stuck := false
	mu.Lock()
	for _, r := range rpcs {
		if r.started && !r.finished {
			stuck = true
		}
	}
	mu.Unlock()
	if !stuck {
		wg.Wait()
		hwg.Wait()
	}
	return res
}

// ---------------------------------------------------------------------------
// server half, scripted client -> real server

type wstep struct {
	Timeout string        `json:"timeout"` // literal grpc-timeout value, "" = none
	End     string        `json:"end"`     // rst | close | none
	At      time.Duration `json:"at"`      // when the client ends it (relative to send)
}

func parseTimeout(s string) time.Duration {
	n, _ := strconv.ParseInt(s[:len(s)-1], 10, 64)
	u := map[byte]time.Duration{'n': time.Nanosecond, 'u': time.Microsecond, 'm': time.Millisecond, 'S': time.Second, 'M': time.Minute, 'H': time.Hour}[s[len(s)-1]]
	return time.Duration(n) * u
}

func genWire(rng *rand.Rand) []wstep {
	var out []wstep
	n := 1 + rng.Intn(4)
	for k := 0; k < n; k++ {
		w := wstep{End: vlib.Pick(rng, "rst", "rst", "none", "none", "close")}
		if rng.Intn(5) != 0 {
			unit := vlib.Pick(rng, "n", "u", "m", "S", "M", "H")
			max := vlib.Pick(rng, 9, 999, 99999999)
			// keep the horizon at days: every 2 virtual hours the server's
			// keepalive fires, so years of virtual time cost real minutes
			if unit == "H" && max > 9 {
				max = 200
			} else if unit == "M" && max > 999 {
				max = 10000
			} else if unit == "S" && max > 999 {
				max = 600000
			}
			w.Timeout = strconv.Itoa(1+rng.Intn(max)) + unit
			if rng.Intn(8) == 0 {
				w.Timeout = "0000000" + w.Timeout[len(w.Timeout)-2:]
			}
		}
		if w.End != "none" {
			lim := time.Hour
			if w.Timeout != "" {
				if d := parseTimeout(w.Timeout); d > 1 && rng.Intn(2) == 0 {
					lim = d
				}
			}
			w.At = 1 + time.Duration(rng.Int63n(int64(lim)))
		}
		out = append(out, w)
	}
	return out
}

func runServerWire(steps []wstep, guard *hb, viol func(key, id, msg string)) *result {
	res := &result{counters: map[string]int64{}, sigs: map[string]bool{}}
	t0 := time.Now()
	now := func() time.Duration { return time.Since(t0) }
	var mu sync.Mutex
	h := map[string]*hrec{}
	var hwg sync.WaitGroup
	handler := func(_ any, ss grpc.ServerStream) error {
		hwg.Add(1)
		defer hwg.Done()
		ctx := ss.Context()
		md, _ := metadata.FromIncomingContext(ctx)
		r := &hrec{reached: true, recvAt: now()}
		if dl, ok := ctx.Deadline(); ok {
			r.hasDL, r.dl = true, dl.Sub(t0)
		}
		mu.Lock()
		h[md.Get("x-rid")[0]] = r
		mu.Unlock()
		<-ctx.Done()
		mu.Lock()
		r.done, r.doneAt, r.ctxErr = true, now(), ctx.Err()
		mu.Unlock()
		return status.FromContextError(ctx.Err()).Err()
	}
	// each step gets its own connection so that "close" ends only its own stream
	fx := wire.NewServerFixture(handler)
	fx.Serve()
	type live struct {
		peer   *wire.Peer
		sentAt time.Duration
		endAt  time.Duration // -1 none
		hd     time.Duration // -1 none
		ended  bool
	}
	ls := make([]*live, len(steps))
	for i, w := range steps {
		p, err := fx.Connect()
		if err != nil {
			viol("harness", "connect", err.Error())
			return res
		}
		if err := p.Start(); err != nil {
			viol("harness", "start", err.Error())
			return res
		}
		synctest.Wait()
		extra := []hpack.HeaderField{wire.F("x-rid", strconv.Itoa(i))}
		if w.Timeout != "" {
			extra = append(extra, wire.F("grpc-timeout", w.Timeout))
		}
		l := &live{peer: p, sentAt: now(), endAt: -1, hd: -1}
		p.WriteHeaders(1, false, 0, wire.RequestHeaders("/verif.C22/Wire", extra...)...)
		if w.End != "none" {
			l.endAt = l.sentAt + w.At
		}
		if w.Timeout != "" {
			l.hd = l.sentAt + parseTimeout(w.Timeout)
		}
		ls[i] = l
		synctest.Wait()
	}
	audit := func(label string) {
		guard.beat(now())
		synctest.Wait()
		guard.beat(now())
		T := now()
		res.counters["quiescent_audits"]++
		mu.Lock()
		defer mu.Unlock()
		for i, l := range ls {
			rid := strconv.Itoa(i)
			hr := h[rid]
			if hr == nil {
				if l.hd >= 0 && l.hd == l.sentAt {
					continue
				}
				viol("harness-handler-not-reached", rid, fmt.Sprintf("after %q: handler of wire stream %d (%+v) never entered", label, i, steps[i]))
				continue
			}
			if hr.attempts == 0 {
				hr.attempts = 1
				res.counters["handler_deadline_checks"]++
				switch {
				case l.hd < 0 && hr.hasDL:
					viol("server-deadline-unexpected", rid, fmt.Sprintf("no grpc-timeout was sent but the handler context has deadline %v", hr.dl))
				case l.hd >= 0 && !hr.hasDL:
					viol("server-deadline-missing", rid, fmt.Sprintf("grpc-timeout %q was sent but the handler context has no deadline", steps[i].Timeout))
				case l.hd >= 0 && hr.dl < l.hd:
					viol("server-deadline-early", rid, fmt.Sprintf("grpc-timeout %q sent at %v: handler deadline %v is earlier than %v", steps[i].Timeout, l.sentAt, hr.dl, l.hd))
				case l.hd >= 0 && hr.dl > l.hd:
					viol("server-deadline-late", rid, fmt.Sprintf("grpc-timeout %q sent at %v: handler deadline %v is later than %v although the value was given exactly", steps[i].Timeout, l.sentAt, hr.dl, l.hd))
				}
			}
			end, cause := l.endAt, "the client's "+steps[i].End
			if !l.ended {
				end = -1
			}
			if l.hd >= 0 && (end < 0 || l.hd < end) {
				end, cause = l.hd, "its own deadline"
			}
			switch {
			case end >= 0 && T >= end:
				res.counters["handler_ctx_done_checks"]++
				if !hr.done {
					viol("server-ctx-not-done:"+cause, rid, fmt.Sprintf("after %q at %v: handler context of wire stream %d (%+v) not done although %s passed at %v", label, T, i, steps[i], cause, end))
				} else if hr.doneAt != end {
					viol("server-ctx-done-at-wrong-time:"+cause, rid, fmt.Sprintf("handler context of wire stream %d (%+v) done (%v) at %v; %s was at %v", i, steps[i], hr.ctxErr, hr.doneAt, cause, end))
				} else {
					res.sigs[fmt.Sprintf("server-wire/done-by=%s/%v/unit=%s", cause, hr.ctxErr, lastChar(steps[i].Timeout))] = true
				}
			case hr.done:
				viol("server-ctx-done-early:nothing", rid, fmt.Sprintf("after %q at %v: handler context of wire stream %d (%+v) is done (%v at %v) without cause", label, T, i, steps[i], hr.ctxErr, hr.doneAt))
			}
		}
	}
	type sev struct {
		at   time.Duration
		kind int
		i    int
	}
	var evs []sev
	for i, l := range ls {
		if l.endAt >= 0 {
			evs = append(evs, sev{l.endAt, 1, i})
		}
		if l.hd >= 0 {
			evs = append(evs, sev{l.hd, 2, i})
		}
	}
	sort.SliceStable(evs, func(a, b int) bool { return evs[a].at < evs[b].at })
	audit("init")
	for _, ev := range evs {
		if d := ev.at - now(); d > 0 {
			time.Sleep(d)
		}
		label := "look"
		if ev.kind == 1 {
			l := ls[ev.i]
			label = steps[ev.i].End
			l.endAt = now()
			l.ended = true
			if steps[ev.i].End == "rst" {
				l.peer.WriteRST(1, http2.ErrCodeCancel)
			} else {
				l.peer.Close()
			}
			res.counters["client_"+label]++
		}
		audit(label)
	}
	for _, l := range ls {
		l.peer.Close()
	}
	fx.S.Stop()
	for _, l := range ls {
		<-l.peer.Done()
	}
	hwg.Wait()
	return res
}

func lastChar(s string) string {
	if s == "" {
		return "-"
	}
	return s[len(s)-1:]
}

// ---------------------------------------------------------------------------

func flush(r *vlib.Run, res *result) {
	keys := make([]string, 0, len(res.counters))
	for k := range res.counters {
		keys = append(keys, k)
	}
	sort.Strings(keys)
	for _, k := range keys {
		r.Count(k, res.counters[k])
	}
	for s := range res.sigs {
		r.Nontrivial(s)
	}
}

func TestVerifC22(t *testing.T) {
	r := vlib.Start(t, "C22")
	div := 1
	if os.Getenv("VERIF_LIGHT") != "" {
		div = 8
	}
	mkViol := func(fam string, i int, detail any) func(key, id, msg string) {
		seen := map[string]bool{}
		return func(key, id, msg string) {
			if seen[key+"/"+id] {
				return
			}
			seen[key+"/"+id] = true
			r.Violation(key, fam, i, detail, "%s", msg)
		}
	}
	only := os.Getenv("VERIF_FAM")
	n := r.N(1300, 26000) / div
	for i := 0; i < n; i++ {
		if !r.Want("client", i) || only != "" && only != "client" {
			continue
		}
		sc := genClient(r.Rand("client", i), i)
		r.Progress("client", i, sc.BP)
		var res *result
		ok := runBubbled(t, r, "client", i, sc, func(h *hb) { res = runClient(sc, h, mkViol("client", i, sc)) })
		r.Eval(1)
		r.Count("client_cases_"+sc.BP, 1)
		if !ok {
			r.Count("bubbles_abandoned", 1)
			break // see guard_test.go: a leaked spinner slows everything that follows
		}
		flush(r, res)
		if i < 2 {
			r.Sample(map[string]any{"family": "client", "scenario": sc, "counters": res.counters})
		}
		if r.Violations() >= 3 {
			break // the verdict is in; a broken tree may wedge later bubbles
		}
	}
	n = r.N(600, 12000) / div
	for i := 0; i < n; i++ {
		if abandoned.Load() > 0 {
			break
		}
		if !r.Want("server", i) || only != "" && only != "server" {
			continue
		}
		sc := genServer(r.Rand("server", i))
		r.Progress("server", i, fmt.Sprintf("rpcs=%d", len(sc.RPCs)))
		var res *result
		ok := runBubbled(t, r, "server", i, sc, func(h *hb) { res = runServer(sc, h, mkViol("server", i, sc)) })
		r.Eval(1)
		if !ok {
			r.Count("bubbles_abandoned", 1)
			break
		}
		flush(r, res)
		if i < 2 {
			r.Sample(map[string]any{"family": "server", "scenario": sc, "counters": res.counters})
		}
		if r.Violations() >= 3 {
			break
		}
	}
	n = r.N(400, 8000) / div
	for i := 0; i < n; i++ {
		if abandoned.Load() > 0 {
			break
		}
		if !r.Want("server-wire", i) || only != "" && only != "server-wire" {
			continue
		}
		steps := genWire(r.Rand("server-wire", i))
		r.Progress("server-wire", i, fmt.Sprintf("streams=%d", len(steps)))
		var res *result
		ok := runBubbled(t, r, "server-wire", i, steps, func(h *hb) { res = runServerWire(steps, h, mkViol("server-wire", i, steps)) })
		r.Eval(1)
		if !ok {
			r.Count("bubbles_abandoned", 1)
			break
		}
		flush(r, res)
		if i < 1 {
			r.Sample(map[string]any{"family": "server-wire", "steps": steps, "counters": res.counters})
		}
	}
	n = r.N(240, 4800) / div
	for i := 0; i < n && abandoned.Load() == 0; i++ {
		if !r.Want("after-retry", i) || only != "" && only != "after-retry" {
			continue
		}
		sc := genAfterRetry(r.Rand("after-retry", i), i)
		r.Progress("after-retry", i, fmt.Sprintf("%s/%s/%s", sc.Peer, sc.Trigger, sc.Park))
		var res *result
		ok := runBubbled(t, r, "after-retry", i, sc, func(h *hb) { res = runAfterRetry(sc, h, mkViol("after-retry", i, sc)) })
		r.Eval(1)
		if !ok {
			r.Count("bubbles_abandoned", 1)
			continue
		}
		flush(r, res)
		if r.Violations() >= 3 {
			break
		}
	}
	for i, v := range []string{"cancel", "deadline"} {
		if abandoned.Load() > 0 {
			break
		}
		if !r.Want("replay-blocked", i) || only != "" && only != "replay-blocked" {
			continue
		}
		r.Progress("replay-blocked", i, v)
		runReplayBlocked(r, i, v)
		r.Eval(1)
	}
	floor := 60
	if div > 1 {
		floor = 30
	}
	r.Finish(vlib.Spec{
		Level: "exploration",
		Rule:  "client: 1-5 unary/streaming RPCs parked at one of 13 blocking points (resolver wait; pick while connecting / transient failure with wait-for-ready / picker without SubConn / SubConn not READY; stream quota 0 and 1-taken; write quota with a zero window; header wait via RecvMsg and via Header(); receive after headers and mid-message; retry backoff) with deadlines and cancel instants from 1 ns to hours (also already-expired), judged at every event instant + quiescence in virtual time: DEADLINE_EXCEEDED exactly at the deadline, CANCELLED exactly at the cancel, nothing still running past either, nothing ending without cause, RST_STREAM on the wire for streams that had been opened. server: real client and real server, 1-5 RPCs with timeouts around every grpc-timeout unit boundary: handler deadline in [client deadline, + one encoding unit), handler context done exactly at the client's cancel / deadline / its own deadline and not before. server-wire: scripted client sending literal grpc-timeout values, then RST_STREAM / connection close / nothing: handler deadline exact, context done at exactly that instant. after-retry: streaming RPC with a retry policy whose first attempt is answered Trailers-Only UNAVAILABLE or REFUSED_STREAM, parked on its SECOND attempt (SendMsg on flow control with small messages, header wait, receive, application in no call) against a scripted peer (RST_STREAM judged) or a real server (handler context judged), then cancelled / expired. About half of all RPC contexts carry a custom cause (WithCancelCause / WithTimeoutCause / WithDeadlineCause, possibly on an ancestor). Every bubble runs under an outside guard that turns a spinning or mutex-wedged bubble into a verdict from goroutine-stack facts. replay-blocked (directed, real time, verdict from goroutine-stack facts only): a retry attempt parked on the write quota while replaying buffered messages must end when the context is cancelled / expires. non-trivial = an RPC ending or a handler context was judged; distinct = (blocking point, kind, ending, magnitude) and (unit, rounded) / (cause, context error) classes",
		Assumptions: []string{"in-memory connections have zero virtual latency, so the handler is entered at the instant the client sends (counted: handler_entered_at_send_instant)",
			"the upper bound on the handler deadline uses the finest unit in which the remaining time fits 8 digits (PROTOCOL-HTTP2); it is judged only for RPCs that did not wait for stream quota",
			"RPCs parked while the channel is connecting or in transient failure are wait-for-ready (a fail-fast RPC legitimately fails UNAVAILABLE there); fail-fast RPCs are parked by scripted pickers"},
		Floor: floor,
	})
}
