package c22

import (
	"context"
	"fmt"
	"io"
	"math/rand"
	"strconv"
	"sync"
	"testing/synctest"
	"time"

	"golang.org/x/net/http2"
	"google.golang.org/grpc"
	"google.golang.org/grpc/codes"
	"google.golang.org/grpc/metadata"
	"google.golang.org/grpc/status"
	"google.golang.org/grpc/verif/e2e"
	"google.golang.org/grpc/verif/vlib"
	"google.golang.org/grpc/verif/wire"
)

// Family "after-retry": cancel / deadline after a retry.  A streaming RPC with
// a retry policy has its first attempt answered Trailers-Only UNAVAILABLE (or
// refused with RST_STREAM(REFUSED_STREAM): transparent retry); once the second
// attempt is established on a new transport stream the RPC is parked — in
// SendMsg on flow control (small 8000-byte messages sent on the new attempt,
// nothing big is REPLAYED, which keeps this apart from the known finding
// replay-blocked-on-flow-control), in RecvMsg before and after headers, or
// with the application in no call at all — and then its context ends.
//
// Peer "wire": scripted HTTP/2 server (RST_STREAM on the wire is judged).
// Peer "server": real grpc.Server whose handler context is judged.

type arScenario struct {
	Peer     string        `json:"peer"`    // wire | server
	Trigger  string        `json:"trigger"` // unavailable | refused
	Park     string        `json:"park"`    // send | header | recv | idle
	Deadline time.Duration `json:"deadline"`
	Cancel   time.Duration `json:"cancel"`
	Ctx      ctxPlan       `json:"ctx"`
}

func genAfterRetry(rng *rand.Rand, i int) arScenario {
	sc := arScenario{Peer: "wire", Trigger: vlib.Pick(rng, "unavailable", "unavailable", "refused"), Deadline: -1, Ctx: genCtxPlan(rng)}
	sc.Park = []string{"send", "idle", "header", "recv"}[i%4]
	if i%3 == 2 {
		sc.Peer, sc.Trigger = "server", "unavailable"
		sc.Park = []string{"send", "idle"}[(i/3)%2]
	}
	// attempt 2 is established by 1 s (backoff 0.1 s +- 20 %)
	at := time.Second + time.Duration(rng.Int63n(int64(vlib.Pick(rng, time.Millisecond, time.Second, time.Hour))))
	switch rng.Intn(3) {
	case 0:
		sc.Deadline = at
	case 1:
		sc.Cancel = at
	default:
		sc.Deadline, sc.Cancel = at, time.Second+time.Duration(rng.Int63n(int64(time.Minute)))
		if sc.Cancel == sc.Deadline {
			sc.Cancel++
		}
	}
	return sc
}

var dbgAR bool

const arRetryMC = `"retryPolicy":{"maxAttempts":3,"initialBackoff":"0.1s","maxBackoff":"0.1s","backoffMultiplier":1,"retryableStatusCodes":["UNAVAILABLE"]}`

func runAfterRetry(sc arScenario, h *hb, viol0 func(key, id, msg string)) *result {
	res := &result{counters: map[string]int64{}, sigs: map[string]bool{}}
	nviol := 0
	viol := func(key, id, msg string) { nviol++; viol0(key, id, msg) }
	clk := e2e.NewClock()
	nw := e2e.NewNet()
	cfg := e2e.ClientConfig{ServiceConfig: e2e.SC("", arRetryMC)}

	var mu sync.Mutex
	// server peer
	var hrecs []*hrec
	var backend *e2e.Backend
	// wire peer
	var peer *wire.Peer
	var attemptIDs []uint32

	if sc.Peer == "server" {
		cfg.Addrs = []string{"b0"}
		backend = e2e.NewBackend(nw, "b0", func(_ any, ss grpc.ServerStream) error {
			ctx := ss.Context()
			md, _ := metadata.FromIncomingContext(ctx)
			if len(md.Get("grpc-previous-rpc-attempts")) == 0 {
				return status.Error(codes.Unavailable, "scripted failure of attempt 1")
			}
			r := &hrec{reached: true, recvAt: clk.Now()}
			mu.Lock()
			hrecs = append(hrecs, r)
			mu.Unlock()
			<-ctx.Done() // never reads: the client's sends run into flow control
			mu.Lock()
			r.done, r.doneAt, r.ctxErr = true, clk.Now(), ctx.Err()
			mu.Unlock()
			return status.FromContextError(ctx.Err()).Err()
		}, grpc.InitialWindowSize(65536), grpc.InitialConnWindowSize(1<<20))
	} else {
		cfg.Addrs = []string{"p0"}
	}
	var rawCh = nw.AddRaw("p0")
	cl, err := e2e.NewClient(nw, cfg)
	if err != nil {
		viol("harness", "client", err.Error())
		return res
	}
	cl.CC.Connect()
	if sc.Peer == "wire" {
		peer = wire.NewPeer(<-rawCh, true)
		peer.OnFrame = func(e wire.Entry) {
			if e.Type != http2.FrameHeaders {
				return
			}
			mu.Lock()
			attemptIDs = append(attemptIDs, e.Stream)
			n := len(attemptIDs)
			mu.Unlock()
			switch {
			case n == 1 && sc.Trigger == "refused":
				peer.WriteRST(e.Stream, http2.ErrCodeRefusedStream)
			case n == 1:
				peer.WriteHeaders(e.Stream, true, 0, wire.TrailersOnly(int(codes.Unavailable), "scripted failure of attempt 1")...)
			case sc.Park == "recv":
				peer.WriteHeaders(e.Stream, false, 0, wire.ResponseHeaders()...)
			}
		}
		var st []http2.Setting
		if sc.Park == "send" {
			st = append(st, http2.Setting{ID: http2.SettingInitialWindowSize, Val: 0})
		}
		if err := peer.Start(st...); err != nil {
			viol("harness", "peer", err.Error())
			return res
		}
	}
	synctest.Wait()

	r := &rpcRec{deadlineAt: -1}
	gate1, gate2 := make(chan struct{}), make(chan struct{})
	var wg sync.WaitGroup
	r.started, r.startAt = true, clk.Now()
	ctx, cancel := buildCtx(context.Background(), sc.Ctx, sc.Deadline)
	if sc.Deadline >= 0 {
		r.deadlineAt = r.startAt + sc.Deadline
	}
	setPhase := func(p string) {
		mu.Lock()
		r.phase = p
		mu.Unlock()
	}
	wg.Add(1)
	go func() {
		defer wg.Done()
		var err error
		setPhase("newstream")
		st, err := cl.CC.NewStream(ctx, &grpc.StreamDesc{ClientStreams: true, ServerStreams: true}, "/verif.C22/AfterRetry")
		send := func(n int) {
			e := st.SendMsg(make([]byte, n))
			if dbgAR {
				fmt.Println("DBG send", n, e, clk.Now())
			}
			if e != nil && e != io.EOF {
				err = e
			} else if e == io.EOF {
				err = io.ErrNoProgress // marker: ask RecvMsg
			}
		}
		if err == nil {
			setPhase("send-1")
			send(100)
			<-gate1 // the first attempt has been answered by now
			if err == nil {
				setPhase("send-2") // the retry happens in here at the latest
				send(100)
			}
			if err == nil {
				switch sc.Park {
				case "send":
					setPhase("send")
					for k := 0; k < 100 && err == nil; k++ {
						send(8000)
					}
				case "idle":
					setPhase("idle")
					<-gate2
				default:
					st.CloseSend()
				}
			}
			if err == nil || err == io.ErrNoProgress {
				err = nil
				setPhase("recv")
				for err == nil {
					var m []byte
					err = st.RecvMsg(&m)
				}
			}
		}
		mu.Lock()
		r.finished, r.finishAt, r.code = true, clk.Now(), status.Code(err)
		if err != nil {
			r.errText = err.Error()
		}
		mu.Unlock()
	}()

	fed := 0
	rstSeen := map[uint32]bool{}
	feed := func() {
		if peer == nil {
			return
		}
		for _, e := range peer.LogFrom(fed) {
			fed = e.Seq + 1
			if e.Dir == wire.In && e.Type == http2.FrameRSTStream {
				rstSeen[e.Stream] = true
			}
		}
	}
	idleReleased := false
	var jmu sync.Mutex
	judged := false
	judge := func(label string, now time.Duration, wedge string) {
		feed()
		res.counters["quiescent_audits"]++
		mu.Lock()
		defer mu.Unlock()
		ended, cause := false, ""
		endAt := time.Duration(-1)
		if r.cancelled {
			ended, cause, endAt = true, "cancel", r.cancelAt
		}
		if r.deadlineAt >= 0 && now >= r.deadlineAt && (!r.cancelled || r.deadlineAt <= r.cancelAt) {
			ended, cause, endAt = true, "deadline", r.deadlineAt
		}
		if !ended {
			if r.finished && !judged {
				judged = true
				viol("ended-without-cause:after-retry:"+sc.Park, "rpc", fmt.Sprintf("%s at %v: the RPC (%+v) ended %v %q although neither cancel nor deadline had occurred", label, now, sc, r.code, r.errText))
			}
			return
		}
		parkedApp := sc.Park == "idle" && !idleReleased // the application is in no call: nothing can return yet
		if !r.finished && !parkedApp {
			key := "ctx-not-propagated:after-retry:" + sc.Park
			if wedge != "" {
				key = "ctx-not-propagated:" + wedge + ":after-retry:" + sc.Park
			}
			viol(key, "rpc", fmt.Sprintf("%s at %v: the RPC (%+v) is on its second attempt, parked in %q; its %s was at %v and it has not returned", label, now, sc, r.phase, cause, endAt))
			return
		}
		// propagation to the server end, judged as soon as the context has ended
		if peer != nil {
			var id uint32
			if len(attemptIDs) >= 2 {
				id = attemptIDs[len(attemptIDs)-1]
			}
			res.counters["wire_reset_checks"]++
			if id != 0 && !rstSeen[id] {
				viol("no-rst-on-wire:after-retry:"+sc.Park, "rst", fmt.Sprintf("%s at %v: the RPC's %s was at %v but no RST_STREAM was sent for the second attempt's stream %d", label, now, cause, endAt, id))
			}
		} else {
			res.counters["handler_ctx_done_checks"]++
			for k, hr := range hrecs {
				if !hr.done {
					viol("server-ctx-not-done:after-retry:"+sc.Park, "h"+strconv.Itoa(k), fmt.Sprintf("%s at %v: the handler context of the second attempt is not done although the client's %s was at %v", label, now, cause, endAt))
				} else if hr.doneAt != endAt {
					viol("server-ctx-done-at-wrong-time:after-retry:"+sc.Park, "h"+strconv.Itoa(k), fmt.Sprintf("handler context done (%v) at %v; the client's %s was at %v", hr.ctxErr, hr.doneAt, cause, endAt))
				}
			}
		}
		if r.finished && !judged {
			judged = true
			res.counters["rpc_endings_judged"]++
			want := codes.Canceled
			if cause == "deadline" {
				want = codes.DeadlineExceeded
			}
			if r.code != want {
				viol("wrong-code:after-retry:"+sc.Park, "rpc", fmt.Sprintf("the RPC (%+v) ended %v %q at %v; its %s at %v must end it %v", sc, r.code, r.errText, r.finishAt, cause, endAt, want))
			} else if r.finishAt != endAt && sc.Park != "idle" {
				viol("end-not-exact:after-retry:"+sc.Park, "rpc", fmt.Sprintf("the RPC (%+v) ended %v at %v; its %s was at %v", sc, r.code, r.finishAt, cause, endAt))
			}
			cc := "plain"
			if sc.Ctx != (ctxPlan{}) {
				cc = "cause"
			}
			res.sigs[fmt.Sprintf("after-retry/%s/%s/%s/%s/%s", sc.Peer, sc.Trigger, sc.Park, cause, cc)] = true
		}
	}
	audit := func(label string) {
		h.beat(clk.Now())
		synctest.Wait()
		jmu.Lock()
		judge(label, clk.Now(), "")
		jmu.Unlock()
		h.beat(clk.Now())
	}
	h.setWedge(func(kind, fn string) bool {
		jmu.Lock()
		defer jmu.Unlock()
		before := nviol
		w := "busy-loop"
		if kind == "mutex" {
			w = "stuck-behind-mutex"
		}
		judge("bubble wedged ("+kind+" in "+fn+")", time.Duration(h.virtNow.Load()), w)
		return nviol > before
	})

	audit("attempt-1")
	close(gate1)
	audit("gate")
	time.Sleep(500 * time.Millisecond) // > the retry backoff
	audit("attempt-2")
	// is it parked where it should be, on a second attempt?
	mu.Lock()
	second := len(attemptIDs) >= 2 || len(hrecs) >= 1
	ph, fin := r.phase, r.finished
	mu.Unlock()
	wantPhase := map[string]string{"send": "send", "idle": "idle", "header": "recv", "recv": "recv"}[sc.Park]
	if !second || fin || ph != wantPhase {
		viol("harness-not-parked", "park", fmt.Sprintf("after the retry: second attempt seen=%v finished=%v phase=%q (want %q) for %+v", second, fin, ph, wantPhase, sc))
	} else {
		res.counters["parked_on_second_attempt_"+sc.Park]++
	}
	type ev struct {
		at   time.Duration
		kind int
	}
	var evs []ev
	if sc.Cancel > 0 {
		evs = append(evs, ev{sc.Cancel, 1})
	}
	if sc.Deadline >= 0 {
		evs = append(evs, ev{sc.Deadline, 2})
	}
	if len(evs) == 2 && evs[1].at < evs[0].at {
		evs[0], evs[1] = evs[1], evs[0]
	}
	for _, e := range evs {
		if d := r.startAt + e.at - clk.Now(); d > 0 {
			h.beat(clk.Now())
			time.Sleep(d)
		}
		label := "deadline"
		if e.kind == 1 {
			label = "cancel"
			mu.Lock()
			if !r.finished && !r.cancelled {
				r.cancelled, r.cancelAt = true, clk.Now()
				cancel()
				res.counters["cancels_of_parked_rpcs"]++
			}
			mu.Unlock()
		}
		audit(label)
	}
	mu.Lock()
	idleReleased = true
	mu.Unlock()
	close(gate2)
	audit("released")
	cancel()
	synctest.Wait()
	cl.CC.Close()
	if peer != nil {
		peer.Close()
		<-peer.Done()
	}
	if backend != nil {
		backend.S.Stop()
	}
drain:
	for {
		select {
		case c := <-rawCh:
			c.Close()
		default:
			break drain
		}
	}
	mu.Lock()
	stuck := !r.finished
	mu.Unlock()
	if !stuck {
		wg.Wait()
	}
	return res
}
