package c22

import (
	"context"
	"fmt"
	"io"
	"runtime"
	"strings"
	"sync"
	"time"

	"golang.org/x/net/http2"
	"google.golang.org/grpc"
	"google.golang.org/grpc/codes"
	"google.golang.org/grpc/status"
	"google.golang.org/grpc/verif/e2e"
	"google.golang.org/grpc/verif/vlib"
	"google.golang.org/grpc/verif/wire"
)

// Directed family "replay-blocked": the flow-control blocking point reached
// through a RETRY attempt.  A streaming RPC buffers ~100 KB of messages, the
// scripted server fails the first attempt with a Trailers-Only UNAVAILABLE
// and shrinks its window to 0, so the second attempt blocks on the write quota
// while it replays the buffered messages.  Then the context is cancelled (or
// its deadline passes) and the RPC must end.
//
// This family runs OUTSIDE a bubble: in the blocked state a goroutine waits on
// a sync.Mutex, which synctest does not regard as durably blocked, so
// synctest.Wait could never return.  No wall-clock verdict is taken: the
// verdict is a structural fact read from goroutine stacks ("the goroutine that
// would finish the stream is parked on the clientStream mutex whose holder is
// parked in writeQuota.get"), polled for under a generous watchdog whose expiry
// is INCONCLUSIVE.

type stackFacts struct {
	holderParked  bool // retryLocked -> ... -> writeQuota.get
	watcherOnLock bool // clientStream.finish waiting for a sync.Mutex
	watcherAlive  bool // the stream's context watcher goroutine exists
}

func readStacks() stackFacts {
	buf := make([]byte, 1<<20)
	for {
		n := runtime.Stack(buf, true)
		if n < len(buf) {
			buf = buf[:n]
			break
		}
		buf = make([]byte, 2*len(buf))
	}
	var f stackFacts
	for _, g := range strings.Split(string(buf), "\n\n") {
		if strings.Contains(g, "(*clientStream).retryLocked") && strings.Contains(g, "(*writeQuota).get") {
			f.holderParked = true
		}
		if strings.Contains(g, "grpc.newClientStreamWithParams.func") && !strings.Contains(g, "(*clientStream).withRetry") {
			f.watcherAlive = true
		}
		if strings.Contains(g, "(*clientStream).finish") && strings.Contains(g, "sync.(*Mutex).Lock") {
			hdr := g
			if i := strings.IndexByte(g, '\n'); i >= 0 {
				hdr = g[:i]
			}
			if strings.Contains(hdr, "sync.Mutex.Lock") || strings.Contains(hdr, "semacquire") {
				f.watcherOnLock = true
			}
		}
	}
	return f
}

func runReplayBlocked(r *vlib.Run, idx int, variant string) {
	const fam = "replay-blocked"
	detail := map[string]any{"variant": variant}
	nw := e2e.NewNet()
	rawCh := nw.AddRaw("p0")
	mc := `"retryPolicy":{"maxAttempts":3,"initialBackoff":"0.01s","maxBackoff":"0.01s","backoffMultiplier":1,"retryableStatusCodes":["UNAVAILABLE"]}`
	cl, err := e2e.NewClient(nw, e2e.ClientConfig{Addrs: []string{"p0"}, ServiceConfig: e2e.SC("", mc)})
	if err != nil {
		r.Inconclusive("replay-blocked: client: %v", err)
		return
	}
	defer cl.CC.Close()
	cl.CC.Connect()
	done := make(chan struct{})
	var peer *wire.Peer
	select {
	case c := <-rawCh:
		peer = wire.NewPeer(c, true)
	case <-time.After(30 * time.Second):
		r.Inconclusive("replay-blocked: the channel did not dial within the watchdog")
		return
	}
	defer func() {
		peer.Close()
		<-peer.Done()
		select { // the closed connection ends the stream, so the RPC goroutine returns
		case <-done:
		case <-time.After(20 * time.Second):
		}
	}()
	if err := peer.Start(http2.Setting{ID: http2.SettingInitialWindowSize, Val: 1 << 20}); err != nil {
		r.Inconclusive("replay-blocked: peer start: %v", err)
		return
	}
	peer.WriteWindowUpdate(0, 1<<20)
	ctx, cancel := context.WithCancel(context.Background())
	defer cancel()
	deadline := time.Time{}
	if variant == "deadline" {
		deadline = time.Now().Add(4 * time.Second)
		var c2 context.CancelFunc
		ctx, c2 = context.WithDeadline(ctx, deadline)
		defer c2()
	}
	var mu sync.Mutex
	var finished bool
	var finalErr error
	go func() {
		defer close(done)
		var err error
		st, err := cl.CC.NewStream(ctx, &grpc.StreamDesc{ClientStreams: true, ServerStreams: true}, "/verif.C22/Replay")
		if err == nil {
			for k := 0; k < 5 && err == nil; k++ {
				if e := st.SendMsg(make([]byte, 20000)); e == io.EOF {
					break
				} else if e != nil {
					err = e
				}
			}
			for err == nil {
				var m []byte
				err = st.RecvMsg(&m)
			}
		}
		mu.Lock()
		finished, finalErr = true, err
		mu.Unlock()
	}()
	isDone := func() bool {
		select {
		case <-done:
			return true
		default:
			return false
		}
	}
	// first attempt: wait until all five messages are on the wire, then fail it
	// and close the window
	got := 0
	from := 0
	wd := time.Now().Add(30 * time.Second)
	for got < 5*20005 {
		for _, e := range peer.LogFrom(from) {
			from = e.Seq + 1
			if e.Dir == wire.In && e.Type == http2.FrameData && e.Stream == 1 {
				got += e.Len
			}
		}
		if isDone() || time.Now().After(wd) {
			r.Inconclusive("replay-blocked: the first attempt did not deliver its messages (got %d bytes)", got)
			return
		}
		time.Sleep(time.Millisecond)
	}
	peer.WriteSettings(http2.Setting{ID: http2.SettingInitialWindowSize, Val: 0})
	peer.WriteHeaders(1, true, 0, wire.TrailersOnly(int(codes.Unavailable), "scripted failure of attempt 1")...)
	// the retry attempt must park in writeQuota.get under retryLocked
	for {
		if f := readStacks(); f.holderParked {
			break
		}
		if isDone() || time.Now().After(wd) {
			r.Inconclusive("replay-blocked: the retry attempt did not park on the write quota")
			return
		}
		time.Sleep(time.Millisecond)
	}
	r.Count("replay_attempt_parked_on_write_quota", 1)
	if variant == "deadline" {
		if !time.Now().Before(deadline) {
			r.Inconclusive("replay-blocked: the machine was too slow, the deadline passed before the RPC was parked")
			return
		}
		time.Sleep(time.Until(deadline))
	} else {
		cancel()
	}
	// now the RPC must end; poll for either fact
	stable, orphan := 0, 0
	wd = time.Now().Add(30 * time.Second)
	for {
		if isDone() {
			mu.Lock()
			_ = finished
			code := status.Code(finalErr)
			mu.Unlock()
			want := codes.Canceled
			if variant == "deadline" {
				want = codes.DeadlineExceeded
			}
			r.Count("replay_blocked_rpc_returned", 1)
			if code != want {
				r.Violation("wrong-code:replay-blocked-on-flow-control", fam, idx, detail, "the RPC parked in the replay of a retry attempt ended with %v (%v), want %v", code, finalErr, want)
			}
			r.Nontrivial("replay-blocked/" + variant + "/returned")
			return
		}
		f := readStacks()
		if f.holderParked && f.watcherOnLock {
			stable++
		} else {
			stable = 0
		}
		if f.holderParked && !f.watcherAlive {
			orphan++
		} else {
			orphan = 0
		}
		if orphan >= 50 {
			r.Nontrivial("replay-blocked/" + variant + "/unwatched")
			r.Violation("ctx-not-propagated:after-retry", fam, idx, detail,
				"the RPC is on its retry attempt, parked in writeQuota.get, its context has ended, and NO goroutine watches the context any more (no newClientStreamWithParams watcher in %d consecutive stack snapshots 20 ms apart): nothing will ever end this RPC", orphan)
			return
		}
		if stable >= 5 {
			what := "cancelled"
			if variant == "deadline" {
				what = "past its deadline"
			}
			r.Nontrivial("replay-blocked/" + variant + "/deadlocked")
			r.Violation("ctx-not-propagated:replay-blocked-on-flow-control", fam, idx, detail,
				"streaming RPC with a retry policy, 5 x 20000-byte messages buffered, attempt 1 failed Trailers-Only UNAVAILABLE, server window 0: the retry attempt replays the buffered SendMsg ops inside clientStream.retryLocked (clientStream.mu held) and parks in writeQuota.get; the context is %s, its watcher goroutine (newClientStreamWithParams) is parked on clientStream.mu inside clientStream.finish and nothing else closes the transport stream, so RecvMsg does not return until the SERVER acts (%s)", what,
				fmt.Sprintf("observed in %d consecutive stack snapshots 20 ms apart", stable))
			return
		}
		if time.Now().After(wd) {
			r.Inconclusive("replay-blocked: neither returned nor in the known deadlock within the watchdog")
			return
		}
		time.Sleep(20 * time.Millisecond)
	}
}
