package chanfix

import (
	"fmt"
	"strings"
	"sync"
	"time"

	"google.golang.org/grpc/balancer"
	"google.golang.org/grpc/balancer/pickfirst"
	"google.golang.org/grpc/connectivity"
	"google.golang.org/grpc/resolver"
)

// RecPolicy is the name of the recording LB policy: it delegates everything to
// pick_first and logs, in one totally ordered log per channel, every
// SubConnState the channel delivers, every NewSubConn / Connect / Shutdown the
// child issues and every balancer.State the child publishes.  Select it with
//
//	grpc.WithDefaultServiceConfig(chanfix.RecServiceConfig)
//
// and register the channel's recorder under the target's endpoint before the
// channel is created (Recorders.Put).
const RecPolicy = "verif_rec_pick_first"

// RecServiceConfig selects RecPolicy.
const RecServiceConfig = `{"loadBalancingConfig":[{"` + RecPolicy + `":{}}]}`

// LBEvent is one entry of a Recorder's log.
type LBEvent struct {
	Seq   int                `json:"seq"`
	At    time.Duration      `json:"at"`
	Kind  string             `json:"kind"` // build | close | new-sc | connect | shutdown | sc-state | lb-state | exit-idle | resolver-state | update-addrs
	LB    int                `json:"lb"`   // balancer instance (a channel builds a new one each time it leaves idle)
	SC    int                `json:"sc,omitempty"`
	Addr  string             `json:"addr,omitempty"`
	State connectivity.State `json:"state"`
	Err   string             `json:"err,omitempty"`
}

func (e LBEvent) String() string {
	return fmt.Sprintf("#%d @%v lb%d %s sc=%d %s %v %s", e.Seq, e.At, e.LB, e.Kind, e.SC, e.Addr, e.State, e.Err)
}

// Recorder collects the log of one channel.
type Recorder struct {
	t0   time.Time
	mu   sync.Mutex
	ev   []LBEvent
	lb   int
	sc   int
	live map[int]balancer.SubConn // real (unwrapped) SubConns by id
}

// NewRecorder creates a recorder (inside the bubble: At is virtual time).
func NewRecorder() *Recorder { return &Recorder{t0: time.Now()} }

func (r *Recorder) add(e LBEvent) {
	r.mu.Lock()
	e.Seq = len(r.ev)
	e.At = time.Since(r.t0)
	r.ev = append(r.ev, e)
	r.mu.Unlock()
}

// Events returns a snapshot of the log.
func (r *Recorder) Events() []LBEvent {
	r.mu.Lock()
	defer r.mu.Unlock()
	return append([]LBEvent(nil), r.ev...)
}

// UpdateAddresses is a script command: it calls the (deprecated but still
// supported) SubConn.UpdateAddresses on subchannel sc with a new address list,
// the way grpclb or a custom policy would.  pick_first itself never does this.
// The call is logged as an "update-addrs" event (Addr = comma separated list)
// BEFORE it is made.  Returns false when the subchannel is unknown.
func (r *Recorder) UpdateAddresses(sc int, addrs []string) bool {
	r.mu.Lock()
	inner := r.live[sc]
	r.mu.Unlock()
	if inner == nil || len(addrs) == 0 {
		return false
	}
	var as []resolver.Address
	for _, a := range addrs {
		as = append(as, resolver.Address{Addr: a})
	}
	r.add(LBEvent{Kind: "update-addrs", SC: sc, Addr: strings.Join(addrs, ",")})
	inner.UpdateAddresses(as)
	return true
}

// Since returns the recorder's clock.
func (r *Recorder) Since() time.Duration { return time.Since(r.t0) }

type recRegistry struct {
	mu sync.Mutex
	m  map[string]*Recorder
}

// Recorders maps a channel target's endpoint to its recorder.
var Recorders = &recRegistry{m: map[string]*Recorder{}}

func (g *recRegistry) Put(endpoint string, r *Recorder) {
	g.mu.Lock()
	g.m[endpoint] = r
	g.mu.Unlock()
}

func (g *recRegistry) Delete(endpoint string) {
	g.mu.Lock()
	delete(g.m, endpoint)
	g.mu.Unlock()
}

func (g *recRegistry) get(endpoint string) *Recorder {
	g.mu.Lock()
	defer g.mu.Unlock()
	return g.m[endpoint]
}

func init() { balancer.Register(recBuilder{}) }

type recBuilder struct{}

func (recBuilder) Name() string { return RecPolicy }

func (recBuilder) Build(cc balancer.ClientConn, opts balancer.BuildOptions) balancer.Balancer {
	rec := Recorders.get(opts.Target.Endpoint())
	if rec == nil {
		rec = NewRecorder() // not monitored
	}
	rec.mu.Lock()
	rec.lb++
	id := rec.lb
	rec.mu.Unlock()
	w := &recCC{ClientConn: cc, rec: rec, lb: id}
	rec.add(LBEvent{Kind: "build", LB: id})
	child := balancer.Get(pickfirst.Name).Build(w, opts)
	return &recBalancer{Balancer: child, rec: rec, lb: id}
}

type recBalancer struct {
	balancer.Balancer
	rec *Recorder
	lb  int
}

func (b *recBalancer) UpdateClientConnState(s balancer.ClientConnState) error {
	b.rec.add(LBEvent{Kind: "resolver-state", LB: b.lb, Addr: fmt.Sprint(len(s.ResolverState.Addresses), "/", len(s.ResolverState.Endpoints))})
	return b.Balancer.UpdateClientConnState(s)
}

func (b *recBalancer) Close() {
	// stamped before the child runs: nothing may be delivered after this entry
	b.rec.add(LBEvent{Kind: "close", LB: b.lb})
	b.Balancer.Close()
}

func (b *recBalancer) ExitIdle() {
	b.rec.add(LBEvent{Kind: "exit-idle", LB: b.lb})
	b.Balancer.ExitIdle()
}

type recCC struct {
	balancer.ClientConn
	rec *Recorder
	lb  int
}

type recSC struct {
	balancer.SubConn
	rec *Recorder
	lb  int
	id  int
}

func (s *recSC) Connect() {
	s.rec.add(LBEvent{Kind: "connect", LB: s.lb, SC: s.id})
	s.SubConn.Connect()
}

func (s *recSC) Shutdown() {
	s.rec.add(LBEvent{Kind: "shutdown", LB: s.lb, SC: s.id})
	s.SubConn.Shutdown()
}

func (c *recCC) NewSubConn(addrs []resolver.Address, opts balancer.NewSubConnOptions) (balancer.SubConn, error) {
	c.rec.mu.Lock()
	c.rec.sc++
	id := c.rec.sc
	c.rec.mu.Unlock()
	addr := ""
	if len(addrs) > 0 {
		addr = addrs[0].Addr
	}
	inner := opts.StateListener
	opts.StateListener = func(s balancer.SubConnState) {
		e := LBEvent{Kind: "sc-state", LB: c.lb, SC: id, Addr: addr, State: s.ConnectivityState}
		if s.ConnectionError != nil {
			e.Err = s.ConnectionError.Error()
		}
		c.rec.add(e)
		if inner != nil {
			inner(s)
		}
	}
	c.rec.add(LBEvent{Kind: "new-sc", LB: c.lb, SC: id, Addr: addr})
	sc, err := c.ClientConn.NewSubConn(addrs, opts)
	if err != nil {
		return nil, err
	}
	c.rec.mu.Lock()
	if c.rec.live == nil {
		c.rec.live = map[int]balancer.SubConn{}
	}
	c.rec.live[id] = sc
	c.rec.mu.Unlock()
	// The child sees a wrapper (so that Connect / Shutdown are logged); the
	// pickers it publishes are unwrapped again below, because the channel
	// insists on its own SubConn type in pick results.
	return &recSC{SubConn: sc, rec: c.rec, lb: c.lb, id: id}, nil
}

type unwrapPicker struct{ p balancer.Picker }

func (u unwrapPicker) Pick(info balancer.PickInfo) (balancer.PickResult, error) {
	res, err := u.p.Pick(info)
	if w, ok := res.SubConn.(*recSC); ok {
		res.SubConn = w.SubConn
	}
	return res, err
}

func (c *recCC) UpdateState(s balancer.State) {
	c.rec.add(LBEvent{Kind: "lb-state", LB: c.lb, State: s.ConnectivityState})
	if s.Picker != nil {
		s.Picker = unwrapPicker{s.Picker}
	}
	c.ClientConn.UpdateState(s)
}

func (c *recCC) UpdateAddresses(sc balancer.SubConn, addrs []resolver.Address) {
	if w, ok := sc.(*recSC); ok {
		sc = w.SubConn
	}
	c.ClientConn.UpdateAddresses(sc, addrs)
}

func (c *recCC) RemoveSubConn(sc balancer.SubConn) {
	if w, ok := sc.(*recSC); ok {
		sc = w.SubConn
	}
	c.ClientConn.RemoveSubConn(sc)
}
