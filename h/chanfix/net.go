// Package chanfix holds the helpers shared by the channel-level monitors C25,
// C30 and C32: a scripted in-memory "network" (dialer + scripted HTTP/2 servers
// built on engine E1's wire.Peer), a listener for a real grpc.Server that gives
// every accepted connection a distinct remote address, and a recording LB policy
// that delegates to pick_first.  Everything is usable inside testing/synctest
// bubbles: create the objects INSIDE the bubble and call the Close/Shutdown
// helpers before the bubble function returns.
package chanfix

import (
	"context"
	"errors"
	"fmt"
	"net"
	"strings"
	"sync"
	"time"

	"golang.org/x/net/http2"
	"google.golang.org/grpc/verif/memconn"
	"google.golang.org/grpc/verif/wire"
)

// Behavior says what the scripted network does with one dial attempt.
type Behavior int

const (
	// Refuse: the dial fails at once.
	Refuse Behavior = iota
	// Accept: the connection is accepted and a scripted server completes the
	// HTTP/2 handshake (server preface = SETTINGS).
	Accept
	// AcceptClose: accepted, then closed before the server preface is sent.
	AcceptClose
	// AcceptSettingsClose: handshake completed, then closed at once.
	AcceptSettingsClose
	// Hang: accepted, but the server never says anything (connect deadline).
	Hang
)

func (b Behavior) String() string {
	switch b {
	case Refuse:
		return "refuse"
	case Accept:
		return "accept"
	case AcceptClose:
		return "accept-close"
	case AcceptSettingsClose:
		return "accept-settings-close"
	case Hang:
		return "hang"
	}
	return fmt.Sprintf("behavior(%d)", int(b))
}

// Respond says how an accepted scripted server answers request HEADERS.
type Respond int

const (
	// RespondOK: Trailers-Only OK as soon as the request HEADERS are read.
	RespondOK Respond = iota
	// RespondHold: nothing is sent until the script calls SConn.Finish.
	RespondHold
)

// StreamSeen is one request the scripted server read.
type StreamSeen struct {
	Conn   *SConn
	ID     uint32
	Method string
	RID    string // value of the x-rid request header ("" if absent)
	At     time.Duration
	Seq    int // global order over the whole Net
}

// SConn is the server side of one dialed connection.
type SConn struct {
	N      int // dial number over the whole Net (0-based)
	Addr   string
	Mode   Behavior
	Peer   *wire.Peer // nil for Refuse
	raw    *memconn.Conn
	net    *Net
	health int // 0 = do not answer Watch, 1 = SERVING, 2 = NOT_SERVING ...

	mu         sync.Mutex
	respond    Respond
	streams    []StreamSeen
	closed     bool
	goneAway   bool
	readerUp   bool // the peer's reader goroutine was launched
	clientGone bool // Hang mode: the client closed its end
	started    chan struct{}
}

// DialEvent is one dial attempt as seen by the network.
type DialEvent struct {
	N    int
	Addr string
	Mode Behavior
	At   time.Duration
}

// Net is a scripted in-memory network: the channel under test dials through
// Dialer; per address a queue of behaviours decides each attempt (the last
// element repeats).
type Net struct {
	t0 time.Time

	mu      sync.Mutex
	behav   map[string][]Behavior
	respond map[string]Respond
	health  map[string]int
	def     Behavior
	conns   []*SConn
	dials   []DialEvent
	seq     int
	wg      sync.WaitGroup
	// OnStream, if set (before use), is called for every request HEADERS read by
	// any scripted server, from that server's reader goroutine.
	OnStream func(s StreamSeen)
	// DialDelay, if set (before use), is the (virtual) latency of every dial.
	DialDelay time.Duration
	inflight  map[string]int
}

// NewNet creates a network whose default behaviour is def.
func NewNet(def Behavior) *Net {
	return &Net{t0: time.Now(), behav: map[string][]Behavior{}, respond: map[string]Respond{}, health: map[string]int{}, def: def}
}

// Since is the (virtual) time since the Net was created.
func (n *Net) Since() time.Duration { return time.Since(n.t0) }

// Set replaces the behaviour queue of addr; the last element repeats for ever.
func (n *Net) Set(addr string, b ...Behavior) {
	n.mu.Lock()
	n.behav[addr] = append([]Behavior(nil), b...)
	n.mu.Unlock()
}

// SetRespond sets how servers accepted for addr from now on answer requests.
func (n *Net) SetRespond(addr string, r Respond) {
	n.mu.Lock()
	n.respond[addr] = r
	n.mu.Unlock()
}

// SetHealth sets what servers accepted for addr from now on answer to
// /grpc.health.v1.Health/Watch: 0 = never answer (stream stays open), otherwise
// one HealthCheckResponse with that status (1 = SERVING, 2 = NOT_SERVING) and
// the stream stays open.
func (n *Net) SetHealth(addr string, status int) {
	n.mu.Lock()
	n.health[addr] = status
	n.mu.Unlock()
}

func (n *Net) next(addr string) Behavior {
	q := n.behav[addr]
	if len(q) == 0 {
		return n.def
	}
	b := q[0]
	if len(q) > 1 {
		n.behav[addr] = q[1:]
	}
	return b
}

// ErrRefused is what a refused dial returns.
var ErrRefused = errors.New("chanfix: connection refused")

// Dialer is the function for grpc.WithContextDialer.
func (n *Net) Dialer() func(context.Context, string) (net.Conn, error) {
	return func(ctx context.Context, addr string) (net.Conn, error) {
		if n.DialDelay > 0 {
			n.mu.Lock()
			if n.inflight == nil {
				n.inflight = map[string]int{}
			}
			n.inflight[addr]++
			n.mu.Unlock()
			t := time.NewTimer(n.DialDelay)
			var err error
			select {
			case <-t.C:
			case <-ctx.Done():
				t.Stop()
				err = ctx.Err()
			}
			n.mu.Lock()
			n.inflight[addr]--
			n.mu.Unlock()
			if err != nil {
				return nil, err
			}
		}
		n.mu.Lock()
		mode := n.next(addr)
		num := len(n.dials)
		n.dials = append(n.dials, DialEvent{N: num, Addr: addr, Mode: mode, At: n.Since()})
		if mode == Refuse {
			n.mu.Unlock()
			return nil, ErrRefused
		}
		c, s := memconn.Pipe(0)
		sc := &SConn{N: num, Addr: addr, Mode: mode, raw: s, net: n, respond: n.respond[addr], health: n.health[addr], started: make(chan struct{})}
		n.conns = append(n.conns, sc)
		n.mu.Unlock()
		switch mode {
		case AcceptClose:
			s.Close()
			sc.mu.Lock()
			sc.closed = true
			sc.mu.Unlock()
			close(sc.started)
		case Hang:
			close(sc.started)
			n.wg.Add(1)
			go func() { // swallow what the client writes; notice when it gives up
				defer n.wg.Done()
				buf := make([]byte, 4096)
				for {
					if _, err := s.Read(buf); err != nil {
						sc.mu.Lock()
						sc.clientGone = true
						sc.mu.Unlock()
						return
					}
				}
			}()
		default:
			sc.Peer = wire.NewPeer(s, true)
			sc.Peer.OnFrame = sc.onFrame
			n.wg.Add(1)
			go func() {
				defer n.wg.Done()
				defer close(sc.started)
				if err := sc.Peer.Start(); err != nil {
					s.Close()
					return
				}
				sc.mu.Lock()
				sc.readerUp = true
				sc.mu.Unlock()
				if mode == AcceptSettingsClose {
					sc.Close()
				}
			}()
		}
		return c, nil
	}
}

func (sc *SConn) onFrame(e wire.Entry) {
	if e.Dir != wire.In || e.Type != http2.FrameHeaders {
		return
	}
	method, _ := e.Field(":path")
	rid, _ := e.Field("x-rid")
	n := sc.net
	n.mu.Lock()
	n.seq++
	seen := StreamSeen{Conn: sc, ID: e.Stream, Method: method, RID: rid, At: n.Since(), Seq: n.seq}
	cb := n.OnStream
	n.mu.Unlock()
	sc.mu.Lock()
	sc.streams = append(sc.streams, seen)
	resp := sc.respond
	health := sc.health
	sc.mu.Unlock()
	if cb != nil {
		cb(seen)
	}
	if strings.HasPrefix(method, "/grpc.health.v1.Health/") {
		if health != 0 {
			sc.Peer.WriteHeaders(e.Stream, false, 0, wire.ResponseHeaders()...)
			sc.Peer.WriteData(e.Stream, wire.Msg([]byte{0x08, byte(health)}), false, -1)
		}
		return
	}
	if resp == RespondOK {
		sc.Peer.WriteHeaders(e.Stream, true, 0, wire.TrailersOnly(0, "")...)
	}
}

// SendHealth writes one HealthCheckResponse with that status on every open
// Watch stream of this connection.
func (sc *SConn) SendHealth(status int) int {
	sc.mu.Lock()
	var ids []uint32
	for _, s := range sc.streams {
		if strings.HasPrefix(s.Method, "/grpc.health.v1.Health/") {
			ids = append(ids, s.ID)
		}
	}
	first := sc.health == 0
	sc.health = status
	sc.mu.Unlock()
	for _, id := range ids {
		if first {
			sc.Peer.WriteHeaders(id, false, 0, wire.ResponseHeaders()...)
		}
		sc.Peer.WriteData(id, wire.Msg([]byte{0x08, byte(status)}), false, -1)
	}
	return len(ids)
}

// Streams returns the requests read so far on this connection.
func (sc *SConn) Streams() []StreamSeen {
	sc.mu.Lock()
	defer sc.mu.Unlock()
	return append([]StreamSeen(nil), sc.streams...)
}

// Finish ends a held stream with the given status.
func (sc *SConn) Finish(id uint32, code int, msg string) {
	if sc.Peer != nil {
		sc.Peer.WriteHeaders(id, true, 0, wire.TrailersOnly(code, msg)...)
	}
}

// GoAway sends GOAWAY(NO_ERROR) with the given last stream id.
func (sc *SConn) GoAway(last uint32) {
	sc.mu.Lock()
	sc.goneAway = true
	sc.mu.Unlock()
	if sc.Peer != nil {
		sc.Peer.WriteGoAway(last, http2.ErrCodeNo, "scripted")
	}
}

// Close closes the server side of the connection.
func (sc *SConn) Close() {
	sc.mu.Lock()
	sc.closed = true
	sc.mu.Unlock()
	sc.raw.Close()
}

// Dead reports whether the script closed the connection, sent GOAWAY on it, or
// the client side ended it.
func (sc *SConn) Dead() bool {
	sc.mu.Lock()
	d := sc.closed || sc.goneAway
	sc.mu.Unlock()
	if d || sc.Peer == nil {
		return true
	}
	ended, _ := sc.Peer.ReadEnded()
	return ended
}

// Pending reports whether a Hang connection is still held open by both sides
// (the client is still waiting for the server preface).
func (sc *SConn) Pending() bool {
	sc.mu.Lock()
	defer sc.mu.Unlock()
	return sc.Mode == Hang && !sc.closed && !sc.clientGone
}

// InFlight reports how many dials to addr are currently inside the dialer
// (waiting out DialDelay).
func (n *Net) InFlight(addr string) int {
	n.mu.Lock()
	defer n.mu.Unlock()
	return n.inflight[addr]
}

// Dials returns the dial log.
func (n *Net) Dials() []DialEvent {
	n.mu.Lock()
	defer n.mu.Unlock()
	return append([]DialEvent(nil), n.dials...)
}

// Conns returns all accepted connections in dial order.
func (n *Net) Conns() []*SConn {
	n.mu.Lock()
	defer n.mu.Unlock()
	return append([]*SConn(nil), n.conns...)
}

// Live returns the accepted, handshaken connections that are not Dead.
func (n *Net) Live() []*SConn {
	var out []*SConn
	for _, c := range n.Conns() {
		if c.Mode == Accept && !c.Dead() {
			out = append(out, c)
		}
	}
	return out
}

// Shutdown closes every connection and waits for all scripted-server
// goroutines.  Call it after the channel was closed.
func (n *Net) Shutdown() {
	for _, c := range n.Conns() {
		c.Close()
	}
	n.wg.Wait()
	for _, c := range n.Conns() {
		<-c.started
		c.mu.Lock()
		up := c.readerUp
		c.mu.Unlock()
		if up {
			<-c.Peer.Done()
		}
	}
}
