package chanfix

import (
	"context"
	"fmt"
	"net"
	"sync"

	"google.golang.org/grpc/verif/memconn"
)

// Listener is an in-memory net.Listener for a real grpc.Server.  Unlike
// memconn.Listener every accepted connection has a distinct RemoteAddr
// ("conn-<n>"), so a handler can tell connections apart through
// peer.FromContext, and Dial on a closed listener always fails (it never queues
// a connection nobody will accept).
type Listener struct {
	mu     sync.Mutex
	closed bool
	n      int
	ch     chan net.Conn
	done   chan struct{}
}

// NewListener returns a listener; create it inside the bubble.
func NewListener() *Listener {
	return &Listener{ch: make(chan net.Conn, 256), done: make(chan struct{})}
}

type connAddr string

func (a connAddr) Network() string { return "mem" }
func (a connAddr) String() string  { return string(a) }

type idConn struct {
	*memconn.Conn
	remote connAddr
}

func (c *idConn) RemoteAddr() net.Addr { return c.remote }

func (l *Listener) Accept() (net.Conn, error) {
	select {
	case c := <-l.ch:
		return c, nil
	case <-l.done:
		return nil, net.ErrClosed
	}
}

func (l *Listener) Close() error {
	l.mu.Lock()
	if !l.closed {
		l.closed = true
		close(l.done)
		// connections queued but never accepted are refused, so that no client
		// waits for a server preface that will never come
		for drained := false; !drained; {
			select {
			case c := <-l.ch:
				c.Close()
			default:
				drained = true
			}
		}
	}
	l.mu.Unlock()
	return nil
}

func (l *Listener) Addr() net.Addr { return connAddr("mem-listener") }

// Dial connects to the listener; it returns the client end and the name the
// server side will see as the connection's remote address.
func (l *Listener) Dial() (net.Conn, string, error) {
	l.mu.Lock()
	defer l.mu.Unlock()
	if l.closed {
		return nil, "", ErrRefused
	}
	c, s := memconn.Pipe(0)
	name := fmt.Sprintf("conn-%d", l.n)
	l.n++
	select {
	case l.ch <- &idConn{Conn: s, remote: connAddr(name)}:
		return c, name, nil
	default:
		return nil, "", ErrRefused
	}
}

// Dialer is the function for grpc.WithContextDialer.
func (l *Listener) Dialer() func(context.Context, string) (net.Conn, error) {
	return func(context.Context, string) (net.Conn, error) {
		c, _, err := l.Dial()
		return c, err
	}
}

// Dials reports how many connections were handed to the listener.
func (l *Listener) Dials() int {
	l.mu.Lock()
	defer l.mu.Unlock()
	return l.n
}
